import EAO.Lemmas.CHPUnit
/-!
# EAO.Lemmas.CHPUnitRamp — change of the main time unit for the start / shutdown ramp PROFILES (property C12)

`convertRamp` (identity / `np.interp` / weighted averaging) is linear in the profile values, and the factor
step / unit absorbs the `1/k` of the rescaled profile bounds (`u' · k = u`).  Hence the profiles on the grid
(`mkProf`) are the same before and after the change of the unit, and the constructor checks (`profCtor`) give the
rescaled raw pairs.
-/
namespace EAO.CHPUnit
open EAO

/-! ## `np.interp` is linear in `fp` -/

theorem Ramp.interp_go_scale (x c : Rat) (xs : List Rat) : ∀ (xa fa : Rat) (fs : List Rat),
    interp.go x xa (fa * c) xs (fs.map (· * c)) = interp.go x xa fa xs fs * c := by
  induction xs with
  | nil => intro xa fa fs; simp [interp.go]
  | cons xb xr ih =>
    intro xa fa fs
    cases fs with
    | nil => simp [interp.go]
    | cons fb fr =>
      simp only [List.map_cons, interp.go]
      split
      · rw [Rat.div_def, Rat.div_def]; grind
      · exact ih xb fb fr

theorem interp_scale (xp fp : List Rat) (x c : Rat) :
    interp xp (fp.map (· * c)) x = interp xp fp x * c := by
  cases xp with
  | nil => simp [interp]
  | cons x0 xs =>
    cases fp with
    | nil => simp [interp]
    | cons f0 fs =>
      simp only [List.map_cons, interp]
      split
      · rfl
      · exact Ramp.interp_go_scale x c xs x0 f0 fs

/-! ## `_convert_ramp` is linear in the profile (`sum_map_mul_right`, `getD_map_mul`: `EAO.Lemmas.Contract`) -/

theorem Ramp.getLastD_map_mul (l : List Rat) (c : Rat) : (l.map (· * c)).getLastD 0 = l.getLastD 0 * c := by
  simp only [List.getLastD_eq_getLast?, List.getLast?_map]
  cases l.getLast? <;> simp

theorem Ramp.padded_scale (l : List Rat) (m : Nat) (c : Rat) :
    l.map (· * c) ++ List.replicate m ((l.map (· * c)).getLastD 0) =
      (l ++ List.replicate m (l.getLastD 0)).map (· * c) := by
  rw [Ramp.getLastD_map_mul, List.map_append, List.map_replicate]

theorem convertRamp_scale (ramp : List Rat) (stepSec rampSec : Nat) (same : Bool) (c : Rat) :
    convertRamp (ramp.map (· * c)) stepSec rampSec same = (convertRamp ramp stepSec rampSec same).map (· * c) := by
  unfold convertRamp
  simp only [List.length_map]
  split
  · rfl
  · split
    · rw [List.map_map]
      apply List.map_congr_left
      intro k _
      exact interp_scale _ _ _ _
    · rw [List.map_map, Ramp.padded_scale]
      apply List.map_congr_left
      intro i _
      simp only [Function.comp, getD_map_mul, ← List.map_drop, ← List.map_take, sum_map_mul_right]
      rw [Rat.div_def, Rat.div_def]
      split <;> split <;> split <;> simp only [Rat.div_def] <;> grind

/-! ## the two factors: `1/k` on the profile and step / unit -/

theorem Ramp.entry_rescale {k : Rat} {u u' : Nat} (hu : (u' : Rat) * k = (u : Rat)) (s v : Rat) :
    v * (1 / k) * (s / (u' : Rat)) = v * (s / (u : Rat)) := by
  rw [← hu, Rat.div_def, Rat.div_def, Rat.div_def, Rat.inv_mul_rev]; grind

theorem cv_rescale_core {k : Rat} {u u' : Nat} (hu : (u' : Rat) * k = (u : Rat)) (l : List Rat)
    (stepSec rampSec : Nat) (same : Bool) :
    (convertRamp (l.map (· * (1 / k))) stepSec rampSec same).map (· * ((stepSec : Rat) / (u' : Rat))) =
      (convertRamp l stepSec rampSec same).map (· * ((stepSec : Rat) / (u : Rat))) := by
  rw [convertRamp_scale, List.map_map]
  apply List.map_congr_left
  intro v _
  exact Ramp.entry_rescale hu _ v

/-- the statement as requested; `hk` and `hu0` are not needed (`cv_rescale_core`): in `Rat`, `(u' * k)⁻¹ = k⁻¹ * u'⁻¹`
    holds unconditionally (division by zero is zero) -/
theorem cv_rescale {k : Rat} (_hk : k ≠ 0) {u u' : Nat} (hu : (u' : Rat) * k = (u : Rat)) (_hu0 : u ≠ 0)
    (l : List Rat) (stepSec rampSec : Nat) (same : Bool) :
    (convertRamp (l.map (· * (1 / k))) stepSec rampSec same).map (· * ((stepSec : Rat) / (u' : Rat))) =
      (convertRamp l stepSec rampSec same).map (· * ((stepSec : Rat) / (u : Rat))) :=
  cv_rescale_core hu l stepSec rampSec same

/-! ## the constructor checks -/

def Ramp.pairP (lo up : Option (List Rat)) : Except BuildError (List Rat × List Rat) :=
    match lo with
    | none => pure ([], [])
    | some l =>
      let u := up.getD l
      if l.length ≠ u.length then throw .assertion
      else if (l.zip u).any (fun p => decide (p.2 < p.1)) then throw .assertion
      else pure (l, u)

theorem Ramp.profCtor_eq (q : CHPProfP) : profCtor q = (do
  let s ← Ramp.pairP q.startLo q.startUp
  let d ← Ramp.pairP q.shutLo q.shutUp
  match q.shutUpH with
  | none => pure ()
  | some uh =>
    if (q.shutLoH.getD []).length ≠ d.1.length ∨ uh.length ≠ d.2.length then throw .assertion
  match q.startUpH with
  | none => pure ()
  | some uh =>
    if uh.length ≠ s.2.length ∨ (q.startLoH.getD []).length ≠ s.1.length then throw .assertion
  pure (s, d)) := rfl

theorem Ramp.any_zip_scale {c : Rat} (hc : 0 < c) (l u : List Rat) :
    ((l.map (· * c)).zip (u.map (· * c))).any (fun p => decide (p.2 < p.1)) =
      (l.zip u).any (fun p => decide (p.2 < p.1)) := by
  rw [List.zip_map, List.any_map]
  congr 1
  funext p
  simp only [Function.comp, Prod.map]
  exact decide_eq_decide.mpr (Rat.mul_lt_mul_right hc)

theorem Ramp.getD_map_map (up : Option (List Rat)) (l : List Rat) (c : Rat) :
    (up.map (·.map (· * c))).getD (l.map (· * c)) = (up.getD l).map (· * c) := by
  cases up <;> rfl

theorem Ramp.pairP_scale {c : Rat} (hc : 0 < c) (lo up : Option (List Rat)) :
    Ramp.pairP (lo.map (·.map (· * c))) (up.map (·.map (· * c))) =
      (Ramp.pairP lo up).map (fun p => (p.1.map (· * c), p.2.map (· * c))) := by
  cases lo with
  | none => rfl
  | some l =>
    simp only [Ramp.pairP, Option.map_some, Ramp.getD_map_map, List.length_map, Ramp.any_zip_scale hc]
    split
    · rfl
    · split <;> rfl


theorem Ramp.length_getD_map (o : Option (List Rat)) (c : Rat) :
    ((o.map (·.map (· * c))).getD []).length = (o.getD []).length := by
  cases o <;> simp

theorem profCtor_rescale {k : Rat} (hk : 0 < k) (q : CHPProfP) :
    profCtor (CHPProfP.rescale k q) = (profCtor q).map (fun sd =>
      ((sd.1.1.map (· * (1 / k)), sd.1.2.map (· * (1 / k))), (sd.2.1.map (· * (1 / k)), sd.2.2.map (· * (1 / k))))) := by
  have hc := one_div_pos hk
  rw [Ramp.profCtor_eq, Ramp.profCtor_eq]
  simp only [CHPProfP.rescale, Ramp.pairP_scale hc, Ramp.length_getD_map]
  cases Ramp.pairP q.startLo q.startUp with
  | error e => rfl
  | ok s =>
    cases Ramp.pairP q.shutLo q.shutUp with
    | error e => rfl
    | ok d =>
      cases q.shutUpH <;> cases q.startUpH <;>
        simp only [Option.map_some, Option.map_none, List.length_map, Except.map, bind, Except.bind, pure,
          Except.pure] <;>
        repeat (first | rfl | split)

/-! ## the profiles on the grid -/

theorem Ramp.cvo_rescale {k : Rat} {u u' : Nat} (hu : (u' : Rat) * k = (u : Rat)) (o : Option (List Rat)) (l : List Rat)
    (h : l = [] → o = none) (stepSec rampSec : Nat) (same : Bool) :
    (if (!l.isEmpty) = true then
        (o.map (·.map (· * (1 / k)))).map
          (fun l => (convertRamp l stepSec rampSec same).map (· * ((stepSec : Rat) / (u' : Rat))))
      else o.map (·.map (· * (1 / k)))) =
    (if (!l.isEmpty) = true then
        o.map (fun l => (convertRamp l stepSec rampSec same).map (· * ((stepSec : Rat) / (u : Rat))))
      else o) := by
  split
  · rw [Option.map_map]
    congr 1
    funext l'
    exact cv_rescale_core hu l' stepSec rampSec same
  · rename_i hne
    have : l = [] := by simpa using hne
    rw [h this]; rfl

theorem mkProf_rescale_core {k : Rat} {u u' : Nat} (hu : (u' : Rat) * k = (u : Rat)) (q : CHPProfP)
    (s d : List Rat × List Rat) (hs : s.1 = [] → q.startLoH = none ∧ q.startUpH = none)
    (hd : d.1 = [] → q.shutLoH = none ∧ q.shutUpH = none) (stepSec : Nat) :
    mkProf (CHPProfP.rescale k q) (s.1.map (· * (1/k)), s.2.map (· * (1/k))) (d.1.map (· * (1/k)), d.2.map (· * (1/k)))
      stepSec u' = mkProf q s d stepSec u := by
  unfold mkProf
  simp only [CHPProfP.rescale, List.isEmpty_map, cv_rescale_core hu,
    Ramp.cvo_rescale hu q.startLoH s.1 (fun h => (hs h).1), Ramp.cvo_rescale hu q.startUpH s.1 (fun h => (hs h).2),
    Ramp.cvo_rescale hu q.shutLoH d.1 (fun h => (hd h).1), Ramp.cvo_rescale hu q.shutUpH d.1 (fun h => (hd h).2)]

/-- the statement as requested; `hk` and `hu0` are not needed (`mkProf_rescale_core`) -/
theorem mkProf_rescale {k : Rat} (_hk : k ≠ 0) {u u' : Nat} (hu : (u' : Rat) * k = (u : Rat)) (_hu0 : u ≠ 0)
    (q : CHPProfP) (s d : List Rat × List Rat) (hs : s.1 = [] → q.startLoH = none ∧ q.startUpH = none)
    (hd : d.1 = [] → q.shutLoH = none ∧ q.shutUpH = none) (stepSec : Nat) :
    mkProf (CHPProfP.rescale k q) (s.1.map (· * (1/k)), s.2.map (· * (1/k))) (d.1.map (· * (1/k)), d.2.map (· * (1/k)))
      stepSec u' = mkProf q s d stepSec u :=
  mkProf_rescale_core hu q s d hs hd stepSec

/-! ## examples: the three branches of `convertRamp` on literals, and a satisfiable unit change (hour → day) -/

example : convertRamp [2, 4] 1800 3600 false = [2, 2, 3, 4] := by decide +kernel
example : convertRamp [2, 4, 6] 7200 3600 false = [3, 6] := by decide +kernel
example : convertRamp [2, 4, 5] 5400 3600 false = [8 / 3, 14 / 3] := by decide +kernel
example : ((86400 : Nat) : Rat) * (1 / 24) = ((3600 : Nat) : Rat) ∧ (0 : Rat) < 1 / 24 := by decide +kernel
example : (convertRamp ([48, 96].map (· * (1 / (1 / 24 : Rat)))) 1800 3600 false).map (· * ((1800 : Nat) / (86400 : Nat) : Rat)) =
    (convertRamp [48, 96] 1800 3600 false).map (· * ((1800 : Nat) / (3600 : Nat) : Rat)) := by decide +kernel

/-
`#print axioms` (scratch file importing the built module):
'EAO.CHPUnit.interp_scale' depends on axioms: [propext, Classical.choice, Quot.sound]
'EAO.CHPUnit.convertRamp_scale' depends on axioms: [propext, Classical.choice, Quot.sound]
'EAO.CHPUnit.cv_rescale' depends on axioms: [propext, Classical.choice, Quot.sound]
'EAO.CHPUnit.cv_rescale_core' depends on axioms: [propext, Classical.choice, Quot.sound]
'EAO.CHPUnit.profCtor_rescale' depends on axioms: [propext, Classical.choice, Quot.sound]
'EAO.CHPUnit.mkProf_rescale' depends on axioms: [propext, Classical.choice, Quot.sound]
'EAO.CHPUnit.mkProf_rescale_core' depends on axioms: [propext, Classical.choice, Quot.sound]
-/

end EAO.CHPUnit
