import EAO.Model.OrderBook
import EAO.Model.Readout
import EAO.Lemmas.Textbook
/-!
Helper lemmas for C20 (order book).  Self-contained (core Lean only); everything lives in the
namespace `EAO.OrderBook` so that names cannot clash with other lemma files.
-/
namespace EAO.OrderBook
open EAO

/-! ### sums -/

theorem sum_map_zero' {α} (l : List α) : (l.map fun _ => (0 : Rat)).sum = 0 := by
  induction l with
  | nil => rfl
  | cons a l ih => simp only [List.map_cons, List.sum_cons, ih]; grind

theorem sum_map_add' {α} (l : List α) (f g : α → Rat) :
    (l.map fun a => f a + g a).sum = (l.map f).sum + (l.map g).sum := by
  induction l with
  | nil => simp only [List.map_nil, List.sum_nil]; grind
  | cons a l ih => simp only [List.map_cons, List.sum_cons, ih]; grind

theorem sum_map_neg' {α} (l : List α) (f : α → Rat) :
    (l.map fun a => - f a).sum = - (l.map f).sum := by
  induction l with
  | nil => simp
  | cons a l ih => simp only [List.map_cons, List.sum_cons, ih]; grind

theorem sum_map_congr' {α} (l : List α) (f g : α → Rat) (h : ∀ a ∈ l, f a = g a) :
    (l.map f).sum = (l.map g).sum := by
  rw [List.map_congr_left h]

/-- `Σ_{t<n} [t = j0]·v = v` for `j0 < n` -/
theorem sum_range_indicator' (n j0 : Nat) (h : j0 < n) (v : Rat) :
    ((List.range n).map fun t => if j0 == t then v else 0).sum = v := by
  induction n with
  | zero => omega
  | succ n ih =>
    rw [List.range_succ, List.map_append, List.sum_append]
    by_cases hj : j0 < n
    · rw [ih hj]
      have : (j0 == n) = false := by simp; omega
      simp only [List.map_cons, List.map_nil, List.sum_cons, List.sum_nil, this]
      grind
    · have hjn : j0 = n := by omega
      subst hjn
      have h0 : ((List.range j0).map fun t => if j0 == t then v else 0).sum = 0 := by
        refine Eq.trans (sum_map_congr' _ _ (fun _ => (0 : Rat)) ?_) (sum_map_zero' (List.range j0))
        intro t ht
        have : t < j0 := List.mem_range.mp ht
        have : (j0 == t) = false := by simp; omega
        simp only [this, Bool.false_eq_true, if_false]
      rw [h0]
      simp only [List.map_cons, List.map_nil, List.sum_cons, List.sum_nil, beq_self_eq_true, if_true]
      grind

/-- booking every row at its own step and summing over all steps counts every row once -/
theorem sum_steps_all' (L : List MapRow) (f : MapRow → Rat) (T : Nat) (hL : ∀ m ∈ L, m.step < T) :
    ((List.range T).map fun t => ((L.filter fun m => m.step == t).map f).sum).sum = (L.map f).sum := by
  induction L with
  | nil => simp [sum_map_zero']
  | cons m L ih =>
    have hm : m.step < T := hL m (List.mem_cons_self)
    have hL' : ∀ m' ∈ L, m'.step < T := fun m' h' => hL m' (List.mem_cons_of_mem _ h')
    have step : ∀ t, (((m :: L).filter fun m => m.step == t).map f).sum
        = (if m.step == t then f m else 0) + ((L.filter fun m => m.step == t).map f).sum := by
      intro t
      by_cases h : (m.step == t) = true
      · simp [h]
      · have h' : (m.step == t) = false := by simpa using h
        simp only [List.filter_cons, h']
        simp only [Bool.false_eq_true, if_false]
        grind
    rw [List.map_congr_left (fun t _ => step t), sum_map_add', sum_range_indicator' T m.step hm, ih hL']
    simp

/-! ### the first mapping row of every variable -/

theorem firstRows_skip (B R : List MapRow) (seen : List Nat) (h : ∀ m ∈ B, seen.contains m.var = true) :
    firstRows (B ++ R) seen = firstRows R seen := by
  induction B with
  | nil => rfl
  | cons b B ih =>
    have hb : seen.contains b.var = true := h b List.mem_cons_self
    simp only [List.cons_append, firstRows, hb, if_true]
    exact ih fun m hm => h m (List.mem_cons_of_mem _ hm)

variable (name node : String) (fe : Bool) (g : Grid)

theorem mem_orderMapRows (k : Nat) (o : Order) (m : MapRow) (hm : m ∈ orderMapRows name node fe g k o) :
    ∃ i, i ∈ coverPos g o ∧ m = orderRow name node fe g k o i := by
  simp only [orderMapRows, List.mem_map] at hm
  obtain ⟨i, hi, rfl⟩ := hm
  exact ⟨i, hi, rfl⟩

/-- the first rows per order, as a list: the head of every non-empty block -/
def orderHeadFrom : Nat → List Order → List MapRow
  | _, [] => []
  | k, o :: os => (orderMapRows name node fe g k o).head?.toList ++ orderHeadFrom (k + 1) os

theorem firstRows_orderMapFrom (os : List Order) : ∀ (k : Nat) (seen : List Nat), (∀ j ∈ seen, j < k) →
    firstRows (orderMapFrom name node fe g k os) seen = orderHeadFrom name node fe g k os := by
  induction os with
  | nil => intro k seen _; rfl
  | cons o os ih =>
    intro k seen hseen
    simp only [orderMapFrom, orderHeadFrom]
    have hvar : ∀ m ∈ orderMapRows name node fe g k o, m.var = k := by
      intro m hm
      obtain ⟨i, _, rfl⟩ := mem_orderMapRows name node fe g k o m hm
      rfl
    cases hB : orderMapRows name node fe g k o with
    | nil =>
      simp only [List.nil_append, List.head?_nil, Option.toList]
      exact ih (k + 1) seen fun j hj => Nat.lt_succ_of_lt (hseen j hj)
    | cons b B =>
      have hbv : b.var = k := hvar b (by rw [hB]; exact List.mem_cons_self)
      have hnot : seen.contains b.var = false := by
        rw [hbv]
        cases hc : seen.contains k with
        | false => rfl
        | true =>
          have := hseen k (List.contains_iff_mem.mp hc)
          omega
      simp only [List.cons_append, firstRows, hnot, List.head?_cons, Option.toList]
      simp only [Bool.false_eq_true, if_false, List.nil_append]
      congr 1
      rw [firstRows_skip]
      · apply ih (k + 1)
        intro j hj
        rw [hbv] at hj
        rcases List.mem_cons.mp hj with h | h
        · omega
        · exact Nat.lt_succ_of_lt (hseen j h)
      · intro m hm
        have : m.var = k := hvar m (by rw [hB]; exact List.mem_cons_of_mem _ hm)
        rw [this, hbv]
        simp

/-! ### facts about all mapping rows -/

theorem mem_orderMapFrom (os : List Order) : ∀ (k : Nat) (m : MapRow), m ∈ orderMapFrom name node fe g k os →
    ∃ j o i, os[j]? = some o ∧ i ∈ coverPos g o ∧
      m = orderRow name node fe g (k + j) o i := by
  induction os with
  | nil => intro k m hm; simp [orderMapFrom] at hm
  | cons o os ih =>
    intro k m hm
    simp only [orderMapFrom, List.mem_append] at hm
    rcases hm with hm | hm
    · obtain ⟨i, hi, rfl⟩ := mem_orderMapRows name node fe g k o m hm
      exact ⟨0, o, i, by simp, hi, by simp⟩
    · obtain ⟨j, o', i, hj, hi, rfl⟩ := ih (k + 1) m hm
      refine ⟨j + 1, o', i, by simpa using hj, hi, ?_⟩
      have : k + 1 + j = k + (j + 1) := by omega
      rw [this]

theorem mem_coverPos (o : Order) (i : Nat) (h : i ∈ coverPos g o) : i < g.T ∧ o.covers (g.pts.getD i 0) = true := by
  simp only [coverPos, Grid.select, List.mem_filter, List.mem_range] at h
  exact h

/-- an order covering no step has no mapping row -/
theorem no_row_of_cover_nil (os : List Order) (k j : Nat) (o : Order) (ho : os[j]? = some o) (hc : coverPos g o = []) :
    ∀ m ∈ orderMapFrom name node fe g k os, m.var ≠ k + j := by
  intro m hm
  obtain ⟨j', o', i, hj', hi, rfl⟩ := mem_orderMapFrom name node fe g os k m hm
  intro h
  have hjj : j' = j := by
    simp only [orderRow] at h
    omega
  subst hjj
  rw [ho] at hj'
  cases hj'
  rw [hc] at hi
  cases hi

/-! ### cash -/

theorem orderCost_of_cover_nil (o : Order) (hc : coverPos g o = []) : orderCost g o = 0 := by
  simp [orderCost, coverWeight, hc, Rat.mul_zero, Rat.zero_mul]

theorem sum_orderHeadFrom (x : Vec) (cf : Nat → Rat) (os : List Order) : ∀ (k : Nat),
    (∀ i (h : i < os.length), cf (k + i) = orderCost g os[i]) →
    ((orderHeadFrom name node fe g k os).map fun m => - cf m.var * x m.var).sum
      = ((os.zipIdx k).map fun p => - (orderCost g p.1) * x p.2).sum := by
  induction os with
  | nil => intro k _; rfl
  | cons o os ih =>
    intro k hcf
    have h0 : cf k = orderCost g o := by
      have := hcf 0 (by simp)
      simpa using this
    have htl : ∀ i (h : i < os.length), cf (k + 1 + i) = orderCost g os[i] := by
      intro i h
      have := hcf (i + 1) (by simp; omega)
      have e : k + (i + 1) = k + 1 + i := by omega
      rw [e] at this
      simpa using this
    simp only [orderHeadFrom, List.zipIdx_cons, List.map_cons, List.map_append, List.sum_append, List.sum_cons]
    rw [ih (k + 1) htl]
    congr 1
    cases hB : orderMapRows name node fe g k o with
    | nil =>
      have hc : coverPos g o = [] := by
        simpa [orderMapRows] using hB
      simp [orderCost_of_cover_nil g o hc, Rat.zero_mul]
    | cons b B =>
      have hbv : b.var = k := by
        obtain ⟨i, _, rfl⟩ := mem_orderMapRows name node fe g k o b (by rw [hB]; exact List.mem_cons_self)
        rfl
      simp only [List.head?_cons, Option.toList, List.map_cons, List.map_nil, List.sum_cons, List.sum_nil, hbv, h0]
      grind

/-! ### delivery -/

theorem filter_range_eq (T i : Nat) (h : i < T) : (List.range T).filter (fun j => j == i) = [i] := by
  induction T with
  | zero => omega
  | succ T ih =>
    rw [List.range_succ, List.filter_append]
    by_cases hi : i < T
    · rw [ih hi]
      have : (T == i) = false := by simp; omega
      simp [this]
    · have : i = T := by omega
      subst this
      have hnil : (List.range i).filter (fun j => j == i) = [] := by
        rw [List.filter_eq_nil_iff]
        intro a ha
        have := List.mem_range.mp ha
        simp; omega
      rw [hnil]; simp

/-- the covered positions whose step index equals that of position `i`: `i` itself iff covered -/
theorem coverPos_filter_step (o : Order) (i : Nat) (hi : i < g.T) (hlen : g.idx.length = g.T) (hnd : g.idx.Nodup) :
    (coverPos g o).filter (fun j => g.idx.getD j 0 == g.idx.getD i 0)
      = if o.covers (g.pts.getD i 0) then [i] else [] := by
  simp only [coverPos, Grid.select, List.filter_filter]
  have hcongr : ∀ j ∈ List.range g.T,
      (g.idx.getD j 0 == g.idx.getD i 0 && o.covers (g.pts.getD j 0))
        = (o.covers (g.pts.getD i 0) && (j == i)) := by
    intro j hj
    have hj' : j < g.T := List.mem_range.mp hj
    by_cases hji : j = i
    · subst hji; simp [Bool.and_comm]
    · have hne : ¬ (g.idx.getD j 0 = g.idx.getD i 0) := by
        intro he
        exact hji ((List.getD_inj (by omega) (by omega) hnd).mp he)
      have h1 : (g.idx.getD j 0 == g.idx.getD i 0) = false := by simpa using hne
      have h2 : (j == i) = false := by simpa using hji
      rw [h1, h2]
      simp
  rw [List.filter_congr hcongr]
  cases hc : o.covers (g.pts.getD i 0) with
  | false => simp
  | true => simpa using filter_range_eq g.T i hi

theorem dispatch_orderMapRows (x : Vec) (k : Nat) (o : Order) (i : Nat) (hi : i < g.T)
    (hlen : g.idx.length = g.T) (hnd : g.idx.Nodup) :
    (((orderMapRows name node fe g k o).filter fun m => m.asset == name && isDisp node (g.idx.getD i 0) m).map
        (·.contrib x)).sum
      = if o.covers (g.pts.getD i 0) then x k * (o.capa * g.dt.getD i 0) else 0 := by
  unfold orderMapRows
  rw [List.filter_map]
  have hp : ((fun m : MapRow => m.asset == name && isDisp node (g.idx.getD i 0) m) ∘ fun j =>
        orderRow name node fe g k o j)
      = fun j => g.idx.getD j 0 == g.idx.getD i 0 := by
    funext j
    simp [isDisp, orderRow]
  rw [hp, coverPos_filter_step g o i hi hlen hnd]
  cases hc : o.covers (g.pts.getD i 0) with
  | false => simp
  | true =>
    simp only [if_true, List.map_cons, List.map_nil, List.sum_cons, List.sum_nil, MapRow.contrib, orderRow]
    grind

theorem dispatch_orderMapFrom (x : Vec) (i : Nat) (hi : i < g.T) (hlen : g.idx.length = g.T) (hnd : g.idx.Nodup)
    (os : List Order) : ∀ k : Nat,
    dispatchOut (orderMapFrom name node fe g k os) name node (g.idx.getD i 0) x
      = ((os.zipIdx k).map fun p => if p.1.covers (g.pts.getD i 0) then x p.2 * (p.1.capa * g.dt.getD i 0) else 0).sum := by
  induction os with
  | nil => intro k; rfl
  | cons o os ih =>
    intro k
    have := ih (k + 1)
    unfold dispatchOut at this ⊢
    simp only [orderMapFrom, List.filter_append, List.map_append, List.sum_append, List.zipIdx_cons, List.map_cons,
      List.sum_cons]
    rw [this, dispatch_orderMapRows name node fe g x k o i hi hlen hnd]

/-! ### value does not depend on a zero-cost variable -/

theorem costAt_update_zero (c : List Rat) : ∀ (off : Nat) (x : Vec) (j : Nat) (v : Rat),
    (off ≤ j → c.getD (j - off) 0 = 0) →
    costAt c off (fun i => if i = j then v else x i) = costAt c off x := by
  induction c with
  | nil => intro off x j v _; rfl
  | cons a c ih =>
    intro off x j v h
    simp only [costAt]
    rw [ih (off + 1) x j v]
    · by_cases hj : off = j
      · subst hj
        have : a = 0 := by simpa using h (Nat.le_refl _)
        simp [this, Rat.zero_mul]
      · simp [hj]
    · intro hle
      have h1 := h (by omega)
      have e : j - off = (j - (off + 1)) + 1 := by omega
      rw [e] at h1
      simpa using h1

/-! ### membership, general facts about `firstRows` -/

theorem firstRows_subset (M : List MapRow) : ∀ (seen : List Nat) (m : MapRow), m ∈ firstRows M seen → m ∈ M := by
  induction M with
  | nil => intro seen m h; simp [firstRows] at h
  | cons a M ih =>
    intro seen m h
    simp only [firstRows] at h
    split at h
    · exact List.mem_cons_of_mem _ (ih seen m h)
    · rcases List.mem_cons.mp h with h | h
      · rw [h]; exact List.mem_cons_self
      · exact List.mem_cons_of_mem _ (ih _ m h)

/-- every variable that has a mapping row (and was not seen before) has a first row -/
theorem firstRows_complete (M : List MapRow) : ∀ (seen : List Nat) (m : MapRow), m ∈ M → seen.contains m.var = false →
    ∃ m' ∈ firstRows M seen, m'.var = m.var := by
  induction M with
  | nil => intro seen m h; cases h
  | cons a M ih =>
    intro seen m hm hs
    simp only [firstRows]
    by_cases ha : seen.contains a.var = true
    · simp only [ha, if_true]
      rcases List.mem_cons.mp hm with h | h
      · rw [h] at hs; rw [hs] at ha; cases ha
      · exact ih seen m h hs
    · simp only [ha]
      by_cases hv : a.var = m.var
      · exact ⟨a, List.mem_cons_self, hv⟩
      · rcases List.mem_cons.mp hm with h | h
        · exact absurd (by rw [h]) hv
        · have hs' : (a.var :: seen).contains m.var = false := by
            have hns : ¬ m.var ∈ seen := by
              intro hmem
              have := List.contains_iff_mem.mpr hmem
              rw [hs] at this; cases this
            cases hc : (a.var :: seen).contains m.var with
            | false => rfl
            | true =>
              rcases List.mem_cons.mp (List.contains_iff_mem.mp hc) with e | e
              · exact absurd e.symm hv
              · exact absurd e hns
          obtain ⟨m', hm', hv'⟩ := ih (a.var :: seen) m h hs'
          exact ⟨m', List.mem_cons_of_mem _ hm', hv'⟩

theorem orderRow_mem_orderMapFrom (os : List Order) : ∀ (k j : Nat) (o : Order) (i : Nat), os[j]? = some o → i ∈ coverPos g o →
    orderRow name node fe g (k + j) o i ∈ orderMapFrom name node fe g k os := by
  induction os with
  | nil => intro k j o i h; simp at h
  | cons o' os ih =>
    intro k j o i hj hi
    simp only [orderMapFrom, List.mem_append]
    cases j with
    | zero =>
      left
      have : o' = o := by simpa using hj
      subst this
      simp only [orderMapRows, List.mem_map]
      exact ⟨i, hi, rfl⟩
    | succ j =>
      right
      have := ih (k + 1) j o i (by simpa using hj) hi
      have e : k + 1 + j = k + (j + 1) := by omega
      rw [e] at this
      exact this

theorem coverPos_eq_nil_iff (o : Order) :
    coverPos g o = [] ↔ ∀ i, i < g.T → ¬ (o.start ≤ g.pts.getD i 0 ∧ g.pts.getD i 0 < o.stop) := by
  simp only [coverPos, Grid.select, List.filter_eq_nil_iff, List.mem_range, Order.covers, Bool.and_eq_true,
    decide_eq_true_eq]

theorem sum_filter_ite {α} (l : List α) (p : α → Bool) (f : α → Rat) :
    ((l.filter p).map f).sum = (l.map fun a => if p a then f a else 0).sum := by
  induction l with
  | nil => rfl
  | cons a l ih =>
    by_cases h : p a = true
    · simp [h, ih]
    · have h' : p a = false := by simpa using h
      simp only [List.filter_cons, h', List.map_cons, List.sum_cons]
      rw [← ih]
      simp only [Bool.false_eq_true, if_false]
      grind

/-! ### rows of the special table -/

theorem map_orderHeadFrom {β} (F : MapRow → β) (G : Order × Nat → β) (os : List Order) : ∀ (k : Nat),
    (∀ i (h : i < os.length) (b : MapRow), b ∈ orderMapRows name node fe g (k + i) os[i] → F b = G (os[i], k + i)) →
    (orderHeadFrom name node fe g k os).map F
      = ((os.zipIdx k).filter fun p => !(coverPos g p.1).isEmpty).map G := by
  induction os with
  | nil => intro k _; rfl
  | cons o os ih =>
    intro k hFG
    have h0 : ∀ b ∈ orderMapRows name node fe g k o, F b = G (o, k) := by
      intro b hb
      have := hFG 0 (by simp) b (by simpa using hb)
      simpa using this
    have htl : ∀ i (h : i < os.length) (b : MapRow), b ∈ orderMapRows name node fe g (k + 1 + i) os[i] →
        F b = G (os[i], k + 1 + i) := by
      intro i h b hb
      have e : k + (i + 1) = k + 1 + i := by omega
      have := hFG (i + 1) (by simp; omega) b (by rw [e]; simpa using hb)
      rw [e] at this
      simpa using this
    simp only [orderHeadFrom, List.zipIdx_cons, List.map_append, List.filter_cons]
    rw [ih (k + 1) htl]
    cases hB : orderMapRows name node fe g k o with
    | nil =>
      have hc : coverPos g o = [] := by simpa [orderMapRows] using hB
      simp [hc]
    | cons b B =>
      have hc : (coverPos g o).isEmpty = false := by
        cases hcp : coverPos g o with
        | nil => simp [orderMapRows, hcp] at hB
        | cons _ _ => rfl
      have hb := h0 b (by rw [hB]; exact List.mem_cons_self)
      simp [hc, hb]

/-! ### flows at an arbitrary (node, step) and the cost, in terms of the orders (used by `order_refines`) -/

theorem flow_orderMapRows_node (y : Vec) (k : Nat) (o : Order) (t : Nat) :
    (((orderMapRows name node fe g k o).filter (isDisp node t)).map (·.contrib y)).sum
      = (((coverPos g o).filter fun i => g.idx.getD i 0 == t).map fun i => y k * o.capa * g.dt.getD i 0).sum := by
  unfold orderMapRows
  rw [List.filter_map, List.map_map]
  have hp : (isDisp node t ∘ orderRow name node fe g k o) = fun i => g.idx.getD i 0 == t := by
    funext i
    simp [isDisp, orderRow]
  rw [hp]
  apply sum_map_congr'
  intro i _
  simp only [Function.comp, MapRow.contrib, orderRow]
  grind

theorem flow_orderMapFrom_node (y : Vec) (t : Nat) (os : List Order) : ∀ k : Nat,
    (((orderMapFrom name node fe g k os).filter (isDisp node t)).map (·.contrib y)).sum
      = ((os.zipIdx k).map fun p =>
          (((coverPos g p.1).filter fun i => g.idx.getD i 0 == t).map fun i => y p.2 * p.1.capa * g.dt.getD i 0).sum).sum := by
  induction os with
  | nil => intro k; rfl
  | cons o os ih =>
    intro k
    simp only [orderMapFrom, List.filter_append, List.map_append, List.sum_append, List.zipIdx_cons, List.map_cons,
      List.sum_cons]
    rw [ih (k + 1), flow_orderMapRows_node]

theorem flow_orderMapFrom_other (n : String) (hn : n ≠ node) (t : Nat) (os : List Order) (k : Nat) :
    (orderMapFrom name node fe g k os).filter (isDisp n t) = [] := by
  rw [List.filter_eq_nil_iff]
  intro m hm
  obtain ⟨j, o, i, _, _, rfl⟩ := mem_orderMapFrom name node fe g os k m hm
  simp [isDisp, orderRow]
  intro e
  exact absurd e.symm hn

theorem costAt_map_zipIdx (f : Order → Rat) (y : Vec) (os : List Order) : ∀ k : Nat,
    costAt (os.map f) k y = ((os.zipIdx k).map fun p => f p.1 * y p.2).sum := by
  induction os with
  | nil => intro k; rfl
  | cons o os ih =>
    intro k
    simp only [List.map_cons, costAt, List.zipIdx_cons, List.sum_cons]
    rw [ih (k + 1)]

end EAO.OrderBook

/-! ## Generic part: boolean flags under assembly, `RefinesBool`, composition for `Problem.Feasible`

Declared in the namespace `EAO.Textbook` (next to `Refines`, `portfolio_core`), but kept in this file so that
`EAO/Lemmas/Textbook.lean` stays untouched.  Nothing here is specific to order books. -/
namespace EAO.Textbook
open EAO EAO.Perm

/-! ### boolean flags: composition (generic; used by C20 `order_refines_portfolio_full`) -/

/-- the variables `OptimProblem.optimize` declares boolean, read off a mapping (`Problem.boolVars`) -/
def bvars (M : List MapRow) : List Nat := ((firstRows M []).filter (·.isBool)).map (·.var)

theorem boolVars_eq_bvars (P : Problem) : P.boolVars = bvars P.mapping := rfl

/-- every mapping row (of whatever type) points at one of the asset's own variables -/
def MapInRange (a : AssetProblem) : Prop := ∀ m ∈ a.mapping, m.var < a.n

theorem mem_firstRows_iff (M : List MapRow) : ∀ (seen : List Nat) (m : MapRow),
    m ∈ firstRows M seen ↔ (seen.contains m.var = false ∧ M.find? (fun r => r.var == m.var) = some m) := by
  induction M with
  | nil => intro seen m; simp [firstRows]
  | cons a M ih =>
    intro seen m
    by_cases hv : a.var = m.var
    · have hbeq : (a.var == m.var) = true := by simp [hv]
      cases hs : seen.contains a.var with
      | true =>
        have hs' : seen.contains m.var = true := by rw [← hv]; exact hs
        simp only [firstRows, hs, if_true, List.find?_cons, hbeq]
        rw [ih seen m, hs']
        simp
      | false =>
        have hs' : seen.contains m.var = false := by rw [← hv]; exact hs
        have hc : (a.var :: seen).contains m.var = true := by
          rw [List.contains_iff_mem]; rw [hv]; exact List.mem_cons_self
        simp only [firstRows, hs, Bool.false_eq_true, if_false, List.find?_cons, hbeq, List.mem_cons]
        rw [ih (a.var :: seen) m, hc, hs']
        simp
        exact eq_comm
    · have hbeq : (a.var == m.var) = false := by simpa using hv
      have hne : m ≠ a := fun e => hv (by rw [e])
      cases hs : seen.contains a.var with
      | true =>
        simp only [firstRows, hs, if_true, List.find?_cons, hbeq]
        exact ih seen m
      | false =>
        have hc : (a.var :: seen).contains m.var = seen.contains m.var := by
          rw [Bool.eq_iff_iff, List.contains_iff_mem, List.contains_iff_mem, List.mem_cons]
          constructor
          · rintro (h | h)
            · exact absurd h.symm hv
            · exact h
          · exact Or.inr
        simp only [firstRows, hs, Bool.false_eq_true, if_false, List.find?_cons, hbeq, List.mem_cons]
        rw [ih (a.var :: seen) m, hc]
        simp [hne]

theorem mem_bvars_iff (M : List MapRow) (j : Nat) :
    j ∈ bvars M ↔ ∃ m, M.find? (fun r => r.var == j) = some m ∧ m.isBool = true := by
  simp only [bvars, List.mem_map, List.mem_filter]
  constructor
  · rintro ⟨m, ⟨hm, hb⟩, rfl⟩
    exact ⟨m, ((mem_firstRows_iff M [] m).mp hm).2, hb⟩
  · rintro ⟨m, hf, hb⟩
    have hv : m.var = j := by simpa using List.find?_some hf
    subst hv
    exact ⟨m, ⟨(mem_firstRows_iff M [] m).mpr ⟨by simp, hf⟩, hb⟩, rfl⟩

theorem mem_bvars_var (M : List MapRow) (j : Nat) (h : j ∈ bvars M) : ∃ m ∈ M, m.var = j := by
  obtain ⟨m, hf, _⟩ := (mem_bvars_iff M j).mp h
  exact ⟨m, List.mem_of_find?_eq_some hf, by simpa using List.find?_some hf⟩

/-- blocks of mapping rows over disjoint sets of variables: the boolean variables are those of the blocks -/
theorem mem_bvars_append (A R : List MapRow) (hd : ∀ m ∈ A, ∀ r ∈ R, m.var ≠ r.var) (j : Nat) :
    j ∈ bvars (A ++ R) ↔ j ∈ bvars A ∨ j ∈ bvars R := by
  simp only [mem_bvars_iff, List.find?_append]
  constructor
  · rintro ⟨m, hf, hb⟩
    cases hA : A.find? (fun r => r.var == j) with
    | some a =>
      rw [hA] at hf
      simp at hf
      subst hf
      exact Or.inl ⟨a, rfl, hb⟩
    | none =>
      rw [hA] at hf
      simp at hf
      exact Or.inr ⟨m, hf, hb⟩
  · rintro (⟨m, hf, hb⟩ | ⟨m, hf, hb⟩)
    · exact ⟨m, by rw [hf]; rfl, hb⟩
    · have hA : A.find? (fun r => r.var == j) = none := by
        rw [List.find?_eq_none]
        intro a ha hp
        have h1 : a.var = j := by simpa using hp
        have h2 : m.var = j := by simpa using List.find?_some hf
        exact hd a ha m (List.mem_of_find?_eq_some hf) (by rw [h1, h2])
      exact ⟨m, by rw [hA]; simpa using hf, hb⟩

theorem mem_bvars_shift (A : List MapRow) (off j : Nat) :
    j ∈ bvars (A.map (MapRow.shift off)) ↔ ∃ k ∈ bvars A, j = off + k := by
  simp only [mem_bvars_iff, List.find?_map]
  constructor
  · rintro ⟨m, hf, hb⟩
    cases hA : A.find? ((fun r => r.var == j) ∘ MapRow.shift off) with
    | none => rw [hA] at hf; simp at hf
    | some a =>
      rw [hA] at hf
      simp at hf
      subst hf
      have hp := List.find?_some hA
      have hj : off + a.var = j := by simpa [MapRow.shift] using hp
      refine ⟨a.var, ⟨a, ?_, hb⟩, hj.symm⟩
      have hcongr : ((fun r : MapRow => r.var == j) ∘ MapRow.shift off) = fun r => r.var == a.var := by
        funext r
        simp only [Function.comp, MapRow.shift, ← hj]
        rw [Bool.eq_iff_iff]; simp
      rw [hcongr] at hA
      exact hA
  · rintro ⟨k, ⟨a, hf, hb⟩, rfl⟩
    have hcongr : ((fun r : MapRow => r.var == off + k) ∘ MapRow.shift off) = fun r => r.var == k := by
      funext r
      simp only [Function.comp, MapRow.shift]
      rw [Bool.eq_iff_iff]; simp
    exact ⟨a.shift off, by rw [hcongr, hf]; rfl, hb⟩

theorem assembleFrom_var_ge (as : List AssetProblem) : ∀ (off : Nat) (m : MapRow),
    m ∈ (assembleFrom off as).mapping → off ≤ m.var := by
  induction as with
  | nil => intro off m hm; simp [assembleFrom] at hm
  | cons a as ih =>
    intro off m hm
    rw [assembleFrom_cons_mapping, List.mem_append] at hm
    rcases hm with hm | hm
    · obtain ⟨m', _, rfl⟩ := List.mem_map.mp hm
      simp [MapRow.shift]
    · have := ih _ m hm
      omega

/-- (a) the boolean variables of the concatenation are those of the assets, shifted by the offsets -/
theorem mem_bvars_assembleFrom (as : List AssetProblem) : ∀ (off : Nat), (∀ a ∈ as, MapInRange a) → ∀ j,
    (j ∈ bvars (assembleFrom off as).mapping ↔
      ∃ i, ∃ h : i < as.length, ∃ k ∈ bvars (as[i]).mapping, j = off + blockOffset as i + k) := by
  induction as with
  | nil =>
    intro off _ j
    simp [assembleFrom, bvars, firstRows]
  | cons a as ih =>
    intro off hr j
    have hra : MapInRange a := hr a List.mem_cons_self
    have hras : ∀ b ∈ as, MapInRange b := fun b hb => hr b (List.mem_cons_of_mem _ hb)
    rw [assembleFrom_cons_mapping, mem_bvars_append, mem_bvars_shift, ih (off + a.n) hras j]
    · constructor
      · rintro (⟨k, hk, rfl⟩ | ⟨i, hi, k, hk, rfl⟩)
        · exact ⟨0, by simp, k, by simpa using hk, by simp⟩
        · exact ⟨i + 1, by simpa using hi, k, by simpa using hk, by simp; omega⟩
      · rintro ⟨i, hi, k, hk, rfl⟩
        cases i with
        | zero => exact Or.inl ⟨k, by simpa using hk, by simp⟩
        | succ i =>
          exact Or.inr ⟨i, by simpa using hi, k, by simpa using hk, by simp; omega⟩
    · intro m hm r hrr
      obtain ⟨m', hm', rfl⟩ := List.mem_map.mp hm
      have h1 := hra m' hm'
      have h2 := assembleFrom_var_ge as (off + a.n) r hrr
      simp only [MapRow.shift]
      omega

theorem assemble_mapping_eq (as : List AssetProblem) (gridI : List Nat) (skip : List String) :
    (assemble as gridI skip).mapping = (assembleFrom 0 as).mapping := rfl

/-- (a), for the assembled problem: `x` is feasible with the boolean flags iff it is relaxed-feasible and
    every asset's boolean variables are 0/1 on its block -/
theorem feasible_bool_iff (as : List AssetProblem) (gridI : List Nat) (skip : List String)
    (hr : ∀ a ∈ as, MapInRange a) (x : Vec) :
    (assemble as gridI skip).Feasible x ↔
      (assemble as gridI skip).FeasibleRelaxed x ∧
      ∀ i, (h : i < as.length) → ∀ k ∈ bvars (as[i]).mapping,
        x (blockOffset as i + k) = 0 ∨ x (blockOffset as i + k) = 1 := by
  unfold Problem.Feasible
  rw [boolVars_eq_bvars, assemble_mapping_eq]
  constructor
  · rintro ⟨h1, h2⟩
    refine ⟨h1, fun i hi k hk => h2 _ ?_⟩
    exact (mem_bvars_assembleFrom as 0 hr _).mpr ⟨i, hi, k, hk, by simp⟩
  · rintro ⟨h1, h2⟩
    refine ⟨h1, fun j hj => ?_⟩
    obtain ⟨i, hi, k, hk, rfl⟩ := (mem_bvars_assembleFrom as 0 hr j).mp hj
    simpa using h2 i hi k hk

/-! ### (b) refinement with boolean flags and its composition -/

/-- the pairs an asset problem realises with its boolean flags enforced (`y` within bounds and rows, 0/1 on the
    variables its mapping flags boolean) -/
def attainEAOBool (a : AssetProblem) : AssetSem :=
  ⟨fun fl c => ∃ y, a.FeasibleRelaxed y ∧ (∀ j ∈ bvars a.mapping, y j = 0 ∨ y j = 1) ∧
      (∀ n t, fl n t = flowOf a n t y) ∧ c = - costAt a.c 0 y⟩

/-- like `Refines`, for the asset's own problem with its boolean flags -/
def RefinesBool (a : AssetProblem) (S : AssetSem) : Prop :=
  Dominated S (attainEAOBool a) ∧ Dominated (attainEAOBool a) S

theorem attainEAOBool_of_no_bools (a : AssetProblem) (h : bvars a.mapping = []) (fl : Flows) (c : Rat) :
    (attainEAOBool a).Attain fl c ↔ (attainEAO a).Attain fl c := by
  constructor
  · rintro ⟨y, hy, _, hfl, hc⟩
    exact ⟨y, hy, hfl, hc⟩
  · rintro ⟨y, hy, hfl, hc⟩
    exact ⟨y, hy, (by rw [h]; intro j hj; cases hj), hfl, hc⟩

/-- for an asset without boolean variables (every LP asset) `RefinesBool` is `Refines` -/
theorem refinesBool_iff_refines (a : AssetProblem) (S : AssetSem) (h : bvars a.mapping = []) :
    RefinesBool a S ↔ Refines a S := by
  unfold RefinesBool Refines Dominated
  constructor
  · rintro ⟨h1, h2⟩
    refine ⟨fun fl c hs => ?_, fun fl c hs => h2 fl c ((attainEAOBool_of_no_bools a h fl c).mpr hs)⟩
    obtain ⟨c', hc', hat⟩ := h1 fl c hs
    exact ⟨c', hc', (attainEAOBool_of_no_bools a h fl c').mp hat⟩
  · rintro ⟨h1, h2⟩
    refine ⟨fun fl c hs => ?_, fun fl c hs => h2 fl c ((attainEAOBool_of_no_bools a h fl c).mp hs)⟩
    obtain ⟨c', hc', hat⟩ := h1 fl c hs
    exact ⟨c', hc', (attainEAOBool_of_no_bools a h fl c').mpr hat⟩

/-- **composition principle with boolean flags** (lemma form of `portfolio_refines` for `Problem.Feasible`) -/
theorem portfolio_core_bool (as : List AssetProblem) (sems : List AssetSem) (hlen : sems.length = as.length)
    (gridI : List Nat) (skip : List String)
    (hl : ∀ a ∈ as, a.l.length = a.n ∧ a.u.length = a.n)
    (hdisp : ∀ a ∈ as, ∀ m ∈ a.mapping, ∀ n, m.kind = .d → m.node = some n → n ∈ a.nodes ∧ m.step ∈ gridI)
    (hcols : ∀ a ∈ as, ∀ r ∈ a.rows, ∀ p ∈ r.coeffs, p.1 < a.n)
    (hrange : ∀ a ∈ as, MapInRange a)
    (href : ∀ i, (h : i < as.length) → RefinesBool (as[i]) (sems[i]'(by omega))) :
    (∀ x, (assemble as gridI skip).Feasible x →
      ∃ V, (assemble as gridI skip).value x ≤ V ∧
        portfolioAttain sems skip
          (fun i n t => flowOf (as.getD i default) n t (fun j => x (blockOffset as i + j))) V) ∧
    (∀ fl V, portfolioAttain sems skip fl V →
      ∃ x, (assemble as gridI skip).Feasible x ∧ V ≤ (assemble as gridI skip).value x ∧
        ∀ i, i < as.length → ∀ n t,
          flowOf (as.getD i default) n t (fun j => x (blockOffset as i + j)) = fl i n t) := by
  have hvars : ∀ a ∈ as, ∀ m ∈ a.mapping, m.kind = .d → m.var < a.n := fun a ha m hm _ => hrange a ha m hm
  constructor
  · intro x hxb
    obtain ⟨hx, hbool⟩ := (feasible_bool_iff as gridI skip hrange x).mp hxb
    obtain ⟨hfeas, hbal⟩ := (feasible_iff as gridI skip hl hdisp x).mp hx
    have hex : ∀ i, ∃ c' : Rat, (h : i < as.length) →
        - costAt (as.getD i default).c 0 (fun j => x (blockOffset as i + j)) ≤ c' ∧
        (sems[i]'(by omega)).Attain
          (fun n t => flowOf (as.getD i default) n t (fun j => x (blockOffset as i + j))) c' := by
      intro i
      by_cases hi : i < as.length
      · have hat : (attainEAOBool (as[i])).Attain
            (fun n t => flowOf (as.getD i default) n t (fun j => x (blockOffset as i + j)))
            (- costAt (as.getD i default).c 0 (fun j => x (blockOffset as i + j))) := by
          refine ⟨fun j => x (blockOffset as i + j), hfeas i hi, hbool i hi, ?_, ?_⟩
          · intro n t; rw [getD_of_lt as i default hi]
          · rw [getD_of_lt as i default hi]
        obtain ⟨c', hc', hs⟩ := (href i hi).2 _ _ hat
        exact ⟨c', fun _ => ⟨hc', hs⟩⟩
      · exact ⟨0, fun h => absurd h hi⟩
    obtain ⟨c, hc⟩ := Classical.axiomOfChoice hex
    refine ⟨sumN c sems.length, ?_, c, ?_, ?_, rfl⟩
    · rw [value_eq, hlen]
      exact sumN_le _ _ _ (fun j hj => (hc j hj).1)
    · intro i hi
      exact (hc i (by omega)).2
    · intro n hs t
      rw [hlen]
      exact hbal n hs t
  · rintro fl V ⟨c, hat, hbal, rfl⟩
    have hex : ∀ i, ∃ y : Vec, (h : i < as.length) →
        (as[i]).FeasibleRelaxed y ∧ (∀ j ∈ bvars (as[i]).mapping, y j = 0 ∨ y j = 1) ∧
        (∀ n t, fl i n t = flowOf (as[i]) n t y) ∧ c i ≤ - costAt (as[i]).c 0 y := by
      intro i
      by_cases hi : i < as.length
      · obtain ⟨c', hc', y, hy, hyb, hfl, rfl⟩ := (href i hi).1 _ _ (hat i (by omega))
        exact ⟨y, fun _ => ⟨hy, hyb, hfl, hc'⟩⟩
      · exact ⟨fun _ => 0, fun h => absurd h hi⟩
    obtain ⟨ys, hys⟩ := Classical.axiomOfChoice hex
    let L : List (AssetProblem × Vec) := (List.range as.length).map fun i => (as.getD i default, ys i)
    have hLlen : L.length = as.length := by simp [L]
    have hmap : L.map (·.1) = as := by
      apply List.ext_getElem
      · simp [L]
      · intro i h1 h2
        simp [L, h2]
    have hLi : ∀ i (hi : i < L.length), L[i] = (as.getD i default, ys i) := by
      intro i hi; simp [L]
    have hLmem : ∀ p ∈ L, ∃ i, ∃ h : i < as.length, p = (as[i], ys i) := by
      intro p hp
      obtain ⟨i, hi, rfl⟩ := List.mem_map.mp hp
      have hi' := List.mem_range.mp hi
      exact ⟨i, hi', by rw [getD_of_lt as i default hi']⟩
    have hLsum : ∀ g : AssetProblem → Vec → Rat,
        (L.map fun p => g p.1 p.2) = (List.range as.length).map fun i => g (as.getD i default) (ys i) := by
      intro g; simp [L, List.map_map, Function.comp_def]
    have hG := glue_feasible L gridI skip (by rw [hmap]; exact hl) (by rw [hmap]; exact hdisp)
      (by rw [hmap]; exact hcols) (by rw [hmap]; exact hvars)
      (by
        intro p hp
        obtain ⟨i, hi, rfl⟩ := hLmem p hp
        exact (hys i hi).1)
      (by
        intro n hs t
        rw [hLsum (fun a y => flowOf a n t y)]
        have := hbal n hs t
        rw [hlen] at this
        rw [← this]
        show sumN _ _ = sumN _ _
        apply sumN_congr
        intro i hi
        rw [(hys i hi).2.2.1 n t, getD_of_lt as i default hi])
    have hblock : ∀ i (hi : i < as.length) k, k < (as[i]).n → glue L (blockOffset as i + k) = ys i k := by
      intro i hi k hk
      have hiL : i < L.length := by omega
      have h1 := glue_block L i hiL k (by rw [hLi i hiL, getD_of_lt as i default hi]; exact hk)
      rw [hmap, hLi i hiL] at h1
      exact h1
    rw [hmap] at hG
    obtain ⟨h1, h2, h3⟩ := hG
    refine ⟨glue L, ?_, ?_, ?_⟩
    · rw [feasible_bool_iff as gridI skip hrange]
      refine ⟨h1, fun i hi k hk => ?_⟩
      obtain ⟨m, hm, hv⟩ := mem_bvars_var _ k hk
      have hkn : k < (as[i]).n := by rw [← hv]; exact hrange _ (List.getElem_mem hi) m hm
      rw [hblock i hi k hkn]
      exact (hys i hi).2.1 k hk
    · rw [h2, hLsum (fun a y => - costAt a.c 0 y), hlen]
      apply sumN_le
      intro i hi
      rw [getD_of_lt as i default hi]
      exact (hys i hi).2.2.2
    · intro i hi n t
      have := h3 n t
      rw [hLlen, hLsum (fun a y => flowOf a n t y)] at this
      have h4 := (List.map_inj_left.mp this) i (List.mem_range.mpr hi)
      rw [h4, (hys i hi).2.2.1 n t, getD_of_lt as i default hi]

end EAO.Textbook
