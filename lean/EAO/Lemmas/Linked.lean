import EAO.Model.Linked
import EAO.Model.CHP
/-!
helper lemmas for the linked asset (`EAO.Model.Linked`): closed form of the two nested loops, what the bounds and the
new rows are, invariants of the loop (column range), success under unique look-ups, conversion of the durations
-/
namespace EAO.Linked
open EAO

/-! ### list plumbing -/

theorem zeroAt_length (I : List Nat) (u : List Rat) : (zeroAt I u).length = u.length := by
  simp [zeroAt]

theorem zeroAt_getD (I : List Nat) (u : List Rat) (j : Nat) :
    (zeroAt I u).getD j 0 = if I.contains j then 0 else u.getD j 0 := by
  unfold zeroAt
  by_cases hj : j < u.length
  · simp [List.getD_eq_getElem?_getD, hj]
  · have : u.length ≤ j := Nat.le_of_not_lt hj
    simp [List.getD_eq_getElem?_getD, this]

theorem ext_getD {u v : List Rat} (hl : u.length = v.length) (h : ∀ j, u.getD j 0 = v.getD j 0) : u = v := by
  apply List.ext_getElem hl
  intro j h1 h2
  have := h j
  simpa [List.getD_eq_getElem?_getD, h1, h2] using this

theorem zeroAt_idem (I : List Nat) (u : List Rat) : zeroAt I (zeroAt I u) = zeroAt I u := by
  apply ext_getD (by simp [zeroAt_length])
  intro j
  rw [zeroAt_getD I (zeroAt I u) j, zeroAt_getD I u j]
  by_cases h : j ∈ I <;> simp [h]

theorem mem_intRange (a b i : Int) : i ∈ intRange a b ↔ a ≤ i ∧ i < b := by
  unfold intRange
  simp only [List.mem_map, List.mem_range]
  constructor
  · rintro ⟨k, hk, rfl⟩
    omega
  · rintro ⟨h1, h2⟩
    exact ⟨(i - a).toNat, by omega, by omega⟩

theorem intRange_split (a m b : Int) (h1 : a ≤ m) (h2 : m ≤ b) : intRange a b = intRange a m ++ intRange m b := by
  unfold intRange
  have hlen : (b - a).toNat = (m - a).toNat + (b - m).toNat := by omega
  rw [hlen, List.range_add, List.map_append, List.map_map]
  congr 1
  apply List.map_congr_left
  intro k _
  simp only [Function.comp]
  omega

/-! ### one step of the inner loop -/

/-- the row the loop appends -/
def mkRow (cs : List (Nat × Rat)) : Row := { coeffs := cs, rhs := 0, kind := .U }

/-- offset `i` at step `t`: asset 2 has not been running long enough -/
def zeroCond (r : LinkR) (t : Nat) (i : Int) : Bool := decide (i + (t : Int) < - r.ar)

/-- offset `i` at step `t` points inside the horizon -/
def inWindow (r : LinkR) (t : Nat) (i : Int) : Bool :=
  decide (0 ≤ i + (t : Int)) && decide (i + (t : Int) < (r.T : Int))

/-- labels of variable 2 at the step offset `i` points to -/
def vars2 (M : List MapRow) (r : LinkR) (t : Nat) (i : Int) : List Nat := findVars M r.vn2 r.nd2 (i + (t : Int)).toNat

theorem linkStep_ok {M : List MapRow} {r : LinkR} {aCols : Option Nat} {t : Nat} {I1 : List Nat} {st st' : LinkState} {i : Int}
    (h : linkStep M r aCols t I1 st i = .ok st') :
    (zeroCond r t i = true ∧ st' = { st with u := zeroAt I1 st.u }) ∨
    (zeroCond r t i = false ∧ inWindow r t i = false ∧ st' = st) ∨
    (zeroCond r t i = false ∧ inWindow r t i = true ∧ ∃ k cs, aCols = some k ∧ (∀ d ∈ I1, d < k) ∧
      (∀ d ∈ vars2 M r t i, d < k) ∧ vars2 M r t i ≠ [] ∧ linkCoeffs st.u I1 (vars2 M r t i) = some cs ∧
      st' = { st with rows := st.rows ++ [mkRow cs] }) := by
  unfold linkStep at h
  by_cases hz : i + (t : Int) < - r.ar
  · left
    simp only [hz, if_true] at h
    split at h
    · refine ⟨by simp [zeroCond, hz], ?_⟩
      cases h; rfl
    · cases h
  · right
    have hzc : zeroCond r t i = false := by simp [zeroCond, hz]
    simp only [hz, if_false] at h
    by_cases hw : i + (t : Int) < 0 ∨ (r.T : Int) ≤ i + (t : Int)
    · left
      simp only [hw, if_true] at h
      refine ⟨hzc, ?_, by cases h; rfl⟩
      simp only [inWindow, Bool.and_eq_false_iff, decide_eq_false_iff_not]
      omega
    · right
      simp only [hw, if_false] at h
      have hwc : inWindow r t i = true := by
        simp only [inWindow, Bool.and_eq_true, decide_eq_true_eq]
        omega
      refine ⟨hzc, hwc, ?_⟩
      split at h
      · cases h
      · rename_i hne
        split at h
        · cases h
        · rename_i k
          split at h
          · cases h
          · rename_i h1
            split at h
            · cases h
            · split at h
              · cases h
              · rename_i cs hcs
                split at h
                · cases h
                · rename_i h3
                  refine ⟨k, cs, rfl, ?_, ?_, ?_, hcs, by cases h; rfl⟩
                  · simpa using h1
                  · simpa [vars2] using h3
                  · intro he
                    apply hne
                    simp [vars2] at he
                    simp [he]

/-! ### the inner loop -/

theorem linkInner_append (M : List MapRow) (r : LinkR) (aCols : Option Nat) (t : Nat) (I1 : List Nat) (st : LinkState)
    (xs ys : List Int) :
    linkInner M r aCols t I1 st (xs ++ ys) =
      match linkInner M r aCols t I1 st xs with
      | .ok st1 => linkInner M r aCols t I1 st1 ys
      | .error e => .error e := by
  induction xs generalizing st with
  | nil => simp [linkInner]
  | cons x xs ih =>
    simp only [List.cons_append, linkInner]
    cases h : linkStep M r aCols t I1 st x with
    | ok st1 => simp [ih]
    | error e => simp

/-- rows generated at step `t` (labels `I1`) for the offsets `is`, with the bounds `u` -/
def rowsOf (M : List MapRow) (r : LinkR) (u : List Rat) (t : Nat) (I1 : List Nat) (is : List Int) : List Row :=
  is.filterMap fun i =>
    if !zeroCond r t i && inWindow r t i then (linkCoeffs u I1 (vars2 M r t i)).map mkRow else none

theorem rowsOf_append (M : List MapRow) (r : LinkR) (u : List Rat) (t : Nat) (I1 : List Nat) (xs ys : List Int) :
    rowsOf M r u t I1 (xs ++ ys) = rowsOf M r u t I1 xs ++ rowsOf M r u t I1 ys := by
  simp [rowsOf, List.filterMap_append]

theorem rowsOf_zero (M : List MapRow) (r : LinkR) (u : List Rat) (t : Nat) (I1 : List Nat) (is : List Int)
    (hz : ∀ i ∈ is, zeroCond r t i = true) : rowsOf M r u t I1 is = [] := by
  unfold rowsOf
  rw [List.filterMap_eq_nil_iff]
  intro i hi
  simp [hz i hi]

theorem exists_split (a b c : Int) (hab : a ≤ b) :
    ∃ m, a ≤ m ∧ m ≤ b ∧ (∀ i, a ≤ i → i < m → i < c) ∧ (∀ i, m ≤ i → i < b → ¬ i < c) := by
  by_cases h1 : c ≤ a
  · exact ⟨a, by omega, by omega, by intros; omega, by intros; omega⟩
  · by_cases h2 : b ≤ c
    · exact ⟨b, by omega, by omega, by intros; omega, by intros; omega⟩
    · exact ⟨c, by omega, by omega, by intros; omega, by intros; omega⟩

/-- the bounds after the inner loop (any list of offsets) -/
theorem inner_u {M : List MapRow} {r : LinkR} {aCols : Option Nat} {t : Nat} {I1 : List Nat} (is : List Int) :
    ∀ {st st' : LinkState}, linkInner M r aCols t I1 st is = .ok st' →
      st'.u = if is.any (zeroCond r t) then zeroAt I1 st.u else st.u := by
  induction is with
  | nil => intro st st' h; simp only [linkInner] at h; cases h; simp
  | cons i is ih =>
    intro st st' h
    simp only [linkInner] at h
    cases hs : linkStep M r aCols t I1 st i with
    | error e => rw [hs] at h; cases h
    | ok st1 =>
      rw [hs] at h
      have h2 := ih h
      rcases linkStep_ok hs with ⟨hz, rfl⟩ | ⟨hz, _, rfl⟩ | ⟨hz, _, k, cs, _, _, _, _, _, rfl⟩
      · simp only [List.any_cons, hz, Bool.true_or, if_true]
        rw [h2]
        simp only [zeroAt_idem]
        split <;> rfl
      · simpa [List.any_cons, hz] using h2
      · simpa [List.any_cons, hz] using h2

theorem inner_zero_rows {M : List MapRow} {r : LinkR} {aCols : Option Nat} {t : Nat} {I1 : List Nat} (is : List Int) :
    ∀ {st st' : LinkState}, (∀ i ∈ is, zeroCond r t i = true) → linkInner M r aCols t I1 st is = .ok st' →
      st'.rows = st.rows := by
  induction is with
  | nil => intro st st' _ h; simp only [linkInner] at h; cases h; rfl
  | cons i is ih =>
    intro st st' hz h
    simp only [linkInner] at h
    cases hs : linkStep M r aCols t I1 st i with
    | error e => rw [hs] at h; cases h
    | ok st1 =>
      rw [hs] at h
      have h2 := ih (fun j hj => hz j (by simp [hj])) h
      have hzi := hz i (by simp)
      rcases linkStep_ok hs with ⟨_, rfl⟩ | ⟨hz', _, _⟩ | ⟨hz', _⟩
      · simpa using h2
      · rw [hzi] at hz'; cases hz'
      · rw [hzi] at hz'; cases hz'

theorem inner_rows {M : List MapRow} {r : LinkR} {aCols : Option Nat} {t : Nat} {I1 : List Nat} (is : List Int) :
    ∀ {st st' : LinkState}, (∀ i ∈ is, zeroCond r t i = false) → linkInner M r aCols t I1 st is = .ok st' →
      st'.u = st.u ∧ st'.rows = st.rows ++ rowsOf M r st.u t I1 is := by
  induction is with
  | nil => intro st st' _ h; simp only [linkInner] at h; cases h; simp [rowsOf]
  | cons i is ih =>
    intro st st' hz h
    simp only [linkInner] at h
    cases hs : linkStep M r aCols t I1 st i with
    | error e => rw [hs] at h; cases h
    | ok st1 =>
      rw [hs] at h
      have h2 := ih (fun j hj => hz j (by simp [hj])) h
      have hzi := hz i (by simp)
      rcases linkStep_ok hs with ⟨hz', _⟩ | ⟨_, hw, rfl⟩ | ⟨_, hw, k, cs, _, _, _, _, hcs, rfl⟩
      · rw [hzi] at hz'; cases hz'
      · refine ⟨h2.1, ?_⟩
        rw [h2.2]
        simp only [rowsOf, List.filterMap_cons, hzi, hw]
        simp
      · refine ⟨h2.1, ?_⟩
        rw [h2.2]
        simp only [rowsOf, List.filterMap_cons, hzi, hw, hcs]
        simp

/-- does the inner loop at step `t` set the bound to zero? -/
def zeroT (r : LinkR) (t : Nat) : Bool := r.offsets.any (zeroCond r t)

/-- closed form of the inner loop over `np.arange(-time_back, time_forward + 1)`: the offsets that zero the bound come first,
    so every row of step `t` is generated with the bounds as they are AFTER the inner loop -/
theorem inner_closed {M : List MapRow} {r : LinkR} {aCols : Option Nat} {t : Nat} {I1 : List Nat} {st st' : LinkState}
    (h : linkInner M r aCols t I1 st r.offsets = .ok st') :
    st'.u = (if zeroT r t then zeroAt I1 st.u else st.u) ∧
      st'.rows = st.rows ++ rowsOf M r st'.u t I1 r.offsets := by
  refine ⟨inner_u r.offsets h, ?_⟩
  by_cases hab : r.tf + 1 < - r.tb
  · have he : r.offsets = [] := by
      unfold LinkR.offsets intRange
      have : (r.tf + 1 - -r.tb).toNat = 0 := by omega
      rw [this]; rfl
    rw [he] at h ⊢
    simp only [linkInner] at h
    cases h
    simp [rowsOf]
  · -- split the offsets at the first one that does not zero the bound
    obtain ⟨m, hm1, hm2, hlo, hhi⟩ := exists_split (- r.tb) (r.tf + 1) (- r.ar - (t : Int)) (by omega)
    have hsplit : r.offsets = intRange (- r.tb) m ++ intRange m (r.tf + 1) := intRange_split _ _ _ hm1 hm2
    have hzs : ∀ i ∈ intRange (- r.tb) m, zeroCond r t i = true := by
      intro i hi
      rw [mem_intRange] at hi
      simp only [zeroCond, decide_eq_true_eq]
      have := hlo i hi.1 hi.2
      omega
    have hrs : ∀ i ∈ intRange m (r.tf + 1), zeroCond r t i = false := by
      intro i hi
      rw [mem_intRange] at hi
      simp only [zeroCond, decide_eq_false_iff_not]
      have := hhi i hi.1 hi.2
      omega
    rw [hsplit, linkInner_append] at h
    cases h1 : linkInner M r aCols t I1 st (intRange (- r.tb) m) with
    | error e => rw [h1] at h; cases h
    | ok st1 =>
      rw [h1] at h
      simp only at h
      have e1 := inner_zero_rows _ hzs h1
      have e2 := inner_rows _ hrs h
      rw [hsplit, rowsOf_append, rowsOf_zero _ _ _ _ _ _ hzs, List.nil_append, e2.2, e1, e2.1]

/-! ### the outer loop: closed form -/

/-- labels of variable 1 at step `t` -/
def vars1 (M : List MapRow) (r : LinkR) (t : Nat) : List Nat := findVars M r.vn1 r.nd1 t

/-- what step `t` does to the upper bounds -/
def uStep (M : List MapRow) (r : LinkR) (u : List Rat) (t : Nat) : List Rat :=
  if zeroT r t then zeroAt (vars1 M r t) u else u

/-- the rows the loop over the steps `ts` adds, starting with the bounds `u` -/
def newRows (M : List MapRow) (r : LinkR) : List Rat → List Nat → List Row
  | _, [] => []
  | u, t :: ts =>
    rowsOf M r (uStep M r u t) t (vars1 M r t) r.offsets ++ newRows M r (uStep M r u t) ts

theorem outer_closed {M : List MapRow} {r : LinkR} {aCols : Option Nat} (ts : List Nat) :
    ∀ {st st' : LinkState}, linkOuter M r aCols st ts = .ok st' →
      st'.u = ts.foldl (uStep M r) st.u ∧ st'.rows = st.rows ++ newRows M r st.u ts ∧
        ∀ t ∈ ts, vars1 M r t ≠ [] := by
  induction ts with
  | nil => intro st st' h; simp only [linkOuter] at h; cases h; simp [newRows]
  | cons t ts ih =>
    intro st st' h
    simp only [linkOuter] at h
    split at h
    · cases h
    · rename_i hne
      cases hi : linkInner M r aCols t (findVars M r.vn1 r.nd1 t) st r.offsets with
      | error e => rw [hi] at h; cases h
      | ok st1 =>
        rw [hi] at h
        simp only at h
        obtain ⟨e1, e2⟩ := inner_closed hi
        obtain ⟨f1, f2, f3⟩ := ih h
        have hu : st1.u = uStep M r st.u t := by rw [e1]; rfl
        refine ⟨?_, ?_, ?_⟩
        · rw [f1, List.foldl_cons, hu]
        · rw [f2, e2, newRows, hu, List.append_assoc]; rfl
        · intro t' ht'
          rcases List.mem_cons.1 ht' with rfl | h'
          · intro he; apply hne; simp [vars1] at he; simp [he]
          · exact f3 t' h'

/-- the linked problem in closed form -/
theorem buildLinked_ok {S L : AssetProblem} {r : LinkR} {aCols : Option Nat} (h : buildLinked S r aCols = .ok L) :
    L = { S with u := (List.range r.T).foldl (uStep S.mapping r) S.u,
                 rows := S.rows ++ newRows S.mapping r S.u (List.range r.T) } ∧
      ∀ t < r.T, vars1 S.mapping r t ≠ [] := by
  unfold buildLinked at h
  cases ho : linkOuter S.mapping r aCols { u := S.u, rows := [] } (List.range r.T) with
  | error e => rw [ho] at h; cases h
  | ok st =>
    rw [ho] at h
    simp only at h
    obtain ⟨f1, f2, f3⟩ := outer_closed _ ho
    cases h
    refine ⟨?_, fun t ht => f3 t (List.mem_range.2 ht)⟩
    simp only at f1 f2
    rw [f1, f2, List.nil_append]

/-! ### the bounds after the loop -/

/-- is variable `j` set to zero by one of the steps `ts`? -/
def zeroedIn (M : List MapRow) (r : LinkR) (ts : List Nat) (j : Nat) : Bool :=
  ts.any fun t => zeroT r t && (vars1 M r t).contains j

theorem uStep_length (M : List MapRow) (r : LinkR) (u : List Rat) (t : Nat) : (uStep M r u t).length = u.length := by
  unfold uStep; split <;> simp [zeroAt_length]

theorem foldl_uStep_length (M : List MapRow) (r : LinkR) (ts : List Nat) :
    ∀ u : List Rat, (ts.foldl (uStep M r) u).length = u.length := by
  induction ts with
  | nil => intro u; rfl
  | cons t ts ih => intro u; rw [List.foldl_cons, ih, uStep_length]

theorem uStep_getD (M : List MapRow) (r : LinkR) (u : List Rat) (t j : Nat) :
    (uStep M r u t).getD j 0 = if zeroT r t && (vars1 M r t).contains j then 0 else u.getD j 0 := by
  unfold uStep
  by_cases hz : zeroT r t = true
  · simp only [hz, if_true, Bool.true_and]
    exact zeroAt_getD _ _ _
  · simp [hz]

theorem zeroedIn_cons (M : List MapRow) (r : LinkR) (t : Nat) (ts : List Nat) (j : Nat) :
    zeroedIn M r (t :: ts) j = (zeroT r t && (vars1 M r t).contains j || zeroedIn M r ts j) := rfl

theorem foldl_uStep_getD (M : List MapRow) (r : LinkR) (j : Nat) (ts : List Nat) :
    ∀ u : List Rat, (ts.foldl (uStep M r) u).getD j 0 = if zeroedIn M r ts j then 0 else u.getD j 0 := by
  induction ts with
  | nil => intro u; simp [zeroedIn]
  | cons t ts ih =>
    intro u
    rw [List.foldl_cons, ih, uStep_getD, zeroedIn_cons]
    cases zeroedIn M r ts j <;> cases (zeroT r t && (vars1 M r t).contains j) <;> simp

theorem zeroedIn_iff (M : List MapRow) (r : LinkR) (ts : List Nat) (j : Nat) :
    zeroedIn M r ts j = true ↔ ∃ t ∈ ts, zeroT r t = true ∧ j ∈ vars1 M r t := by
  simp [zeroedIn, List.any_eq_true]

theorem zeroedIn_append_left (M : List MapRow) (r : LinkR) (xs ys : List Nat) (j : Nat)
    (h : zeroedIn M r xs j = true) : zeroedIn M r (xs ++ ys) j = true := by
  rw [zeroedIn_iff] at h ⊢
  obtain ⟨t, ht, h1, h2⟩ := h
  exact ⟨t, List.mem_append_left _ ht, h1, h2⟩

theorem zeroT_iff (r : LinkR) (t : Nat) : zeroT r t = true ↔ ∃ i ∈ r.offsets, i + (t : Int) < - r.ar := by
  simp [zeroT, List.any_eq_true, zeroCond]

theorem mem_offsets (r : LinkR) (i : Int) : i ∈ r.offsets ↔ - r.tb ≤ i ∧ i ≤ r.tf := by
  unfold LinkR.offsets
  rw [mem_intRange]
  omega

/-! ### the new rows -/

theorem mem_rowsOf {M : List MapRow} {r : LinkR} {u : List Rat} {t : Nat} {I1 : List Nat} {is : List Int} {row : Row} :
    row ∈ rowsOf M r u t I1 is ↔ ∃ i ∈ is, zeroCond r t i = false ∧ inWindow r t i = true ∧
      ∃ cs, linkCoeffs u I1 (vars2 M r t i) = some cs ∧ row = mkRow cs := by
  unfold rowsOf
  rw [List.mem_filterMap]
  constructor
  · rintro ⟨i, hi, h⟩
    by_cases hc : (!zeroCond r t i && inWindow r t i) = true
    · rw [if_pos hc] at h
      simp only [Bool.and_eq_true, Bool.not_eq_true'] at hc
      cases hl : linkCoeffs u I1 (vars2 M r t i) with
      | none => rw [hl] at h; cases h
      | some cs =>
        rw [hl] at h
        simp only [Option.map_some, Option.some.injEq] at h
        exact ⟨i, hi, hc.1, hc.2, cs, hl, h.symm⟩
    · rw [if_neg hc] at h; cases h
  · rintro ⟨i, hi, hz, hw, cs, hcs, rfl⟩
    refine ⟨i, hi, ?_⟩
    simp [hz, hw, hcs]

theorem mem_newRows {M : List MapRow} {r : LinkR} {row : Row} (ts : List Nat) :
    ∀ u : List Rat, row ∈ newRows M r u ts ↔ ∃ pre t post, ts = pre ++ t :: post ∧
      row ∈ rowsOf M r ((pre ++ [t]).foldl (uStep M r) u) t (vars1 M r t) r.offsets := by
  induction ts with
  | nil => intro u; simp [newRows]
  | cons t ts ih =>
    intro u
    simp only [newRows, List.mem_append]
    constructor
    · rintro (h | h)
      · exact ⟨[], t, ts, rfl, by simpa using h⟩
      · obtain ⟨pre, t', post, rfl, h'⟩ := (ih _).1 h
        exact ⟨t :: pre, t', post, rfl, by simpa using h'⟩
    · rintro ⟨pre, t', post, he, h⟩
      cases pre with
      | nil =>
        simp only [List.nil_append, List.cons.injEq] at he
        obtain ⟨rfl, rfl⟩ := he
        left; simpa using h
      | cons p pre =>
        simp only [List.cons_append, List.cons.injEq] at he
        obtain ⟨rfl, rfl⟩ := he
        right
        exact (ih _).2 ⟨pre, t', post, rfl, by simpa using h⟩

/-! ### look-ups and coefficients -/

theorem mem_findVars {M : List MapRow} {vn : String} {nd : Option String} {t j : Nat} :
    j ∈ findVars M vn nd t ↔ ∃ m ∈ M, m.var = j ∧ m.varName = vn ∧ m.step = t ∧ m.node = nd := by
  unfold findVars
  simp only [List.mem_map, List.mem_filter, Bool.and_eq_true, beq_iff_eq]
  constructor
  · rintro ⟨m, ⟨hm, ⟨h1, h2⟩, h3⟩, rfl⟩
    exact ⟨m, hm, rfl, h1, h2, h3⟩
  · rintro ⟨m, hm, rfl, h1, h2, h3⟩
    exact ⟨m, ⟨hm, ⟨h1, h2⟩, h3⟩, rfl⟩

theorem mem_setCoeff {cs : List (Nat × Rat)} {j : Nat} {v : Rat} {p : Nat × Rat} (h : p ∈ setCoeff cs j v) :
    p ∈ cs ∨ p.1 = j := by
  unfold setCoeff at h
  rcases List.mem_append.1 h with h | h
  · exact Or.inl (List.mem_filter.1 h).1
  · right; simp at h; rw [h]

theorem mem_foldl_setCoeff {α : Type} (f : α → Nat) (g : α → Rat) (l : List α) {p : Nat × Rat} :
    ∀ cs0 : List (Nat × Rat), p ∈ l.foldl (fun cs x => setCoeff cs (f x) (g x)) cs0 → p ∈ cs0 ∨ ∃ x ∈ l, p.1 = f x := by
  induction l with
  | nil => intro cs0 h; exact Or.inl h
  | cons y l ih =>
    intro cs0 h
    rw [List.foldl_cons] at h
    rcases ih _ h with h | ⟨x, hx, e⟩
    · rcases mem_setCoeff h with h | h
      · exact Or.inl h
      · exact Or.inr ⟨y, by simp, h⟩
    · exact Or.inr ⟨x, by simp [hx], e⟩

theorem linkCoeffs_idx {u : List Rat} {I1 I2 : List Nat} {cs : List (Nat × Rat)} (h : linkCoeffs u I1 I2 = some cs) :
    ∀ p ∈ cs, p.1 ∈ I1 ∨ p.1 ∈ I2 := by
  intro p hp
  have ones : ∀ q ∈ I1.foldl (fun cs d => setCoeff cs d 1) [], q.1 ∈ I1 := by
    intro q hq
    rcases mem_foldl_setCoeff (fun d => d) (fun _ => (1 : Rat)) I1 [] hq with h | ⟨x, hx, e⟩
    · cases h
    · rw [e]; exact hx
  unfold linkCoeffs at h
  simp only at h
  split at h
  · cases h
    rcases mem_foldl_setCoeff (fun j => j) (fun _ => - u.getD (I1.headD 0) 0) I2 _ hp with h | ⟨x, hx, e⟩
    · exact Or.inl (ones p h)
    · right; rw [e]; exact hx
  · split at h
    · cases h
      rcases mem_foldl_setCoeff (fun q : Nat × Nat => q.1) (fun q => - u.getD q.2 0) (I2.zip I1) _ hp with h | ⟨x, hx, e⟩
      · exact Or.inl (ones p h)
      · right; rw [e]; exact (List.of_mem_zip hx).1
    · cases h

theorem linkCoeffs_single (u : List Rat) (a b : Nat) (hab : a ≠ b) :
    linkCoeffs u [a] [b] = some [(a, 1), (b, - u.getD a 0)] := by
  simp [linkCoeffs, setCoeff, hab]

theorem sat_mkRow_pair (a b : Nat) (c : Rat) (x : Vec) : (mkRow [(a, 1), (b, - c)]).Sat x ↔ x a ≤ c * x b := by
  simp only [Row.Sat, mkRow, Row.eval, List.map_cons, List.map_nil, List.sum_cons, List.sum_nil]
  constructor <;> intro h <;> grind

/-! ### invariants of the loop -/

theorem inner_inv {M : List MapRow} {r : LinkR} {aCols : Option Nat} {t : Nat} {I1 : List Nat} (P : LinkState → Prop)
    (hstep : ∀ st i st', P st → linkStep M r aCols t I1 st i = .ok st' → P st') (is : List Int) :
    ∀ {st st' : LinkState}, P st → linkInner M r aCols t I1 st is = .ok st' → P st' := by
  induction is with
  | nil => intro st st' hp h; simp only [linkInner] at h; cases h; exact hp
  | cons i is ih =>
    intro st st' hp h
    simp only [linkInner] at h
    cases hs : linkStep M r aCols t I1 st i with
    | error e => rw [hs] at h; cases h
    | ok st1 => rw [hs] at h; exact ih (hstep _ _ _ hp hs) h

theorem outer_inv {M : List MapRow} {r : LinkR} {aCols : Option Nat} (P : LinkState → Prop)
    (hstep : ∀ t I1 st i st', P st → linkStep M r aCols t I1 st i = .ok st' → P st') (ts : List Nat) :
    ∀ {st st' : LinkState}, P st → linkOuter M r aCols st ts = .ok st' → P st' := by
  induction ts with
  | nil => intro st st' hp h; simp only [linkOuter] at h; cases h; exact hp
  | cons t ts ih =>
    intro st st' hp h
    simp only [linkOuter] at h
    split at h
    · cases h
    · cases hi : linkInner M r aCols t (findVars M r.vn1 r.nd1 t) st r.offsets with
      | error e => rw [hi] at h; cases h
      | ok st1 =>
        rw [hi] at h
        exact ih (inner_inv P (hstep t _) _ hp hi) h

/-- every new row stays inside the columns of the matrix -/
theorem newRows_cols {S L : AssetProblem} {r : LinkR} {aCols : Option Nat} (h : buildLinked S r aCols = .ok L) :
    ∀ row ∈ newRows S.mapping r S.u (List.range r.T), ∀ p ∈ row.coeffs, ∃ k, aCols = some k ∧ p.1 < k := by
  unfold buildLinked at h
  cases ho : linkOuter S.mapping r aCols { u := S.u, rows := [] } (List.range r.T) with
  | error e => rw [ho] at h; cases h
  | ok st =>
    obtain ⟨_, f2, _⟩ := outer_closed _ ho
    simp only [List.nil_append] at f2
    rw [← f2]
    refine outer_inv (M := S.mapping) (r := r) (aCols := aCols)
      (fun st => ∀ row ∈ st.rows, ∀ p ∈ row.coeffs, ∃ k, aCols = some k ∧ p.1 < k) ?_ _ ?_ ho
    · intro t I1 st i st' hp hs
      rcases linkStep_ok hs with ⟨_, rfl⟩ | ⟨_, _, rfl⟩ | ⟨_, _, k, cs, hk, h1, h2, _, hcs, rfl⟩
      · exact hp
      · exact hp
      · intro row hrow p hpm
        rcases List.mem_append.1 hrow with hr | hr
        · exact hp row hr p hpm
        · simp only [List.mem_singleton] at hr
          subst hr
          refine ⟨k, hk, ?_⟩
          rcases linkCoeffs_idx hcs p hpm with h | h
          · exact h1 _ h
          · exact h2 _ h
    · intro row hrow; cases hrow

/-! ### success under unique look-ups -/

theorem linkStep_succeeds {M : List MapRow} {r : LinkR} {k : Nat} {t : Nat} {a : Nat} {st : LinkState} {i : Int}
    (ha : a < k) (hau : a < st.u.length) (hb : ∀ s < r.T, ∃ b, findVars M r.vn2 r.nd2 s = [b] ∧ b < k) :
    ∃ st', linkStep M r (some k) t [a] st i = .ok st' ∧ st'.u.length = st.u.length := by
  unfold linkStep
  by_cases hz : i + (t : Int) < - r.ar
  · simp only [hz, if_true]
    refine ⟨_, by simp [hau]; rfl, by simp [zeroAt_length]⟩
  · simp only [hz, if_false]
    by_cases hw : i + (t : Int) < 0 ∨ (r.T : Int) ≤ i + (t : Int)
    · simp only [hw, if_true]
      exact ⟨st, rfl, rfl⟩
    · simp only [hw, if_false]
      obtain ⟨b, hb1, hb2⟩ := hb (i + (t : Int)).toNat (by omega)
      simp only [hb1]
      refine ⟨{ st with rows := st.rows ++ [mkRow (((fun cs j => setCoeff cs j (- st.u.getD a 0)) (setCoeff [] a 1)) b)] }, ?_, rfl⟩
      simp [ha, hau, hb2, linkCoeffs, mkRow]

theorem inner_succeeds {M : List MapRow} {r : LinkR} {k : Nat} {t : Nat} {a : Nat} (ha : a < k)
    (hb : ∀ s < r.T, ∃ b, findVars M r.vn2 r.nd2 s = [b] ∧ b < k) (is : List Int) :
    ∀ st : LinkState, a < st.u.length → ∃ st', linkInner M r (some k) t [a] st is = .ok st' ∧ st'.u.length = st.u.length := by
  induction is with
  | nil => intro st _; exact ⟨st, rfl, rfl⟩
  | cons i is ih =>
    intro st hau
    obtain ⟨st1, h1, l1⟩ := linkStep_succeeds (t := t) (i := i) ha hau hb
    obtain ⟨st2, h2, l2⟩ := ih st1 (by omega)
    refine ⟨st2, ?_, by omega⟩
    simp only [linkInner, h1, h2]

theorem outer_succeeds {M : List MapRow} {r : LinkR} {k n : Nat}
    (ha : ∀ t < r.T, ∃ a, findVars M r.vn1 r.nd1 t = [a] ∧ a < k ∧ a < n)
    (hb : ∀ s < r.T, ∃ b, findVars M r.vn2 r.nd2 s = [b] ∧ b < k) (ts : List Nat) (hts : ∀ t ∈ ts, t < r.T) :
    ∀ st : LinkState, st.u.length = n → ∃ st', linkOuter M r (some k) st ts = .ok st' := by
  induction ts with
  | nil => intro st _; exact ⟨st, rfl⟩
  | cons t ts ih =>
    intro st hn
    obtain ⟨a, ha1, ha2, ha3⟩ := ha t (hts t (by simp))
    obtain ⟨st1, h1, l1⟩ := inner_succeeds (t := t) ha2 hb r.offsets st (by omega)
    obtain ⟨st2, h2⟩ := ih (fun t' ht' => hts t' (by simp [ht'])) st1 (by omega)
    refine ⟨st2, ?_⟩
    simp only [linkOuter, ha1]
    simp [h1, h2]

/-! ### conversion of the durations -/

theorem convertInt_rescale {k : Rat} {u u' : Nat} (hu : (u' : Rat) * k = (u : Rat)) (v : Rat) (s : Nat) :
    convertInt (v * k) u' s = convertInt v u s := by
  unfold convertInt
  have h : v * k * (u' : Rat) = v * (u : Rat) := by rw [← hu]; grind
  rw [h]

/-- the conversion of the CHP model is this one, cut at zero -/
theorem convertSteps_eq (v : Rat) (u s : Nat) : convertSteps v u s = (convertInt v u s).toNat := rfl

/-- the durations of a link re-expressed in another main time unit (`k` new units per old unit) -/
def rescaleLink (k : Rat) (p : LinkP) : LinkP :=
  { p with timeBack := p.timeBack * k, timeForward := p.timeForward * k, alreadyRunning := p.alreadyRunning * k }

theorem resolveLink_rescale {k : Rat} {u u' : Nat} (hu : (u' : Rat) * k = (u : Rat)) (name : String) (ext : List String)
    (p : LinkP) (s T : Nat) : resolveLink name ext (rescaleLink k p) u' s T = resolveLink name ext p u s T := by
  simp only [resolveLink, rescaleLink, convertInt_rescale hu]

/-! ### what the result says (unique look-ups) -/

section meaning
variable {S : AssetProblem} {r : LinkR} {a b : Nat → Nat}

/-- the bounds after the loop -/
def finalU (S : AssetProblem) (r : LinkR) : List Rat := (List.range r.T).foldl (uStep S.mapping r) S.u

theorem finalU_getD (S : AssetProblem) (r : LinkR) (j : Nat) :
    (finalU S r).getD j 0 = if zeroedIn S.mapping r (List.range r.T) j then 0 else S.u.getD j 0 :=
  foldl_uStep_getD _ _ _ _ _

theorem zeroed_of_zeroT (ha : ∀ t < r.T, findVars S.mapping r.vn1 r.nd1 t = [a t]) {t : Nat} (ht : t < r.T)
    (hz : zeroT r t = true) : zeroedIn S.mapping r (List.range r.T) (a t) = true := by
  rw [zeroedIn_iff]
  exact ⟨t, List.mem_range.2 ht, hz, by simp [vars1, ha t ht]⟩

theorem zeroed_elim (ha : ∀ t < r.T, findVars S.mapping r.vn1 r.nd1 t = [a t]) {j : Nat}
    (hz : zeroedIn S.mapping r (List.range r.T) j = true) : ∃ t < r.T, zeroT r t = true ∧ j = a t := by
  rw [zeroedIn_iff] at hz
  obtain ⟨t, ht, h1, h2⟩ := hz
  have ht' := List.mem_range.1 ht
  refine ⟨t, ht', h1, ?_⟩
  simpa [vars1, ha t ht'] using h2

/-- bounds of the linked problem = bounds of the structured problem and `x(a_t) = 0` at the zeroed steps -/
theorem bounds_iff (ha : ∀ t < r.T, findVars S.mapping r.vn1 r.nd1 t = [a t]) (hn : ∀ t < r.T, a t < S.l.length)
    (hl : ∀ t < r.T, 0 ≤ S.l.getD (a t) 0) (hu : ∀ t < r.T, 0 ≤ S.u.getD (a t) 0) (x : Vec) :
    InBounds S.l (finalU S r) x ↔ InBounds S.l S.u x ∧ ∀ t < r.T, zeroT r t = true → x (a t) = 0 := by
  constructor
  · intro h
    refine ⟨?_, ?_⟩
    · intro j hj
      have hb := h j hj
      refine ⟨hb.1, ?_⟩
      rw [finalU_getD] at hb
      by_cases hz : zeroedIn S.mapping r (List.range r.T) j = true
      · obtain ⟨t, ht, _, rfl⟩ := zeroed_elim ha hz
        rw [if_pos hz] at hb
        have := hu t ht
        grind
      · rw [if_neg hz] at hb; exact hb.2
    · intro t ht hz
      have hb := h (a t) (hn t ht)
      rw [finalU_getD, if_pos (zeroed_of_zeroT ha ht hz)] at hb
      have := hl t ht
      grind
  · rintro ⟨h, h0⟩ j hj
    have hb := h j hj
    refine ⟨hb.1, ?_⟩
    rw [finalU_getD]
    by_cases hz : zeroedIn S.mapping r (List.range r.T) j = true
    · obtain ⟨t, ht, hzt, rfl⟩ := zeroed_elim ha hz
      rw [if_pos hz, h0 t ht hzt]
      exact Rat.le_refl
    · rw [if_neg hz]; exact hb.2

/-- a row of the closed form, for unique look-ups -/
theorem newRow_form (ha : ∀ t < r.T, findVars S.mapping r.vn1 r.nd1 t = [a t])
    (hb : ∀ s < r.T, findVars S.mapping r.vn2 r.nd2 s = [b s]) (hab : ∀ t < r.T, ∀ s < r.T, a t ≠ b s) {row : Row} :
    row ∈ newRows S.mapping r S.u (List.range r.T) ↔
      ∃ (pre : List Nat) (t : Nat) (post : List Nat), List.range r.T = pre ++ t :: post ∧ ∃ i ∈ r.offsets, ¬ (i + (t : Int) < - r.ar) ∧ 0 ≤ i + (t : Int) ∧
        i + (t : Int) < (r.T : Int) ∧
        row = mkRow [(a t, 1), (b (i + (t : Int)).toNat, - ((pre ++ [t]).foldl (uStep S.mapping r) S.u).getD (a t) 0)] := by
  rw [mem_newRows]
  constructor
  · rintro ⟨pre, t, post, he, hrow⟩
    have ht : t < r.T := List.mem_range.1 (by rw [he]; simp)
    obtain ⟨i, hi, hz, hw, cs, hcs, rfl⟩ := mem_rowsOf.1 hrow
    simp only [zeroCond, decide_eq_false_iff_not] at hz
    simp only [inWindow, Bool.and_eq_true, decide_eq_true_eq] at hw
    have hs : (i + (t : Int)).toNat < r.T := by omega
    rw [vars1, ha t ht, vars2, hb _ hs, linkCoeffs_single _ _ _ (hab t ht _ hs)] at hcs
    cases hcs
    exact ⟨pre, t, post, he, i, hi, hz, hw.1, hw.2, rfl⟩
  · rintro ⟨pre, t, post, he, i, hi, hz, hw1, hw2, rfl⟩
    have ht : t < r.T := List.mem_range.1 (by rw [he]; simp)
    have hs : (i + (t : Int)).toNat < r.T := by omega
    refine ⟨pre, t, post, he, mem_rowsOf.2 ⟨i, hi, ?_, ?_, _, ?_, rfl⟩⟩
    · simp [zeroCond, hz]
    · simp only [inWindow, Bool.and_eq_true, decide_eq_true_eq]; exact ⟨hw1, hw2⟩
    · rw [vars1, ha t ht, vars2, hb _ hs, linkCoeffs_single _ _ _ (hab t ht _ hs)]

/-- the rows force `x(b_{t+i}) = 1` wherever `x(a_t) > 0` (no hypothesis on the bounds) -/
theorem rows_forward (ha : ∀ t < r.T, findVars S.mapping r.vn1 r.nd1 t = [a t])
    (hb : ∀ s < r.T, findVars S.mapping r.vn2 r.nd2 s = [b s]) (hab : ∀ t < r.T, ∀ s < r.T, a t ≠ b s) (x : Vec)
    (hbin : ∀ s < r.T, x (b s) = 0 ∨ x (b s) = 1)
    (hrows : ∀ row ∈ newRows S.mapping r S.u (List.range r.T), row.Sat x) :
    ∀ t < r.T, ∀ i ∈ r.offsets, ¬ (i + (t : Int) < - r.ar) → 0 ≤ i + (t : Int) → i + (t : Int) < (r.T : Int) →
      0 < x (a t) → x (b (i + (t : Int)).toNat) = 1 := by
  intro t ht i hi hz hw1 hw2 hpos
  obtain ⟨pre, post, he⟩ := List.append_of_mem (List.mem_range.2 ht)
  have hrow := hrows _ ((newRow_form ha hb hab).2 ⟨pre, t, post, he, i, hi, hz, hw1, hw2, rfl⟩)
  rw [sat_mkRow_pair] at hrow
  have hs : (i + (t : Int)).toNat < r.T := by omega
  rcases hbin _ hs with h0 | h1
  · rw [h0] at hrow; grind
  · exact h1

/-- conversely the implication makes the rows hold, for a point inside the structured bounds that vanishes at the zeroed steps -/
theorem rows_backward (ha : ∀ t < r.T, findVars S.mapping r.vn1 r.nd1 t = [a t])
    (hb : ∀ s < r.T, findVars S.mapping r.vn2 r.nd2 s = [b s]) (hab : ∀ t < r.T, ∀ s < r.T, a t ≠ b s)
    (hn : ∀ t < r.T, a t < S.l.length) (hl : ∀ t < r.T, 0 ≤ S.l.getD (a t) 0) (hu : ∀ t < r.T, 0 ≤ S.u.getD (a t) 0)
    (x : Vec) (hbin : ∀ s < r.T, x (b s) = 0 ∨ x (b s) = 1) (hx : InBounds S.l S.u x)
    (h0 : ∀ t < r.T, zeroT r t = true → x (a t) = 0)
    (himp : ∀ t < r.T, ∀ i ∈ r.offsets, ¬ (i + (t : Int) < - r.ar) → 0 ≤ i + (t : Int) → i + (t : Int) < (r.T : Int) →
      0 < x (a t) → x (b (i + (t : Int)).toNat) = 1) :
    ∀ row ∈ newRows S.mapping r S.u (List.range r.T), row.Sat x := by
  intro row hrow
  obtain ⟨pre, t, post, he, i, hi, hz, hw1, hw2, rfl⟩ := (newRow_form ha hb hab).1 hrow
  have ht : t < r.T := List.mem_range.1 (by rw [he]; simp)
  have hs : (i + (t : Int)).toNat < r.T := by omega
  rw [sat_mkRow_pair, foldl_uStep_getD]
  have hbt := hx (a t) (hn t ht)
  have hlt := hl t ht
  have hut := hu t ht
  by_cases hpos : 0 < x (a t)
  · rw [himp t ht i hi hz hw1 hw2 hpos]
    by_cases hzd : zeroedIn S.mapping r (pre ++ [t]) (a t) = true
    · exfalso
      have hz2 : zeroedIn S.mapping r (List.range r.T) (a t) = true := by
        have : List.range r.T = (pre ++ [t]) ++ post := by rw [he]; simp
        rw [this]; exact zeroedIn_append_left _ _ _ _ _ hzd
      obtain ⟨t', ht', hzt', e⟩ := zeroed_elim ha hz2
      have := h0 t' ht' hzt'
      rw [← e] at this
      grind
    · rw [if_neg hzd]; grind
  · have hx0 : x (a t) = 0 := by grind
    rw [hx0]
    rcases hbin _ hs with hb0 | hb1
    · rw [hb0]; grind
    · rw [hb1]
      by_cases hzd : zeroedIn S.mapping r (pre ++ [t]) (a t) = true
      · rw [if_pos hzd]; grind
      · rw [if_neg hzd]; grind

end meaning

end EAO.Linked
