import EAO.Model.Linked
import EAO.Model.CHP
/-!
helper lemmas for the linked asset (`EAO.Model.Linked`): closed form of the two nested loops, what the bounds and the
new rows are, invariants of the loop (column range), success under unique look-ups, conversion of the durations
-/
namespace EAO.Linked
open EAO

/-! ### list plumbing -/

theorem zeroAt_length (I : List Nat) (u : List Rat) : (zeroAt I u).length = u.length := by
  simp [zeroAt]

theorem zeroAt_getD (I : List Nat) (u : List Rat) (j : Nat) :
    (zeroAt I u).getD j 0 = if I.contains j then 0 else u.getD j 0 := by
  unfold zeroAt
  by_cases hj : j < u.length
  · simp [List.getD_eq_getElem?_getD, hj]
  · have : u.length ≤ j := Nat.le_of_not_lt hj
    simp [List.getD_eq_getElem?_getD, this]

theorem ext_getD {u v : List Rat} (hl : u.length = v.length) (h : ∀ j, u.getD j 0 = v.getD j 0) : u = v := by
  apply List.ext_getElem hl
  intro j h1 h2
  have := h j
  simpa [List.getD_eq_getElem?_getD, h1, h2] using this

theorem zeroAt_idem (I : List Nat) (u : List Rat) : zeroAt I (zeroAt I u) = zeroAt I u := by
  apply ext_getD (by simp [zeroAt_length])
  intro j
  rw [zeroAt_getD I (zeroAt I u) j, zeroAt_getD I u j]
  by_cases h : j ∈ I <;> simp [h]

theorem mem_intRange (a b i : Int) : i ∈ intRange a b ↔ a ≤ i ∧ i < b := by
  unfold intRange
  simp only [List.mem_map, List.mem_range]
  constructor
  · rintro ⟨k, hk, rfl⟩
    omega
  · rintro ⟨h1, h2⟩
    exact ⟨(i - a).toNat, by omega, by omega⟩

theorem intRange_split (a m b : Int) (h1 : a ≤ m) (h2 : m ≤ b) : intRange a b = intRange a m ++ intRange m b := by
  unfold intRange
  have hlen : (b - a).toNat = (m - a).toNat + (b - m).toNat := by omega
  rw [hlen, List.range_add, List.map_append, List.map_map]
  congr 1
  apply List.map_congr_left
  intro k _
  simp only [Function.comp]
  omega

end EAO.Linked
