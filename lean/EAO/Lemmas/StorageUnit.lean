import EAO.Model.Storage
import EAO.Model.Contract
import EAO.Lemmas.Storage
/-! helper lemmas for C12 on the storage builder: change of the main time unit -/
namespace EAO
open Storage

/-- the storage's parameters re-expressed for a main time unit that is `k` times shorter (step lengths are
    multiplied by `k`): rates per time — `cap_in`, `cap_out`, `inflow`, `cost_store` — are multiplied by `1/k`,
    the maximum holding duration by `k`; size, levels, efficiency, costs per volume, price key, nodes, options
    and block positions are untouched -/
def StorageP.rescale (k : Rat) (p : StorageP) : StorageP :=
  { p with capIn := p.capIn * (1 / k), capOut := p.capOut * (1 / k), inflow := p.inflow * (1 / k),
           costStore := p.costStore * (1 / k), maxStoreDuration := p.maxStoreDuration.map (· * k) }

theorem le_of_mul_le_mul_pos (a b k : Rat) (hk : 0 < k) (h : a * k ≤ b * k) : a ≤ b := by
  have h1 : k * k⁻¹ = 1 := Rat.mul_inv_cancel k (by grind)
  have h2 : 0 ≤ k⁻¹ := by
    have := Rat.inv_pos.mpr hk
    grind
  have h3 := Rat.mul_le_mul_of_nonneg_right h h2
  have ea : a * k * k⁻¹ = a := by rw [Rat.mul_assoc, h1, Rat.mul_one]
  have eb : b * k * k⁻¹ = b := by rw [Rat.mul_assoc, h1, Rat.mul_one]
  rw [ea, eb] at h3; exact h3

theorem mul_le_mul_pos_iff (a b k : Rat) (hk : 0 < k) : a * k ≤ b * k ↔ a ≤ b :=
  ⟨le_of_mul_le_mul_pos a b k hk, fun h => Rat.mul_le_mul_of_nonneg_right h (by grind)⟩

theorem one_div_mul_self (k : Rat) (hk : 0 < k) : 1 / k * k = 1 := Rat.div_mul_cancel (by grind)

theorem sumTo_mul (f : Nat → Rat) (k : Rat) (m : Nat) : sumTo (fun j => f j * k) m = sumTo f m * k := by
  induction m with
  | zero => simp [sumTo]
  | succ m ih => simp only [sumTo_succ, ih]; grind

theorem dtAt_scaleDt (k : Rat) (g : Grid) (i : Nat) : dtAt (g.scaleDt k) i = dtAt g i * k := by
  unfold dtAt Grid.scaleDt
  simp only [List.getD_eq_getElem?_getD, List.getElem?_map]
  cases g.dt[i]? <;> simp

section
variable {k : Rat} (hk : 0 < k) (p : StorageP) (g : Grid)
include hk

theorem cp_rescale : cp (p.rescale k) (g.scaleDt k) = cp p g := by
  funext i
  have := one_div_mul_self k hk
  simp only [cp, dtAt_scaleDt, StorageP.rescale]; grind

theorem ct_rescale : ct (p.rescale k) (g.scaleDt k) = ct p g := by
  funext i
  have := one_div_mul_self k hk
  simp only [ct, dtAt_scaleDt, StorageP.rescale]; grind

theorem infl_rescale : infl (p.rescale k) (g.scaleDt k) = infl p g := by
  funext i
  have := one_div_mul_self k hk
  simp only [infl, dtAt_scaleDt, StorageP.rescale]; grind

theorem cumInfl_rescale : cumInfl (p.rescale k) (g.scaleDt k) = cumInfl p g := by
  funext m
  unfold cumInfl
  rw [infl_rescale hk]

theorem storeTail_rescale (n : Nat) : storeTail (p.rescale k) (g.scaleDt k) n = storeTail p g n := by
  have h1 := one_div_mul_self k hk
  unfold storeTail
  have hz : ((p.rescale k).costStore = 0) ↔ (p.costStore = 0) := by
    simp only [StorageP.rescale]
    constructor
    · intro h
      have : p.costStore * (1 / k) * k = 0 := by rw [h]; grind
      grind
    · intro h; rw [h]; grind
  by_cases hc : p.costStore = 0
  · rw [if_pos hc, if_pos (hz.mpr hc)]
  · rw [if_neg hc, if_neg (fun h => hc (hz.mp h))]
    congr 1
    apply List.map_congr_left
    intro i _
    have : Storage.dfAt (g.scaleDt k) i = Storage.dfAt g i := rfl
    rw [dtAt_scaleDt, this]
    simp only [StorageP.rescale]; grind

omit hk in
theorem nVars_rescale (n : Nat) : nVars (p.rescale k) n = nVars p n := by
  unfold nVars
  have : (p.rescale k).maxStoreDuration.isSome = p.maxStoreDuration.isSome := by
    simp [StorageP.rescale]
  rw [this]; rfl

theorem costVec_rescale (n : Nat) (pr : Nat → Rat) :
    costVec (p.rescale k) (g.scaleDt k) n pr = costVec p g n pr := by
  unfold costVec
  rw [storeTail_rescale hk, nVars_rescale]
  rfl

theorem lowerVec_rescale (n : Nat) : lowerVec (p.rescale k) (g.scaleDt k) n = lowerVec p g n := by
  unfold lowerVec
  rw [cp_rescale hk, nVars_rescale]
  rfl

theorem upperVec_rescale (n : Nat) : upperVec (p.rescale k) (g.scaleDt k) n = upperVec p g n := by
  unfold upperVec
  rw [ct_rescale hk, nVars_rescale]
  rfl

theorem upRhs_rescale (a e i : Nat) : upRhs (p.rescale k) (g.scaleDt k) a e i = upRhs p g a e i := by
  unfold upRhs blockInfl
  rw [cumInfl_rescale hk]
  rfl

theorem loRhs_rescale (a e i : Nat) : loRhs (p.rescale k) (g.scaleDt k) a e i = loRhs p g a e i := by
  unfold loRhs blockInfl
  rw [cumInfl_rescale hk]
  rfl

theorem upperRow_rescale (n a e i : Nat) :
    upperRow (p.rescale k) (g.scaleDt k) n a e i = upperRow p g n a e i := by
  unfold upperRow
  rw [upRhs_rescale hk]
  cases h : p.maxStoreDuration with
  | none =>
    have : (p.rescale k).maxStoreDuration = none := by simp [StorageP.rescale, h]
    rw [this]; rfl
  | some d =>
    have : (p.rescale k).maxStoreDuration = some (d * k) := by simp [StorageP.rescale, h]
    rw [this]; rfl

theorem lowerRow_rescale (n a e i : Nat) :
    lowerRow (p.rescale k) (g.scaleDt k) n a e i = lowerRow p g n a e i := by
  unfold lowerRow
  rw [loRhs_rescale hk]
  rfl

theorem upperRows_rescale (n : Nat) (bl : List (Nat × Nat)) :
    upperRows (p.rescale k) (g.scaleDt k) n bl = upperRows p g n bl := by
  unfold upperRows
  simp only [upperRow_rescale hk]

theorem lowerRows_rescale (n : Nat) (bl : List (Nat × Nat)) :
    lowerRows (p.rescale k) (g.scaleDt k) n bl = lowerRows p g n bl := by
  unfold lowerRows
  simp only [lowerRow_rescale hk]

theorem nsRows_rescale (n : Nat) : nsRows (p.rescale k) (g.scaleDt k) n = nsRows p g n := by
  unfold nsRows nsInRow nsOutRow
  rw [cp_rescale hk, ct_rescale hk]
  rfl

omit hk in
theorem cumDtFrom_scaleDt (i j : Nat) : cumDtFrom (g.scaleDt k) i j = cumDtFrom g i j * k := by
  unfold cumDtFrom
  rw [← sumTo_mul]
  apply sumTo_congr
  intro m _
  exact dtAt_scaleDt k g _

theorem holdWindow_rescale (n : Nat) (d : Rat) (i : Nat) :
    holdWindow (g.scaleDt k) n (d * k) i = holdWindow g n d i := by
  unfold holdWindow
  have hdec : ∀ j, decide (cumDtFrom (g.scaleDt k) i j ≤ d * k) = decide (cumDtFrom g i j ≤ d) := by
    intro j
    rw [cumDtFrom_scaleDt]
    exact decide_eq_decide.mpr (mul_le_mul_pos_iff _ _ k hk)
  simp only [hdec]

theorem holdRows_rescale (n : Nat) : holdRows (p.rescale k) (g.scaleDt k) n = holdRows p g n := by
  unfold holdRows
  cases h : p.maxStoreDuration with
  | none =>
    have : (p.rescale k).maxStoreDuration = none := by simp [StorageP.rescale, h]
    rw [this]
  | some d =>
    have : (p.rescale k).maxStoreDuration = some (d * k) := by simp [StorageP.rescale, h]
    rw [this]
    simp only
    congr 1
    funext i
    unfold holdRow
    rw [holdWindow_rescale hk]
    rfl

omit hk in
theorem mapping_rescale (n : Nat) : Storage.mapping (p.rescale k) (g.scaleDt k) n = Storage.mapping p g n := by
  unfold Storage.mapping
  have : (p.rescale k).maxStoreDuration.isSome = p.maxStoreDuration.isSome := by
    simp [StorageP.rescale]
  rw [this]
  rfl

/-- the rescaled storage on the rescaled grid is built to literally the same asset problem -/
theorem buildStorage_rescale (T : Nat) (prices : Prices) :
    buildStorage (p.rescale k) (g.scaleDt k) T prices = buildStorage p g T prices := by
  unfold buildStorage
  have hlen : (g.scaleDt k).dt.length = g.dt.length := by simp [Grid.scaleDt]
  have hpr : priceVec (p.rescale k) (g.scaleDt k) T prices = priceVec p g T prices := rfl
  have hbl : blocksOf (p.rescale k) (g.scaleDt k).T = blocksOf p g.T := rfl
  have hT : (g.scaleDt k).T = g.T := rfl
  rw [hlen, hpr, hbl, hT]
  simp only [costVec_rescale hk, lowerVec_rescale hk, upperVec_rescale hk, upperRows_rescale hk,
    lowerRows_rescale hk, nsRows_rescale hk, holdRows_rescale hk, mapping_rescale]
  rfl

end

end EAO
