import EAO.Model.Slp
import EAO.Model.Assemble
import EAO.Model.Readout
import EAO.Lemmas.Blocks
import Mathlib.Algebra.Order.Field.Rat
import Mathlib.Tactic.Linarith
import Mathlib.Tactic.FieldSimp
import Mathlib.Tactic.Ring
/-! helper lemmas for C17: mean over scenarios, positional masks (`maskSel`, `maskRank`), tiled
bounds, the appended row and cost blocks of `makeSlp` -/
namespace EAO.Slp
open EAO

/-! ### mean over the scenarios `0 … S` -/

/-- mean over the `S+1` scenarios `0 … S` -/
def mean (S : Nat) (f : Nat → Rat) : Rat := ((List.range (S + 1)).map f).sum / ((S : Rat) + 1)

theorem scen_pos (S : Nat) : (0 : Rat) < (S : Rat) + 1 := by positivity

theorem mean_le_mean (S : Nat) (f g : Nat → Rat) (h : ∀ s, s ≤ S → f s ≤ g s) : mean S f ≤ mean S g := by
  unfold mean
  apply div_le_div_of_nonneg_right _ (scen_pos S).le
  apply sum_map_le
  intro s hs
  exact h s (by have := List.mem_range.mp hs; omega)

theorem sum_range_const (n : Nat) (a : Rat) : ((List.range n).map fun _ => a).sum = (n : Rat) * a := by
  induction n with
  | zero => simp
  | succ n ih =>
    rw [List.range_succ, List.map_append, List.sum_append, ih]
    simp only [List.map_cons, List.map_nil, List.sum_cons, List.sum_nil]
    push_cast; ring

theorem mean_const (S : Nat) (a : Rat) : mean S (fun _ => a) = a := by
  unfold mean
  rw [sum_range_const]
  have := scen_pos S
  push_cast
  field_simp

theorem mean_congr (S : Nat) (f g : Nat → Rat) (h : ∀ s, s ≤ S → f s = g s) : mean S f = mean S g := by
  unfold mean
  congr 1
  congr 1
  apply List.map_congr_left
  intro s hs
  exact h s (by have := List.mem_range.mp hs; omega)

theorem sum_map_add_rat {α : Type} (l : List α) (f g : α → Rat) :
    (l.map fun a => f a + g a).sum = (l.map f).sum + (l.map g).sum := by
  induction l with
  | nil => simp
  | cons a as ih => simp only [List.map_cons, List.sum_cons, ih]; ring

theorem mean_add_const (S : Nat) (a : Rat) (f : Nat → Rat) : mean S (fun s => a + f s) = a + mean S f := by
  unfold mean
  rw [sum_map_add_rat, sum_range_const]
  have := scen_pos S
  push_cast
  field_simp

/-- scenario 0 and the samples separately -/
theorem sum_range_succ_shift (S : Nat) (f : Nat → Rat) :
    ((List.range (S + 1)).map f).sum = f 0 + ((List.range S).map fun i => f (i + 1)).sum := by
  rw [List.range_succ_eq_map, List.map_cons, List.sum_cons, List.map_map]
  rfl

/-! ### bounds -/

theorem inBounds_cons (a c : Rat) (L U : List Rat) (w : Vec) :
    InBounds (a :: L) (c :: U) w ↔ (a ≤ w 0 ∧ w 0 ≤ c) ∧ InBounds L U (fun k => w (k + 1)) := by
  unfold InBounds
  constructor
  · intro h
    refine ⟨by simpa using h 0 (by simp), fun j hj => ?_⟩
    simpa using h (j + 1) (by simpa using hj)
  · rintro ⟨h0, h1⟩ j hj
    cases j with
    | zero => simpa using h0
    | succ j => simpa using h1 j (by simpa using hj)

theorem inBounds_nil (U : List Rat) (w : Vec) : InBounds [] U w := by
  intro j hj; simp at hj

theorem length_maskSel {α : Type} (mask : List Bool) (xs : List α) (h : xs.length = mask.length) :
    (maskSel mask xs).length = maskCount mask := by
  induction mask generalizing xs with
  | nil => cases xs <;> simp [maskSel, maskCount]
  | cons b bs ih =>
    cases xs with
    | nil => simp at h
    | cons x xs =>
      have h' : xs.length = bs.length := by simpa using h
      cases b <;> simp [maskSel, maskCount, ih xs h']
      omega

/-- `l[mask] ≤ w ≤ u[mask]` read at the original positions -/
theorem inBounds_maskSel (mask : List Bool) (l u : List Rat) (hl : l.length = mask.length)
    (hu : u.length = mask.length) (w : Vec) :
    InBounds (maskSel mask l) (maskSel mask u) w ↔
      ∀ j, j < mask.length → mask.getD j false = true →
        l.getD j 0 ≤ w (maskRank mask j) ∧ w (maskRank mask j) ≤ u.getD j 0 := by
  induction mask generalizing l u w with
  | nil =>
    cases l <;> cases u <;> simp_all [maskSel, inBounds_nil]
  | cons b bs ih =>
    cases l with
    | nil => simp at hl
    | cons a l =>
    cases u with
    | nil => simp at hu
    | cons c u =>
      have hl' : l.length = bs.length := by simpa using hl
      have hu' : u.length = bs.length := by simpa using hu
      cases b with
      | true =>
        simp only [maskSel, if_true]
        rw [inBounds_cons, ih l u hl' hu']
        constructor
        · rintro ⟨h0, h1⟩ j hj hm
          cases j with
          | zero => simpa [maskRank] using h0
          | succ j =>
            have := h1 j (by simpa using hj) (by simpa using hm)
            simpa [maskRank, Nat.add_comm] using this
        · intro h
          refine ⟨by simpa [maskRank] using h 0 (by simp) (by simp), fun j hj hm => ?_⟩
          have := h (j + 1) (by simpa using hj) (by simpa using hm)
          simpa [maskRank, Nat.add_comm] using this
      | false =>
        simp only [maskSel, Bool.false_eq_true, if_false]
        rw [ih l u hl' hu']
        constructor
        · intro h1 j hj hm
          cases j with
          | zero => simp at hm
          | succ j =>
            have := h1 j (by simpa using hj) (by simpa using hm)
            simpa [maskRank] using this
        · intro h j hj hm
          have := h (j + 1) (by simpa using hj) (by simpa using hm)
          simpa [maskRank] using this

theorem length_tile {α : Type} (xs : List α) (k : Nat) : (tile xs k).length = k * xs.length := by
  induction k with
  | zero => simp [tile]
  | succ k ih => simp [tile, ih, Nat.succ_mul, Nat.add_comm]

/-- tiled bounds hold block by block -/
theorem inBounds_tile (lF uF : List Rat) (h : uF.length = lF.length) (S : Nat) (w : Vec) :
    InBounds (tile lF S) (tile uF S) w ↔
      ∀ i, i < S → InBounds lF uF (fun k => w (i * lF.length + k)) := by
  induction S generalizing w with
  | zero => simp [tile, inBounds_nil]
  | succ S ih =>
    simp only [tile]
    rw [inBounds_append lF uF _ _ lF.length rfl h, ih]
    constructor
    · rintro ⟨h0, h1⟩ i hi
      cases i with
      | zero => simpa using h0
      | succ i =>
        have := h1 i (by omega)
        have e : (fun k => w ((i + 1) * lF.length + k)) = fun k => w (lF.length + (i * lF.length + k)) := by
          funext k; congr 1; rw [Nat.succ_mul]; omega
        rw [e]; exact this
    · intro hh
      refine ⟨by simpa using hh 0 (by omega), fun i hi => ?_⟩
      have := hh (i + 1) (by omega)
      have e : (fun k => w ((i + 1) * lF.length + k)) = fun k => w (lF.length + (i * lF.length + k)) := by
        funext k; congr 1; rw [Nat.succ_mul]; omega
      rw [e] at this; exact this

/-! ### rows -/

theorem sampleRows_sat (mask : List Bool) (n : Nat) (rows : List Row) (i0 k : Nat) (z : Vec) :
    (∀ r ∈ sampleRows mask n rows i0 k, r.Sat z) ↔
      ∀ i, i0 ≤ i → i < i0 + k → ∀ r ∈ rows, r.Sat (fun j => z (slpEmbed mask n (i + 1) j)) := by
  induction k generalizing i0 with
  | zero =>
    simp only [sampleRows, List.not_mem_nil, false_imp_iff, implies_true, true_iff]
    intro i h1 h2; omega
  | succ k ih =>
    simp only [sampleRows, List.mem_append]
    constructor
    · intro h i h1 h2 r hr
      by_cases he : i = i0
      · subst he
        exact (rows_sat_map_rename _ rows z).mp (fun r hr => h r (Or.inl hr)) r hr
      · exact (ih (i0 + 1)).mp (fun r hr => h r (Or.inr hr)) i (by omega) (by omega) r hr
    · intro h r hr
      rcases hr with hr | hr
      · exact (rows_sat_map_rename _ rows z).mpr (h i0 (by omega) (by omega)) r hr
      · exact (ih (i0 + 1)).mpr (fun i h1 h2 => h i (by omega) (by omega)) r hr

/-! ### costs -/

/-- `Σ_j [sel mask_j] c_j x_j` -/
def selCost (sel : Bool → Bool) : List Bool → List Rat → Vec → Rat
  | b :: bs, c :: cs, x => (if sel b then c * x 0 else 0) + selCost sel bs cs (fun j => x (j + 1))
  | _, _, _ => 0

theorem costAt0_cons (a : Rat) (c : List Rat) (x : Vec) :
    costAt (a :: c) 0 x = a * x 0 + costAt c 0 (fun j => x (j + 1)) := by
  rw [costAt_cons, costAt_shift c (0 + 1) x]
  have : (fun j => x (0 + 1 + j)) = fun j => x (j + 1) := by funext j; congr 1; omega
  rw [this]

/-- the objective split into unselected (present) and selected (future) variables -/
theorem costAt_split (mask : List Bool) (c : List Rat) (h : c.length = mask.length) (x : Vec) :
    costAt c 0 x = selCost (!·) mask c x + selCost id mask c x := by
  induction mask generalizing c x with
  | nil => cases c <;> simp_all [selCost]
  | cons b bs ih =>
    cases c with
    | nil => simp at h
    | cons a c =>
      have h' : c.length = bs.length := by simpa using h
      rw [costAt0_cons, ih c h']
      cases b <;> simp [selCost] <;> ring

/-- `c[If] = c[If]/k` -/
theorem costAt_scaleSel (k : Rat) (mask : List Bool) (c : List Rat) (h : c.length = mask.length) (x : Vec) :
    costAt (scaleSel k mask c) 0 x = selCost (!·) mask c x + selCost id mask c x / k := by
  induction mask generalizing c x with
  | nil => cases c <;> simp_all [selCost, scaleSel]
  | cons b bs ih =>
    cases c with
    | nil => simp at h
    | cons a c =>
      have h' : c.length = bs.length := by simpa using h
      simp only [scaleSel]
      rw [costAt0_cons, ih c h']
      cases b <;> simp [selCost] <;> ring

theorem length_scaleSel (k : Rat) (mask : List Bool) (c : List Rat) : (scaleSel k mask c).length = c.length := by
  induction mask generalizing c with
  | nil => cases c <;> simp [scaleSel]
  | cons b bs ih => cases c <;> simp [scaleSel, ih]

theorem costAt_map_div (k : Rat) (xs : List Rat) (off : Nat) (z : Vec) :
    costAt (xs.map (· / k)) off z = costAt xs off z / k := by
  induction xs generalizing off with
  | nil => simp
  | cons a as ih => simp only [List.map_cons, costAt_cons, ih]; ring

/-- cost of the selected entries placed at `off, off+1, …` read at the original positions -/
theorem costAt_maskSel (mask : List Bool) (cs : List Rat) (h : cs.length = mask.length) (off : Nat) (z : Vec) :
    costAt (maskSel mask cs) off z = selCost id mask cs (fun j => z (off + maskRank mask j)) := by
  induction mask generalizing cs off with
  | nil => cases cs <;> simp [maskSel, selCost]
  | cons b bs ih =>
    cases cs with
    | nil => simp at h
    | cons a cs =>
      have h' : cs.length = bs.length := by simpa using h
      cases b with
      | true =>
        simp only [maskSel, if_true, selCost, id, costAt_cons, maskRank, Nat.add_zero]
        rw [ih cs h' (off + 1)]
        congr 2
        funext j; congr 1; omega
      | false =>
        simp only [maskSel, Bool.false_eq_true, if_false, selCost, id, maskRank, Nat.zero_add]
        rw [ih cs h' off]
        simp

/-- `selCost id` reads the point only at selected positions -/
theorem selCost_id_congr (mask : List Bool) (c : List Rat) (x y : Vec)
    (h : ∀ j, j < mask.length → mask.getD j false = true → x j = y j) :
    selCost id mask c x = selCost id mask c y := by
  induction mask generalizing c x y with
  | nil => cases c <;> simp [selCost]
  | cons b bs ih =>
    cases c with
    | nil => simp [selCost]
    | cons a c =>
      simp only [selCost, id]
      rw [ih c (fun j => x (j + 1)) (fun j => y (j + 1)) (fun j hj hm => h (j + 1) (by simpa using hj) (by simpa using hm))]
      cases b with
      | true => rw [h 0 (by simp) (by simp)]
      | false => simp

/-- `selCost (!·)` reads the point only at unselected positions -/
theorem selCost_not_congr (mask : List Bool) (c : List Rat) (x y : Vec)
    (h : ∀ j, j < mask.length → mask.getD j false = false → x j = y j) :
    selCost (!·) mask c x = selCost (!·) mask c y := by
  induction mask generalizing c x y with
  | nil => cases c <;> simp [selCost]
  | cons b bs ih =>
    cases c with
    | nil => simp [selCost]
    | cons a c =>
      simp only [selCost]
      rw [ih c (fun j => x (j + 1)) (fun j => y (j + 1)) (fun j hj hm => h (j + 1) (by simpa using hj) (by simpa using hm))]
      cases b with
      | false => rw [h 0 (by simp) (by simp)]
      | true => simp

/-- the appended cost blocks, sample by sample -/
theorem costAt_sampleCosts (k : Rat) (mask : List Bool) (samples : List (List Rat))
    (h : ∀ cs ∈ samples, cs.length = mask.length) (off : Nat) (z : Vec) :
    costAt (sampleCosts k mask samples) off z =
      ((List.range samples.length).map fun i =>
        selCost id mask (samples.getD i []) (fun j => z (off + i * maskCount mask + maskRank mask j))).sum / k := by
  induction samples generalizing off with
  | nil => simp [sampleCosts]
  | cons cs rest ih =>
    have hcs : cs.length = mask.length := h cs (by simp)
    simp only [sampleCosts, List.length_cons]
    rw [costAt_append, costAt_map_div, costAt_maskSel mask cs hcs, List.length_map, length_maskSel mask cs hcs,
      ih (fun c hc => h c (by simp [hc])), sum_range_succ_shift]
    simp only [List.getD_cons_zero, List.getD_cons_succ, Nat.zero_mul, Nat.add_zero]
    have e : ∀ i : Nat, (fun j => z (off + maskCount mask + i * maskCount mask + maskRank mask j)) =
        fun j => z (off + (i + 1) * maskCount mask + maskRank mask j) := by
      intro i; funext j; congr 1; rw [Nat.succ_mul]; omega
    simp only [e]
    ring

/-! ### the three parts of `makeSlp` against the index maps `slpEmbed` -/

@[simp] theorem slpEmbed_zero (mask : List Bool) (n j : Nat) : slpEmbed mask n 0 j = j := rfl

theorem slpEmbed_succ_sel (mask : List Bool) (n i j : Nat) (h : mask.getD j false = true) :
    slpEmbed mask n (i + 1) j = n + i * maskCount mask + maskRank mask j := by
  show (if mask.getD j false = true then n + i * maskCount mask + maskRank mask j else j) = _
  rw [if_pos h]

theorem slpEmbed_succ_unsel (mask : List Bool) (n i j : Nat) (h : mask.getD j false = false) :
    slpEmbed mask n (i + 1) j = j := by
  show (if mask.getD j false = true then n + i * maskCount mask + maskRank mask j else j) = _
  rw [if_neg (by rw [h]; exact Bool.false_ne_true)]

/-- bounds of the SLP = bounds of the original problem on every recombined point -/
theorem slp_bounds_iff (mask : List Bool) (l u : List Rat) (hl : l.length = mask.length)
    (hu : u.length = mask.length) (S : Nat) (z : Vec) :
    InBounds (l ++ tile (maskSel mask l) S) (u ++ tile (maskSel mask u) S) z ↔
      ∀ s, s ≤ S → InBounds l u (fun j => z (slpEmbed mask l.length s j)) := by
  rw [inBounds_append l u _ _ l.length rfl (by omega),
    inBounds_tile _ _ (by rw [length_maskSel mask l hl, length_maskSel mask u hu]) S]
  simp only [inBounds_maskSel mask l u hl hu, length_maskSel mask l hl]
  constructor
  · rintro ⟨h0, h1⟩ s hs j hj
    cases s with
    | zero => exact h0 j hj
    | succ i =>
      by_cases hm : mask.getD j false = true
      · have := h1 i (by omega) j (by omega) hm
        show l.getD j 0 ≤ z (slpEmbed mask l.length (i + 1) j) ∧ z (slpEmbed mask l.length (i + 1) j) ≤ u.getD j 0
        rw [slpEmbed_succ_sel mask _ i j hm, Nat.add_assoc]
        exact this
      · have hm' : mask.getD j false = false := by simpa using hm
        show l.getD j 0 ≤ z (slpEmbed mask l.length (i + 1) j) ∧ z (slpEmbed mask l.length (i + 1) j) ≤ u.getD j 0
        rw [slpEmbed_succ_unsel mask _ i j hm']
        exact h0 j hj
  · intro h
    refine ⟨h 0 (Nat.zero_le _), fun i hi j hj hm => ?_⟩
    have := h (i + 1) (by omega) j (by omega)
    have this : l.getD j 0 ≤ z (slpEmbed mask l.length (i + 1) j) ∧ z (slpEmbed mask l.length (i + 1) j) ≤ u.getD j 0 := this
    rw [slpEmbed_succ_sel mask _ i j hm, Nat.add_assoc] at this
    exact this

/-- rows of the SLP = rows of the original problem on every recombined point -/
theorem slp_rows_iff (mask : List Bool) (n : Nat) (rows : List Row) (S : Nat) (z : Vec) :
    (∀ r ∈ rows ++ sampleRows mask n rows 0 S, r.Sat z) ↔
      ∀ s, s ≤ S → ∀ r ∈ rows, r.Sat (fun j => z (slpEmbed mask n s j)) := by
  constructor
  · intro h s hs r hr
    cases s with
    | zero => exact h r (List.mem_append.mpr (Or.inl hr))
    | succ i =>
      exact (sampleRows_sat mask n rows 0 S z).mp (fun r hr => h r (List.mem_append.mpr (Or.inr hr)))
        i (Nat.zero_le _) (by omega) r hr
  · intro h r hr
    rcases List.mem_append.mp hr with hr | hr
    · exact h 0 (Nat.zero_le _) r hr
    · exact (sampleRows_sat mask n rows 0 S z).mpr (fun i _ hi => h (i + 1) (by omega)) r hr

/-- objective of the SLP: unselected part once, selected part as the mean over the `S+1` scenarios -/
theorem slp_cost_eq (k : Rat) (mask : List Bool) (c : List Rat) (samples : List (List Rat))
    (hc : c.length = mask.length) (hs : ∀ cs ∈ samples, cs.length = mask.length) (z : Vec) :
    costAt (scaleSel k mask c ++ sampleCosts k mask samples) 0 z =
      selCost (!·) mask c z +
        (selCost id mask c z + ((List.range samples.length).map fun i =>
          selCost id mask (samples.getD i []) (fun j => z (slpEmbed mask c.length (i + 1) j))).sum) / k := by
  rw [costAt_append, costAt_scaleSel k mask c hc, length_scaleSel, costAt_sampleCosts k mask samples hs]
  have e : ∀ i : Nat, selCost id mask (samples.getD i []) (fun j => z (0 + c.length + i * maskCount mask + maskRank mask j)) =
      selCost id mask (samples.getD i []) (fun j => z (slpEmbed mask c.length (i + 1) j)) := by
    intro i
    apply selCost_id_congr
    intro j _ hm
    rw [slpEmbed_succ_sel mask _ i j hm, Nat.zero_add]
  simp only [e]
  ring

/-! ### mask facts -/

theorem maskRank_lt (mask : List Bool) (j : Nat) (h : mask.getD j false = true) : maskRank mask j < maskCount mask := by
  induction mask generalizing j with
  | nil => simp at h
  | cons b bs ih =>
    cases j with
    | zero =>
      have hb : b = true := by simpa using h
      subst hb; simp [maskRank, maskCount]
    | succ j =>
      have := ih j (by simpa using h)
      simp only [maskRank, maskCount]; omega

theorem maskRank_inj (mask : List Bool) (j j' : Nat) (h : mask.getD j false = true) (h' : mask.getD j' false = true)
    (e : maskRank mask j = maskRank mask j') : j = j' := by
  induction mask generalizing j j' with
  | nil => simp at h
  | cons b bs ih =>
    cases j with
    | zero =>
      cases j' with
      | zero => rfl
      | succ j' =>
        have hb : b = true := by simpa using h
        subst hb; simp only [maskRank, ↓reduceIte] at e; omega
    | succ j =>
      cases j' with
      | zero =>
        have hb : b = true := by simpa using h'
        subst hb; simp only [maskRank, ↓reduceIte] at e; omega
      | succ j' =>
        simp only [maskRank] at e
        rw [ih j j' (by simpa using h) (by simpa using h') (by omega)]

/-- the copies of scenario `i+1` occupy the block `[n + i·n_f, n + (i+1)·n_f)` -/
theorem slpEmbed_block (mask : List Bool) (n i j : Nat) (h : mask.getD j false = true) :
    n + i * maskCount mask ≤ slpEmbed mask n (i + 1) j ∧ slpEmbed mask n (i + 1) j < n + (i + 1) * maskCount mask := by
  rw [slpEmbed_succ_sel mask n i j h, Nat.succ_mul]
  have := maskRank_lt mask j h
  omega

theorem slpEmbed_inj (mask : List Bool) (n i j j' : Nat) (h : mask.getD j false = true) (h' : mask.getD j' false = true)
    (e : slpEmbed mask n (i + 1) j = slpEmbed mask n (i + 1) j') : j = j' := by
  rw [slpEmbed_succ_sel mask n i j h, slpEmbed_succ_sel mask n i j' h'] at e
  exact maskRank_inj mask j j' h h' (by omega)

theorem length_sampleCosts (k : Rat) (mask : List Bool) (samples : List (List Rat))
    (h : ∀ cs ∈ samples, cs.length = mask.length) :
    (sampleCosts k mask samples).length = samples.length * maskCount mask := by
  induction samples with
  | nil => simp [sampleCosts]
  | cons cs rest ih =>
    simp only [sampleCosts, List.length_append, List.length_map, List.length_cons,
      length_maskSel mask cs (h cs (by simp)), ih (fun c hc => h c (by simp [hc])), Nat.succ_mul]
    omega

/-! ### first rows of a mapping (`~index.duplicated(keep='first')`) -/

/-- relabelling of a mapping row -/
def relabel (g : Nat → Nat) (m : MapRow) : MapRow := { m with var := g m.var }

@[simp] theorem relabel_var (g : Nat → Nat) (m : MapRow) : (relabel g m).var = g m.var := rfl
@[simp] theorem relabel_isBool (g : Nat → Nat) (m : MapRow) : (relabel g m).isBool = m.isBool := rfl

/-- `firstRows` depends on the list of labels already seen only through membership of the labels of the rows -/
theorem firstRows_congr (M : List MapRow) (seen seen' : List Nat)
    (h : ∀ m ∈ M, seen.contains m.var = seen'.contains m.var) : firstRows M seen = firstRows M seen' := by
  induction M generalizing seen seen' with
  | nil => rfl
  | cons m M ih =>
    simp only [firstRows]
    rw [← h m (by simp)]
    split
    · exact ih seen seen' (fun x hx => h x (by simp [hx]))
    · congr 1
      apply ih
      intro x hx
      simp only [List.contains_cons]
      rw [h x (by simp [hx])]

theorem firstRows_append (A B : List MapRow) (seen : List Nat) :
    firstRows (A ++ B) seen = firstRows A seen ++ firstRows B (A.map (·.var) ++ seen) := by
  induction A generalizing seen with
  | nil => rfl
  | cons m A ih =>
    simp only [List.cons_append, firstRows, List.map_cons]
    split
    · rename_i hc
      rw [ih seen]
      congr 1
      apply firstRows_congr
      intro x _
      simp only [List.contains_cons, List.contains_append]
      have hm : m.var ∈ seen := by simpa using hc
      by_cases hx : x.var = m.var
      · rw [hx]; simp [hm]
      · have : (x.var == m.var) = false := by simpa using hx
        simp [this]
    · rw [ih (m.var :: seen)]
      simp only [List.cons_append]
      congr 2
      apply firstRows_congr
      intro x _
      simp only [List.contains_cons, List.contains_append]
      cases (x.var == m.var) <;> simp

/-- labels not met so far can be forgotten -/
theorem firstRows_fresh (M : List MapRow) (seen : List Nat) (h : ∀ m ∈ M, m.var ∉ seen) :
    firstRows M seen = firstRows M [] := by
  apply firstRows_congr
  intro m hm
  have := h m hm
  simp [this]

theorem firstRows_filter (p : Nat → Bool) (M : List MapRow) (seen : List Nat) :
    firstRows (M.filter fun m => p m.var) seen = (firstRows M seen).filter fun m => p m.var := by
  induction M generalizing seen with
  | nil => rfl
  | cons m M ih =>
    by_cases hp : p m.var = true
    · rw [List.filter_cons_of_pos (by simpa using hp)]
      simp only [firstRows]
      split
      · exact ih seen
      · rw [List.filter_cons_of_pos (by simpa using hp), ih]
    · have hp' : p m.var = false := by simpa using hp
      rw [List.filter_cons_of_neg (by simp [hp'])]
      simp only [firstRows]
      split
      · exact ih seen
      · rw [List.filter_cons_of_neg (by simp [hp']), ← ih]
        apply firstRows_congr
        intro x hx
        have hx' := (List.mem_filter.mp hx).2
        have hne : x.var ≠ m.var := by
          intro e
          rw [e, hp'] at hx'; simp at hx'
        simp [hne]

theorem firstRows_relabel (g : Nat → Nat) (M : List MapRow) (seen : List Nat)
    (hinj : ∀ a ∈ M.map (·.var) ++ seen, ∀ b ∈ M.map (·.var) ++ seen, g a = g b → a = b) :
    firstRows (M.map (relabel g)) (seen.map g) = (firstRows M seen).map (relabel g) := by
  induction M generalizing seen with
  | nil => rfl
  | cons m M ih =>
    simp only [List.map_cons, firstRows, relabel_var]
    have hc : (seen.map g).contains (g m.var) = seen.contains m.var := by
      by_cases hs : m.var ∈ seen
      · have : g m.var ∈ seen.map g := List.mem_map.mpr ⟨_, hs, rfl⟩
        simp [hs, this]
      · have : g m.var ∉ seen.map g := by
          intro hh
          obtain ⟨b, hb, e⟩ := List.mem_map.mp hh
          have := hinj b (by simp [hb]) m.var (by simp) e
          exact hs (this ▸ hb)
        simp [hs, this]
    simp only [hc]
    have hsub1 : ∀ a, a ∈ M.map (·.var) ++ seen → a ∈ (m :: M).map (·.var) ++ seen := by
      intro a ha
      rw [List.map_cons, List.cons_append]
      exact List.mem_cons_of_mem _ ha
    have hsub2 : ∀ a, a ∈ M.map (·.var) ++ (m.var :: seen) → a ∈ (m :: M).map (·.var) ++ seen := by
      intro a ha
      rw [List.map_cons, List.cons_append]
      rcases List.mem_append.mp ha with h | h
      · exact List.mem_cons_of_mem _ (List.mem_append.mpr (Or.inl h))
      · rcases List.mem_cons.mp h with h | h
        · rw [h]; exact List.mem_cons_self
        · exact List.mem_cons_of_mem _ (List.mem_append.mpr (Or.inr h))
    split
    · exact ih seen (fun a ha b hb => hinj a (hsub1 a ha) b (hsub1 b hb))
    · rw [List.map_cons]
      congr 1
      have := ih (m.var :: seen) (fun a ha b hb => hinj a (hsub2 a ha) b (hsub2 b hb))
      simpa using this

/-! ### mapping of the SLP -/

/-- the rows appended for the samples `0 … S-1`: copies of the rows of future variables -/
def copyBlocks (mask : List Bool) (n : Nat) (M : List MapRow) (S : Nat) : List MapRow :=
  (List.range S).flatMap fun i => (M.filter fun m => mask.getD m.var false).map (relabel (slpEmbed mask n (i + 1)))

theorem copyBlocks_succ (mask : List Bool) (n : Nat) (M : List MapRow) (S : Nat) :
    copyBlocks mask n M (S + 1) =
      copyBlocks mask n M S ++ (M.filter fun m => mask.getD m.var false).map (relabel (slpEmbed mask n (S + 1))) := by
  simp [copyBlocks, List.range_succ, List.flatMap_append]

/-- labels of the copies of samples `< S` lie in `[n, n + S·n_f)` -/
theorem copyBlocks_var (mask : List Bool) (n : Nat) (M : List MapRow) (S : Nat) (m : MapRow)
    (hm : m ∈ copyBlocks mask n M S) : n ≤ m.var ∧ m.var < n + S * maskCount mask := by
  unfold copyBlocks at hm
  obtain ⟨i, hi, hm⟩ := List.mem_flatMap.mp hm
  obtain ⟨m0, hm0, rfl⟩ := List.mem_map.mp hm
  have hf : mask.getD m0.var false = true := by simpa using (List.mem_filter.mp hm0).2
  have hi' : i < S := List.mem_range.mp hi
  have hb := slpEmbed_block mask n i m0.var hf
  have : (i + 1) * maskCount mask ≤ S * maskCount mask := Nat.mul_le_mul_right _ (by omega)
  rw [relabel_var]
  omega

/-- first rows of the appended copies = copies of the first rows of the future variables -/
theorem firstRows_copyBlocks (mask : List Bool) (n : Nat) (M : List MapRow) (hM : ∀ m ∈ M, m.var < n) (S : Nat) :
    firstRows (copyBlocks mask n M S) (M.map (·.var) ++ []) = copyBlocks mask n (firstRows M []) S := by
  induction S with
  | zero => simp [copyBlocks, firstRows]
  | succ S ih =>
    rw [copyBlocks_succ, copyBlocks_succ, firstRows_append, ih]
    congr 1
    rw [firstRows_fresh]
    · have := firstRows_relabel (slpEmbed mask n (S + 1)) (M.filter fun m => mask.getD m.var false) [] (by
        intro a ha b hb e
        rw [List.append_nil] at ha hb
        obtain ⟨ma, hma, rfl⟩ := List.mem_map.mp ha
        obtain ⟨mb, hmb, rfl⟩ := List.mem_map.mp hb
        exact slpEmbed_inj mask n S _ _ (by simpa using (List.mem_filter.mp hma).2)
          (by simpa using (List.mem_filter.mp hmb).2) e)
      rw [List.map_nil] at this
      rw [this, firstRows_filter (fun v => mask.getD v false) M []]
    · intro m hm hmem
      obtain ⟨m0, hm0, rfl⟩ := List.mem_map.mp hm
      have hf : mask.getD m0.var false = true := by simpa using (List.mem_filter.mp hm0).2
      have hb := slpEmbed_block mask n S m0.var hf
      rw [relabel_var] at hmem
      rcases List.mem_append.mp hmem with h1 | h1
      · obtain ⟨m1, hm1, e⟩ := List.mem_map.mp h1
        have := (copyBlocks_var mask n M S m1 hm1).2
        omega
      · rw [List.append_nil] at h1
        obtain ⟨m1, hm1, e⟩ := List.mem_map.mp h1
        have := hM m1 hm1
        omega

/-! ### read-out of the dispatch of an SLP result -/

theorem mean_add (S : Nat) (f g : Nat → Rat) : mean S (fun s => f s + g s) = mean S f + mean S g := by
  unfold mean
  rw [sum_map_add_rat, add_div]

/-- mean over the scenarios of a sum over a list = sum of the means -/
theorem mean_list_sum {α : Type} (S : Nat) (L : List α) (h : α → Nat → Rat) :
    mean S (fun s => (L.map fun m => h m s).sum) = (L.map fun m => mean S (h m)).sum := by
  induction L with
  | nil => simp [mean_const S 0]
  | cons m L ih =>
    simp only [List.map_cons, List.sum_cons]
    rw [mean_add, ih]

theorem sum_map_div {α : Type} (L : List α) (f : α → Rat) (k : Rat) :
    (L.map fun a => f a / k).sum = (L.map f).sum / k := by
  induction L with
  | nil => simp
  | cons a L ih => simp only [List.map_cons, List.sum_cons, ih, add_div]

/-- double sum with the inner list filtered = sum over the unfiltered list with an indicator -/
theorem sum_filter_comm {α : Type} (S : Nat) (L : List α) (p : α → Bool) (h : Nat → α → Rat) :
    ((List.range S).map fun i => ((L.filter p).map (h i)).sum).sum =
      (L.map fun m => if p m then ((List.range S).map fun i => h i m).sum else 0).sum := by
  induction L with
  | nil => simp
  | cons m L ih =>
    by_cases hp : p m = true
    · simp only [List.filter_cons_of_pos hp, List.map_cons, List.sum_cons, hp, if_true]
      rw [sum_map_add_rat, ih]
    · simp only [List.filter_cons_of_neg hp, List.map_cons, List.sum_cons, hp]
      rw [ih]; simp

/-- mean over the scenarios of the contribution of one mapping row of the original problem -/
theorem row_mean (mask : List Bool) (n S : Nat) (z : Vec) (v : Nat) (f : Rat) :
    mean S (fun s => z (slpEmbed mask n s v) * f) =
      if mask.getD v false = true then
        (z v * f + ((List.range S).map fun i => z (slpEmbed mask n (i + 1) v) * f).sum) / ((S : Rat) + 1)
      else z v * f := by
  unfold mean
  rw [sum_range_succ_shift]
  split
  · rfl
  · rename_i hm
    have hm' : mask.getD v false = false := by simpa using hm
    simp only [slpEmbed_zero, slpEmbed_succ_unsel mask n _ v hm']
    rw [sum_range_const]
    have := scen_pos S
    field_simp
    ring

theorem sum_flatMap_rat {α : Type} (L : List α) (f : α → List Rat) :
    (L.flatMap f).sum = (L.map fun a => (f a).sum).sum := by
  induction L with
  | nil => simp
  | cons a L ih => simp only [List.flatMap_cons, List.sum_append, List.map_cons, List.sum_cons, ih]

theorem isDisp_relabel (g : Nat → Nat) (n : String) (t : Nat) (m : MapRow) :
    isDisp n t (relabel g m) = isDisp n t m := rfl

/-- the dispatch table entry computed from the tagged rows of the SLP mapping (original rows tagged −1 when
    future, copies tagged with their sample): per original row of the cell, a present row contributes once, a
    future row contributes the sum over its `S+1` copies divided by `k` -/
theorem slpDispatchRows_eq (M : List MapRow) (fut : MapRow → Bool) (g : Nat → Nat → Nat) (S : Nat) (k : Rat)
    (a n : String) (t : Nat) (z : Vec) :
    slpDispatchRows
        (M.map (fun m => (m, if fut m then some (-1 : Int) else none)) ++
          (List.range S).flatMap fun i => (M.filter fut).map fun m => (relabel (g i) m, some (Int.ofNat i)))
        k a n t z =
      ((M.filter fun m => m.asset == a && isDisp n t m).map fun m =>
        if fut m then (z m.var * m.factor + ((List.range S).map fun i => z (g i m.var) * m.factor).sum) / k
        else z m.var * m.factor).sum := by
  unfold slpDispatchRows
  rw [List.filter_append, List.map_append, List.sum_append]
  -- original rows
  have h1 : ((M.map fun m => (m, if fut m then some (-1 : Int) else none)).filter fun p => p.1.asset == a && isDisp n t p.1).map
      (fun p => if p.2.isSome then p.1.contrib z / k else p.1.contrib z) =
      (M.filter fun m => m.asset == a && isDisp n t m).map fun m => if fut m then z m.var * m.factor / k else z m.var * m.factor := by
    rw [List.filter_map, List.map_map]
    apply List.map_congr_left
    intro m _
    simp only [Function.comp, MapRow.contrib]
    by_cases hf : fut m = true
    · simp [hf]
    · simp [hf]
  -- copies
  have h2 : ((((List.range S).flatMap fun i => (M.filter fut).map fun m => (relabel (g i) m, some (Int.ofNat i))).filter
        fun p => p.1.asset == a && isDisp n t p.1).map
      (fun p => if p.2.isSome then p.1.contrib z / k else p.1.contrib z)).sum =
      ((List.range S).map fun i => (((M.filter fun m => m.asset == a && isDisp n t m).filter fut).map
        fun m => z (g i m.var) * m.factor / k).sum).sum := by
    rw [List.filter_flatMap, List.map_flatMap, sum_flatMap_rat]
    congr 1
    apply List.map_congr_left
    intro i _
    rw [List.filter_map, List.map_map, List.filter_filter, List.filter_filter]
    congr 1
    have e : (fun m => fut m && (m.asset == a && isDisp n t m)) =
        (fun m => ((fun p : MapRow × Option Int => p.1.asset == a && isDisp n t p.1) ∘
          fun m => (relabel (g i) m, some (Int.ofNat i))) m && fut m) := by
      funext m
      simp only [Function.comp, isDisp_relabel]
      show _ = ((m.asset == a && isDisp n t m) && fut m)
      rw [Bool.and_comm]
    rw [← e]
    apply List.map_congr_left
    intro m _
    simp [Function.comp, MapRow.contrib, relabel]
  rw [h1, h2, sum_filter_comm, ← sum_map_add_rat]
  congr 1
  apply List.map_congr_left
  intro m _
  by_cases hf : fut m = true
  · simp only [hf, if_true]
    rw [sum_map_div, add_div]
  · simp [hf]

/-! ### number of distinct sample ids -/

theorem zip_map_fst_snd' {α β : Type} (l : List (α × β)) : (l.map (·.1)).zip (l.map (·.2)) = l := by
  simpa [List.unzip_eq_map] using List.zip_unzip l

theorem mem_distinctInts (l seen : List (Option Int)) (x : Option Int) :
    x ∈ distinctInts l seen ↔ x ∈ l ∧ x ∉ seen := by
  induction l generalizing seen with
  | nil => simp [distinctInts]
  | cons a l ih =>
    simp only [distinctInts]
    split
    · rename_i hc
      have ha : a ∈ seen := by simpa using hc
      rw [ih seen]
      constructor
      · rintro ⟨h1, h2⟩; exact ⟨List.mem_cons_of_mem _ h1, h2⟩
      · rintro ⟨h1, h2⟩
        rcases List.mem_cons.mp h1 with h | h
        · exact absurd (h ▸ ha) h2
        · exact ⟨h, h2⟩
    · rename_i hc
      have ha : a ∉ seen := by simpa using hc
      rw [List.mem_cons, ih (a :: seen)]
      constructor
      · rintro (h | ⟨h1, h2⟩)
        · exact ⟨h ▸ List.mem_cons_self, h ▸ ha⟩
        · exact ⟨List.mem_cons_of_mem _ h1, fun hh => h2 (List.mem_cons_of_mem _ hh)⟩
      · rintro ⟨h1, h2⟩
        by_cases hx : x = a
        · exact Or.inl hx
        · refine Or.inr ⟨?_, ?_⟩
          · rcases List.mem_cons.mp h1 with h | h
            · exact absurd h hx
            · exact h
          · intro hh
            rcases List.mem_cons.mp hh with h | h
            · exact hx h
            · exact h2 h

theorem nodup_distinctInts (l seen : List (Option Int)) : (distinctInts l seen).Nodup := by
  induction l generalizing seen with
  | nil => simp [distinctInts]
  | cons a l ih =>
    simp only [distinctInts]
    split
    · exact ih seen
    · rw [List.nodup_cons]
      refine ⟨fun hh => ?_, ih (a :: seen)⟩
      exact ((mem_distinctInts l (a :: seen) a).mp hh).2 List.mem_cons_self

/-- if some mapping row belongs to a future variable, the sample ids are `−1, 0, …, S−1`: `S+1` distinct values -/
theorem slpNSamples_tags (M : List MapRow) (fut : MapRow → Bool) (S : Nat) (hne : ∃ m ∈ M, fut m = true) :
    slpNSamples (M.map (fun m => if fut m then some (-1 : Int) else none) ++
      (List.range S).flatMap fun i => (M.filter fut).map fun _ => some (Int.ofNat i)) = S + 1 := by
  obtain ⟨m0, hm0, hf0⟩ := hne
  unfold slpNSamples
  have hT : (some (-1 : Int) :: (List.range S).map fun i => some (Int.ofNat i)).Nodup := by
    rw [List.nodup_cons]
    constructor
    · intro hh
      obtain ⟨i, _, e⟩ := List.mem_map.mp hh
      have : (i : Int) = -1 := Option.some.inj e
      omega
    · refine List.Pairwise.map _ (fun i j hne e => hne ?_) List.nodup_range
      have : (i : Int) = (j : Int) := Option.some.inj e
      omega
  have hmem : ∀ x, x ∈ distinctInts ((M.map (fun m => if fut m then some (-1 : Int) else none) ++
        (List.range S).flatMap fun i => (M.filter fut).map fun _ => some (Int.ofNat i)).filter (·.isSome)) [] ↔
      x ∈ (some (-1 : Int) :: (List.range S).map fun i => some (Int.ofNat i)) := by
    intro x
    rw [mem_distinctInts, List.mem_filter, List.mem_append, List.mem_cons]
    constructor
    · rintro ⟨⟨h1 | h1, h2⟩, _⟩
      · obtain ⟨m, _, e⟩ := List.mem_map.mp h1
        by_cases hf : fut m = true
        · left; rw [← e]; simp [hf]
        · rw [← e] at h2; simp [hf] at h2
      · obtain ⟨i, hi, h3⟩ := List.mem_flatMap.mp h1
        obtain ⟨_, _, e⟩ := List.mem_map.mp h3
        right
        exact List.mem_map.mpr ⟨i, hi, e⟩
    · rintro (h | h)
      · refine ⟨⟨Or.inl (List.mem_map.mpr ⟨m0, hm0, by simp [hf0, h]⟩), by simp [h]⟩, by simp⟩
      · obtain ⟨i, hi, e⟩ := List.mem_map.mp h
        refine ⟨⟨Or.inr (List.mem_flatMap.mpr ⟨i, hi, List.mem_map.mpr ⟨m0, List.mem_filter.mpr ⟨hm0, hf0⟩, e⟩⟩), by simp [← e]⟩, by simp⟩
  have hp := (List.perm_ext_iff_of_nodup (nodup_distinctInts _ []) hT).mpr hmem
  rw [hp.length_eq]
  simp

/-! ### straddling present variables (present, but with a mapping row at a future step) -/

/-- present and not straddling -/
def nsMask : List Bool → List Bool → List Bool
  | m :: ms, s :: ss => (!m && !s) :: nsMask ms ss
  | _, _ => []

theorem length_addVec (a b : List Rat) (h : a.length = b.length) : (addVec a b).length = a.length := by
  induction a generalizing b with
  | nil => simp [addVec]
  | cons x a ih =>
    cases b with
    | nil => simp at h
    | cons y b => simp [addVec, ih b (by simpa using h)]

theorem length_totalCosts (c : List Rat) (samples : List (List Rat)) (n : Nat) (hc : c.length = n)
    (hs : ∀ s ∈ samples, s.length = n) : (totalCosts c samples).length = n := by
  induction samples with
  | nil => simpa [totalCosts] using hc
  | cons s rest ih =>
    have h1 := ih (fun t ht => hs t (by simp [ht]))
    have h2 := hs s (by simp)
    simp only [totalCosts]
    rw [length_addVec s _ (by omega), h2]

theorem length_meanSel (k : Rat) (strad : List Bool) (c tot : List Rat) : (meanSel k strad c tot).length = c.length := by
  induction strad generalizing c tot with
  | nil => cases c <;> simp [meanSel]
  | cons b bs ih =>
    cases c with
    | nil => simp [meanSel]
    | cons a c =>
      cases tot with
      | nil => simp [meanSel]
      | cons t tot => simp [meanSel, ih]

theorem selCost_addVec (sel : Bool → Bool) (L : List Bool) (a b : List Rat) (ha : a.length = L.length)
    (hb : b.length = L.length) (x : Vec) :
    selCost sel L (addVec a b) x = selCost sel L a x + selCost sel L b x := by
  induction L generalizing a b x with
  | nil => cases a <;> cases b <;> simp_all [selCost]
  | cons l L ih =>
    cases a with
    | nil => simp at ha
    | cons p a =>
    cases b with
    | nil => simp at hb
    | cons q b =>
      simp only [addVec, selCost]
      rw [ih a b (by simpa using ha) (by simpa using hb)]
      split <;> ring

theorem selCost_totalCosts (L : List Bool) (c : List Rat) (samples : List (List Rat)) (hc : c.length = L.length)
    (hs : ∀ s ∈ samples, s.length = L.length) (x : Vec) :
    selCost id L (totalCosts c samples) x =
      selCost id L c x + ((List.range samples.length).map fun i => selCost id L (samples.getD i []) x).sum := by
  induction samples with
  | nil => simp [totalCosts]
  | cons s rest ih =>
    have hrest : ∀ t ∈ rest, t.length = L.length := fun t ht => hs t (by simp [ht])
    simp only [totalCosts, List.length_cons]
    rw [selCost_addVec id L s _ (hs s (by simp)) (length_totalCosts c rest L.length hc hrest), ih hrest,
      sum_range_succ_shift]
    simp only [List.getD_cons_zero, List.getD_cons_succ]
    ring

theorem selCost_zero (sel : Bool → Bool) (L : List Bool) (c : List Rat) : selCost sel L c (fun _ => 0) = 0 := by
  induction L generalizing c with
  | nil => cases c <;> simp [selCost]
  | cons l L ih =>
    cases c with
    | nil => simp [selCost]
    | cons a c => simp [selCost, ih]

theorem nsMask_getD (mask strad : List Bool) (j : Nat) (h : (nsMask mask strad).getD j false = true) :
    mask.getD j false = false ∧ strad.getD j false = false := by
  induction mask generalizing strad j with
  | nil => simp [nsMask] at h
  | cons m ms ih =>
    cases strad with
    | nil => simp [nsMask] at h
    | cons s ss =>
      cases j with
      | zero =>
        simp only [nsMask, List.getD_cons_zero, Bool.and_eq_true, Bool.not_eq_true'] at h
        simpa using h
      | succ j =>
        have := ih ss j (by simpa [nsMask] using h)
        simpa using this

/-- the present part of a cost vector = non-straddling present part + straddling part -/
theorem selCost_not_split (mask strad : List Bool) (c : List Rat) (hs : strad.length = mask.length)
    (hc : c.length = mask.length) (hdis : ∀ j, strad.getD j false = true → mask.getD j false = false) (x : Vec) :
    selCost (!·) mask c x = selCost id (nsMask mask strad) c x + selCost id strad c x := by
  induction mask generalizing strad c x with
  | nil => cases strad <;> cases c <;> simp_all [selCost, nsMask]
  | cons m ms ih =>
    cases strad with
    | nil => simp at hs
    | cons s ss =>
    cases c with
    | nil => simp at hc
    | cons a c =>
      have h0 := hdis 0
      simp only [List.getD_cons_zero] at h0
      simp only [selCost, nsMask, id]
      rw [ih ss c (by simpa using hs) (by simpa using hc)
        (fun j hj => by simpa using hdis (j + 1) (by simpa using hj))]
      cases m <;> cases s <;> simp_all <;> ring

/-- cost vector with the straddling entries replaced by `tot/k`, split along a mask disjoint from the straddling
    positions: the unselected (present) part and the selected (future) part -/
theorem selCost_meanSel (k : Rat) (mask strad : List Bool) (c tot : List Rat) (hs : strad.length = mask.length)
    (hc : c.length = mask.length) (ht : tot.length = mask.length)
    (hdis : ∀ j, strad.getD j false = true → mask.getD j false = false) (x : Vec) :
    selCost (!·) mask (meanSel k strad c tot) x =
        selCost id (nsMask mask strad) c x + selCost id strad tot x / k ∧
      selCost id mask (meanSel k strad c tot) x = selCost id mask c x := by
  induction mask generalizing strad c tot x with
  | nil => cases strad <;> cases c <;> cases tot <;> simp_all [selCost, nsMask]
  | cons m ms ih =>
    cases strad with
    | nil => simp at hs
    | cons s ss =>
    cases c with
    | nil => simp at hc
    | cons a c =>
    cases tot with
    | nil => simp at ht
    | cons t tot =>
      have h0 := hdis 0
      simp only [List.getD_cons_zero] at h0
      obtain ⟨ih1, ih2⟩ := ih ss c tot (by simpa using hs) (by simpa using hc) (by simpa using ht)
        (fun j hj => by simpa using hdis (j + 1) (by simpa using hj)) (fun j => x (j + 1))
      simp only [meanSel, selCost, nsMask, id]
      rw [ih1, ih2]
      constructor
      · cases m <;> cases s <;> simp_all <;> ring
      · cases m <;> cases s <;> simp_all

/-- objective of the SLP (since commit 20639b0): non-straddling present part once; straddling present part and
    future part as means over the `S+1` scenarios -/
theorem slp_cost_eq_strad (k : Rat) (mask strad : List Bool) (c : List Rat) (samples : List (List Rat))
    (hst : strad.length = mask.length) (hc : c.length = mask.length)
    (hs : ∀ cs ∈ samples, cs.length = mask.length)
    (hdis : ∀ j, strad.getD j false = true → mask.getD j false = false) (z : Vec) :
    costAt (scaleSel k mask (presentCosts k strad c samples) ++ sampleCosts k mask samples) 0 z =
      selCost id (nsMask mask strad) c z +
        (selCost id strad c z + ((List.range samples.length).map fun i =>
          selCost id strad (samples.getD i []) z).sum) / k +
        (selCost id mask c z + ((List.range samples.length).map fun i =>
          selCost id mask (samples.getD i []) (fun j => z (slpEmbed mask c.length (i + 1) j))).sum) / k := by
  unfold presentCosts
  have hlen : (meanSel k strad c (totalCosts c samples)).length = c.length := length_meanSel _ _ _ _
  have htot : (totalCosts c samples).length = mask.length := length_totalCosts c samples _ hc hs
  rw [slp_cost_eq k mask _ samples (by rw [hlen]; exact hc) hs z, hlen]
  obtain ⟨h1, h2⟩ := selCost_meanSel k mask strad c (totalCosts c samples) hst hc htot hdis z
  rw [h1, h2, selCost_totalCosts strad c samples (by omega) (fun s h => by rw [hs s h, hst])]

/-! ### gluing scenario points into a point of the SLP -/

/-- position → variable: index of the `r`-th selected entry (inverse of `maskRank` on selected positions) -/
def maskNth : List Bool → Nat → Nat
  | [], _ => 0
  | true :: _, 0 => 0
  | true :: bs, r + 1 => maskNth bs r + 1
  | false :: bs, r => maskNth bs r + 1

/-- round trip variable → position → variable -/
theorem maskNth_maskRank (mask : List Bool) (j : Nat) (h : mask.getD j false = true) :
    maskNth mask (maskRank mask j) = j := by
  induction mask generalizing j with
  | nil => simp at h
  | cons b bs ih =>
    cases j with
    | zero =>
      have hb : b = true := by simpa using h
      subst hb; simp [maskRank, maskNth]
    | succ j =>
      have hj : bs.getD j false = true := by simpa using h
      cases b with
      | true =>
        simp only [maskRank, ↓reduceIte]
        rw [Nat.add_comm, maskNth, ih j hj]
      | false =>
        simp only [maskRank, Bool.false_eq_true, ↓reduceIte, Nat.zero_add]
        rw [maskNth, ih j hj]

/-- round trip position → variable → position: the `r`-th selected entry is selected, lies in the list, and has
    rank `r` -/
theorem maskRank_maskNth (mask : List Bool) (r : Nat) (h : r < maskCount mask) :
    mask.getD (maskNth mask r) false = true ∧ maskNth mask r < mask.length ∧ maskRank mask (maskNth mask r) = r := by
  induction mask generalizing r with
  | nil => simp [maskCount] at h
  | cons b bs ih =>
    cases b with
    | true =>
      cases r with
      | zero => simp [maskNth, maskRank]
      | succ r =>
        have := ih r (by simp [maskCount] at h; omega)
        simp only [maskNth, List.getD_cons_succ, List.length_cons, maskRank, ↓reduceIte]
        exact ⟨this.1, by omega, by omega⟩
    | false =>
      have := ih r (by simpa [maskCount] using h)
      simp only [maskNth, List.getD_cons_succ, List.length_cons, maskRank, Bool.false_eq_true, ↓reduceIte]
      exact ⟨this.1, by omega, by omega⟩

/-- the point of the SLP glued from one point per scenario: the original variables from scenario 0, the copy block
    of sample `i` from scenario `i+1` -/
def slpGlue (mask : List Bool) (n : Nat) (w : Nat → Vec) : Vec := fun k =>
  if k < n then w 0 k
  else w ((k - n) / maskCount mask + 1) (maskNth mask ((k - n) % maskCount mask))

/-- if the scenario points agree on the present variables, the glued point recombines to them:
    `slpGlue ∘ embed s = w s` on `[0, n)` -/
theorem slpGlue_embed (mask : List Bool) (n : Nat) (w : Nat → Vec) (s j : Nat) (hj : j < n)
    (hagree : mask.getD j false = false → w s j = w 0 j) :
    slpGlue mask n w (slpEmbed mask n s j) = w s j := by
  cases s with
  | zero => simp [slpGlue, hj]
  | succ i =>
    by_cases hm : mask.getD j false = true
    · have hr := maskRank_lt mask j hm
      rw [slpEmbed_succ_sel mask n i j hm]
      unfold slpGlue
      rw [if_neg (by omega)]
      have e : n + i * maskCount mask + maskRank mask j - n = maskRank mask j + i * maskCount mask := by omega
      rw [e, Nat.add_mul_div_right _ _ (by omega), Nat.div_eq_of_lt hr, Nat.zero_add,
        Nat.add_mul_mod_self_right, Nat.mod_eq_of_lt hr, maskNth_maskRank mask j hm]
    · have hm' : mask.getD j false = false := by simpa using hm
      rw [slpEmbed_succ_unsel mask n i j hm', hagree hm']
      simp [slpGlue, hj]

/-! ### a problem reads a point only below `n` -/

theorem eval_congr (r : Row) (x y : Vec) (h : ∀ p ∈ r.coeffs, x p.1 = y p.1) : r.eval x = r.eval y := by
  unfold Row.eval
  congr 1
  apply List.map_congr_left
  intro p hp
  rw [h p hp]

theorem sat_congr (r : Row) (x y : Vec) (h : ∀ p ∈ r.coeffs, x p.1 = y p.1) : r.Sat x ↔ r.Sat y := by
  unfold Row.Sat
  rw [eval_congr r x y h]

theorem feasibleRelaxed_congr (P : Problem) (hl : P.l.length = P.n)
    (hcols : ∀ r ∈ P.rows, ∀ p ∈ r.coeffs, p.1 < P.n) (x y : Vec) (h : ∀ j, j < P.n → x j = y j) :
    P.FeasibleRelaxed x ↔ P.FeasibleRelaxed y := by
  unfold Problem.FeasibleRelaxed InBounds
  constructor
  · rintro ⟨hb, hr⟩
    refine ⟨fun j hj => ?_, fun r hrr => ?_⟩
    · rw [← h j (by omega)]; exact hb j hj
    · exact (sat_congr r x y (fun p hp => h p.1 (hcols r hrr p hp))).mp (hr r hrr)
  · rintro ⟨hb, hr⟩
    refine ⟨fun j hj => ?_, fun r hrr => ?_⟩
    · rw [h j (by omega)]; exact hb j hj
    · exact (sat_congr r x y (fun p hp => h p.1 (hcols r hrr p hp))).mpr (hr r hrr)

end EAO.Slp
