import EAO.Model.Structured
import EAO.Lemmas.Nodal
/-! helper lemmas about `structured` (the wrapper of an inner portfolio): what happens to a mapping row,
    and that turning nodal rows into equalities does not change what a row says.  Used by C01 and C16. -/
namespace EAO.Structured
open EAO

theorem structuredMapRow_asset (name : String) (ext : List String) (m : MapRow) :
    (structuredMapRow name ext m).asset = name := by
  unfold structuredMapRow
  by_cases hv : (m.varName == "nan") = true <;> simp only [hv, if_true, Bool.false_eq_true, if_false] <;>
    cases hn : m.node <;> simp only [] <;> (try split) <;> rfl

theorem structuredMapRow_step (name : String) (ext : List String) (m : MapRow) :
    (structuredMapRow name ext m).step = m.step := by
  unfold structuredMapRow
  by_cases hv : (m.varName == "nan") = true <;> simp only [hv, if_true, Bool.false_eq_true, if_false] <;>
    cases hn : m.node <;> simp only [] <;> (try split) <;> rfl

theorem structuredMapRow_var (name : String) (ext : List String) (m : MapRow) :
    (structuredMapRow name ext m).var = m.var := by
  unfold structuredMapRow
  by_cases hv : (m.varName == "nan") = true <;> simp only [hv, if_true, Bool.false_eq_true, if_false] <;>
    cases hn : m.node <;> simp only [] <;> (try split) <;> rfl

theorem structuredMapRow_factor (name : String) (ext : List String) (m : MapRow) :
    (structuredMapRow name ext m).factor = m.factor := by
  unfold structuredMapRow
  by_cases hv : (m.varName == "nan") = true <;> simp only [hv, if_true, Bool.false_eq_true, if_false] <;>
    cases hn : m.node <;> simp only [] <;> (try split) <;> rfl

/-- a row that is a dispatch row after wrapping was a dispatch row at the same, external, node -/
theorem structuredMapRow_disp (name : String) (ext : List String) (m : MapRow) (n : String)
    (hk : (structuredMapRow name ext m).kind = .d) (hn : (structuredMapRow name ext m).node = some n) :
    m.kind = .d ∧ m.node = some n ∧ n ∈ ext := by
  unfold structuredMapRow at hk hn
  by_cases hv : (m.varName == "nan") = true <;> simp only [hv, if_true, Bool.false_eq_true, if_false] at hk hn <;>
    cases hnode : m.node <;> simp only [hnode] at hk hn <;> (try (split at hk)) <;>
    (try (cases hkind : m.kind <;> simp only [hkind, innerKind] at hk <;> (try exact absurd hk (by decide)))) <;> simp_all

/-- a dispatch row at an external node stays what it is (up to asset and variable name) -/
theorem structuredMapRow_of_ext (name : String) (ext : List String) (m : MapRow) (n : String)
    (hn : m.node = some n) (he : n ∈ ext) :
    (structuredMapRow name ext m).kind = m.kind ∧ (structuredMapRow name ext m).node = some n := by
  unfold structuredMapRow
  by_cases hv : (m.varName == "nan") = true <;> simp [hv, hn, he]

/-- a row at a non-external node is never a dispatch row: dispatch ('d') and internal ('i') rows are typed
    internal, rows of any other kind (the 'size' of a scaled asset) keep their kind -/
theorem structuredMapRow_of_inner (name : String) (ext : List String) (m : MapRow) (n : String)
    (hn : m.node = some n) (he : n ∉ ext) :
    (structuredMapRow name ext m).kind = innerKind m.kind := by
  unfold structuredMapRow
  by_cases hv : (m.varName == "nan") = true <;> simp [hv, hn, he]

theorem structuredMapRow_of_inner_ne_d (name : String) (ext : List String) (m : MapRow) (n : String)
    (hn : m.node = some n) (he : n ∉ ext) :
    ((structuredMapRow name ext m).kind == .d) = false := by
  rw [structuredMapRow_of_inner name ext m n hn he]
  cases m.kind <;> rfl

@[simp] theorem nToS_eval (r : Row) (x : Vec) : r.nToS.eval x = r.eval x := by
  unfold Row.nToS; cases r.kind <;> rfl

@[simp] theorem nToS_coeffs (r : Row) : r.nToS.coeffs = r.coeffs := by
  unfold Row.nToS; cases r.kind <;> rfl

@[simp] theorem nToS_rhs (r : Row) : r.nToS.rhs = r.rhs := by
  unfold Row.nToS; cases r.kind <;> rfl

theorem nToS_kind_ne_N (r : Row) : r.nToS.kind ≠ .N := by
  unfold Row.nToS; cases h : r.kind <;> simp [h]

/-- 'N' and 'S' rows say the same -/
theorem nToS_sat (r : Row) (x : Vec) : r.nToS.Sat x ↔ r.Sat x := by
  unfold Row.nToS Row.Sat Row.eval
  cases h : r.kind <;> simp [h]

theorem rows_nToS_sat (rows : List Row) (x : Vec) :
    (∀ r ∈ rows.map Row.nToS, r.Sat x) ↔ ∀ r ∈ rows, r.Sat x := by
  constructor
  · intro h r hr
    exact (nToS_sat r x).mp (h _ (List.mem_map.mpr ⟨r, hr, rfl⟩))
  · intro h r hr
    obtain ⟨r', hr', rfl⟩ := List.mem_map.mp hr
    exact (nToS_sat r' x).mpr (h r' hr')

end EAO.Structured
