import EAO.Model.SplitStorage
import EAO.Lemmas.SplitBuild
import EAO.Lemmas.Textbook
/-!
# EAO.Lemmas.SplitStorage — helper lemmas for `EAO.Properties.C14Storage`

Part A: sums, the level rows of an LP storage as inequalities on partial sums.
Part B: the storage builder on the picked grid (variables, bounds, costs, mapping, rows).
Part C: the restart form — its restriction to an interval is the storage built there; it is banded.
Part D: start level = end level: the restart rows imply the cumulative rows; the cost relation with `cost_store`.
Part E: portfolios (`setupSplitS` is the split of `setupRestart`; `setupRestart` is tighter than the unsplit set-up).
-/
namespace EAO.SplitStorage
open EAO EAO.Split EAO.SplitBuild EAO.Storage

/-! ## Part A: sums -/

theorem sumTo_succ (f : Nat → Rat) (k : Nat) : sumTo f (k + 1) = sumTo f k + f k := rfl

theorem sumTo_congr (f g : Nat → Rat) : ∀ k, (∀ j, j < k → f j = g j) → sumTo f k = sumTo g k
  | 0, _ => rfl
  | k + 1, h => by
    rw [sumTo_succ, sumTo_succ, sumTo_congr f g k (fun j hj => h j (by omega)), h k (by omega)]

theorem sumTo_shift (f : Nat → Rat) (a : Nat) : ∀ k, sumTo (fun j => f (a + j)) k = sumTo f (a + k) - sumTo f a
  | 0 => by show (0 : Rat) = sumTo f a - sumTo f a; grind
  | k + 1 => by
    have ih := sumTo_shift f a k
    show sumTo (fun j => f (a + j)) k + f (a + k) = sumTo f (a + k) + f (a + k) - sumTo f a
    rw [ih]; grind

theorem sumTo_add (f g : Nat → Rat) : ∀ k, sumTo (fun j => f j + g j) k = sumTo f k + sumTo g k
  | 0 => by show (0 : Rat) = 0 + 0; grind
  | k + 1 => by
    have ih := sumTo_add f g k
    simp only [sumTo_succ]
    rw [ih]; grind

theorem sumTo_mul (c : Rat) (f : Nat → Rat) : ∀ k, sumTo (fun j => c * f j) k = c * sumTo f k
  | 0 => by show (0 : Rat) = c * 0; grind
  | k + 1 => by
    have ih := sumTo_mul c f k
    simp only [sumTo_succ]
    rw [ih]; grind

theorem sum_range' (f : Nat → Rat) : ∀ (m a : Nat), ((List.range' a m).map f).sum = sumTo f (a + m) - sumTo f a
  | 0, a => by show (0 : Rat) = sumTo f a - sumTo f a; grind
  | m + 1, a => by
    have ih := sum_range' f m (a + 1)
    rw [List.range'_succ, List.map_cons, List.sum_cons, ih]
    have e : a + 1 + m = a + (m + 1) := by omega
    rw [e, sumTo_succ]; grind

theorem sum_map_add {α} (f g : α → Rat) : ∀ l : List α,
    (l.map f).sum + (l.map g).sum = (l.map fun x => f x + g x).sum
  | [] => by show (0 : Rat) + 0 = 0; grind
  | x :: xs => by
    have ih := sum_map_add f g xs
    simp only [List.map_cons, List.sum_cons]
    rw [← ih]; grind

/-- the level increment of step `j` as the level rows see it -/
def q (p : StorageP) (n : Nat) (y : Vec) (j : Nat) : Rat :=
  if sep p then -1 * p.effIn * y j + -1 * y (n + j) else -1 * y j

theorem eval_levelCoeffs (p : StorageP) (n a i : Nat) (rhs : Rat) (k : RowKind) (y : Vec) :
    Row.eval ⟨levelCoeffs p n a i, rhs, k⟩ y = sumTo (q p n y) (a + (i + 1 - a)) - sumTo (q p n y) a := by
  rw [← sum_range']
  unfold Row.eval levelCoeffs q
  by_cases hs : sep p = true
  · simp only [hs, if_true, List.map_append, List.map_map, List.sum_append]
    rw [← sum_map_add]
    rfl
  · simp only [hs, Bool.false_eq_true, if_false, List.map_map]
    rfl

theorem eval_rename (r : Row) (φ : Nat → Nat) (y : Vec) : (r.rename φ).eval y = r.eval (fun j => y (φ j)) := by
  unfold Row.eval Row.rename
  simp only [List.map_map]
  rfl

theorem sat_rename (r : Row) (φ : Nat → Nat) (y : Vec) : (r.rename φ).Sat y ↔ r.Sat (fun j => y (φ j)) := by
  have hk : (r.rename φ).kind = r.kind := rfl
  have hr : (r.rename φ).rhs = r.rhs := rfl
  unfold Row.Sat
  rw [eval_rename, hk, hr]

/-! ## Part B: the LP storage, explicitly -/

theorem lp_spec (p : StorageP) (h : p.lp = true) :
    hasNS p = false ∧ p.maxStoreDuration = none ∧ p.blocks = none := by
  unfold StorageP.lp at h
  simp only [Bool.and_eq_true, Bool.not_eq_true', Option.isNone_iff_eq_none] at h
  exact ⟨h.1.1, h.1.2, h.2⟩

/-- explicit form of an LP storage problem -/
def storForm (p : StorageP) (g : Grid) (pr : Nat → Rat) : AssetProblem :=
  { name := p.name, nodes := p.nodes, c := costVec p g g.T pr, l := lowerVec p g g.T, u := upperVec p g g.T,
    rows := (List.range' 0 g.T).map (fun i => upperRow p g g.T 0 g.T i) ++
            (List.range' 0 g.T).map (fun i => lowerRow p g g.T 0 g.T i),
    mapping := dispMap p g g.T }

theorem nVars_lp (p : StorageP) (h : p.lp = true) (n : Nat) : nVars p n = nd p n := by
  obtain ⟨h1, h2, _⟩ := lp_spec p h
  simp [nVars, mHold, h1, h2]

theorem buildStorage_form (p : StorageP) (g : Grid) (T : Nat) (prices : Prices) (A : AssetProblem)
    (hg : g.Ok) (hlp : p.lp = true) (hA : buildStorage p g T prices = .ok A) :
    ∃ pr, A = storForm p g pr ∧ (g.T ≠ 0 → priceVec p g T prices = .ok pr ∧ p.nodes.isEmpty = false) := by
  obtain ⟨h1, h2, h3⟩ := lp_spec p hlp
  unfold buildStorage at hA
  by_cases hne : g.dt.length = 0
  · have hT : g.T = 0 := by rw [← hg.2.1]; exact hne
    simp only [hne, if_true] at hA
    injection hA with hA
    refine ⟨fun _ => 0, ?_, fun h => absurd hT h⟩
    subst hA
    simp [storForm, hT, costVec, lowerVec, upperVec, dispMap, nVars_lp p hlp, nd]
  · have hT : g.T ≠ 0 := by rw [← hg.2.1]; exact hne
    simp only [hne, if_false] at hA
    cases hpr : priceVec p g T prices with
    | error e => simp [hpr] at hA
    | ok pr =>
      simp only [hpr] at hA
      cases hn : p.nodes.isEmpty with
      | true => simp [hn] at hA
      | false =>
        have hb : blocksOf p g.T = .ok [(0, g.T)] := by simp [blocksOf, h3]
        simp only [hn, hb, Bool.false_eq_true, if_false] at hA
        injection hA with hA
        refine ⟨pr, ?_, fun _ => ⟨rfl, rfl⟩⟩
        subst hA
        simp [storForm, upperRows, lowerRows, nsRows, holdRows, Storage.mapping, h1, h2]

theorem upperRow_sat (p : StorageP) (g : Grid) (n i : Nat) (y : Vec) (hd : p.maxStoreDuration = none) :
    (upperRow p g n 0 n i).Sat y ↔ sumTo (q p n y) (i + 1) ≤ upRhs p g 0 n i := by
  unfold upperRow
  rw [hd]
  show Row.eval ⟨levelCoeffs p n 0 i, upRhs p g 0 n i, .U⟩ y ≤ _ ↔ _
  rw [eval_levelCoeffs]
  have e : 0 + (i + 1 - 0) = i + 1 := by omega
  rw [e]
  show sumTo _ _ - 0 ≤ _ ↔ _
  constructor <;> intro h <;> grind

theorem lowerRow_sat (p : StorageP) (g : Grid) (n i : Nat) (y : Vec) :
    (lowerRow p g n 0 n i).Sat y ↔ loRhs p g 0 n i ≤ sumTo (q p n y) (i + 1) := by
  unfold lowerRow
  show _ ≤ Row.eval ⟨levelCoeffs p n 0 i, loRhs p g 0 n i, .L⟩ y ↔ _
  rw [eval_levelCoeffs]
  have e : 0 + (i + 1 - 0) = i + 1 := by omega
  rw [e]
  show _ ≤ sumTo _ _ - 0 ↔ _
  constructor <;> intro h <;> grind

/-- the level rows of an LP storage: the partial sums of the level increments stay between the two right-hand sides -/
theorem storForm_rows_sat (p : StorageP) (g : Grid) (pr : Nat → Rat) (hd : p.maxStoreDuration = none) (y : Vec) :
    (∀ r ∈ (storForm p g pr).rows, r.Sat y) ↔
      ∀ i, i < g.T → loRhs p g 0 g.T i ≤ sumTo (q p g.T y) (i + 1) ∧ sumTo (q p g.T y) (i + 1) ≤ upRhs p g 0 g.T i := by
  constructor
  · intro h i hi
    have hm : i ∈ List.range' 0 g.T := by rw [List.mem_range'_1]; omega
    exact ⟨(lowerRow_sat p g g.T i y).mp (h _ (List.mem_append_right _ (List.mem_map_of_mem hm))),
      (upperRow_sat p g g.T i y hd).mp (h _ (List.mem_append_left _ (List.mem_map_of_mem hm)))⟩
  · intro h r hr
    rcases List.mem_append.mp hr with hr | hr
    · obtain ⟨i, hi, rfl⟩ := List.mem_map.mp hr
      rw [List.mem_range'_1] at hi
      exact (upperRow_sat p g g.T i y hd).mpr (h i (by omega)).2
    · obtain ⟨i, hi, rfl⟩ := List.mem_map.mp hr
      rw [List.mem_range'_1] at hi
      exact (lowerRow_sat p g g.T i y).mpr (h i (by omega)).1

/-! ## Part D (core): consecutive pieces that each return to the start level -/

def segsFrom (a : Nat) : List Nat → List (Nat × Nat)
  | [] => []
  | m :: ms => (a, m) :: segsFrom (a + m) ms

/-- `G` = level minus start level.  If on every piece `[a, a+m)` the level RELATIVE to the piece's start stays in
    `[-st, sz - st]` and is back at `en - st = 0` at the end of the piece, then so does the level itself. -/
theorem core (G : Nat → Rat) (st en sz : Rat) (hse : st = en) (h0 : 0 ≤ st) (h1 : st ≤ sz) :
    ∀ (ms : List Nat) (a : Nat), G a = 0 →
      (∀ s ∈ segsFrom a ms, ∀ i, i < s.2 →
        (if i + 1 = s.2 then en - st else -st) ≤ G (s.1 + i + 1) - G s.1 ∧
        G (s.1 + i + 1) - G s.1 ≤ (if i + 1 = s.2 then en - st else sz - st)) →
      (∀ t, a < t → t ≤ a + ms.sum → -st ≤ G t ∧ G t ≤ sz - st) ∧ G (a + ms.sum) = 0
  | [], a, ha, _ => ⟨fun t h1 h2 => by simp at h2; omega, by simpa using ha⟩
  | m :: ms, a, ha, h => by
    have hseg := h (a, m) (by simp [segsFrom])
    have hGm : G (a + m) = 0 := by
      by_cases hm : m = 0
      · subst hm; simpa using ha
      · have := hseg (m - 1) (by show m - 1 < m; omega)
        have e1 : m - 1 + 1 = m := by omega
        have e2 : a + (m - 1) + 1 = a + m := by omega
        simp only [e1, e2, if_true] at this
        grind
    obtain ⟨ih1, ih2⟩ := core G st en sz hse h0 h1 ms (a + m) hGm
      (fun s hs => h s (by simp [segsFrom, hs]))
    have hsum : a + (m :: ms).sum = a + m + ms.sum := by simp; omega
    refine ⟨fun t ht1 ht2 => ?_, by rw [hsum]; exact ih2⟩
    by_cases htm : t ≤ a + m
    · have := hseg (t - a - 1) (by show t - a - 1 < m; omega)
      have e2 : a + (t - a - 1) + 1 = t := by omega
      simp only [e2] at this
      by_cases hl : t - a - 1 + 1 = m
      · simp only [hl, if_true] at this
        grind
      · simp only [hl, if_false] at this
        grind
    · exact ih1 t (by omega) (by rw [← hsum]; exact ht2)

theorem tiles_segs : ∀ (Ps : List (List Nat)) (a N : Nat), Ps.flatten = List.range' a N →
    (Ps.map List.length).sum = N ∧
    (∀ P ∈ Ps, ∃ s ∈ segsFrom a (Ps.map List.length), P = List.range' s.1 s.2) ∧
    (∀ s ∈ segsFrom a (Ps.map List.length), ∃ P ∈ Ps, P = List.range' s.1 s.2)
  | [], a, N, h => by
    have : N = 0 := by
      have := congrArg List.length h
      simpa using this.symm
    subst this
    simp [segsFrom]
  | P :: rest, a, N, h => by
    have hlen : P.length + rest.flatten.length = N := by
      have := congrArg List.length h
      simpa using this
    have hsplit : List.range' a N = List.range' a P.length ++ List.range' (a + P.length) (N - P.length) := by
      rw [List.range'_append_1]
      congr 1; omega
    rw [List.flatten_cons, hsplit] at h
    obtain ⟨hP, hrest⟩ := List.append_inj h (by simp)
    obtain ⟨i1, i2, i3⟩ := tiles_segs rest (a + P.length) (N - P.length) hrest
    refine ⟨by simp [i1]; omega, ?_, ?_⟩
    · intro P' hP'
      rcases List.mem_cons.mp hP' with rfl | hP'
      · exact ⟨(a, P'.length), by simp [segsFrom], hP⟩
      · obtain ⟨s, hs, e⟩ := i2 P' hP'
        exact ⟨s, by simp [segsFrom, hs], e⟩
    · intro s hs
      simp only [List.map_cons, segsFrom, List.mem_cons] at hs
      rcases hs with rfl | hs
      · exact ⟨P, by simp, hP⟩
      · obtain ⟨P', hP', e⟩ := i3 s hs
        exact ⟨P', by simp [hP'], e⟩

/-! ## Part B2: variables of the LP storage at the steps of an interval; the storage on the picked grid -/

theorem buildStorage_of_form (p : StorageP) (g : Grid) (T : Nat) (prices : Prices) (pr : Nat → Rat)
    (hg : g.Ok) (hlp : p.lp = true)
    (hpr : g.T ≠ 0 → priceVec p g T prices = .ok pr ∧ p.nodes.isEmpty = false) :
    buildStorage p g T prices = .ok (storForm p g pr) := by
  obtain ⟨h1, h2, h3⟩ := lp_spec p hlp
  unfold buildStorage
  by_cases hne : g.dt.length = 0
  · have hT : g.T = 0 := by rw [← hg.2.1]; exact hne
    simp only [hne, if_true]
    congr 1
    simp [storForm, hT, costVec, lowerVec, upperVec, dispMap, nVars_lp p hlp, nd]
  · have hT : g.T ≠ 0 := by rw [← hg.2.1]; exact hne
    obtain ⟨e1, e2⟩ := hpr hT
    have hb : blocksOf p g.T = .ok [(0, g.T)] := by simp [blocksOf, h3]
    simp only [hne, if_false, e1, e2, hb, Bool.false_eq_true]
    congr 1
    simp [storForm, upperRows, lowerRows, nsRows, holdRows, Storage.mapping, h1, h2]

theorem storForm_n (p : StorageP) (g : Grid) (pr : Nat → Rat) (hlp : p.lp = true) :
    (storForm p g pr).n = if sep p then g.T + g.T else g.T := by
  show (costVec p g g.T pr).length = _
  unfold costVec
  rw [nVars_lp p hlp]
  by_cases hs : sep p = true <;> simp [hs]

theorem mem_dispMap_sep (p : StorageP) (g : Grid) (n : Nat) (hs : sep p = true) (m : MapRow) :
    m ∈ dispMap p g n ↔ ∃ k, k < n ∧
      (m = { var := k, asset := p.name, node := nodeIn p, kind := .d, step := idxAt g k, factor := 1, isBool := false,
             varName := "disp_in" } ∨
       m = { var := n + k, asset := p.name, node := nodeOut p, kind := .d, step := idxAt g k, factor := 1,
             isBool := false, varName := "disp_out" }) := by
  unfold dispMap
  simp only [hs, if_true, List.mem_append, List.mem_map, List.mem_range]
  constructor
  · rintro (⟨k, hk, rfl⟩ | ⟨k, hk, rfl⟩)
    · exact ⟨k, hk, Or.inl rfl⟩
    · exact ⟨k, hk, Or.inr rfl⟩
  · rintro ⟨k, hk, rfl | rfl⟩
    · exact Or.inl ⟨k, hk, rfl⟩
    · exact Or.inr ⟨k, hk, rfl⟩

theorem mem_dispMap_one (p : StorageP) (g : Grid) (n : Nat) (hs : sep p = false) (m : MapRow) :
    m ∈ dispMap p g n ↔ ∃ k, k < n ∧
      m = { var := k, asset := p.name, node := nodeIn p, kind := .d, step := idxAt g k, factor := 1, isBool := false,
            varName := "disp" } := by
  unfold dispMap
  simp only [hs, Bool.false_eq_true, if_false, List.mem_map, List.mem_range]
  constructor
  · rintro ⟨k, hk, rfl⟩; exact ⟨k, hk, rfl⟩
  · rintro ⟨k, hk, rfl⟩; exact ⟨k, hk, rfl⟩

theorem storForm_keep (p : StorageP) (g : Grid) (pr : Nat → Rat) (I : List Nat) (hg : g.Ok) (hlp : p.lp = true) :
    (storForm p g pr).keep I =
      if sep p then pos g.idx I ++ (pos g.idx I).map (g.idx.length + ·) else pos g.idx I := by
  have hT : g.T = g.idx.length := hg.1.symm
  have hn := storForm_n p g pr hlp
  by_cases hs : sep p = true
  · simp only [hs, if_true] at hn ⊢
    apply keep_two_block _ g.idx I (by rw [hn, hT])
    · intro v hv
      show varAtSteps (dispMap p g g.T) I v = true ↔ _
      rw [varAtSteps_iff]
      constructor
      · rintro ⟨m, hm, hv', hst⟩
        obtain ⟨k, hk, rfl | rfl⟩ := (mem_dispMap_sep p g g.T hs m).mp hm
        · simp only at hv' hst; subst hv'; exact hst
        · simp only at hv'; omega
      · intro h
        exact ⟨_, (mem_dispMap_sep p g g.T hs _).mpr ⟨v, by omega, Or.inl rfl⟩, rfl, h⟩
    · intro v hv
      show varAtSteps (dispMap p g g.T) I (g.idx.length + v) = true ↔ _
      rw [varAtSteps_iff]
      constructor
      · rintro ⟨m, hm, hv', hst⟩
        obtain ⟨k, hk, rfl | rfl⟩ := (mem_dispMap_sep p g g.T hs m).mp hm
        · simp only at hv'; omega
        · simp only at hv' hst
          have : k = v := by omega
          subst this; exact hst
      · intro h
        exact ⟨_, (mem_dispMap_sep p g g.T hs _).mpr ⟨v, by omega, Or.inr rfl⟩, by simp [hT], h⟩
  · have hs' : sep p = false := by simpa using hs
    simp only [hs', Bool.false_eq_true, if_false] at hn ⊢
    apply keep_one_block _ g.idx I (by rw [hn, hT])
    intro v hv
    show varAtSteps (dispMap p g g.T) I v = true ↔ _
    rw [varAtSteps_iff]
    constructor
    · rintro ⟨m, hm, hv', hst⟩
      obtain ⟨k, hk, rfl⟩ := (mem_dispMap_one p g g.T hs' m).mp hm
      simp only at hv' hst; subst hv'; exact hst
    · intro h
      exact ⟨_, (mem_dispMap_one p g g.T hs' _).mpr ⟨v, by omega, rfl⟩, rfl, h⟩

/-- the per-step data of the picked grid are those of the asset grid at the picked positions -/
theorem pick_at (g : Grid) (I : List Nat) (hg : g.Ok) (j : Nat) (hj : j < (pos g.idx I).length) :
    Storage.dtAt (g.pick I) j = Storage.dtAt g ((pos g.idx I).getD j 0) ∧
    Storage.dfAt (g.pick I) j = Storage.dfAt g ((pos g.idx I).getD j 0) ∧
    Storage.idxAt (g.pick I) j = I.idxOf (Storage.idxAt g ((pos g.idx I).getD j 0)) := by
  refine ⟨?_, ?_, ?_⟩
  · unfold Storage.dtAt
    rw [pick_dt g I hg]
    exact getD_map_lt _ _ j 0 0 hj
  · unfold Storage.dfAt
    have : (g.pick I).df = (pos g.idx I).map fun i => g.df.getD i 0 :=
      (pos_map_getD g.idx I g.df 0 (by rw [hg.2.2, hg.1])).symm
    rw [this]
    exact getD_map_lt _ _ j 0 0 hj
  · unfold Storage.idxAt
    rw [pick_idx g I]
    exact getD_map_lt _ _ j 0 0 hj

theorem pick_T' (g : Grid) (I : List Nat) (hg : g.Ok) : (g.pick I).T = (pos g.idx I).length := pick_T g I hg

theorem pos_getD_mem (idx I : List Nat) (j : Nat) (hj : j < (pos idx I).length) :
    (pos idx I).getD j 0 < idx.length ∧ idx.getD ((pos idx I).getD j 0) 0 ∈ I := by
  have : (pos idx I).getD j 0 ∈ pos idx I := by
    rw [List.getD_eq_getElem?_getD, List.getElem?_eq_getElem hj]
    exact List.getElem_mem hj
  exact (mem_pos idx I _).mp this

/-- the storage set up in the interval is the explicit LP form on the picked grid; its price vector is the unsplit
    one at the picked positions -/
theorem storageOn_form (p : StorageP) (g : Grid) (T : Nat) (prices : Prices) (pr : Nat → Rat) (I : List Nat)
    (hg : g.Ok) (hlp : p.lp = true) (hpr : g.T ≠ 0 → priceVec p g T prices = .ok pr ∧ p.nodes.isEmpty = false) :
    ∃ prI, buildStorage p (g.pick I) I.length (pickPrices I prices) = .ok (storForm p (g.pick I) prI) ∧
      storageOn p g prices I = storForm p (g.pick I) prI ∧
      ∀ j, j < (pos g.idx I).length → prI j = pr ((pos g.idx I).getD j 0) := by
  have hgI := pick_ok g I hg
  have hTI := pick_T g I hg
  by_cases h0 : (g.pick I).T = 0
  · have hb := buildStorage_of_form p (g.pick I) I.length (pickPrices I prices) (fun _ => 0) hgI hlp (fun h => absurd h0 h)
    refine ⟨fun _ => 0, hb, ?_, fun j hj => by rw [← hTI, h0] at hj; omega⟩
    unfold storageOn
    rw [hb]
  · have hgT : g.T ≠ 0 := by
      intro h
      apply h0
      rw [hTI]
      have : g.idx.length = 0 := by rw [hg.1]; exact h
      simp [pos, this]
    obtain ⟨e1, e2⟩ := hpr hgT
    -- the price vector in the interval
    have hex : ∃ prI, priceVec p (g.pick I) I.length (pickPrices I prices) = .ok prI ∧
        ∀ j, j < (pos g.idx I).length → prI j = pr ((pos g.idx I).getD j 0) := by
      unfold priceVec at e1 ⊢
      cases hk : p.price with
      | none =>
        simp only [hk] at e1 ⊢
        injection e1 with e1
        exact ⟨fun _ => 0, rfl, fun j _ => by rw [← e1]⟩
      | some k =>
        simp only [hk, lookup_pickPrices] at e1 ⊢
        cases hl : prices.lookup k with
        | none => simp [hl] at e1
        | some arr =>
          simp only [hl, Option.map_some] at e1 ⊢
          by_cases hlen : arr.length ≠ T
          · simp [hlen] at e1
          · simp only [hlen, if_false] at e1
            injection e1 with e1
            refine ⟨fun i => (I.map fun t => arr.getD t 0).getD (Storage.idxAt (g.pick I) i) 0, ?_, fun j hj => ?_⟩
            · simp only [List.length_map, ne_eq, not_true, if_false]
              rfl
            rw [← e1]
            obtain ⟨_, hmem⟩ := pos_getD_mem g.idx I j hj
            show (List.map (fun t => arr.getD t 0) I).getD (Storage.idxAt (g.pick I) j) 0 = _
            rw [(pick_at g I hg j hj).2.2]
            exact getD_map_idxOf I (fun t => arr.getD t 0) _ hmem
    obtain ⟨prI, hp1, hp2⟩ := hex
    have hb := buildStorage_of_form p (g.pick I) I.length (pickPrices I prices) prI hgI hlp (fun _ => ⟨hp1, e2⟩)
    refine ⟨prI, hb, ?_, hp2⟩
    unfold storageOn
    rw [hb]

/-! ## Part D: the rows of the interval storages, read on the unsplit variables -/

theorem range'_getD (a m j : Nat) (h : j < m) : (List.range' a m).getD j 0 = a + j := by
  simp [List.getD_eq_getElem?_getD, List.getElem?_range', h]

/-- the variable of the unsplit storage behind variable `j` of the interval storage -/
theorem keep_getD (p : StorageP) (g : Grid) (pr : Nat → Rat) (I : List Nat) (hg : g.Ok) (hlp : p.lp = true)
    (a m : Nat) (hP : pos g.idx I = List.range' a m) (j : Nat) (hj : j < m) :
    ((storForm p g pr).keep I).getD j 0 = a + j ∧
    (sep p = true → ((storForm p g pr).keep I).getD (m + j) 0 = g.T + (a + j)) := by
  rw [storForm_keep p g pr I hg hlp, hP]
  have hT : g.T = g.idx.length := hg.1.symm
  by_cases hs : sep p = true
  · simp only [hs, if_true]
    refine ⟨?_, fun _ => ?_⟩
    · rw [List.getD_eq_getElem?_getD, List.getElem?_append_left (by simpa using hj),
        ← List.getD_eq_getElem?_getD, range'_getD a m j hj]
    · rw [List.getD_eq_getElem?_getD, List.getElem?_append_right (by simp)]
      simp only [List.length_range', Nat.add_sub_cancel_left]
      rw [← List.getD_eq_getElem?_getD, getD_map_lt _ _ j 0 0 (by simpa using hj), range'_getD a m j hj, hT]
  · simp only [hs, Bool.false_eq_true, if_false]
    exact ⟨range'_getD a m j hj, fun h => absurd h (by simp)⟩

theorem q_lift (p : StorageP) (g : Grid) (pr : Nat → Rat) (I : List Nat) (hg : g.Ok) (hlp : p.lp = true)
    (a m : Nat) (hP : pos g.idx I = List.range' a m) (y : Vec) (j : Nat) (hj : j < m) :
    q p m (fun v => y (((storForm p g pr).keep I).getD v 0)) j = q p g.T y (a + j) := by
  obtain ⟨h1, h2⟩ := keep_getD p g pr I hg hlp a m hP j hj
  unfold q
  by_cases hs : sep p = true
  · simp only [hs, if_true]
    rw [h1, h2 hs]
  · simp only [hs, Bool.false_eq_true, if_false]
    rw [h1]

theorem blockInfl_zero (p : StorageP) (g : Grid) (i : Nat) : blockInfl p g 0 i = cumInfl p g (i + 1) := by
  show sumTo (infl p g) (i + 1) - 0 = sumTo (infl p g) (i + 1)
  grind

theorem cumInfl_pick (p : StorageP) (g : Grid) (I : List Nat) (hg : g.Ok) (a m : Nat)
    (hP : pos g.idx I = List.range' a m) (k : Nat) (hk : k ≤ m) :
    cumInfl p (g.pick I) k = cumInfl p g (a + k) - cumInfl p g a := by
  unfold cumInfl
  rw [← sumTo_shift]
  apply sumTo_congr
  intro j hj
  unfold infl
  have hj' : j < (pos g.idx I).length := by rw [hP]; simp; omega
  rw [(pick_at g I hg j hj').1, hP, range'_getD a m j (by omega)]

/-- the level rows of the storage built in an interval, written with the unsplit variables: the partial sums FROM
    THE INTERVAL'S FIRST STEP stay between the right-hand sides of a storage that starts at `start_level` there -/
theorem lift_rows_sat (p : StorageP) (g : Grid) (pr prI : Nat → Rat) (I : List Nat) (hg : g.Ok) (hlp : p.lp = true)
    (a m : Nat) (hP : pos g.idx I = List.range' a m) (y : Vec) :
    (∀ r ∈ liftRows (storForm p g pr) I (storForm p (g.pick I) prI), r.Sat y) ↔
      ∀ i, i < m →
        (if i + 1 = m then p.endLevel - p.startLevel else -p.startLevel) ≤
          (sumTo (q p g.T y) (a + i + 1) + cumInfl p g (a + i + 1)) - (sumTo (q p g.T y) a + cumInfl p g a) ∧
        (sumTo (q p g.T y) (a + i + 1) + cumInfl p g (a + i + 1)) - (sumTo (q p g.T y) a + cumInfl p g a) ≤
          (if i + 1 = m then p.endLevel - p.startLevel else p.size - p.startLevel) := by
  obtain ⟨_, hd, _⟩ := lp_spec p hlp
  have hm : (g.pick I).T = m := by rw [pick_T g I hg, hP]; simp
  have h1 : (∀ r ∈ liftRows (storForm p g pr) I (storForm p (g.pick I) prI), r.Sat y) ↔
      ∀ r ∈ (storForm p (g.pick I) prI).rows, r.Sat (fun v => y (((storForm p g pr).keep I).getD v 0)) := by
    unfold liftRows
    constructor
    · intro h r hr
      exact (sat_rename r _ y).mp (h _ (List.mem_map_of_mem hr))
    · intro h r hr
      obtain ⟨r', hr', rfl⟩ := List.mem_map.mp hr
      exact (sat_rename r' _ y).mpr (h r' hr')
  rw [h1, storForm_rows_sat p (g.pick I) prI hd, hm]
  have hS : ∀ i, i < m → sumTo (q p m (fun v => y (((storForm p g pr).keep I).getD v 0))) (i + 1) =
      sumTo (q p g.T y) (a + i + 1) - sumTo (q p g.T y) a := by
    intro i hi
    rw [sumTo_congr _ (fun j => q p g.T y (a + j)) (i + 1)
      (fun j hj => q_lift p g pr I hg hlp a m hP y j (by omega)), sumTo_shift]
    rfl
  have hF : ∀ i, i < m → blockInfl p (g.pick I) 0 i = cumInfl p g (a + i + 1) - cumInfl p g a := by
    intro i hi
    rw [blockInfl_zero, cumInfl_pick p g I hg a m hP (i + 1) (by omega)]
    rfl
  have hbs : blockStart p 0 = p.startLevel := by simp [blockStart]
  constructor
  · intro h i hi
    obtain ⟨g1, g2⟩ := h i hi
    rw [hS i hi] at g1 g2
    unfold loRhs at g1
    unfold upRhs at g2
    rw [hF i hi, hbs] at g1 g2
    by_cases he : i + 1 = m
    · simp only [he, if_true] at g1 g2 ⊢
      constructor <;> grind
    · simp only [he, if_false] at g1 g2 ⊢
      constructor <;> grind
  · intro h i hi
    obtain ⟨g1, g2⟩ := h i hi
    rw [hS i hi]
    unfold loRhs upRhs
    rw [hF i hi, hbs]
    by_cases he : i + 1 = m
    · simp only [he, if_true] at g1 g2 ⊢
      constructor <;> grind
    · simp only [he, if_false] at g1 g2 ⊢
      constructor <;> grind

/-- **start level = end level in `[0, size]`**: if the level rows of every interval storage hold (on the unsplit
    variables), the cumulative level rows of the unsplit storage hold -/
theorem restart_rows_imply (p : StorageP) (g : Grid) (pr : Nat → Rat) (prI : List Nat → Nat → Rat)
    (Is : List (List Nat)) (hg : g.Ok) (hlp : p.lp = true) (hlev : p.levelOK = true) (ht : tiles g Is = true)
    (y : Vec)
    (h : ∀ I ∈ Is, ∀ r ∈ liftRows (storForm p g pr) I (storForm p (g.pick I) (prI I)), r.Sat y) :
    ∀ r ∈ (storForm p g pr).rows, r.Sat y := by
  obtain ⟨_, hd, _⟩ := lp_spec p hlp
  unfold StorageP.levelOK at hlev
  simp only [Bool.and_eq_true, decide_eq_true_eq] at hlev
  obtain ⟨⟨hse, h0⟩, h1⟩ := hlev
  unfold tiles at ht
  simp only [decide_eq_true_eq] at ht
  rw [List.range_eq_range'] at ht
  obtain ⟨t1, _, t3⟩ := tiles_segs (Is.map g.posIn) 0 g.T ht
  let G : Nat → Rat := fun t => sumTo (q p g.T y) t + cumInfl p g t
  have hG0 : G 0 = 0 := by show (0 : Rat) + 0 = 0; grind
  have hc := core G p.startLevel p.endLevel p.size hse h0 h1 ((Is.map g.posIn).map List.length) 0 hG0 (by
    intro s hs i hi
    obtain ⟨P, hP, hPe⟩ := t3 s hs
    obtain ⟨I, hI, rfl⟩ := List.mem_map.mp hP
    have := (lift_rows_sat p g pr (prI I) I hg hlp s.1 s.2 hPe y).mp (h I hI) i hi
    exact this)
  rw [t1, Nat.zero_add] at hc
  obtain ⟨c1, c2⟩ := hc
  rw [storForm_rows_sat p g pr hd]
  intro i hi
  obtain ⟨b1, b2⟩ := c1 (i + 1) (by omega) (by omega)
  have hbs : blockStart p 0 = p.startLevel := by simp [blockStart]
  unfold loRhs upRhs
  rw [blockInfl_zero, hbs]
  by_cases he : i + 1 = g.T
  · simp only [he, if_true]
    have : G (i + 1) = 0 := by rw [he]; exact c2
    constructor <;> grind
  · simp only [he, if_false]
    constructor <;> grind

/-! ## Part C: the restart form is banded, its rows stay inside the intervals -/

theorem mem_dispMap (p : StorageP) (g : Grid) (n : Nat) (m : MapRow) (hm : m ∈ dispMap p g n) :
    ∃ k, k < n ∧ m.step = Storage.idxAt g k ∧ m.isBool = false ∧ (m.var = k ∨ (sep p = true ∧ m.var = n + k)) := by
  by_cases hs : sep p = true
  · obtain ⟨k, hk, rfl | rfl⟩ := (mem_dispMap_sep p g n hs m).mp hm
    · exact ⟨k, hk, rfl, rfl, Or.inl rfl⟩
    · exact ⟨k, hk, rfl, rfl, Or.inr ⟨hs, rfl⟩⟩
  · have hs' : sep p = false := by simpa using hs
    obtain ⟨k, hk, rfl⟩ := (mem_dispMap_one p g n hs' m).mp hm
    exact ⟨k, hk, rfl, rfl, Or.inl rfl⟩

theorem storForm_rows_ok (p : StorageP) (g : Grid) (pr : Nat → Rat) (hlp : p.lp = true) :
    ∀ r ∈ (storForm p g pr).rows, r.coeffs ≠ [] ∧ ∀ q ∈ r.coeffs, q.1 < (storForm p g pr).n := by
  obtain ⟨_, hd, _⟩ := lp_spec p hlp
  have hn := storForm_n p g pr hlp
  have hlc : ∀ i, i < g.T → levelCoeffs p g.T 0 i ≠ [] ∧ ∀ q ∈ levelCoeffs p g.T 0 i, q.1 < (storForm p g pr).n := by
    intro i hi
    unfold levelCoeffs
    by_cases hs : sep p = true
    · simp only [hs, if_true] at hn ⊢
      refine ⟨?_, ?_⟩
      · have : i + 1 - 0 = (i + 1 - 0 - 1) + 1 := by omega
        rw [this, List.range'_succ]
        simp
      · intro q hq
        rcases List.mem_append.mp hq with hq | hq
        · obtain ⟨j, hj, rfl⟩ := List.mem_map.mp hq
          rw [List.mem_range'_1] at hj
          show j < _
          omega
        · obtain ⟨j, hj, rfl⟩ := List.mem_map.mp hq
          rw [List.mem_range'_1] at hj
          show g.T + j < _
          omega
    · simp only [hs, Bool.false_eq_true, if_false] at hn ⊢
      refine ⟨?_, ?_⟩
      · have : i + 1 - 0 = (i + 1 - 0 - 1) + 1 := by omega
        rw [this, List.range'_succ]
        simp
      · intro q hq
        obtain ⟨j, hj, rfl⟩ := List.mem_map.mp hq
        rw [List.mem_range'_1] at hj
        show j < _
        omega
  intro r hr
  rcases List.mem_append.mp hr with hr | hr
  · obtain ⟨i, hi, rfl⟩ := List.mem_map.mp hr
    rw [List.mem_range'_1] at hi
    unfold upperRow
    rw [hd]
    exact hlc i (by omega)
  · obtain ⟨i, hi, rfl⟩ := List.mem_map.mp hr
    rw [List.mem_range'_1] at hi
    exact hlc i (by omega)

theorem storForm_banded (p : StorageP) (g : Grid) (pr : Nat → Rat) (Tref : Nat) (hg : g.Ok) (hlp : p.lp = true)
    (hidx : ∀ t ∈ g.idx, t < Tref) (R : List Row)
    (hR : ∀ r ∈ R, r.coeffs ≠ [] ∧ ∀ q ∈ r.coeffs, q.1 < (storForm p g pr).n) :
    Banded ({ storForm p g pr with rows := R } : AssetProblem) Tref := by
  have hn := storForm_n p g pr hlp
  have hT : g.T = g.idx.length := hg.1.symm
  have hN : ({ storForm p g pr with rows := R } : AssetProblem).n = (storForm p g pr).n := rfl
  have hnv := nVars_lp p hlp g.T
  refine ⟨?_, ?_, ?_, ?_, ?_, ?_, ?_, hR⟩
  · rw [hN, hn]
    show (lowerVec p g g.T).length = _
    unfold lowerVec
    rw [hnv]
    by_cases hs : sep p = true <;> simp [hs]
  · rw [hN, hn]
    show (upperVec p g g.T).length = _
    unfold upperVec
    rw [hnv]
    by_cases hs : sep p = true <;> simp [hs]
  · intro m hm
    obtain ⟨k, hk, _, _, hv | ⟨hs, hv⟩⟩ := mem_dispMap p g g.T m hm
    · rw [hN, hn, hv]; split <;> omega
    · rw [hN, hn, hv]; simp only [hs, if_true]; omega
  · intro m hm
    obtain ⟨k, hk, hst, _, _⟩ := mem_dispMap p g g.T m hm
    rw [hst]
    unfold Storage.idxAt
    rw [List.getD_eq_getElem?_getD, List.getElem?_eq_getElem (by omega)]
    exact hidx _ (List.getElem_mem _)
  · intro m hm
    obtain ⟨_, _, _, hb, _⟩ := mem_dispMap p g g.T m hm
    exact hb
  · intro m hm m' hm' hv
    obtain ⟨k, hk, hst, _, h1⟩ := mem_dispMap p g g.T m hm
    obtain ⟨k', hk', hst', _, h1'⟩ := mem_dispMap p g g.T m' hm'
    have : k = k' := by
      rcases h1 with h | ⟨_, h⟩ <;> rcases h1' with h' | ⟨_, h'⟩ <;> omega
    rw [hst, hst', this]
  · intro v hv
    rw [hN, hn] at hv
    by_cases hs : sep p = true
    · simp only [hs, if_true] at hv
      by_cases hlt : v < g.T
      · exact ⟨_, (mem_dispMap_sep p g g.T hs _).mpr ⟨v, hlt, Or.inl rfl⟩, rfl⟩
      · refine ⟨_, (mem_dispMap_sep p g g.T hs _).mpr ⟨v - g.T, by omega, Or.inr rfl⟩, ?_⟩
        show g.T + (v - g.T) = v
        omega
    · have hs' : sep p = false := by simpa using hs
      simp only [hs', Bool.false_eq_true, if_false] at hv
      exact ⟨_, (mem_dispMap_one p g g.T hs' _).mpr ⟨v, hv, rfl⟩, rfl⟩

theorem getD_mem_of_lt (L : List Nat) (j : Nat) (h : j < L.length) : L.getD j 0 ∈ L := by
  rw [List.getD_eq_getElem?_getD, List.getElem?_eq_getElem h]
  exact List.getElem_mem h

/-- number of variables of the interval storage = number of unsplit variables at the interval's steps -/
theorem keep_length (p : StorageP) (g : Grid) (pr prI : Nat → Rat) (I : List Nat) (hg : g.Ok) (hlp : p.lp = true) :
    ((storForm p g pr).keep I).length = (storForm p (g.pick I) prI).n := by
  rw [storForm_keep p g pr I hg hlp, storForm_n p (g.pick I) prI hlp, pick_T g I hg]
  by_cases hs : sep p = true <;> simp [hs]

/-- the rows of the restart form: non-empty, over the variables at the steps of their interval -/
theorem restart_rows (p : StorageP) (g : Grid) (pr : Nat → Rat) (prI : List Nat → Nat → Rat) (Is : List (List Nat))
    (hg : g.Ok) (hlp : p.lp = true) :
    ∀ r ∈ (Is.flatMap fun I => liftRows (storForm p g pr) I (storForm p (g.pick I) (prI I))),
      r.coeffs ≠ [] ∧ ∃ I ∈ Is, ∀ q ∈ r.coeffs, q.1 ∈ (storForm p g pr).keep I := by
  intro r hr
  obtain ⟨I, hI, hr⟩ := List.mem_flatMap.mp hr
  obtain ⟨r', hr', rfl⟩ := List.mem_map.mp hr
  obtain ⟨h1, h2⟩ := storForm_rows_ok p (g.pick I) (prI I) hlp r' hr'
  refine ⟨by simpa [Row.rename] using h1, I, hI, fun q hq => ?_⟩
  obtain ⟨q', hq', rfl⟩ := List.mem_map.mp hq
  exact getD_mem_of_lt _ _ (by rw [keep_length p g pr (prI I) I hg hlp]; exact h2 q' hq')

/-! ### restricting lifted rows -/

theorem idxOf_getD (L : List Nat) (hL : L.Nodup) (j : Nat) (h : j < L.length) : L.idxOf (L.getD j 0) = j := by
  rw [List.getD_eq_getElem?_getD, List.getElem?_eq_getElem h]
  exact hL.idxOf_getElem j h

/-- the rows of the interval problems of OTHER intervals vanish under the restriction, those of the interval itself
    come back as they were -/
theorem restrict_liftRows (A : AssetProblem) (B : List Nat → AssetProblem) (Is : List (List Nat)) (I : List Nat)
    (hI : I ∈ Is) (hd : Is.Pairwise fun I J => ∀ v ∈ A.keep I, v ∉ A.keep J)
    (hrows : ∀ I' ∈ Is, ∀ r ∈ (B I').rows, r.coeffs ≠ [] ∧ ∀ q ∈ r.coeffs, q.1 < (A.keep I').length) :
    restrictRows A I (Is.flatMap fun I' => liftRows A I' (B I')) = (B I).rows := by
  obtain ⟨pre, post, rfl⟩ := List.append_of_mem hI
  have hother : ∀ I' ∈ pre ++ post, restrictRows A I (liftRows A I' (B I')) = [] := by
    intro I' hI'
    have hdis : ∀ v ∈ A.keep I', v ∉ A.keep I := by
      rw [List.pairwise_append] at hd
      obtain ⟨_, h2, h3⟩ := hd
      rcases List.mem_append.mp hI' with h | h
      · exact h3 I' h I (by simp)
      · have := (List.pairwise_cons.mp h2).1 I' h
        intro v hv hv'
        exact this v hv' hv
    unfold restrictRows
    rw [List.map_eq_nil_iff, List.filter_eq_nil_iff]
    intro r hr
    obtain ⟨r', hr', rfl⟩ := List.mem_map.mp hr
    obtain ⟨h1, h2⟩ := hrows I' (by
      rcases List.mem_append.mp hI' with h | h
      · exact List.mem_append_left _ h
      · exact List.mem_append_right _ (List.mem_cons_of_mem _ h)) r' hr'
    obtain ⟨q, rest, hq⟩ := List.exists_cons_of_ne_nil h1
    intro hall
    simp only [Row.rename, hq, List.map_cons, List.all_cons, Bool.and_eq_true] at hall
    have hmem := getD_mem_of_lt (A.keep I') q.1 (h2 q (by rw [hq]; simp))
    exact hdis _ hmem (List.contains_iff_mem.mp hall.1)
  have hnil : ∀ L : List (List Nat), (∀ I' ∈ L, restrictRows A I (liftRows A I' (B I')) = []) →
      restrictRows A I (L.flatMap fun I' => liftRows A I' (B I')) = [] := by
    intro L
    induction L with
    | nil => intro _; rfl
    | cons x xs ih =>
      intro h
      rw [List.flatMap_cons, restrictRows_append, h x (by simp), ih (fun I' hI' => h I' (by simp [hI']))]
      rfl
  rw [List.flatMap_append, List.flatMap_cons, restrictRows_append, restrictRows_append,
    hnil pre (fun I' h => hother I' (List.mem_append_left _ h)),
    hnil post (fun I' h => hother I' (List.mem_append_right _ h)), List.nil_append, List.append_nil]
  -- the interval's own rows
  have hown := hrows I (by simp)
  unfold restrictRows liftRows
  have hfil : ((B I).rows.map (Row.rename fun j => (A.keep I).getD j 0)).filter
      (fun r => r.coeffs.all fun q => (A.keep I).contains q.1) =
      (B I).rows.map (Row.rename fun j => (A.keep I).getD j 0) := by
    rw [List.filter_eq_self]
    intro r hr
    obtain ⟨r', hr', rfl⟩ := List.mem_map.mp hr
    rw [List.all_eq_true]
    intro q hq
    obtain ⟨q', hq', rfl⟩ := List.mem_map.mp hq
    exact List.contains_iff_mem.mpr (getD_mem_of_lt _ _ ((hown r' hr').2 q' hq'))
  rw [hfil, List.map_map]
  conv => rhs; rw [← List.map_id (B I).rows]
  apply List.map_congr_left
  intro r hr
  show (r.rename _).rename _ = r
  rw [rename_rename]
  have : r.rename (fun v => (A.keep I).idxOf ((A.keep I).getD v 0)) = r.rename id :=
    rename_congr _ _ r (fun q hq => idxOf_getD _ (keep_nodup A I) _ ((hown r hr).2 q hq))
  rw [this]
  cases r
  simp [Row.rename]

/-! ### vectors and mapping of the restricted LP storage -/

theorem map_getD_range (P : List Nat) (n : Nat) (F : Nat → Rat) (tl : List Rat) (h : ∀ i ∈ P, i < n) :
    P.map (fun v => ((List.range n).map F ++ tl).getD v 0) = P.map F := by
  apply List.map_congr_left
  intro i hi
  have := h i hi
  rw [List.getD_eq_getElem?_getD, List.getElem?_append_left (by simpa using this)]
  simp [this]

theorem map_getD_range2 (P : List Nat) (n : Nat) (F1 F2 : Nat → Rat) (tl : List Rat) (h : ∀ i ∈ P, i < n) :
    (P.map (n + ·)).map (fun v => ((List.range n).map F1 ++ ((List.range n).map F2 ++ tl)).getD v 0) = P.map F2 := by
  rw [List.map_map]
  apply List.map_congr_left
  intro i hi
  have := h i hi
  simp only [Function.comp]
  rw [List.getD_eq_getElem?_getD, List.getElem?_append_right (by simp)]
  simp only [List.length_map, List.length_range, Nat.add_sub_cancel_left]
  rw [List.getElem?_append_left (by simpa using this)]
  simp [this]

theorem range_map_getD {β} (P : List Nat) (F' : Nat → β) (F : Nat → β) (h : ∀ j, j < P.length → F' j = F (P.getD j 0)) :
    (List.range P.length).map F' = P.map F := by
  apply List.ext_getElem
  · simp
  · intro j h1 h2
    have hj : j < P.length := by simpa using h2
    simp only [List.getElem_map, List.getElem_range]
    rw [h j hj, List.getD_eq_getElem?_getD, List.getElem?_eq_getElem hj]
    rfl

theorem vec_restrict (sepb : Bool) (n : Nat) (P : List Nat) (hPn : ∀ i ∈ P, i < n) (F0 F1 F2 F0' F1' F2' : Nat → Rat)
    (h0 : ∀ j, j < P.length → F0' j = F0 (P.getD j 0))
    (h1 : ∀ j, j < P.length → F1' j = F1 (P.getD j 0)) (h2 : ∀ j, j < P.length → F2' j = F2 (P.getD j 0)) :
    (if sepb then P ++ P.map (n + ·) else P).map
        (fun v => ((if sepb then (List.range n).map F1 ++ (List.range n).map F2 else (List.range n).map F0) ++ []).getD v 0) =
      (if sepb then (List.range P.length).map F1' ++ (List.range P.length).map F2'
       else (List.range P.length).map F0') ++ [] := by
  cases sepb
  · simp only [Bool.false_eq_true, if_false, List.append_nil]
    rw [range_map_getD P F0' F0 h0]
    have := map_getD_range P n F0 [] hPn
    simpa using this
  · simp only [if_true, List.append_nil, List.map_append]
    rw [range_map_getD P F1' F1 h1, range_map_getD P F2' F2 h2]
    congr 1
    · have := map_getD_range P n F1 ((List.range n).map F2) hPn
      simpa using this
    · have := map_getD_range2 P n F1 F2 [] hPn
      simpa using this

theorem storeTail_zero (p : StorageP) (g : Grid) (n i : Nat) (h : p.costStore = 0) : (storeTail p g n).getD i 0 = 0 := by
  unfold storeTail
  simp only [h, if_true]
  rw [List.getD_eq_getElem?_getD]
  by_cases hi : i < n
  · simp [hi]
  · simp [hi]

theorem filter_map_range_pos (g : Grid) (I : List Nat) (R : Nat → MapRow) (hR : ∀ k, (R k).step = Storage.idxAt g k) :
    ((List.range g.idx.length).map R).filter (fun m => I.contains m.step) = (pos g.idx I).map R := by
  rw [List.filter_map]
  congr 1
  unfold pos
  apply List.filter_congr
  intro k _
  simp only [Function.comp, hR]
  rfl

/-- **the restart form restricted to an interval IS the storage built in that interval** -/
theorem restart_restrict (p : StorageP) (g : Grid) (pr : Nat → Rat) (prI : List Nat → Nat → Rat)
    (Is : List (List Nat)) (I : List Nat) (hg : g.Ok) (hlp : p.lp = true) (hcs : p.costStore = 0) (hI : I ∈ Is)
    (hd : Is.Pairwise fun I J => ∀ v ∈ (storForm p g pr).keep I, v ∉ (storForm p g pr).keep J)
    (hprI : ∀ j, j < (pos g.idx I).length → prI I j = pr ((pos g.idx I).getD j 0)) :
    ((storForm p g pr).withIntervalRows Is (fun I' => storForm p (g.pick I') (prI I'))).restrictTo I =
      storForm p (g.pick I) (prI I) := by
  have hk := storForm_keep p g pr I hg hlp
  have hT : g.T = g.idx.length := hg.1.symm
  have hm := pick_T g I hg
  have hPn : ∀ i ∈ pos g.idx I, i < g.T := fun i hi => by rw [hT]; exact ((mem_pos g.idx I i).mp hi).1
  have hnv := nVars_lp p hlp
  have hat := pick_at g I hg
  rw [← hT] at hk
  refine restrictTo_eq _ _ I rfl rfl ?_ ?_ ?_ ?_ ?_
  · show ((storForm p g pr).keep I).map (fun v => (costVec p g g.T pr).getD v 0) =
      costVec p (g.pick I) (g.pick I).T (prI I)
    rw [hk, hm]
    unfold costVec
    simp only [hnv, Nat.sub_self, List.range_zero, List.map_nil, storeTail_zero p _ _ _ hcs]
    refine vec_restrict (sep p) g.T (pos g.idx I) hPn _ _ _ _ _ _ (fun j hj => ?_) (fun j hj => ?_) (fun j hj => ?_)
    · simp only [hprI j hj, (hat j hj).2.1]
    · simp only [hprI j hj, (hat j hj).2.1]
    · simp only [hprI j hj, (hat j hj).2.1]
  · show ((storForm p g pr).keep I).map (fun v => (lowerVec p g g.T).getD v 0) = lowerVec p (g.pick I) (g.pick I).T
    rw [hk, hm]
    unfold lowerVec
    simp only [hnv, Nat.sub_self, List.range_zero, List.map_nil]
    refine vec_restrict (sep p) g.T (pos g.idx I) hPn _ _ _ _ _ _ (fun j hj => ?_) (fun j hj => ?_) (fun j hj => ?_)
    · simp only [cp, (hat j hj).1]
    · simp only [cp, (hat j hj).1]
    · rfl
  · show ((storForm p g pr).keep I).map (fun v => (upperVec p g g.T).getD v 0) = upperVec p (g.pick I) (g.pick I).T
    rw [hk, hm]
    unfold upperVec
    simp only [hnv, Nat.sub_self, List.range_zero, List.map_nil]
    refine vec_restrict (sep p) g.T (pos g.idx I) hPn _ _ _ _ _ _ (fun j hj => ?_) (fun j hj => ?_) (fun j hj => ?_)
    · simp only [ct, (hat j hj).1]
    · rfl
    · simp only [ct, (hat j hj).1]
  · exact restrict_liftRows (storForm p g pr) _ Is I hI hd (fun I' hI' r hr => by
      obtain ⟨h1, h2⟩ := storForm_rows_ok p (g.pick I') (prI I') hlp r hr
      exact ⟨h1, fun q hq => by rw [keep_length p g pr (prI I') I' hg hlp]; exact h2 q hq⟩)
  · show ((dispMap p g g.T).filter fun m => I.contains m.step).map
        (fun m => { m with var := ((storForm p g pr).keep I).idxOf m.var, step := I.idxOf m.step }) =
      dispMap p (g.pick I) (g.pick I).T
    rw [hk, hm]
    have hnd := pos_nodup g.idx I
    unfold dispMap
    by_cases hs : sep p = true
    · simp only [hs, if_true]
      rw [hT, List.filter_append, List.map_append, filter_map_range_pos g I _ (fun _ => rfl),
        filter_map_range_pos g I _ (fun _ => rfl), List.map_map, List.map_map]
      congr 1
      · refine (range_map_getD _ _ _ (fun j hj => ?_)).symm
        simp only [Function.comp]
        rw [idxOf_append_left _ _ _ (getD_mem_of_lt _ _ hj), idxOf_getD _ hnd j hj, (hat j hj).2.2]
      · refine (range_map_getD _ _ _ (fun j hj => ?_)).symm
        simp only [Function.comp]
        rw [idxOf_two_block_right, idxOf_getD _ hnd j hj, (hat j hj).2.2]
    · simp only [hs, Bool.false_eq_true, if_false]
      rw [hT, filter_map_range_pos g I _ (fun _ => rfl), List.map_map]
      refine (range_map_getD _ _ _ (fun j hj => ?_)).symm
      simp only [Function.comp]
      rw [idxOf_getD _ hnd j hj, (hat j hj).2.2]

/-! ## Part E: portfolios -/

theorem keep_pairwise {A : AssetProblem} {T : Nat} (hB : Banded A T) (Is : List (List Nat))
    (hd : Is.Pairwise fun I J => ∀ t ∈ I, t ∉ J) :
    Is.Pairwise fun I J => ∀ v ∈ A.keep I, v ∉ A.keep J := by
  apply List.Pairwise.imp _ hd
  intro I J hIJ u hu hu'
  obtain ⟨_, m, hm, hv, hs⟩ := (mem_keep _ _ _).mp hu
  obtain ⟨_, m', hm', hv', hs'⟩ := (mem_keep _ _ _).mp hu'
  have := hB.same_step m hm m' hm' (hv.trans hv'.symm)
  exact hIJ m.step hs (this ▸ hs')

/-- everything the portfolio theorems need to know about ONE storage -/
theorem storage_restart_facts (p : StorageP) (s e : Int) (df : List Rat) (ref : Grid) (prices : Prices) (u : Nat)
    (Is : List (List Nat)) (A : AssetProblem)
    (hidx : ref.idx = List.range ref.T) (hdt : ref.dt.length = ref.T) (hdf : df.length = ref.T)
    (hprices : ∀ kv ∈ prices, kv.2.length = ref.T)
    (hdis : Is.Pairwise fun I J => ∀ t ∈ I, t ∉ J)
    (hst : storageStable p (({ ref with df := df } : Grid).restrict s e) Is = true)
    (hA : buildSpecS (.storage p s e df) ref prices u = .ok A) :
    Banded (restartOf Is (.storage p s e df) ref prices A) ref.T ∧
    RowsInside (restartOf Is (.storage p s e df) ref prices A) Is ∧
    (∀ ab, intervalSteps ref ab ∈ Is →
      buildSpecS ((SpecS.storage p s e df).onInterval ref ab) (ref.interval ab.1 ab.2) (intervalPrices ref ab prices) u =
        .ok ((restartOf Is (.storage p s e df) ref prices A).restrictTo (intervalSteps ref ab))) ∧
    (p.levelOK = true → ∀ y, (∀ r ∈ (restartOf Is (.storage p s e df) ref prices A).rows, r.Sat y) →
      ∀ r ∈ A.rows, r.Sat y) := by
  have hg := restrict_ok ref df s e hidx hdt hdf
  have hlt : ∀ t ∈ (({ ref with df := df } : Grid).restrict s e).idx, t < ref.T :=
    restrict_idx_lt ({ ref with df := df } : Grid) s e hidx
  unfold storageStable at hst
  simp only [Bool.and_eq_true, decide_eq_true_eq] at hst
  obtain ⟨⟨hlp, hcs⟩, htl⟩ := hst
  generalize hgdef : (({ ref with df := df } : Grid).restrict s e) = g at hg hlt htl
  have hA' : buildStorage p g ref.T prices = .ok A := by rw [← hgdef]; exact hA
  obtain ⟨pr, rfl, hpr⟩ := buildStorage_form p g ref.T prices A hg hlp hA'
  have hform := fun I => storageOn_form p g ref.T prices pr I hg hlp hpr
  let prI : List Nat → Nat → Rat := fun I => Classical.choose (hform I)
  have hprI := fun I => Classical.choose_spec (hform I)
  have hfun : storageOn p g prices = fun I' => storForm p (g.pick I') (prI I') := by
    funext I'; exact (hprI I').2.1
  have hR : restartOf Is (.storage p s e df) ref prices (storForm p g pr) =
      (storForm p g pr).withIntervalRows Is (fun I' => storForm p (g.pick I') (prI I')) := by
    show (storForm p g pr).withIntervalRows Is (storageOn p (({ ref with df := df } : Grid).restrict s e) prices) = _
    rw [hgdef, hfun]
  rw [hR]
  have hrows := restart_rows p g pr prI Is hg hlp
  have hB0 : Banded (storForm p g pr) ref.T :=
    storForm_banded p g pr ref.T hg hlp hlt _ (storForm_rows_ok p g pr hlp)
  have hB : Banded ((storForm p g pr).withIntervalRows Is (fun I' => storForm p (g.pick I') (prI I'))) ref.T := by
    refine storForm_banded p g pr ref.T hg hlp hlt _ (fun r hr => ?_)
    obtain ⟨h1, I, _, h2⟩ := hrows r hr
    exact ⟨h1, fun q hq => ((mem_keep _ _ _).mp (h2 q hq)).1⟩
  refine ⟨hB, ?_, ?_, ?_⟩
  · intro r hr
    obtain ⟨_, I, hI, h2⟩ := hrows r hr
    exact ⟨I, hI, h2⟩
  · intro ab hab
    have hgrid : (({ (ref.interval ab.1 ab.2) with df := sel (ref.mask ab.1 ab.2) df } : Grid).restrict s e) =
        g.pick (intervalSteps ref ab) := by
      rw [← hgdef]; exact interval_restrict_eq_pick ref df ab s e hidx
    show buildStorage p (({ (ref.interval ab.1 ab.2) with df := sel (ref.mask ab.1 ab.2) df } : Grid).restrict s e)
      (ref.interval ab.1 ab.2).T (intervalPrices ref ab prices) = _
    rw [hgrid, intervalPrices_eq_pick ref ab prices hidx hprices, interval_T ref ab hidx,
      (hprI (intervalSteps ref ab)).1,
      restart_restrict p g pr prI Is (intervalSteps ref ab) hg hlp hcs hab (keep_pairwise hB0 Is hdis)
        (hprI (intervalSteps ref ab)).2.2]
  · intro hlev y hy
    exact restart_rows_imply p g pr prI Is hg hlp hlev htl y (fun I hI r hr =>
      hy r (List.mem_flatMap.mpr ⟨I, hI, hr⟩))

theorem splitHypsS_spec (specs : List SpecS) (ref : Grid) (cuts : List Int) (prices : Prices)
    (h : splitHypsS specs ref cuts prices = true) :
    ref.idx = List.range ref.T ∧ ref.dt.length = ref.T ∧ (∀ a ∈ specs, a.df.length = ref.T) ∧
    (∀ kv ∈ prices, kv.2.length = ref.T) ∧ isPartition ((splitPairs cuts).map (intervalSteps ref)) ref.T = true ∧
    ∀ a ∈ specs, match a with
      | .builder b => ∀ I ∈ (splitPairs cuts).map (intervalSteps ref), specStable b (a.grid ref) I prices = true
      | .storage p _ _ _ => storageStable p (a.grid ref) ((splitPairs cuts).map (intervalSteps ref)) = true := by
  unfold splitHypsS at h
  simp only [Bool.and_eq_true, decide_eq_true_eq, List.all_eq_true] at h
  obtain ⟨⟨⟨⟨⟨⟨h1, h2⟩, _⟩, h4⟩, h5⟩, h6⟩, h7⟩ := h
  refine ⟨h1, h2, h4, h5, h6, fun a ha => ?_⟩
  have := h7 a ha
  cases a with
  | builder b =>
    simp only [List.all_eq_true] at this
    exact this
  | storage p s e df => exact this

/-- the relation between the restart form `A'` and the unsplit asset problem `A` -/
def Weaker (A' A : AssetProblem) : Prop :=
  A'.name = A.name ∧ A'.nodes = A.nodes ∧ A'.c = A.c ∧ A'.l = A.l ∧ A'.u = A.u ∧ A'.mapping = A.mapping ∧
  ∀ y, (∀ r ∈ A'.rows, r.Sat y) → ∀ r ∈ A.rows, r.Sat y

def levelOf : SpecS → Bool
  | .builder _ => true
  | .storage p _ _ _ => p.levelOK

/-- everything the portfolio theorems need to know about one asset -/
theorem spec_restart_facts (a : SpecS) (ref : Grid) (prices : Prices) (u : Nat) (Is : List (List Nat))
    (A : AssetProblem)
    (hidx : ref.idx = List.range ref.T) (hdt : ref.dt.length = ref.T) (hdf : a.df.length = ref.T)
    (hprices : ∀ kv ∈ prices, kv.2.length = ref.T)
    (hcov : ∀ t, t < ref.T → ∃ I ∈ Is, t ∈ I)
    (hdis : Is.Pairwise fun I J => ∀ t ∈ I, t ∉ J)
    (hst : match a with
      | .builder b => ∀ I ∈ Is, specStable b (a.grid ref) I prices = true
      | .storage p _ _ _ => storageStable p (a.grid ref) Is = true)
    (hA : buildSpecS a ref prices u = .ok A) :
    Banded (restartOf Is a ref prices A) ref.T ∧
    RowsInside (restartOf Is a ref prices A) Is ∧
    (∀ ab, intervalSteps ref ab ∈ Is →
      buildSpecS (a.onInterval ref ab) (ref.interval ab.1 ab.2) (intervalPrices ref ab prices) u =
        .ok ((restartOf Is a ref prices A).restrictTo (intervalSteps ref ab))) ∧
    (restartOf Is a ref prices A).name = A.name ∧ (restartOf Is a ref prices A).nodes = A.nodes ∧
    (restartOf Is a ref prices A).c = A.c ∧ (restartOf Is a ref prices A).l = A.l ∧
    (restartOf Is a ref prices A).u = A.u ∧ (restartOf Is a ref prices A).mapping = A.mapping ∧
    (levelOf a = true →
      ∀ y, (∀ r ∈ (restartOf Is a ref prices A).rows, r.Sat y) → ∀ r ∈ A.rows, r.Sat y) := by
  cases a with
  | builder b =>
    have hA' : buildSpec b ref prices u = .ok A := hA
    refine ⟨buildSpec_banded b ref prices u A hidx hdt hdf hA',
      buildSpec_rowsInside b ref prices u A Is hidx hdt hdf hcov hst hA',
      fun ab hab => buildSpec_pick b ref ab prices u A hidx hdt hdf hprices (hst _ hab) hA',
      rfl, rfl, rfl, rfl, rfl, rfl, fun _ y hy => hy⟩
  | storage p s e df =>
    obtain ⟨f1, f2, f3, f4⟩ := storage_restart_facts p s e df ref prices u Is A hidx hdt hdf hprices hdis hst hA
    exact ⟨f1, f2, f3, rfl, rfl, rfl, rfl, rfl, rfl, f4⟩

/-- the restart form of one asset, as a set-up of its own -/
def restartSpec (Is : List (List Nat)) (ref : Grid) (prices : Prices) (u : Nat) (a : SpecS) :
    Except BuildError AssetProblem :=
  match buildSpecS a ref prices u with
  | .ok A => .ok (restartOf Is a ref prices A)
  | .error e => .error e

theorem restartAll_cons (Is : List (List Nat)) (a : SpecS) (specs : List SpecS) (ref : Grid) (prices : Prices)
    (A : AssetProblem) (as : List AssetProblem) :
    restartAll Is (a :: specs) ref prices (A :: as) = restartOf Is a ref prices A :: restartAll Is specs ref prices as :=
  rfl

theorem mapM_restart (Is : List (List Nat)) (ref : Grid) (prices : Prices) (u : Nat) :
    ∀ (specs : List SpecS) (as : List AssetProblem), buildAllS specs ref prices u = .ok as →
      specs.mapM (restartSpec Is ref prices u) = .ok (restartAll Is specs ref prices as)
  | [], as, h => by
    have : as = [] := by simpa [buildAllS, List.mapM_nil, pure, Except.pure] using h.symm
    subst this; rfl
  | a :: specs, as, h => by
    unfold buildAllS at h
    obtain ⟨A, as', h1, h2, rfl⟩ := (mapM_ok_cons _ a specs as).mp h
    rw [mapM_ok_cons]
    refine ⟨_, _, ?_, mapM_restart Is ref prices u specs as' h2, restartAll_cons Is a specs ref prices A as'⟩
    unfold restartSpec
    rw [h1]

theorem restartSpec_ok {Is : List (List Nat)} {ref : Grid} {prices : Prices} {u : Nat} {a : SpecS} {A' : AssetProblem}
    (h : restartSpec Is ref prices u a = .ok A') :
    ∃ A, buildSpecS a ref prices u = .ok A ∧ A' = restartOf Is a ref prices A := by
  unfold restartSpec at h
  cases hb : buildSpecS a ref prices u with
  | error e => simp [hb] at h
  | ok A =>
    simp only [hb] at h
    injection h with h
    exact ⟨A, rfl, h.symm⟩

theorem setupPortfolioS_ok {specs : List SpecS} {grid : Grid} {prices : Prices} {u : Nat} {skip : List String}
    {U : Problem} (h : setupPortfolioS specs grid prices u skip = .ok U) :
    ∃ as, buildAllS specs grid prices u = .ok as ∧ U = assemble as grid.idx skip := by
  unfold setupPortfolioS at h
  simp only [bind, Except.bind, pure, Except.pure] at h
  cases has : buildAllS specs grid prices u with
  | error e => simp [has] at h
  | ok as =>
    simp only [has] at h
    injection h with h
    exact ⟨as, rfl, h.symm⟩

/-- the hypotheses, asset by asset -/
def StableAll (specs : List SpecS) (ref : Grid) (prices : Prices) (Is : List (List Nat)) : Prop :=
  ∀ a ∈ specs, match a with
    | .builder b => ∀ I ∈ Is, specStable b (a.grid ref) I prices = true
    | .storage p _ _ _ => storageStable p (a.grid ref) Is = true

theorem restartAll_facts (specs : List SpecS) (ref : Grid) (prices : Prices) (u : Nat) (Is : List (List Nat))
    (as : List AssetProblem)
    (hidx : ref.idx = List.range ref.T) (hdt : ref.dt.length = ref.T) (hdf : ∀ a ∈ specs, a.df.length = ref.T)
    (hprices : ∀ kv ∈ prices, kv.2.length = ref.T)
    (hcov : ∀ t, t < ref.T → ∃ I ∈ Is, t ∈ I) (hdis : Is.Pairwise fun I J => ∀ t ∈ I, t ∉ J)
    (hst : StableAll specs ref prices Is) (has : buildAllS specs ref prices u = .ok as) :
    (∀ A' ∈ restartAll Is specs ref prices as, Banded A' ref.T) ∧
    (∀ A' ∈ restartAll Is specs ref prices as, RowsInside A' Is) := by
  have hm := mapM_restart Is ref prices u specs as has
  constructor
  · intro A' hA'
    obtain ⟨a, ha, hb⟩ := mapM_mem _ specs _ hm A' hA'
    obtain ⟨A, hA, rfl⟩ := restartSpec_ok hb
    exact (spec_restart_facts a ref prices u Is A hidx hdt (hdf a ha) hprices hcov hdis (hst a ha) hA).1
  · intro A' hA'
    obtain ⟨a, ha, hb⟩ := mapM_mem _ specs _ hm A' hA'
    obtain ⟨A, hA, rfl⟩ := restartSpec_ok hb
    exact (spec_restart_facts a ref prices u Is A hidx hdt (hdf a ha) hprices hcov hdis (hst a ha) hA).2.1

/-- one pass of the loop returns the interval problem of the RESTART asset problems -/
theorem setupIntervalS_eq (specs : List SpecS) (ref : Grid) (prices : Prices) (u : Nat) (skip : List String)
    (Is : List (List Nat)) (ab : Int × Int) (as : List AssetProblem)
    (hidx : ref.idx = List.range ref.T) (hdt : ref.dt.length = ref.T) (hdf : ∀ a ∈ specs, a.df.length = ref.T)
    (hprices : ∀ kv ∈ prices, kv.2.length = ref.T)
    (hcov : ∀ t, t < ref.T → ∃ I ∈ Is, t ∈ I) (hdis : Is.Pairwise fun I J => ∀ t ∈ I, t ∉ J)
    (hst : StableAll specs ref prices Is) (hab : intervalSteps ref ab ∈ Is)
    (has : buildAllS specs ref prices u = .ok as) :
    setupIntervalS specs ref prices u skip ab =
      .ok (if (intervalProblem (restartAll Is specs ref prices as) skip (intervalSteps ref ab)).n = 0 then none
           else some (intervalProblem (restartAll Is specs ref prices as) skip (intervalSteps ref ab))) := by
  obtain ⟨hB, _⟩ := restartAll_facts specs ref prices u Is as hidx hdt hdf hprices hcov hdis hst has
  have hm := mapM_restart Is ref prices u specs as has
  unfold setupIntervalS
  by_cases hT : (ref.interval ab.1 ab.2).T = 0
  · simp only [hT, if_true]
    have hI : intervalSteps ref ab = [] :=
      List.eq_nil_of_length_eq_zero (by rw [← interval_T ref ab hidx]; exact hT)
    have hn : (intervalProblem (restartAll Is specs ref prices as) skip (intervalSteps ref ab)).n = 0 := by
      rw [interval_n _ ref.T hB skip, hI]
      apply List.length_eq_zero_iff.mpr
      apply List.eq_nil_iff_forall_not_mem.mpr
      intro v hv
      obtain ⟨_, m, _, _, hs⟩ := (mem_pkeep _ _ _).mp hv
      simp at hs
    rw [if_pos hn]; rfl
  · simp only [hT, if_false]
    have hall : buildAllS (specs.map fun a => a.onInterval ref ab) (ref.interval ab.1 ab.2)
        (intervalPrices ref ab prices) u =
        .ok ((restartAll Is specs ref prices as).map fun A => A.restrictTo (intervalSteps ref ab)) := by
      unfold buildAllS
      exact mapM_transfer _ _ _ _ specs _ hm (fun a ha A' hA' => by
        obtain ⟨A, hA, rfl⟩ := restartSpec_ok hA'
        exact (spec_restart_facts a ref prices u Is A hidx hdt (hdf a ha) hprices hcov hdis (hst a ha) hA).2.2.1 ab hab)
    have hJidx : (ref.interval ab.1 ab.2).idx = List.range (intervalSteps ref ab).length := by
      show List.range _ = _
      rw [← interval_T ref ab hidx]; rfl
    unfold setupPortfolioS
    simp only [bind, Except.bind, hall, pure, Except.pure, hJidx]
    show (if (intervalProblem (restartAll Is specs ref prices as) skip (intervalSteps ref ab)).n = 0 then _
      else Except.ok (some (intervalProblem (restartAll Is specs ref prices as) skip _))) = _
    split <;> rfl

theorem setupSplitS_eq (specs : List SpecS) (ref : Grid) (cuts : List Int) (prices : Prices) (u : Nat)
    (skip : List String) (as : List AssetProblem)
    (hidx : ref.idx = List.range ref.T) (hdt : ref.dt.length = ref.T) (hdf : ∀ a ∈ specs, a.df.length = ref.T)
    (hprices : ∀ kv ∈ prices, kv.2.length = ref.T)
    (hcov : ∀ t, t < ref.T → ∃ I ∈ (splitPairs cuts).map (intervalSteps ref), t ∈ I)
    (hdis : ((splitPairs cuts).map (intervalSteps ref)).Pairwise fun I J => ∀ t ∈ I, t ∉ J)
    (hst : StableAll specs ref prices ((splitPairs cuts).map (intervalSteps ref)))
    (has : buildAllS specs ref prices u = .ok as)
    (hne : (((splitPairs cuts).map (intervalSteps ref)).map
      (intervalProblem (restartAll ((splitPairs cuts).map (intervalSteps ref)) specs ref prices as) skip)).filter
        (fun P => P.n != 0) ≠ []) :
    setupSplitS specs ref cuts prices u skip =
      .ok ((((splitPairs cuts).map (intervalSteps ref)).map
        (intervalProblem (restartAll ((splitPairs cuts).map (intervalSteps ref)) specs ref prices as) skip)).filter
          fun P => P.n != 0) := by
  unfold setupSplitS
  generalize hIs : (splitPairs cuts).map (intervalSteps ref) = Is at *
  generalize hR : restartAll Is specs ref prices as = R at *
  have hp : (prices.any fun kv => kv.2.length != ref.T) = false := by
    rw [Bool.eq_false_iff]
    intro h
    obtain ⟨kv, hkv, hb⟩ := List.any_eq_true.mp h
    simp [hprices kv hkv] at hb
  have hm := mapM_ok_of_forall (setupIntervalS specs ref prices u skip)
    (fun ab => if (intervalProblem R skip (intervalSteps ref ab)).n = 0 then none
      else some (intervalProblem R skip (intervalSteps ref ab))) (splitPairs cuts)
    (fun ab hab => by
      rw [← hR]
      exact setupIntervalS_eq specs ref prices u skip Is ab as hidx hdt hdf hprices hcov hdis hst
        (by rw [← hIs]; exact List.mem_map_of_mem hab) has)
  have hfm : ((splitPairs cuts).map fun ab => if (intervalProblem R skip (intervalSteps ref ab)).n = 0 then none
      else some (intervalProblem R skip (intervalSteps ref ab))).filterMap id =
      (Is.map (intervalProblem R skip)).filter fun P => P.n != 0 := by
    rw [← filterMap_skip (intervalProblem R skip), ← hIs, List.map_map]
    rfl
  simp only [bind, Except.bind, hp, Bool.false_eq_true, if_false, hm, hfm, pure, Except.pure]
  have : ((Is.map (intervalProblem R skip)).filter fun P => P.n != 0).isEmpty = false := by
    cases hh : (Is.map (intervalProblem R skip)).filter fun P => P.n != 0 with
    | nil => exact absurd hh hne
    | cons _ _ => rfl
  rw [this]
  rfl

theorem setupRestart_ok {specs : List SpecS} {ref : Grid} {cuts : List Int} {prices : Prices} {u : Nat}
    {skip : List String} {R : Problem} (h : setupRestart specs ref cuts prices u skip = .ok R) :
    ∃ as, buildAllS specs ref prices u = .ok as ∧
      R = assemble (restartAll ((splitPairs cuts).map (intervalSteps ref)) specs ref prices as) ref.idx skip := by
  unfold setupRestart at h
  simp only [bind, Except.bind, pure, Except.pure] at h
  cases has : buildAllS specs ref prices u with
  | error e => simp [has] at h
  | ok as =>
    simp only [has] at h
    injection h with h
    exact ⟨as, rfl, h.symm⟩

/-- **the split set-up of a portfolio with storages IS the restart problem**, up to the explicit matching -/
theorem restart_split (specs : List SpecS) (ref : Grid) (cuts : List Int) (prices : Prices) (u : Nat)
    (skip : List String) (R : Problem) (hH : splitHypsS specs ref cuts prices = true)
    (hR : setupRestart specs ref cuts prices u skip = .ok R) (hpos : 0 < R.n) :
    ∃ ps, setupSplitS specs ref cuts prices u skip = .ok ps ∧
      splitWitness R ps (splitPerm R ((splitPairs cuts).map (intervalSteps ref))) = true := by
  obtain ⟨hidx, hdt, hdf, hprices, hpart, hst⟩ := splitHypsS_spec specs ref cuts prices hH
  obtain ⟨as, has, rfl⟩ := setupRestart_ok hR
  obtain ⟨hcov, hdis⟩ := isPartition_spec _ _ hpart
  obtain ⟨hB, hRI⟩ := restartAll_facts specs ref prices u _ as hidx hdt hdf hprices hcov hdis hst has
  generalize hIs : (splitPairs cuts).map (intervalSteps ref) = Is at *
  generalize hRR : restartAll Is specs ref prices as = as' at *
  rw [hidx] at hpos ⊢
  have hw := witness_of_banded as' ref.T Is skip hB hpart hRI
  have hw' := splitWitness_filter _ _ _ (by
    intro P hP
    obtain ⟨I, _, rfl⟩ := List.mem_map.mp hP
    exact intervalProblem_rows_ne as' ref.T hB skip I) hw
  refine ⟨_, ?_, hw'⟩
  have := setupSplitS_eq specs ref cuts prices u skip as hidx hdt hdf hprices (by rw [hIs]; exact hcov)
    (by rw [hIs]; exact hdis) (by rw [hIs]; exact hst) has
  rw [hIs, hRR] at this
  apply this
  -- some interval has a variable, because the restart problem has one
  intro hnil
  have hperm := splitPerm_isPerm as' ref.T hB _ hpart
  have hlen : (Is.flatMap fun I => (assembleFrom 0 as').keep I).length = (assembleFrom 0 as').n := by
    unfold isPermOf at hperm
    simp only [Bool.and_eq_true, decide_eq_true_eq] at hperm
    exact hperm.1.1.1
  have hall : ∀ I ∈ Is, (assembleFrom 0 as').keep I = [] := by
    intro I hI
    have hmem : intervalProblem as' skip I ∈ Is.map (intervalProblem as' skip) := List.mem_map_of_mem hI
    have : ¬ ((intervalProblem as' skip I).n != 0) = true := by
      intro hn
      have : intervalProblem as' skip I ∈ (Is.map (intervalProblem as' skip)).filter fun P => P.n != 0 :=
        List.mem_filter.mpr ⟨hmem, hn⟩
      rw [hnil] at this
      simp at this
    have hn0 : (intervalProblem as' skip I).n = 0 := by simpa using this
    rw [interval_n as' ref.T hB skip I] at hn0
    exact List.eq_nil_of_length_eq_zero hn0
  have : (Is.flatMap fun I => (assembleFrom 0 as').keep I) = [] := by
    apply List.eq_nil_iff_forall_not_mem.mpr
    intro v hv
    obtain ⟨I, hI, hvI⟩ := List.mem_flatMap.mp hv
    rw [hall I hI] at hvI
    simp at hvI
  rw [this] at hlen
  have hn : (assemble as' (List.range ref.T) skip).n = (assembleFrom 0 as').n := assemble_n _ _ _
  rw [hn, ← hlen] at hpos
  simp at hpos

/-! ### the restart problem is tighter than the unsplit problem -/

def WeakerAll : List AssetProblem → List AssetProblem → Prop
  | [], [] => True
  | a' :: as', a :: as => Weaker a' a ∧ WeakerAll as' as
  | _, _ => False

theorem weaker_assembleFrom : ∀ (as' as : List AssetProblem), WeakerAll as' as → ∀ off,
    (assembleFrom off as').c = (assembleFrom off as).c ∧ (assembleFrom off as').l = (assembleFrom off as).l ∧
    (assembleFrom off as').u = (assembleFrom off as).u ∧ (assembleFrom off as').mapping = (assembleFrom off as).mapping ∧
    as'.flatMap (·.nodes) = as.flatMap (·.nodes) ∧
    ∀ y, (∀ r ∈ (assembleFrom off as').rows, r.Sat y) → ∀ r ∈ (assembleFrom off as).rows, r.Sat y
  | [], [], _, _ => ⟨rfl, rfl, rfl, rfl, rfl, fun _ h => h⟩
  | [], _ :: _, h, _ => h.elim
  | _ :: _, [], h, _ => h.elim
  | a' :: as', a :: as, ⟨hw, hrest⟩, off => by
    obtain ⟨_, w2, w3, w4, w5, w6, w7⟩ := hw
    have hn : a'.n = a.n := by unfold AssetProblem.n; rw [w3]
    obtain ⟨i1, i2, i3, i4, i5, i6⟩ := weaker_assembleFrom as' as hrest (off + a.n)
    refine ⟨?_, ?_, ?_, ?_, ?_, ?_⟩
    · show a'.c ++ (assembleFrom (off + a'.n) as').c = a.c ++ (assembleFrom (off + a.n) as).c
      rw [hn, i1, w3]
    · show a'.l ++ (assembleFrom (off + a'.n) as').l = a.l ++ (assembleFrom (off + a.n) as).l
      rw [hn, i2, w4]
    · show a'.u ++ (assembleFrom (off + a'.n) as').u = a.u ++ (assembleFrom (off + a.n) as).u
      rw [hn, i3, w5]
    · show a'.mapping.map (MapRow.shift off) ++ (assembleFrom (off + a'.n) as').mapping =
        a.mapping.map (MapRow.shift off) ++ (assembleFrom (off + a.n) as).mapping
      rw [hn, i4, w6]
    · simp only [List.flatMap_cons]
      rw [w2, i5]
    · intro y hy r hr
      have hy' : ∀ r ∈ a'.rows.map (Row.rename (off + ·)) ++ (assembleFrom (off + a'.n) as').rows, r.Sat y := hy
      have hr' : r ∈ a.rows.map (Row.rename (off + ·)) ++ (assembleFrom (off + a.n) as).rows := hr
      rcases List.mem_append.mp hr' with h | h
      · obtain ⟨r0, hr0, rfl⟩ := List.mem_map.mp h
        rw [sat_rename]
        apply w7 (fun j => y (off + j)) _ r0 hr0
        intro r1 hr1
        rw [← sat_rename]
        exact hy' _ (List.mem_append_left _ (List.mem_map_of_mem hr1))
      · apply i6 y _ r h
        intro r1 hr1
        apply hy' _ (List.mem_append_right _ _)
        rw [hn]; exact hr1

/-- the restart problem and the unsplit problem: same variables, costs, bounds, mapping, nodal record; every
    feasible point of the first is a feasible point of the second -/
theorem weaker_assemble (as' as : List AssetProblem) (h : WeakerAll as' as) (gridI : List Nat) (skip : List String) :
    (assemble as' gridI skip).c = (assemble as gridI skip).c ∧ (assemble as' gridI skip).l = (assemble as gridI skip).l ∧
    (assemble as' gridI skip).u = (assemble as gridI skip).u ∧
    (assemble as' gridI skip).mapping = (assemble as gridI skip).mapping ∧
    (assemble as' gridI skip).nodal = (assemble as gridI skip).nodal ∧
    (∀ y, (assemble as' gridI skip).FeasibleRelaxed y → (assemble as gridI skip).FeasibleRelaxed y) := by
  obtain ⟨i1, i2, i3, i4, i5, i6⟩ := weaker_assembleFrom as' as h 0
  have hpn : portfolioNodes as' = portfolioNodes as := by unfold portfolioNodes; rw [i5]
  refine ⟨i1, i2, i3, i4, ?_, ?_⟩
  · show nodalPairs (assembleFrom 0 as').mapping (portfolioNodes as') skip gridI =
      nodalPairs (assembleFrom 0 as).mapping (portfolioNodes as) skip gridI
    rw [i4, hpn]
  · intro y hy
    obtain ⟨hb, hr⟩ := hy
    have hl : (assemble as' gridI skip).l = (assembleFrom 0 as').l := rfl
    have hu : (assemble as' gridI skip).u = (assembleFrom 0 as').u := rfl
    refine ⟨?_, ?_⟩
    · show InBounds (assembleFrom 0 as).l (assembleFrom 0 as).u y
      rw [← i2, ← i3]; exact hb
    · intro r hr'
      have hr'' : r ∈ (assembleFrom 0 as).rows ++
          (nodalPairs (assembleFrom 0 as).mapping (portfolioNodes as) skip gridI).map
            (fun p => nodalRow (assembleFrom 0 as).mapping p.2 p.1) := hr'
      have hr0 : ∀ r ∈ (assembleFrom 0 as').rows ++
          (nodalPairs (assembleFrom 0 as').mapping (portfolioNodes as') skip gridI).map
            (fun p => nodalRow (assembleFrom 0 as').mapping p.2 p.1), r.Sat y := hr
      rcases List.mem_append.mp hr'' with h1 | h1
      · exact i6 y (fun r1 hr1 => hr0 r1 (List.mem_append_left _ hr1)) r h1
      · apply hr0 r (List.mem_append_right _ _)
        rw [i4, hpn]; exact h1

theorem restartAll_weaker (Is : List (List Nat)) (ref : Grid) (prices : Prices) (u : Nat)
    (hidx : ref.idx = List.range ref.T) (hdt : ref.dt.length = ref.T)
    (hprices : ∀ kv ∈ prices, kv.2.length = ref.T)
    (hcov : ∀ t, t < ref.T → ∃ I ∈ Is, t ∈ I) (hdis : Is.Pairwise fun I J => ∀ t ∈ I, t ∉ J) :
    ∀ (specs : List SpecS) (as : List AssetProblem), (∀ a ∈ specs, a.df.length = ref.T) →
      StableAll specs ref prices Is → levelHypsS specs = true → buildAllS specs ref prices u = .ok as →
      WeakerAll (restartAll Is specs ref prices as) as
  | [], as, _, _, _, h => by
    have : as = [] := by simpa [buildAllS, List.mapM_nil, pure, Except.pure] using h.symm
    subst this; trivial
  | a :: specs, as, hdf, hst, hlev, h => by
    unfold buildAllS at h
    obtain ⟨A, as', h1, h2, rfl⟩ := (mapM_ok_cons _ a specs as).mp h
    rw [restartAll_cons]
    unfold levelHypsS at hlev
    simp only [List.all_cons, Bool.and_eq_true] at hlev
    obtain ⟨f1, f2, f3, g1, g2, g3, g4, g5, g6, g7⟩ :=
      spec_restart_facts a ref prices u Is A hidx hdt (hdf a (by simp)) hprices hcov hdis (hst a (by simp)) h1
    have hl : levelOf a = true := by cases a <;> exact hlev.1
    exact ⟨⟨g1, g2, g3, g4, g5, g6, g7 hl⟩,
      restartAll_weaker Is ref prices u hidx hdt hprices hcov hdis specs as'
        (fun a' ha' => hdf a' (by simp [ha'])) (fun a' ha' => hst a' (by simp [ha'])) hlev.2 h2⟩

/-- the rows of the interval storage on the unsplit variables ARE the level rows of a storage that starts with
    `start_level` at the interval's first position and pins `end_level` at its last -/
theorem lift_rows_restart (p : StorageP) (g : Grid) (pr prI : Nat → Rat) (I : List Nat) (hg : g.Ok) (hlp : p.lp = true)
    (a m : Nat) (hP : pos g.idx I = List.range' a m) (y : Vec) :
    (∀ r ∈ liftRows (storForm p g pr) I (storForm p (g.pick I) prI), r.Sat y) ↔
      ∀ i, i < m → (restartUpper p g a m i).Sat y ∧ (restartLower p g a m i).Sat y := by
  rw [lift_rows_sat p g pr prI I hg hlp a m hP y]
  have hU : ∀ i, (restartUpper p g a m i).Sat y ↔
      sumTo (q p g.T y) (a + i + 1) - sumTo (q p g.T y) a ≤
        (if i + 1 = m then p.endLevel else p.size) - p.startLevel - (cumInfl p g (a + i + 1) - cumInfl p g a) := by
    intro i
    show Row.eval ⟨levelCoeffs p g.T a (a + i), _, .U⟩ y ≤ _ ↔ _
    rw [eval_levelCoeffs]
    have e : a + (a + i + 1 - a) = a + i + 1 := by omega
    rw [e]
    rfl
  have hL : ∀ i, (restartLower p g a m i).Sat y ↔
      (if i + 1 = m then p.endLevel else 0) - p.startLevel - (cumInfl p g (a + i + 1) - cumInfl p g a) ≤
        sumTo (q p g.T y) (a + i + 1) - sumTo (q p g.T y) a := by
    intro i
    show _ ≤ Row.eval ⟨levelCoeffs p g.T a (a + i), _, .L⟩ y ↔ _
    rw [eval_levelCoeffs]
    have e : a + (a + i + 1 - a) = a + i + 1 := by omega
    rw [e]
    rfl
  constructor
  · intro h i hi
    obtain ⟨g1, g2⟩ := h i hi
    rw [hU, hL]
    by_cases he : i + 1 = m
    · simp only [he, if_true] at g1 g2 ⊢
      constructor <;> grind
    · simp only [he, if_false] at g1 g2 ⊢
      constructor <;> grind
  · intro h i hi
    obtain ⟨g1, g2⟩ := h i hi
    rw [hU] at g1
    rw [hL] at g2
    by_cases he : i + 1 = m
    · simp only [he, if_true] at g1 g2 ⊢
      constructor <;> grind
    · simp only [he, if_false] at g1 g2 ⊢
      constructor <;> grind

theorem pkeep_congr (P Q : Problem) (hc : P.c = Q.c) (hm : P.mapping = Q.mapping) (I : List Nat) : P.keep I = Q.keep I := by
  unfold Problem.keep Problem.n
  rw [hc, hm]

theorem levelHypsS_spec (specs : List SpecS) (h : levelHypsS specs = true) : ∀ a ∈ specs, levelOf a = true := by
  intro a ha
  unfold levelHypsS at h
  have := List.all_eq_true.mp h a ha
  cases a <;> exact this

/-- **portfolio level**: under the hypotheses the split set-up succeeds, IS the restart problem `R` (witness true for
    the explicit matching), and `R` has the variables, costs, bounds, mapping of the unsplit problem `U` and a
    feasible set inside that of `U` -/
theorem portfolio_le (specs : List SpecS) (ref : Grid) (cuts : List Int) (prices : Prices) (u : Nat)
    (skip : List String) (U : Problem) (hH : splitHypsS specs ref cuts prices = true)
    (hL : levelHypsS specs = true) (hU : setupPortfolioS specs ref prices u skip = .ok U) (hpos : 0 < U.n) :
    ∃ R ps, setupRestart specs ref cuts prices u skip = .ok R ∧ setupSplitS specs ref cuts prices u skip = .ok ps ∧
      splitWitness R ps (splitPerm U ((splitPairs cuts).map (intervalSteps ref))) = true ∧
      R.c = U.c ∧ R.l = U.l ∧ R.u = U.u ∧ R.mapping = U.mapping ∧ R.nodal = U.nodal ∧
      (∀ y, R.FeasibleRelaxed y → U.FeasibleRelaxed y) ∧ (∀ y, R.Feasible y → U.Feasible y) ∧
      (∀ y, R.value y = U.value y) := by
  obtain ⟨hidx, hdt, hdf, hprices, hpart, hst⟩ := splitHypsS_spec specs ref cuts prices hH
  obtain ⟨as, has, rfl⟩ := setupPortfolioS_ok hU
  obtain ⟨hcov, hdis⟩ := isPartition_spec _ _ hpart
  have hW := restartAll_weaker ((splitPairs cuts).map (intervalSteps ref)) ref prices u hidx hdt hprices hcov hdis
    specs as hdf hst hL has
  obtain ⟨w1, w2, w3, w4, w5, w6⟩ := weaker_assemble _ _ hW ref.idx skip
  have hR : setupRestart specs ref cuts prices u skip =
      .ok (assemble (restartAll ((splitPairs cuts).map (intervalSteps ref)) specs ref prices as) ref.idx skip) := by
    unfold setupRestart
    simp only [bind, Except.bind, has, pure, Except.pure]
  have hn : (assemble (restartAll ((splitPairs cuts).map (intervalSteps ref)) specs ref prices as) ref.idx skip).n =
      (assemble as ref.idx skip).n := by unfold Problem.n; rw [w1]
  obtain ⟨ps, hps, hw⟩ := restart_split specs ref cuts prices u skip _ hH hR (by rw [hn]; exact hpos)
  have hperm : splitPerm (assemble (restartAll ((splitPairs cuts).map (intervalSteps ref)) specs ref prices as) ref.idx skip)
      ((splitPairs cuts).map (intervalSteps ref)) =
      splitPerm (assemble as ref.idx skip) ((splitPairs cuts).map (intervalSteps ref)) := by
    unfold splitPerm
    congr 1
    funext I
    exact pkeep_congr _ _ w1 w4 I
  rw [hperm] at hw
  refine ⟨_, ps, hR, hps, hw, w1, w2, w3, w4, w5, w6, fun y hy => ⟨w6 y hy.1, ?_⟩, fun y => ?_⟩
  · have : (assemble as ref.idx skip).boolVars =
        (assemble (restartAll ((splitPairs cuts).map (intervalSteps ref)) specs ref prices as) ref.idx skip).boolVars := by
      unfold Problem.boolVars; rw [w4]
    rw [this]; exact hy.2
  · unfold Problem.value; rw [w1]

/-! ## Part F: the cost vectors with `cost_store` -/

theorem q_eq_levelInc : q = Storage.levelInc := rfl

theorem costAt_map_range (F : Nat → Rat) (y : Vec) : ∀ (n off : Nat),
    costAt ((List.range n).map F) off y = sumTo (fun i => F i * y (off + i)) n
  | 0, _ => rfl
  | n + 1, off => by
    rw [List.range_succ, List.map_append, costAt_append, costAt_map_range F y n off, sumTo_succ]
    simp only [List.map_cons, List.map_nil, costAt_cons, costAt_nil, List.length_map, List.length_range]
    grind

/-- cost of the dispatch without storage costs -/
def baseCost (p : StorageP) (g : Grid) (pr : Nat → Rat) (n : Nat) (y : Vec) (i : Nat) : Rat :=
  if sep p then (-(p.costIn) - pr i) * Storage.dfAt g i * y i + (p.costOut - pr i) * Storage.dfAt g i * y (n + i)
  else (0 - pr i * Storage.dfAt g i) * y i

theorem cost_decomp (p : StorageP) (g : Grid) (pr : Nat → Rat) (n : Nat) (hlp : p.lp = true) (y : Vec) :
    costAt (costVec p g n pr) 0 y =
      sumTo (baseCost p g pr n y) n + sumTo (fun i => (storeTail p g n).getD i 0 * q p n y i) n := by
  unfold costVec
  simp only [nVars_lp p hlp, Nat.sub_self, List.range_zero, List.map_nil, List.append_nil]
  rw [← sumTo_add]
  by_cases hs : sep p = true
  · simp only [hs, if_true]
    rw [costAt_append, costAt_map_range, costAt_map_range, ← sumTo_add]
    simp only [List.length_map, List.length_range, Nat.zero_add]
    apply sumTo_congr
    intro j _
    simp only [baseCost, q, hs, if_true]
    grind
  · simp only [hs, Bool.false_eq_true, if_false]
    rw [costAt_map_range]
    simp only [Nat.zero_add]
    apply sumTo_congr
    intro j _
    simp only [baseCost, q, hs, Bool.false_eq_true, if_false]
    grind

theorem kk_eq (p : StorageP) (g : Grid) : Textbook.kk p g = Storage.storeRate p g := rfl

theorem storeTail_after (p : StorageP) (g : Grid) (i : Nat) (hi : i < g.T) :
    (storeTail p g g.T).getD i 0 = Storage.storeAfter p g i := by
  rw [Textbook.storeTail_getD p g g.T i hi, kk_eq]
  rfl

theorem rate_pick (p : StorageP) (g : Grid) (I : List Nat) (hg : g.Ok) (a m : Nat)
    (hP : pos g.idx I = List.range' a m) (k : Nat) (hk : k ≤ m) :
    sumTo (Storage.storeRate p (g.pick I)) k = sumTo (Storage.storeRate p g) (a + k) - sumTo (Storage.storeRate p g) a := by
  rw [← sumTo_shift]
  apply sumTo_congr
  intro j hj
  unfold Storage.storeRate
  have hj' : j < (pos g.idx I).length := by rw [hP]; simp; omega
  rw [(pick_at g I hg j hj').1, (pick_at g I hg j hj').2.1, hP, range'_getD a m j (by omega)]

/-- **one interval**: cost of the interval storage at the interval's part of `y`, plus the storage costs of all LATER
    steps on the net level change of the interval, is the part of the unsplit cost that belongs to the interval -/
theorem interval_cost (p : StorageP) (g : Grid) (pr prI : Nat → Rat) (I : List Nat) (hg : g.Ok) (hlp : p.lp = true)
    (a m : Nat) (hP : pos g.idx I = List.range' a m)
    (hprI : ∀ j, j < (pos g.idx I).length → prI j = pr ((pos g.idx I).getD j 0)) (y : Vec) :
    costAt (storForm p (g.pick I) prI).c 0 (fun v => y (((storForm p g pr).keep I).getD v 0)) +
      Storage.storeAfter p g (a + m) * (sumTo (q p g.T y) (a + m) - sumTo (q p g.T y) a) =
    (sumTo (baseCost p g pr g.T y) (a + m) + sumTo (fun i => Storage.storeAfter p g i * q p g.T y i) (a + m)) -
    (sumTo (baseCost p g pr g.T y) a + sumTo (fun i => Storage.storeAfter p g i * q p g.T y i) a) := by
  have hm : (g.pick I).T = m := by rw [pick_T g I hg, hP]; simp
  have hlen : (pos g.idx I).length = m := by rw [hP]; simp
  have hkeep := fun j hj => keep_getD p g pr I hg hlp a m hP j hj
  have hpa : ∀ j, j < m → prI j = pr (a + j) ∧ Storage.dfAt (g.pick I) j = Storage.dfAt g (a + j) := by
    intro j hj
    have hj' : j < (pos g.idx I).length := by rw [hlen]; exact hj
    have h1 := hprI j hj'
    have h2 := (pick_at g I hg j hj').2.1
    rw [hP, range'_getD a m j hj] at h1 h2
    exact ⟨h1, h2⟩
  show costAt (costVec p (g.pick I) (g.pick I).T prI) 0 _ + _ = _
  rw [hm, cost_decomp p (g.pick I) prI m hlp]
  have h1 : sumTo (baseCost p (g.pick I) prI m (fun v => y (((storForm p g pr).keep I).getD v 0))) m =
      sumTo (baseCost p g pr g.T y) (a + m) - sumTo (baseCost p g pr g.T y) a := by
    rw [← sumTo_shift]
    apply sumTo_congr
    intro j hj
    obtain ⟨k1, k2⟩ := hkeep j hj
    obtain ⟨p1, p2⟩ := hpa j hj
    unfold baseCost
    by_cases hs : sep p = true
    · simp only [hs, if_true]
      rw [k1, k2 hs, p1, p2]
    · simp only [hs, Bool.false_eq_true, if_false]
      rw [k1, p1, p2]
  have htl : ∀ j, j < m → (storeTail p (g.pick I) m).getD j 0 =
      Storage.storeAfter p g (a + j) - Storage.storeAfter p g (a + m) := by
    intro j hj
    rw [Textbook.storeTail_getD p (g.pick I) m j hj, kk_eq, rate_pick p g I hg a m hP m (Nat.le_refl m),
      rate_pick p g I hg a m hP j (by omega)]
    unfold Storage.storeAfter
    grind
  have h2 : sumTo (fun j => (storeTail p (g.pick I) m).getD j 0 *
        q p m (fun v => y (((storForm p g pr).keep I).getD v 0)) j) m =
      (sumTo (fun i => Storage.storeAfter p g i * q p g.T y i) (a + m) -
        sumTo (fun i => Storage.storeAfter p g i * q p g.T y i) a) +
      (-(Storage.storeAfter p g (a + m))) * (sumTo (q p g.T y) (a + m) - sumTo (q p g.T y) a) := by
    rw [← sumTo_shift (fun i => Storage.storeAfter p g i * q p g.T y i), ← sumTo_shift (q p g.T y), ← sumTo_mul,
      ← sumTo_add]
    apply sumTo_congr
    intro j hj
    rw [htl j hj, q_lift p g pr I hg hlp a m hP y j hj]
    grind
  rw [h1, h2]
  grind

theorem tele (H : Nat → Rat) : ∀ (Ps : List (List Nat)) (a N : Nat), Ps.flatten = List.range' a N →
    (Ps.map fun P => H (P.head?.getD 0 + P.length) - H (P.head?.getD 0)).sum = H (a + N) - H a
  | [], a, N, h => by
    have : N = 0 := by
      have := congrArg List.length h
      simpa using this.symm
    subst this
    show (0 : Rat) = H (a + 0) - H a
    rw [Nat.add_zero]; grind
  | P :: rest, a, N, h => by
    have hlen : P.length + rest.flatten.length = N := by
      have := congrArg List.length h
      simpa using this
    have hsplit : List.range' a N = List.range' a P.length ++ List.range' (a + P.length) (N - P.length) := by
      rw [List.range'_append_1]
      congr 1; omega
    rw [List.flatten_cons, hsplit] at h
    obtain ⟨hP, hrest⟩ := List.append_inj h (by simp)
    have ih := tele H rest (a + P.length) (N - P.length) hrest
    rw [List.map_cons, List.sum_cons, ih]
    have e : a + P.length + (N - P.length) = a + N := by omega
    rw [e]
    by_cases h0 : P.length = 0
    · have : P = [] := List.eq_nil_of_length_eq_zero h0
      subst this
      simp only [List.head?_nil, Option.getD_none, List.length_nil, Nat.add_zero]
      grind
    · have hh : P.head?.getD 0 = a := by
        rw [hP]
        cases hl : P.length with
        | zero => exact absurd hl h0
        | succ k => simp [List.range'_succ]
      rw [hh]
      grind

/-- the positions of an interval are `segStart .. segEnd - 1` -/
theorem seg_of_tiles (g : Grid) (Is : List (List Nat)) (ht : tiles g Is = true) (I : List Nat) (hI : I ∈ Is) :
    pos g.idx I = List.range' (g.segStart I) (g.posIn I).length := by
  unfold tiles at ht
  simp only [decide_eq_true_eq] at ht
  rw [List.range_eq_range'] at ht
  obtain ⟨_, t2, _⟩ := tiles_segs (Is.map g.posIn) 0 g.T ht
  obtain ⟨s, _, hs⟩ := t2 (g.posIn I) (List.mem_map_of_mem hI)
  show g.posIn I = _
  unfold Grid.segStart
  by_cases h0 : s.2 = 0
  · rw [h0] at hs
    rw [hs]
    rfl
  · have hh : (g.posIn I).head?.getD 0 = s.1 := by
      rw [hs]
      cases hl : s.2 with
      | zero => exact absurd hl h0
      | succ k => simp [List.range'_succ]
    have hl : (g.posIn I).length = s.2 := by rw [hs]; simp
    rw [hh, hl]
    exact hs

/-- **the unsplit cost of a dispatch = the interval costs + the storage costs of the later steps on the net level
    change of every interval** (LP storage, any `cost_store`, intervals cutting the grid into consecutive pieces) -/
theorem storForm_cost_split (p : StorageP) (g : Grid) (pr : Nat → Rat) (prI : List Nat → Nat → Rat)
    (Is : List (List Nat)) (hg : g.Ok) (hlp : p.lp = true) (ht : tiles g Is = true)
    (hprI : ∀ I ∈ Is, ∀ j, j < (pos g.idx I).length → prI I j = pr ((pos g.idx I).getD j 0)) (y : Vec) :
    costAt (storForm p g pr).c 0 y =
      (Is.map fun I =>
        costAt (storForm p (g.pick I) (prI I)).c 0 (fun v => y (((storForm p g pr).keep I).getD v 0)) +
        Storage.storeAfter p g (g.segEnd I) *
          (sumTo (Storage.levelInc p g.T y) (g.segEnd I) - sumTo (Storage.levelInc p g.T y) (g.segStart I))).sum := by
  let H : Nat → Rat := fun t => sumTo (baseCost p g pr g.T y) t + sumTo (fun i => Storage.storeAfter p g i * q p g.T y i) t
  have hterm : ∀ I ∈ Is,
      costAt (storForm p (g.pick I) (prI I)).c 0 (fun v => y (((storForm p g pr).keep I).getD v 0)) +
        Storage.storeAfter p g (g.segEnd I) *
          (sumTo (Storage.levelInc p g.T y) (g.segEnd I) - sumTo (Storage.levelInc p g.T y) (g.segStart I)) =
      H ((g.posIn I).head?.getD 0 + (g.posIn I).length) - H ((g.posIn I).head?.getD 0) := by
    intro I hI
    exact interval_cost p g pr (prI I) I hg hlp (g.segStart I) (g.posIn I).length (seg_of_tiles g Is ht I hI)
      (hprI I hI) y
  rw [List.map_congr_left hterm]
  have hmm : (Is.map fun I => H ((g.posIn I).head?.getD 0 + (g.posIn I).length) - H ((g.posIn I).head?.getD 0)) =
      (Is.map g.posIn).map fun P => H (P.head?.getD 0 + P.length) - H (P.head?.getD 0) := by
    rw [List.map_map]; rfl
  have htl := ht
  unfold tiles at htl
  simp only [decide_eq_true_eq] at htl
  rw [List.range_eq_range'] at htl
  rw [hmm, tele H (Is.map g.posIn) 0 g.T htl, Nat.zero_add]
  show costAt (costVec p g g.T pr) 0 y = _
  rw [cost_decomp p g pr g.T hlp y]
  have : sumTo (fun i => (storeTail p g g.T).getD i 0 * q p g.T y i) g.T =
      sumTo (fun i => Storage.storeAfter p g i * q p g.T y i) g.T :=
    sumTo_congr _ _ _ (fun j hj => by rw [storeTail_after p g j hj])
  rw [this]
  show _ = H g.T - ((0 : Rat) + 0)
  grind

/-- on a point that satisfies the level rows of an interval, the net level change of the interval is pinned by its
    end-level rows (start level = end level: minus the inflow of the interval) -/
theorem net_change (p : StorageP) (g : Grid) (pr prI : Nat → Rat) (I : List Nat) (hg : g.Ok) (hlp : p.lp = true)
    (hse : p.startLevel = p.endLevel) (a m : Nat) (hP : pos g.idx I = List.range' a m) (y : Vec)
    (h : ∀ r ∈ liftRows (storForm p g pr) I (storForm p (g.pick I) prI), r.Sat y) :
    sumTo (q p g.T y) (a + m) - sumTo (q p g.T y) a = -(cumInfl p g (a + m) - cumInfl p g a) := by
  by_cases h0 : m = 0
  · subst h0
    simp only [Nat.add_zero]
    grind
  · have := (lift_rows_sat p g pr prI I hg hlp a m hP y).mp h (m - 1) (by omega)
    have e1 : m - 1 + 1 = m := by omega
    have e2 : a + (m - 1) + 1 = a + m := by omega
    simp only [e1, e2, if_true] at this
    obtain ⟨g1, g2⟩ := this
    grind

/-- start level = end level: on restart-feasible points the unsplit cost is the sum of the interval costs minus a
    CONSTANT — the storage costs of the later steps on the inflow of every interval -/
theorem storForm_cost_const (p : StorageP) (g : Grid) (pr : Nat → Rat) (prI : List Nat → Nat → Rat)
    (Is : List (List Nat)) (hg : g.Ok) (hlp : p.lp = true) (ht : tiles g Is = true)
    (hse : p.startLevel = p.endLevel)
    (hprI : ∀ I ∈ Is, ∀ j, j < (pos g.idx I).length → prI I j = pr ((pos g.idx I).getD j 0)) (y : Vec)
    (h : ∀ I ∈ Is, ∀ r ∈ liftRows (storForm p g pr) I (storForm p (g.pick I) (prI I)), r.Sat y) :
    costAt (storForm p g pr).c 0 y =
      (Is.map fun I =>
        costAt (storForm p (g.pick I) (prI I)).c 0 (fun v => y (((storForm p g pr).keep I).getD v 0)) +
        Storage.storeAfter p g (g.segEnd I) * -(cumInfl p g (g.segEnd I) - cumInfl p g (g.segStart I))).sum := by
  rw [storForm_cost_split p g pr prI Is hg hlp ht hprI y]
  congr 1
  apply List.map_congr_left
  intro I hI
  have := net_change p g pr (prI I) I hg hlp hse (g.segStart I) (g.posIn I).length (seg_of_tiles g Is ht I hI) y (h I hI)
  rw [← q_eq_levelInc]
  show _ + _ * (sumTo (q p g.T y) (g.segStart I + (g.posIn I).length) - _) = _
  rw [this]
  rfl

end EAO.SplitStorage
