import EAO.Model.SplitStorage
import EAO.Lemmas.SplitBuild
/-!
# EAO.Lemmas.SplitStorage — helper lemmas for `EAO.Properties.C14Storage`

Part A: sums, the level rows of an LP storage as inequalities on partial sums.
Part B: the storage builder on the picked grid (variables, bounds, costs, mapping, rows).
Part C: the restart form — its restriction to an interval is the storage built there; it is banded.
Part D: start level = end level: the restart rows imply the cumulative rows; the cost relation with `cost_store`.
Part E: portfolios (`setupSplitS` is the split of `setupRestart`; `setupRestart` is tighter than the unsplit set-up).
-/
namespace EAO.SplitStorage
open EAO EAO.Split EAO.SplitBuild EAO.Storage

/-! ## Part A: sums -/

theorem sumTo_succ (f : Nat → Rat) (k : Nat) : sumTo f (k + 1) = sumTo f k + f k := rfl

theorem sumTo_congr (f g : Nat → Rat) : ∀ k, (∀ j, j < k → f j = g j) → sumTo f k = sumTo g k
  | 0, _ => rfl
  | k + 1, h => by
    rw [sumTo_succ, sumTo_succ, sumTo_congr f g k (fun j hj => h j (by omega)), h k (by omega)]

theorem sumTo_shift (f : Nat → Rat) (a : Nat) : ∀ k, sumTo (fun j => f (a + j)) k = sumTo f (a + k) - sumTo f a
  | 0 => by show (0 : Rat) = sumTo f a - sumTo f a; grind
  | k + 1 => by
    have ih := sumTo_shift f a k
    show sumTo (fun j => f (a + j)) k + f (a + k) = sumTo f (a + k) + f (a + k) - sumTo f a
    rw [ih]; grind

theorem sumTo_add (f g : Nat → Rat) : ∀ k, sumTo (fun j => f j + g j) k = sumTo f k + sumTo g k
  | 0 => by show (0 : Rat) = 0 + 0; grind
  | k + 1 => by
    have ih := sumTo_add f g k
    simp only [sumTo_succ]
    rw [ih]; grind

theorem sumTo_mul (c : Rat) (f : Nat → Rat) : ∀ k, sumTo (fun j => c * f j) k = c * sumTo f k
  | 0 => by show (0 : Rat) = c * 0; grind
  | k + 1 => by
    have ih := sumTo_mul c f k
    simp only [sumTo_succ]
    rw [ih]; grind

theorem sum_range' (f : Nat → Rat) : ∀ (m a : Nat), ((List.range' a m).map f).sum = sumTo f (a + m) - sumTo f a
  | 0, a => by show (0 : Rat) = sumTo f a - sumTo f a; grind
  | m + 1, a => by
    have ih := sum_range' f m (a + 1)
    rw [List.range'_succ, List.map_cons, List.sum_cons, ih]
    have e : a + 1 + m = a + (m + 1) := by omega
    rw [e, sumTo_succ]; grind

theorem sum_map_add {α} (f g : α → Rat) : ∀ l : List α,
    (l.map f).sum + (l.map g).sum = (l.map fun x => f x + g x).sum
  | [] => by show (0 : Rat) + 0 = 0; grind
  | x :: xs => by
    have ih := sum_map_add f g xs
    simp only [List.map_cons, List.sum_cons]
    rw [← ih]; grind

/-- the level increment of step `j` as the level rows see it -/
def q (p : StorageP) (n : Nat) (y : Vec) (j : Nat) : Rat :=
  if sep p then -1 * p.effIn * y j + -1 * y (n + j) else -1 * y j

theorem eval_levelCoeffs (p : StorageP) (n a i : Nat) (rhs : Rat) (k : RowKind) (y : Vec) :
    Row.eval ⟨levelCoeffs p n a i, rhs, k⟩ y = sumTo (q p n y) (a + (i + 1 - a)) - sumTo (q p n y) a := by
  rw [← sum_range']
  unfold Row.eval levelCoeffs q
  by_cases hs : sep p = true
  · simp only [hs, if_true, List.map_append, List.map_map, List.sum_append]
    rw [← sum_map_add]
    rfl
  · simp only [hs, Bool.false_eq_true, if_false, List.map_map]
    rfl

theorem eval_rename (r : Row) (φ : Nat → Nat) (y : Vec) : (r.rename φ).eval y = r.eval (fun j => y (φ j)) := by
  unfold Row.eval Row.rename
  simp only [List.map_map]
  rfl

theorem sat_rename (r : Row) (φ : Nat → Nat) (y : Vec) : (r.rename φ).Sat y ↔ r.Sat (fun j => y (φ j)) := by
  have hk : (r.rename φ).kind = r.kind := rfl
  have hr : (r.rename φ).rhs = r.rhs := rfl
  unfold Row.Sat
  rw [eval_rename, hk, hr]

/-! ## Part B: the LP storage, explicitly -/

theorem lp_spec (p : StorageP) (h : p.lp = true) :
    hasNS p = false ∧ p.maxStoreDuration = none ∧ p.blocks = none := by
  unfold StorageP.lp at h
  simp only [Bool.and_eq_true, Bool.not_eq_true', Option.isNone_iff_eq_none] at h
  exact ⟨h.1.1, h.1.2, h.2⟩

/-- explicit form of an LP storage problem -/
def storForm (p : StorageP) (g : Grid) (pr : Nat → Rat) : AssetProblem :=
  { name := p.name, nodes := p.nodes, c := costVec p g g.T pr, l := lowerVec p g g.T, u := upperVec p g g.T,
    rows := (List.range' 0 g.T).map (fun i => upperRow p g g.T 0 g.T i) ++
            (List.range' 0 g.T).map (fun i => lowerRow p g g.T 0 g.T i),
    mapping := dispMap p g g.T }

theorem nVars_lp (p : StorageP) (h : p.lp = true) (n : Nat) : nVars p n = nd p n := by
  obtain ⟨h1, h2, _⟩ := lp_spec p h
  simp [nVars, mHold, h1, h2]

theorem buildStorage_form (p : StorageP) (g : Grid) (T : Nat) (prices : Prices) (A : AssetProblem)
    (hg : g.Ok) (hlp : p.lp = true) (hA : buildStorage p g T prices = .ok A) :
    ∃ pr, A = storForm p g pr ∧ (g.T ≠ 0 → priceVec p g T prices = .ok pr ∧ p.nodes.isEmpty = false) := by
  obtain ⟨h1, h2, h3⟩ := lp_spec p hlp
  unfold buildStorage at hA
  by_cases hne : g.dt.length = 0
  · have hT : g.T = 0 := by rw [← hg.2.1]; exact hne
    simp only [hne, if_true] at hA
    injection hA with hA
    refine ⟨fun _ => 0, ?_, fun h => absurd hT h⟩
    subst hA
    simp [storForm, hT, costVec, lowerVec, upperVec, dispMap, nVars_lp p hlp, nd]
  · have hT : g.T ≠ 0 := by rw [← hg.2.1]; exact hne
    simp only [hne, if_false] at hA
    cases hpr : priceVec p g T prices with
    | error e => simp [hpr] at hA
    | ok pr =>
      simp only [hpr] at hA
      cases hn : p.nodes.isEmpty with
      | true => simp [hn] at hA
      | false =>
        have hb : blocksOf p g.T = .ok [(0, g.T)] := by simp [blocksOf, h3]
        simp only [hn, hb, Bool.false_eq_true, if_false] at hA
        injection hA with hA
        refine ⟨pr, ?_, fun _ => ⟨rfl, rfl⟩⟩
        subst hA
        simp [storForm, upperRows, lowerRows, nsRows, holdRows, Storage.mapping, h1, h2]

end EAO.SplitStorage
