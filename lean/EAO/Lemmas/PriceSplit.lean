import EAO.Model.PriceSplit
import EAO.Model.Slp
import EAO.Lemmas.Lagrange
import EAO.Lemmas.Blocks
import EAO.Properties.C18
/-! helper lemmas for the Lagrangian bound of a block sum and the split price table (C18 in the split set-up) -/
namespace EAO.PriceSplit
open EAO

/-! ### sums -/

theorem sum_app (u v : List Rat) : (u ++ v).sum = u.sum + v.sum := sum_append_rat u v

theorem sum_zero_of_all {α} (l : List α) (f : α → Rat) (h : ∀ a ∈ l, f a = 0) : (l.map f).sum = 0 := by
  induction l with
  | nil => simp
  | cons a l ih =>
    simp only [List.map_cons, List.sum_cons, h a (by simp), ih (fun b hb => h b (by simp [hb]))]
    grind

/-! ### coefficients of renamed rows -/

theorem coef_zero_of_ne (r : Row) (j : Nat) (h : ∀ p ∈ r.coeffs, p.1 ≠ j) : r.coef j = 0 := by
  unfold Row.coef
  apply sum_zero_of_all
  intro p hp
  simp [h p hp]

theorem coef_rename_add (off : Nat) (r : Row) (j : Nat) : (r.rename (off + ·)).coef (off + j) = r.coef j := by
  unfold Row.coef Row.rename
  simp only [List.map_map]
  congr 1
  apply List.map_congr_left
  intro p _
  simp [Function.comp]

theorem colDot_nil_y (rows : List Row) (j : Nat) : colDot rows [] j = 0 := by
  unfold colDot; simp

theorem colDot_cons (r : Row) (rows : List Row) (a : Rat) (y : List Rat) (j : Nat) :
    colDot (r :: rows) (a :: y) j = a * r.coef j + colDot rows y j := by
  unfold colDot; simp

theorem colDot_zero (rows : List Row) (y : List Rat) (j : Nat)
    (h : ∀ r ∈ rows, ∀ p ∈ r.coeffs, p.1 ≠ j) : colDot rows y j = 0 := by
  unfold colDot
  apply sum_zero_of_all
  intro q hq
  have := coef_zero_of_ne q.1 j (h q.1 (List.of_mem_zip hq).1)
  rw [this]; grind

theorem colDot_append (R1 R2 : List Row) (y1 y2 : List Rat) (j : Nat) (h : y1.length = R1.length) :
    colDot (R1 ++ R2) (y1 ++ y2) j = colDot R1 y1 j + colDot R2 y2 j := by
  unfold colDot
  rw [List.zip_append h.symm, List.map_append, sum_app]

theorem colDot_rename (off : Nat) (rows : List Row) (y : List Rat) (j : Nat) :
    colDot (rows.map (Row.rename (off + ·))) y (off + j) = colDot rows y j := by
  induction rows generalizing y with
  | nil => unfold colDot; simp
  | cons r rs ih =>
    cases y with
    | nil => simp [colDot_nil_y]
    | cons a ys => rw [List.map_cons, colDot_cons, colDot_cons, ih, coef_rename_add]

theorem rhsDot_append (R1 R2 : List Row) (y1 y2 : List Rat) (h : y1.length = R1.length) :
    (((R1 ++ R2).zip (y1 ++ y2)).map fun q => q.2 * q.1.rhs).sum
      = ((R1.zip y1).map fun q => q.2 * q.1.rhs).sum + ((R2.zip y2).map fun q => q.2 * q.1.rhs).sum := by
  rw [List.zip_append h.symm, List.map_append, sum_app]

theorem rhsDot_rename (g : Nat → Nat) (rows : List Row) (y : List Rat) :
    (((rows.map (Row.rename g)).zip y).map fun q => q.2 * q.1.rhs).sum
      = ((rows.zip y).map fun q => q.2 * q.1.rhs).sum := by
  induction rows generalizing y with
  | nil => simp
  | cons r rs ih =>
    cases y with
    | nil => simp
    | cons a ys => simp only [List.map_cons, List.zip_cons_cons, List.sum_cons, ih, rename_rhs]

/-! ### the Lagrangian bound read with a column offset -/

/-- the bound of the problem `(c, l, u, rows)` whose variable `j` is column `off + j` of the rows -/
def lagAt (c l u : List Rat) (rows : List Row) (y : List Rat) (off : Nat) : Rat :=
  ((rows.zip y).map fun q => q.2 * q.1.rhs).sum +
  ((List.range c.length).map fun j =>
      max ((- c.getD j 0 - colDot rows y (off + j)) * l.getD j 0)
          ((- c.getD j 0 - colDot rows y (off + j)) * u.getD j 0)).sum

theorem lagrangianUB_eq_lagAt (P : Problem) (y : List Rat) :
    lagrangianUB P y = lagAt P.c P.l P.u P.rows y 0 := by
  unfold lagrangianUB lagAt reducedCost Problem.n
  simp

theorem lagAt_rename (c l u : List Rat) (rows : List Row) (y : List Rat) (off : Nat) :
    lagAt c l u (rows.map (Row.rename (off + ·))) y off = lagAt c l u rows y 0 := by
  unfold lagAt
  rw [rhsDot_rename]
  congr 2
  apply List.map_congr_left
  intro j _
  rw [colDot_rename, Nat.zero_add]

theorem getD_app_left (l1 l2 : List Rat) (j : Nat) (h : j < l1.length) : (l1 ++ l2).getD j 0 = l1.getD j 0 := by
  simp [List.getD_eq_getElem?_getD, List.getElem?_append_left h]

theorem getD_app_right (l1 l2 : List Rat) (j : Nat) : (l1 ++ l2).getD (l1.length + j) 0 = l2.getD j 0 := by
  simp [List.getD_eq_getElem?_getD, List.getElem?_append_right]

theorem range_add_map {β} (n m : Nat) (f : Nat → β) :
    (List.range (n + m)).map f = (List.range n).map f ++ (List.range m).map fun j => f (n + j) := by
  rw [List.range_add, List.map_append, List.map_map]
  rfl

theorem lagAt_append (c1 l1 u1 c2 l2 u2 : List Rat) (R1 R2 : List Row) (y1 y2 : List Rat) (off : Nat)
    (hl : l1.length = c1.length) (hu : u1.length = c1.length) (hy : y1.length = R1.length)
    (h1 : ∀ r ∈ R1, ∀ p ∈ r.coeffs, p.1 < off + c1.length)
    (h2 : ∀ r ∈ R2, ∀ p ∈ r.coeffs, off + c1.length ≤ p.1) :
    lagAt (c1 ++ c2) (l1 ++ l2) (u1 ++ u2) (R1 ++ R2) (y1 ++ y2) off
      = lagAt c1 l1 u1 R1 y1 off + lagAt c2 l2 u2 R2 y2 (off + c1.length) := by
  unfold lagAt
  rw [rhsDot_append _ _ _ _ hy, List.length_append, range_add_map, sum_app]
  have e1 : ((List.range c1.length).map fun j =>
      max ((- (c1 ++ c2).getD j 0 - colDot (R1 ++ R2) (y1 ++ y2) (off + j)) * (l1 ++ l2).getD j 0)
          ((- (c1 ++ c2).getD j 0 - colDot (R1 ++ R2) (y1 ++ y2) (off + j)) * (u1 ++ u2).getD j 0))
      = (List.range c1.length).map fun j =>
      max ((- c1.getD j 0 - colDot R1 y1 (off + j)) * l1.getD j 0)
          ((- c1.getD j 0 - colDot R1 y1 (off + j)) * u1.getD j 0) := by
    apply List.map_congr_left
    intro j hj
    have hj' : j < c1.length := List.mem_range.mp hj
    have hz : colDot R2 y2 (off + j) = 0 :=
      colDot_zero R2 y2 _ (fun r hr p hp => by have := h2 r hr p hp; omega)
    rw [colDot_append _ _ _ _ _ hy, hz, getD_app_left _ _ _ hj', getD_app_left _ _ _ (by omega),
      getD_app_left _ _ _ (by omega)]
    have : colDot R1 y1 (off + j) + 0 = colDot R1 y1 (off + j) := by grind
    rw [this]
  have e2 : ((List.range c2.length).map fun j =>
      max ((- (c1 ++ c2).getD (c1.length + j) 0 - colDot (R1 ++ R2) (y1 ++ y2) (off + (c1.length + j)))
              * (l1 ++ l2).getD (c1.length + j) 0)
          ((- (c1 ++ c2).getD (c1.length + j) 0 - colDot (R1 ++ R2) (y1 ++ y2) (off + (c1.length + j)))
              * (u1 ++ u2).getD (c1.length + j) 0))
      = (List.range c2.length).map fun j =>
      max ((- c2.getD j 0 - colDot R2 y2 (off + c1.length + j)) * l2.getD j 0)
          ((- c2.getD j 0 - colDot R2 y2 (off + c1.length + j)) * u2.getD j 0) := by
    apply List.map_congr_left
    intro j _
    have hz : colDot R1 y1 (off + (c1.length + j)) = 0 :=
      colDot_zero R1 y1 _ (fun r hr p hp => by have := h1 r hr p hp; omega)
    have hl' := getD_app_right l1 l2 j
    have hu' := getD_app_right u1 u2 j
    rw [hl] at hl'; rw [hu] at hu'
    rw [colDot_append _ _ _ _ _ hy, hz, getD_app_right, hl', hu', Nat.add_assoc]
    have : 0 + colDot R2 y2 (off + (c1.length + j)) = colDot R2 y2 (off + (c1.length + j)) := by grind
    rw [this]
  rw [e1, e2]
  grind

/-! ### rows of a concatenation of blocks -/

theorem assembleFrom_rows_ge (as : List AssetProblem) (off : Nat) :
    ∀ r ∈ (assembleFrom off as).rows, ∀ p ∈ r.coeffs, off ≤ p.1 := by
  induction as generalizing off with
  | nil => intro r hr; simp at hr
  | cons a as ih =>
    intro r hr p hp
    rw [assembleFrom_cons_rows, List.mem_append] at hr
    rcases hr with hr | hr
    · obtain ⟨r0, _, rfl⟩ := List.mem_map.mp hr
      unfold Row.rename at hp
      obtain ⟨p0, _, rfl⟩ := List.mem_map.mp hp
      simp
    · have := ih (off + a.n) r hr p hp
      omega

theorem assembleFrom_rows_lt (as : List AssetProblem) (off : Nat)
    (h : ∀ a ∈ as, ∀ r ∈ a.rows, ∀ p ∈ r.coeffs, p.1 < a.n) :
    ∀ r ∈ (assembleFrom off as).rows, ∀ p ∈ r.coeffs, p.1 < off + (assembleFrom off as).n := by
  induction as generalizing off with
  | nil => intro r hr; simp at hr
  | cons a as ih =>
    intro r hr p hp
    have hn : (assembleFrom off (a :: as)).n = a.n + (assembleFrom (off + a.n) as).n := by
      unfold Problem.n; rw [assembleFrom_cons_c, List.length_append]; rfl
    rw [assembleFrom_cons_rows, List.mem_append] at hr
    rcases hr with hr | hr
    · obtain ⟨r0, hr0, rfl⟩ := List.mem_map.mp hr
      unfold Row.rename at hp
      obtain ⟨p0, hp0, rfl⟩ := List.mem_map.mp hp
      have := h a (by simp) r0 hr0 p0 hp0
      simp only; omega
    · have := ih (off + a.n) (fun b hb => h b (by simp [hb])) r hr p hp
      omega

theorem rename_coeffs_lt (off n : Nat) (rows : List Row) (h : ∀ r ∈ rows, ∀ p ∈ r.coeffs, p.1 < n) :
    ∀ r ∈ rows.map (Row.rename (off + ·)), ∀ p ∈ r.coeffs, p.1 < off + n := by
  intro r hr p hp
  obtain ⟨r0, hr0, rfl⟩ := List.mem_map.mp hr
  unfold Row.rename at hp
  obtain ⟨p0, hp0, rfl⟩ := List.mem_map.mp hp
  have := h r0 hr0 p0 hp0
  simp only; omega

/-- **the Lagrangian bound of a concatenation of blocks is the sum of the blocks' bounds** -/
theorem lagAt_assembleFrom (ps : List Problem) (ys : List (List Rat)) (off : Nat)
    (hwf : ∀ p ∈ ps, p.WFCols) (hlen : ys.length = ps.length)
    (hy : ∀ q ∈ ps.zip ys, q.2.length = q.1.rows.length) :
    lagAt (assembleFrom off (ps.map Problem.toAsset)).c (assembleFrom off (ps.map Problem.toAsset)).l
        (assembleFrom off (ps.map Problem.toAsset)).u (assembleFrom off (ps.map Problem.toAsset)).rows
        ys.flatten off
      = ((ps.zip ys).map fun q => lagrangianUB q.1 q.2).sum := by
  induction ps generalizing ys off with
  | nil => simp [lagAt, colDot, Rat.add_zero]
  | cons p ps ih =>
    cases ys with
    | nil => simp at hlen
    | cons y ys =>
      obtain ⟨hl, hu, hidx⟩ := hwf p (by simp)
      have hy0 : y.length = p.rows.length := hy (p, y) (by simp)
      have ih' := ih ys (off + p.n) (fun q hq => hwf q (by simp [hq])) (by simpa using hlen)
        (fun q hq => hy q (by simp [hq]))
      simp only [List.map_cons, List.zip_cons_cons, List.sum_cons, List.flatten_cons]
      rw [assembleFrom_cons_c, assembleFrom_cons_l, assembleFrom_cons_u, assembleFrom_cons_rows]
      show lagAt (p.c ++ (assembleFrom (off + p.c.length) (ps.map Problem.toAsset)).c)
        (p.l ++ (assembleFrom (off + p.c.length) (ps.map Problem.toAsset)).l)
        (p.u ++ (assembleFrom (off + p.c.length) (ps.map Problem.toAsset)).u)
        (p.rows.map (Row.rename (off + ·)) ++ (assembleFrom (off + p.c.length) (ps.map Problem.toAsset)).rows)
        (y ++ ys.flatten) off = _
      rw [lagAt_append p.c p.l p.u _ _ _ _ _ y ys.flatten off hl hu (by simpa using hy0)
        (rename_coeffs_lt off p.n p.rows hidx)
        (assembleFrom_rows_ge _ _)]
      rw [lagAt_rename, ← lagrangianUB_eq_lagAt]
      exact congrArg _ ih'

/-! ### sign-correctness of the concatenated multipliers -/

theorem signOK_append (R1 R2 : List Row) (y1 y2 : List Rat) (h : y1.length = R1.length) :
    SignOK (R1 ++ R2) (y1 ++ y2) ↔ SignOK R1 y1 ∧ SignOK R2 y2 := by
  unfold SignOK
  rw [List.zip_append h.symm]
  simp only [List.length_append, List.mem_append]
  constructor
  · rintro ⟨hl, hs⟩
    exact ⟨⟨h, fun q hq => hs q (Or.inl hq)⟩, ⟨by omega, fun q hq => hs q (Or.inr hq)⟩⟩
  · rintro ⟨⟨_, hs1⟩, ⟨hl2, hs2⟩⟩
    exact ⟨by omega, fun q hq => hq.elim (hs1 q) (hs2 q)⟩

theorem signOK_rename (g : Nat → Nat) (rows : List Row) (y : List Rat) :
    SignOK (rows.map (Row.rename g)) y ↔ SignOK rows y := by
  unfold SignOK
  induction rows generalizing y with
  | nil => simp
  | cons r rs ih =>
    cases y with
    | nil => simp
    | cons a ys =>
      have ih' := ih ys
      simp only [List.map_cons, List.zip_cons_cons, List.length_cons, List.mem_cons, forall_eq_or_imp,
        Nat.add_right_cancel_iff] at ih' ⊢
      have hk : (Row.rename g r).SignOK a ↔ r.SignOK a := by unfold Row.SignOK; simp
      rw [hk]
      constructor
      · rintro ⟨hl, h0, hs⟩
        have := ih'.mp ⟨hl, hs⟩
        exact ⟨this.1, h0, this.2⟩
      · rintro ⟨hl, h0, hs⟩
        have := ih'.mpr ⟨hl, hs⟩
        exact ⟨this.1, h0, this.2⟩

theorem signOK_assembleFrom (ps : List Problem) (ys : List (List Rat)) (off : Nat)
    (hlen : ys.length = ps.length) (hy : ∀ q ∈ ps.zip ys, q.2.length = q.1.rows.length) :
    SignOK (assembleFrom off (ps.map Problem.toAsset)).rows ys.flatten ↔
      ∀ q ∈ ps.zip ys, SignOK q.1.rows q.2 := by
  induction ps generalizing ys off with
  | nil =>
    cases ys with
    | nil => simp [SignOK]
    | cons y ys => simp at hlen
  | cons p ps ih =>
    cases ys with
    | nil => simp at hlen
    | cons y ys =>
      have hy0 : y.length = p.rows.length := hy (p, y) (by simp)
      have ih' := ih ys (off + p.n) (by simpa using hlen) (fun q hq => hy q (by simp [hq]))
      simp only [List.map_cons, List.zip_cons_cons, List.flatten_cons, List.mem_cons, forall_eq_or_imp]
      rw [assembleFrom_cons_rows]
      show SignOK (p.rows.map (Row.rename (off + ·)) ++ _) (y ++ ys.flatten) ↔ _
      rw [signOK_append _ _ _ _ (by simpa using hy0), signOK_rename]
      rw [show (Problem.toAsset p).n = p.n from rfl, ih']

/-! ### well-formedness of the block sum -/

theorem blockSum_WFCols (ps : List Problem) (hwf : ∀ p ∈ ps, p.WFCols) : (blockSum ps).WFCols := by
  unfold blockSum
  have hall : ∀ a ∈ ps.map Problem.toAsset, a.l.length = a.n ∧ a.u.length = a.n ∧
      ∀ r ∈ a.rows, ∀ p ∈ r.coeffs, p.1 < a.n := by
    intro a ha
    obtain ⟨p, hp, rfl⟩ := List.mem_map.mp ha
    exact hwf p hp
  have hn := assembleFrom_n 0 (ps.map Problem.toAsset)
  refine ⟨?_, ?_, ?_⟩
  · -- lengths of l
    have : ∀ (as : List AssetProblem) (off : Nat), (∀ a ∈ as, a.l.length = a.n) →
        (assembleFrom off as).l.length = (assembleFrom off as).n := by
      intro as
      induction as with
      | nil => intro off _; rfl
      | cons a as ih =>
        intro off h
        unfold Problem.n
        rw [assembleFrom_cons_l, assembleFrom_cons_c, List.length_append, List.length_append,
          ih (off + a.n) (fun b hb => h b (by simp [hb])), h a (by simp)]
        rfl
    exact this _ 0 (fun a ha => (hall a ha).1)
  · have : ∀ (as : List AssetProblem) (off : Nat), (∀ a ∈ as, a.u.length = a.n) →
        (assembleFrom off as).u.length = (assembleFrom off as).n := by
      intro as
      induction as with
      | nil => intro off _; rfl
      | cons a as ih =>
        intro off h
        unfold Problem.n
        rw [assembleFrom_cons_u, assembleFrom_cons_c, List.length_append, List.length_append,
          ih (off + a.n) (fun b hb => h b (by simp [hb])), h a (by simp)]
        rfl
    exact this _ 0 (fun a ha => (hall a ha).2.1)
  · intro r hr p hp
    have := assembleFrom_rows_lt (ps.map Problem.toAsset) 0 (fun a ha => (hall a ha).2.2) r hr p hp
    omega

/-! ### positions in a concatenation -/

theorem getD_flatten (ls : List (List Rat)) (i r : Nat) (hr : r < (ls.getD i []).length) :
    ls.flatten.getD (((ls.take i).map List.length).sum + r) 0 = (ls.getD i []).getD r 0 := by
  induction ls generalizing i with
  | nil => simp at hr
  | cons a ls ih =>
    cases i with
    | zero =>
      simp only [List.getD_cons_zero] at hr ⊢
      simp only [List.take_zero, List.map_nil, List.sum_nil, Nat.zero_add, List.flatten_cons]
      exact getD_app_left _ _ _ hr
    | succ i =>
      simp only [List.getD_cons_succ] at hr ⊢
      simp only [List.take_succ_cons, List.map_cons, List.sum_cons, List.flatten_cons, Nat.add_assoc]
      rw [getD_app_right]
      exact ih i hr

theorem offset_eq {α β} (ps : List α) (ys : List β) (f : α → Nat) (g : β → Nat) (i : Nat)
    (h : ∀ q ∈ ps.zip ys, g q.2 = f q.1) (hlen : ys.length = ps.length) :
    ((ps.take i).map f).sum = ((ys.take i).map g).sum := by
  induction ps generalizing ys i with
  | nil => cases ys with
    | nil => simp
    | cons y ys => simp at hlen
  | cons p ps ih =>
    cases ys with
    | nil => simp at hlen
    | cons y ys =>
      cases i with
      | zero => simp
      | succ i =>
        have h0 : g y = f p := h (p, y) (by simp)
        simp only [List.take_succ_cons, List.map_cons, List.sum_cons, h0]
        rw [ih ys i (fun q hq => h q (by simp [hq])) (by simpa using hlen)]

theorem getD_zip {α β} [Inhabited α] (ps : List α) (ys : List β) (dy : β) (i : Nat) (hi : i < ps.length)
    (hlen : ys.length = ps.length) : (ps[i], ys.getD i dy) ∈ ps.zip ys := by
  have hi' : i < ys.length := by omega
  have : (ps.zip ys)[i]'(by simp; omega) = (ps[i], ys[i]) := by simp
  rw [show ys.getD i dy = ys[i] by simp [List.getD_eq_getElem?_getD, hi']]
  rw [← this]
  exact List.getElem_mem _

theorem getD_flatMap_nodal (ps : List Problem) (i k : Nat) (hi : i < ps.length)
    (hk : k < (ps[i]).nodal.length) (d : Nat × String) :
    (splitNodal ps).getD (nodalOffset ps i + k) d = (ps[i]).nodal.getD k d := by
  unfold splitNodal nodalOffset
  induction ps generalizing i with
  | nil => simp at hi
  | cons p ps ih =>
    cases i with
    | zero =>
      simp only [List.getElem_cons_zero] at hk
      simp [List.getD_eq_getElem?_getD, List.getElem?_append_left hk]
    | succ i =>
      simp only [List.getElem_cons_succ] at hk
      have := ih i (by simpa using hi) hk
      simp only [List.take_succ_cons, List.map_cons, List.sum_cons, List.flatMap_cons, Nat.add_assoc,
        List.getElem_cons_succ]
      rw [List.getD_eq_getElem?_getD, List.getElem?_append_right (by omega)]
      rw [show p.nodal.length + (((ps.take i).map fun p => p.nodal.length).sum + k) - p.nodal.length
        = ((ps.take i).map fun p => p.nodal.length).sum + k by omega]
      rw [← List.getD_eq_getElem?_getD]
      exact this

theorem splitNodal_length_gt (ps : List Problem) (i k : Nat) (hi : i < ps.length)
    (hk : k < (ps[i]).nodal.length) : nodalOffset ps i + k < (splitNodal ps).length := by
  unfold splitNodal nodalOffset
  induction ps generalizing i with
  | nil => simp at hi
  | cons p ps ih =>
    cases i with
    | zero =>
      simp only [List.getElem_cons_zero] at hk
      simp; omega
    | succ i =>
      simp only [List.getElem_cons_succ] at hk
      have := ih i (by simpa using hi) hk
      simp only [List.take_succ_cons, List.map_cons, List.sum_cons, List.flatMap_cons, List.length_append]
      omega

/-! ### perturbing a row of the block sum = perturbing that row in its block -/

theorem perturbRows_append_left (R1 R2 : List Row) (i : Nat) (d : Rat) (h : i < R1.length) :
    perturbRows (R1 ++ R2) i d = perturbRows R1 i d ++ R2 := by
  induction R1 generalizing i with
  | nil => simp at h
  | cons r rs ih =>
    cases i with
    | zero => simp [perturbRows]
    | succ i => simp [perturbRows, ih i (by simpa using h)]

theorem perturbRows_append_right (R1 R2 : List Row) (i : Nat) (d : Rat) :
    perturbRows (R1 ++ R2) (R1.length + i) d = R1 ++ perturbRows R2 i d := by
  induction R1 with
  | nil => simp
  | cons r rs ih =>
    have : (r :: rs).length + i = (rs.length + i) + 1 := by simp; omega
    rw [this]
    simp [perturbRows, ih]

theorem perturbRows_map_rename (g : Nat → Nat) (R : List Row) (i : Nat) (d : Rat) :
    perturbRows (R.map (Row.rename g)) i d = (perturbRows R i d).map (Row.rename g) := by
  induction R generalizing i with
  | nil => simp [perturbRows]
  | cons r rs ih =>
    cases i with
    | zero => simp [perturbRows, Row.rename]
    | succ i => simp [perturbRows, ih]

theorem assembleFrom_perturb (ps : List Problem) (off i r : Nat) (d : Rat) (hi : i < ps.length)
    (hr : r < (ps[i]).rows.length) :
    let A := assembleFrom off (ps.map Problem.toAsset)
    let B := assembleFrom off ((ps.set i ((ps[i]).perturbRhs r d)).map Problem.toAsset)
    B.c = A.c ∧ B.l = A.l ∧ B.u = A.u ∧ B.mapping = A.mapping ∧ B.nodal = A.nodal ∧
      B.rows = perturbRows A.rows (rowOffset ps i + r) d := by
  induction ps generalizing off i with
  | nil => simp at hi
  | cons p ps ih =>
    cases i with
    | zero =>
      simp only [List.getElem_cons_zero] at hr
      simp only [List.set_cons_zero, List.map_cons, List.getElem_cons_zero]
      refine ⟨rfl, rfl, rfl, rfl, ?_, ?_⟩
      · cases ps <;> rfl
      · rw [assembleFrom_cons_rows, assembleFrom_cons_rows]
        show (perturbRows p.rows r d).map _ ++ _ = _
        have : rowOffset (p :: ps) 0 = 0 := by simp [rowOffset]
        rw [this, Nat.zero_add, perturbRows_append_left _ _ _ _ (by rw [List.length_map]; exact hr), perturbRows_map_rename]
        rfl
    | succ i =>
      simp only [List.getElem_cons_succ] at hr
      obtain ⟨h1, h2, h3, h4, _, h6⟩ := ih (off + p.n) i (by simpa using hi) hr
      simp only [List.set_cons_succ, List.map_cons, List.getElem_cons_succ]
      refine ⟨?_, ?_, ?_, ?_, rfl, ?_⟩
      · rw [assembleFrom_cons_c, assembleFrom_cons_c]; exact congrArg _ h1
      · rw [assembleFrom_cons_l, assembleFrom_cons_l]; exact congrArg _ h2
      · rw [assembleFrom_cons_u, assembleFrom_cons_u]; exact congrArg _ h3
      · rw [assembleFrom_cons_mapping, assembleFrom_cons_mapping]; exact congrArg _ h4
      · rw [assembleFrom_cons_rows, assembleFrom_cons_rows]
        have : rowOffset (p :: ps) (i + 1) + r
            = (p.toAsset.rows.map (Row.rename (off + ·))).length + (rowOffset ps i + r) := by
          simp [rowOffset, Problem.toAsset]; omega
        rw [this, perturbRows_append_right]
        exact congrArg _ h6

/-! ### duals per row type when the nodal rows come last -/

theorem dualsOfKind_none (rows : List Row) (y : List Rat) (k : RowKind)
    (h : ∀ r ∈ rows, (r.kind == k) = false) : dualsOfKind rows y k = [] := by
  unfold dualsOfKind
  rw [List.filter_eq_nil_iff.mpr, List.map_nil]
  intro q hq
  simp [h q.1 (List.of_mem_zip hq).1]

theorem dualsOfKind_all (rows : List Row) (y : List Rat) (k : RowKind)
    (h : ∀ r ∈ rows, (r.kind == k) = true) (hy : y.length = rows.length) : dualsOfKind rows y k = y := by
  unfold dualsOfKind
  rw [List.filter_eq_self.mpr (fun q hq => h q.1 (List.of_mem_zip hq).1)]
  exact List.map_snd_zip (by omega)

theorem dualsOfKind_append (R1 R2 : List Row) (y1 y2 : List Rat) (k : RowKind) (h : y1.length = R1.length) :
    dualsOfKind (R1 ++ R2) (y1 ++ y2) k = dualsOfKind R1 y1 k ++ dualsOfKind R2 y2 k := by
  unfold dualsOfKind
  rw [List.zip_append h.symm, List.filter_append, List.map_append]

/-- with the nodal rows last, `duals['N']` is the tail of the multiplier vector -/
theorem dualsOfKind_nodalLast (P : Problem) (y : List Rat) (h : nodalLast P = true)
    (hy : y.length = P.rows.length) :
    dualsOfKind P.rows y .N = y.drop (P.rows.length - P.nodal.length) := by
  unfold nodalLast at h
  simp only [Bool.and_eq_true, decide_eq_true_eq, List.all_eq_true] at h
  obtain ⟨⟨hle, hA⟩, hB⟩ := h
  have hr : P.rows = P.rows.take (P.rows.length - P.nodal.length) ++ P.rows.drop (P.rows.length - P.nodal.length) :=
    (List.take_append_drop _ _).symm
  have hyy : y = y.take (P.rows.length - P.nodal.length) ++ y.drop (P.rows.length - P.nodal.length) :=
    (List.take_append_drop _ _).symm
  conv => lhs; rw [hr, hyy]
  rw [dualsOfKind_append _ _ _ _ _ (by simp [List.length_take]; omega)]
  rw [dualsOfKind_none _ _ _ (fun r hr => by simpa using hA r hr)]
  rw [dualsOfKind_all _ _ _ (fun r hr => hB r hr) (by simp [List.length_drop]; omega)]
  simp

theorem dualsOfKind_nodalLast_spec (P : Problem) (y : List Rat) (h : nodalLast P = true)
    (hy : y.length = P.rows.length) :
    (dualsOfKind P.rows y .N).length = P.nodal.length ∧
    ∀ k, (dualsOfKind P.rows y .N).getD k 0 = y.getD (EAO.C18.nodalRowIndex P k) 0 := by
  have hle : P.nodal.length ≤ P.rows.length := by
    unfold nodalLast at h
    simp only [Bool.and_eq_true, decide_eq_true_eq] at h
    exact h.1.1
  rw [dualsOfKind_nodalLast P y h hy]
  refine ⟨by simp [List.length_drop]; omega, fun k => ?_⟩
  unfold EAO.C18.nodalRowIndex
  simp [List.getD_eq_getElem?_getD, List.getElem?_drop]

/-! ### further positions -/

theorem flatten_length_gt (ls : List (List Rat)) (i r : Nat) (hr : r < (ls.getD i []).length) :
    ((ls.take i).map List.length).sum + r < ls.flatten.length := by
  induction ls generalizing i with
  | nil => simp at hr
  | cons a ls ih =>
    cases i with
    | zero =>
      simp only [List.getD_cons_zero] at hr
      simp; omega
    | succ i =>
      simp only [List.getD_cons_succ] at hr
      have := ih i hr
      simp only [List.take_succ_cons, List.map_cons, List.sum_cons, List.flatten_cons, List.length_append]
      omega

theorem nodalPrices_getD_full (nodal : List (Nat × String)) (dualN : List Rat) (k : Nat)
    (hk : k < nodal.length) (d : (Nat × String) × Rat) :
    (nodalPrices nodal dualN).getD k d = (nodal.getD k d.1, - dualN.getD k 0) := by
  unfold nodalPrices
  rw [List.getD_eq_getElem?_getD, List.getElem?_eq_getElem (by simpa using hk)]
  simp [List.getD_eq_getElem?_getD, hk]

theorem sum_zip_sub (a b : List Rat) (h : b.length = a.length) :
    ((a.zip b).map fun q => q.1 - q.2).sum = a.sum - b.sum := by
  induction a generalizing b with
  | nil => cases b with
    | nil => simp; grind
    | cons y ys => simp at h
  | cons x xs ih =>
    cases b with
    | nil => simp at h
    | cons y ys =>
      simp only [List.zip_cons_cons, List.map_cons, List.sum_cons, ih ys (by simpa using h)]
      grind

theorem zip_map_left' {α β γ} (f : α → γ) (l : List α) (m : List β) :
    (l.map f).zip m = (l.zip m).map fun q => (f q.1, q.2) := by
  induction l generalizing m with
  | nil => simp
  | cons a l ih => cases m with
    | nil => simp
    | cons b m => simp [ih]

theorem problem_ext_rows (A B : Problem) (R : List Row) (h1 : B.c = A.c) (h2 : B.l = A.l) (h3 : B.u = A.u)
    (h4 : B.mapping = A.mapping) (h5 : B.nodal = A.nodal) (h6 : B.rows = R) : B = { A with rows := R } := by
  cases A; cases B; simp_all

/-! ### many right-hand sides at once -/

theorem perturbMany_rows_length (P : Problem) (idx : List Nat) (δ : Rat) :
    (perturbMany P idx δ).rows.length = P.rows.length := by
  unfold perturbMany
  induction idx generalizing P with
  | nil => rfl
  | cons i idx ih =>
    rw [List.foldl_cons, ih]
    exact perturbRows_length _ _ _

theorem perturbMany_WFCols (P : Problem) (idx : List Nat) (δ : Rat) (h : P.WFCols) :
    (perturbMany P idx δ).WFCols := by
  unfold perturbMany
  induction idx generalizing P with
  | nil => exact h
  | cons i idx ih => rw [List.foldl_cons]; exact ih _ (Problem.WFCols_perturbRhs h i δ)

theorem perturbMany_SignOK (P : Problem) (idx : List Nat) (δ : Rat) (y : List Rat) (h : SignOK P.rows y) :
    SignOK (perturbMany P idx δ).rows y := by
  unfold perturbMany
  induction idx generalizing P with
  | nil => exact h
  | cons i idx ih => rw [List.foldl_cons]; exact ih _ (SignOK_perturbRows h i δ)

theorem lagrangianUB_perturbMany (P : Problem) (idx : List Nat) (δ : Rat) (y : List Rat)
    (h : ∀ i ∈ idx, i < P.rows.length) :
    lagrangianUB (perturbMany P idx δ) y = lagrangianUB P y + (idx.map fun i => y.getD i 0).sum * δ := by
  unfold perturbMany
  induction idx generalizing P with
  | nil => simp; grind
  | cons i idx ih =>
    rw [List.foldl_cons, ih (P.perturbRhs i δ) (fun j hj => by
      show j < (perturbRows P.rows i δ).length
      rw [perturbRows_length]; exact h j (by simp [hj]))]
    rw [lagrangianUB_perturbRhs P y i δ (h i (by simp))]
    simp only [List.map_cons, List.sum_cons]
    grind

theorem sum_range_const (n : Nat) (a : Rat) : ((List.range n).map fun _ => a).sum = (n : Rat) * a := by
  induction n with
  | zero => simp
  | succ n ih =>
    rw [List.range_succ, List.map_append, sum_app, ih]
    have : ((n + 1 : Nat) : Rat) = (n : Rat) + 1 := by simp
    rw [this]
    simp only [List.map_cons, List.map_nil, List.sum_cons, List.sum_nil]
    grind

/-! ### rows of an SLP -/

theorem sampleRows_length (mask : List Bool) (n : Nat) (rows : List Row) (i0 k : Nat) :
    (sampleRows mask n rows i0 k).length = k * rows.length := by
  induction k generalizing i0 with
  | zero => simp [sampleRows]
  | succ k ih => simp [sampleRows, ih, Nat.succ_mul, Nat.add_comm]

theorem makeSlp_rows (P Q : Problem) (F : List Nat) (cs : List (List Rat)) (h : makeSlp P F cs = .ok Q) :
    Q.rows = P.rows ++ sampleRows (slpMask P F) P.n P.rows 0 cs.length ∧ Q.nodal = P.nodal := by
  unfold makeSlp at h
  simp only at h
  split at h
  · cases h
  · split at h
    · cases h
    · split at h
      · cases h
      · split at h
        · cases h
        · injection h with h
          subst h
          exact ⟨rfl, rfl⟩

end EAO.PriceSplit
