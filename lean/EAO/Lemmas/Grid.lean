import EAO.Model.Grid
/-!
# EAO.Lemmas.Grid — helper lemmas for C19 (time grid and interval data)

Core Lean only.  `sel` (numpy mask selection) versus `filter`, adjacent windows over sorted points,
coarse cells, the invariant of the `values_to_grid` loop, tick ranges, differences and cumulative sums.
-/
namespace EAO

/-- decidable equality of results (for the concrete examples only) -/
instance exceptDecEqGrid {ε α} [DecidableEq ε] [DecidableEq α] : DecidableEq (Except ε α)
  | .ok a, .ok b => if h : a = b then isTrue (by rw [h]) else isFalse (by intro h'; cases h'; exact h rfl)
  | .error a, .error b => if h : a = b then isTrue (by rw [h]) else isFalse (by intro h'; cases h'; exact h rfl)
  | .ok _, .error _ => isFalse (by intro h; cases h)
  | .error _, .ok _ => isFalse (by intro h; cases h)

/-! ### `sel` (numpy `arr[mask]`) -/

theorem sel_nil_left {α} (xs : List α) : sel [] xs = [] := by
  cases xs <;> rfl

theorem sel_nil_right {α} (m : List Bool) : sel m ([] : List α) = [] := by
  cases m with
  | nil => rfl
  | cons b m => cases b <;> rfl

@[simp] theorem sel_cons_true {α} (m : List Bool) (x : α) (xs : List α) : sel (true :: m) (x :: xs) = x :: sel m xs := rfl
@[simp] theorem sel_cons_false {α} (m : List Bool) (x : α) (xs : List α) : sel (false :: m) (x :: xs) = sel m xs := rfl

/-- selection by a mask computed from the points = filter on the zipped rows -/
theorem sel_map_eq_filter_zip {α} (p : Int → Bool) (ps : List Int) (xs : List α) :
    sel (ps.map p) xs = ((ps.zip xs).filter (fun q => p q.1)).map (·.2) := by
  induction ps generalizing xs with
  | nil => simp [sel_nil_left]
  | cons a ps ih =>
    cases xs with
    | nil => simp [sel_nil_right]
    | cons x xs =>
      cases h : p a <;> simp [h, ih]

theorem sel_map_self (p : Int → Bool) (ps : List Int) : sel (ps.map p) ps = ps.filter p := by
  induction ps with
  | nil => rfl
  | cons a ps ih => cases h : p a <;> simp [h, ih]

/-- selecting twice = selecting once with the conjunction -/
theorem sel_sel {α} (p q : Int → Bool) (ps : List Int) (xs : List α) :
    sel ((sel (ps.map p) ps).map q) (sel (ps.map p) xs) = sel (ps.map fun x => p x && q x) xs := by
  induction ps generalizing xs with
  | nil => simp [sel_nil_left]
  | cons a ps ih =>
    cases xs with
    | nil => simp [sel_nil_right]
    | cons x xs =>
      cases hp : p a <;> cases hq : q a <;> simp [hp, hq, ih]


/-- the window predicate of the masks -/
abbrev win (a b : Int) : Int → Bool := fun p => decide (a ≤ p) && decide (p < b)

theorem win_true_iff {a b p : Int} : win a b p = true ↔ a ≤ p ∧ p < b := by simp [win]
theorem win_false_iff {a b p : Int} : win a b p = false ↔ ¬(a ≤ p ∧ p < b) := by
  rw [← win_true_iff]; simp

theorem sel_sublist {α} (m : List Bool) (xs : List α) : (sel m xs).Sublist xs := by
  induction m generalizing xs with
  | nil => simp [sel_nil_left]
  | cons b m ih =>
    cases xs with
    | nil => simp [sel_nil_right]
    | cons x xs =>
      cases b
      · exact (ih xs).cons x
      · exact (ih xs).cons_cons x

theorem sel_win_empty {α} (a b : Int) (ps : List Int) (xs : List α) (h : ∀ p ∈ ps, b ≤ p) :
    sel (ps.map (win a b)) xs = [] := by
  induction ps generalizing xs with
  | nil => simp [sel_nil_left]
  | cons p ps ih =>
    cases xs with
    | nil => simp [sel_nil_right]
    | cons x xs =>
      have hp : b ≤ p := h p (by simp)
      have : win a b p = false := win_false_iff.mpr (by omega)
      simp only [List.map_cons, this, sel_cons_false]
      exact ih xs (fun q hq => h q (by simp [hq]))

theorem sel_win_self {α} (a : Int) (ps : List Int) (xs : List α) : sel (ps.map (win a a)) xs = [] := by
  induction ps generalizing xs with
  | nil => simp [sel_nil_left]
  | cons p ps ih =>
    cases xs with
    | nil => simp [sel_nil_right]
    | cons x xs =>
      have : win a a p = false := win_false_iff.mpr (by omega)
      simp only [List.map_cons, this, sel_cons_false]
      exact ih xs

/-- adjacent windows over sorted points concatenate -/
theorem sel_win_append {α} (a b c : Int) (hab : a ≤ b) (hbc : b ≤ c) (ps : List Int) (hs : ps.Pairwise (· ≤ ·)) (xs : List α) :
    sel (ps.map (win a b)) xs ++ sel (ps.map (win b c)) xs = sel (ps.map (win a c)) xs := by
  induction ps generalizing xs with
  | nil => simp [sel_nil_left]
  | cons p ps ih =>
    cases xs with
    | nil => simp [sel_nil_right]
    | cons x xs =>
      have hs' := (List.pairwise_cons.mp hs)
      have ih' := ih hs'.2 xs
      by_cases h1 : a ≤ p
      · by_cases h2 : p < b
        · have e1 : win a b p = true := win_true_iff.mpr (by omega)
          have e2 : win b c p = false := win_false_iff.mpr (by omega)
          have e3 : win a c p = true := win_true_iff.mpr (by omega)
          simp only [List.map_cons, e1, e2, e3, sel_cons_true, sel_cons_false, List.cons_append, ih']
        · by_cases h3 : p < c
          · have e1 : win a b p = false := win_false_iff.mpr (by omega)
            have e2 : win b c p = true := win_true_iff.mpr (by omega)
            have e3 : win a c p = true := win_true_iff.mpr (by omega)
            have hemp : sel (ps.map (win a b)) xs = [] :=
              sel_win_empty a b ps xs (fun q hq => by have := hs'.1 q hq; omega)
            simp only [List.map_cons, e1, e2, e3, sel_cons_true, sel_cons_false]
            rw [hemp] at ih' ⊢
            simpa using ih'
          · have e1 : win a b p = false := win_false_iff.mpr (by omega)
            have e2 : win b c p = false := win_false_iff.mpr (by omega)
            have e3 : win a c p = false := win_false_iff.mpr (by omega)
            simp only [List.map_cons, e1, e2, e3, sel_cons_false, ih']
      · have e1 : win a b p = false := win_false_iff.mpr (by omega)
        have e2 : win b c p = false := win_false_iff.mpr (by omega)
        have e3 : win a c p = false := win_false_iff.mpr (by omega)
        simp only [List.map_cons, e1, e2, e3, sel_cons_false, ih']

theorem Grid.mask_eq (g : Grid) (s e : Int) : g.mask s e = g.pts.map (win s e) := rfl

/-! ### coarse cells -/

theorem foldl_min_le (xs : List Nat) (i : Nat) : xs.foldl min i ≤ i ∧ ∀ x ∈ xs, xs.foldl min i ≤ x := by
  induction xs generalizing i with
  | nil => simp
  | cons y ys ih =>
    simp only [List.foldl_cons, List.mem_cons, forall_eq_or_imp]
    have := ih (min i y)
    refine ⟨by omega, by omega, this.2⟩

theorem foldl_min_mem (xs : List Nat) (i : Nat) : xs.foldl min i = i ∨ xs.foldl min i ∈ xs := by
  induction xs generalizing i with
  | nil => simp
  | cons y ys ih =>
    simp only [List.foldl_cons, List.mem_cons]
    rcases ih (min i y) with h | h
    · rw [h]; rcases Nat.le_total i y with h' | h'
      · left; omega
      · right; left; omega
    · right; right; exact h

theorem foldl_min_sorted (xs : List Nat) (i : Nat) (h : ∀ x ∈ xs, i ≤ x) : xs.foldl min i = i := by
  induction xs generalizing i with
  | nil => rfl
  | cons y ys ih =>
    simp only [List.foldl_cons]
    have : min i y = i := by have := h y (by simp); omega
    rw [this]; exact ih i (fun x hx => h x (by simp [hx]))

/-- selecting nothing from a list selects nothing from any list that is not longer -/
theorem sel_eq_nil_of_length_le {α β} : ∀ (m : List Bool) (xs : List α) (ys : List β),
    sel m xs = [] → ys.length ≤ xs.length → sel m ys = []
  | [], _, ys, _, _ => sel_nil_left ys
  | _ :: _, _, [], _, _ => sel_nil_right _
  | _ :: _, [], _ :: _, _, hl => by simp at hl
  | true :: _, _ :: _, _ :: _, h, _ => by simp at h
  | false :: m, _ :: xs, _ :: ys, h, hl =>
    sel_eq_nil_of_length_le m xs ys (by simpa using h) (by simpa using hl)

/-- consecutive pairs of cuts: the coarse intervals `[cuts_j, cuts_{j+1})` -/
def cutPairs : List Int → List (Int × Int)
  | a :: b :: rest => (a, b) :: cutPairs (b :: rest)
  | _ => []

/-- the coarse interval holds at least one fine step of the reference grid -/
def hasFine (g : Grid) (ab : Int × Int) : Bool := !(g.restrict ab.1 ab.2).idx.isEmpty

theorem hasFine_false_iff (g : Grid) (ab : Int × Int) : hasFine g ab = false ↔ (g.restrict ab.1 ab.2).idx = [] := by
  simp [hasFine]

theorem hasFine_true_iff (g : Grid) (ab : Int × Int) : hasFine g ab = true ↔ (g.restrict ab.1 ab.2).idx ≠ [] := by
  simp [hasFine]

theorem cutPairs_length : ∀ cuts : List Int, (cutPairs cuts).length = cuts.length - 1
  | [] => rfl
  | [_] => rfl
  | a :: b :: rest => by simp [cutPairs, cutPairs_length (b :: rest)]

theorem cutPairs_getElem? : ∀ (cuts : List Int) (j : Nat) (h : j + 1 < cuts.length),
    (cutPairs cuts)[j]? = some (cuts[j], cuts[j+1])
  | [], j, h => by simp at h
  | [_], j, h => by simp at h
  | a :: b :: rest, 0, _ => by simp [cutPairs]
  | a :: b :: rest, j+1, h => by
    have := cutPairs_getElem? (b :: rest) j (by simp at h ⊢; omega)
    simpa [cutPairs] using this

theorem coarseCell_ok (g : Grid) (a b : Int) (c : CoarseCell) (h : coarseCell g a b = .ok (some c)) :
    c.minor = sel (g.mask a b) g.idx ∧ c.minor ≠ [] ∧ c.dt = (sel (g.mask a b) g.dt).sum ∧
    c.I = c.minor.tail.foldl min (c.minor.headD 0) ∧ g.Dt[c.I]? = some c.Dt ∧ g.pts[c.I]? = some c.pt ∧
    dfAt g c.I = some c.df := by
  unfold coarseCell at h
  cases hsel : sel (g.mask a b) g.idx with
  | nil => rw [hsel] at h; cases h
  | cons i is =>
    rw [hsel] at h
    simp only at h
    cases hD : g.Dt[is.foldl min i]? with
    | none => rw [hD] at h; cases h
    | some D =>
      cases hp : g.pts[is.foldl min i]? with
      | none => rw [hD, hp] at h; cases h
      | some p =>
        cases hf : dfAt g (is.foldl min i) with
        | none => rw [hD, hp, hf] at h; cases h
        | some f =>
          rw [hD, hp, hf] at h
          cases h
          simp [hD, hp, hf]

/-- a pair of cuts is skipped exactly when it holds no fine step -/
theorem coarseCell_none_iff (g : Grid) (a b : Int) : coarseCell g a b = .ok none ↔ sel (g.mask a b) g.idx = [] := by
  unfold coarseCell
  cases hsel : sel (g.mask a b) g.idx with
  | nil => simp
  | cons i is =>
    simp only
    cases g.Dt[is.foldl min i]? <;> cases g.pts[is.foldl min i]? <;> cases dfAt g (is.foldl min i) <;> simp

/-- the cells are made from exactly the pairs of cuts that hold a fine step, in order -/
theorem coarseCells_spec (g : Grid) : ∀ (cuts : List Int) (cells : List CoarseCell), coarseCells g cuts = .ok cells →
    cells.map (·.minor) = ((cutPairs cuts).filter (hasFine g)).map (fun ab => sel (g.mask ab.1 ab.2) g.idx) ∧
    cells.map (·.dt) = ((cutPairs cuts).filter (hasFine g)).map (fun ab => (sel (g.mask ab.1 ab.2) g.dt).sum) ∧
    ∀ c ∈ cells, c.minor ≠ [] ∧ ∃ ab ∈ cutPairs cuts, hasFine g ab = true ∧ coarseCell g ab.1 ab.2 = .ok (some c)
  | [], cells, h => by simp [coarseCells] at h; subst h; simp [cutPairs]
  | [a], cells, h => by simp [coarseCells] at h; subst h; simp [cutPairs]
  | a :: b :: rest, cells, h => by
    unfold coarseCells at h
    cases hc : coarseCell g a b with
    | error e => rw [hc] at h; cases h
    | ok oc =>
      cases hm : coarseCells g (b :: rest) with
      | error e => rw [hc, hm] at h; cases h
      | ok more =>
        rw [hc, hm] at h
        have ih := coarseCells_spec g (b :: rest) more hm
        cases oc with
        | none =>
          cases h
          have hf : hasFine g (a, b) = false := (hasFine_false_iff g (a, b)).mpr ((coarseCell_none_iff g a b).mp hc)
          refine ⟨by simp [cutPairs, hf, ih.1], by simp [cutPairs, hf, ih.2.1], ?_⟩
          intro c hcm
          obtain ⟨h1, ab, hab, h2⟩ := ih.2.2 c hcm
          exact ⟨h1, ab, by simp [cutPairs, hab], h2⟩
        | some c =>
          cases h
          have hk := coarseCell_ok g a b c hc
          have hf : hasFine g (a, b) = true := (hasFine_true_iff g (a, b)).mpr (by
            show sel (g.mask a b) g.idx ≠ []
            rw [← hk.1]; exact hk.2.1)
          refine ⟨by simp [cutPairs, hf, ih.1, hk.1], by simp [cutPairs, hf, ih.2.1, hk.2.2.1], ?_⟩
          intro c' hcm
          rcases List.mem_cons.mp hcm with rfl | hcm
          · exact ⟨hk.2.1, (a, b), by simp [cutPairs], hf, hc⟩
          · obtain ⟨h1, ab, hab, h2⟩ := ih.2.2 c' hcm
            exact ⟨h1, ab, by simp [cutPairs, hab], h2⟩

/-- the minor lists of all coarse steps, concatenated, are exactly the reference indices of the steps in
    `[first cut, last cut)` (skipped pairs of cuts hold no fine step, so nothing is lost by skipping); the
    coarse step lengths add up to the fine step lengths of that range (for this the reference must not have
    more step lengths than indices: a skipped pair is recognised by its indices) -/
theorem coarseCells_cover (g : Grid) (hp : g.pts.Pairwise (· ≤ ·)) : ∀ (cuts : List Int) (cells : List CoarseCell),
    coarseCells g cuts = .ok cells → cuts.Pairwise (· ≤ ·) → ∀ c0 cn, cuts.head? = some c0 → cuts.getLast? = some cn →
    (cells.map (·.minor)).flatten = sel (g.mask c0 cn) g.idx ∧
    (g.dt.length ≤ g.idx.length → (cells.map (·.dt)).sum = (sel (g.mask c0 cn) g.dt).sum)
  | [], _, _, _, _, _, h0, _ => by simp at h0
  | [a], cells, h, _, c0, cn, h0, hn => by
    simp [coarseCells] at h; subst h
    simp at h0 hn; subst h0; subst hn
    simp [Grid.mask_eq, sel_win_self]
  | a :: b :: rest, cells, h, hc, c0, cn, h0, hn => by
    unfold coarseCells at h
    cases hcell : coarseCell g a b with
    | error e => rw [hcell] at h; cases h
    | ok oc =>
      cases hm : coarseCells g (b :: rest) with
      | error e => rw [hcell, hm] at h; cases h
      | ok more =>
        rw [hcell, hm] at h
        simp at h0; subst h0
        have hc' := List.pairwise_cons.mp hc
        have hn' : (b :: rest).getLast? = some cn := by simpa [List.getLast?_cons_cons] using hn
        have ih := coarseCells_cover g hp (b :: rest) more hm hc'.2 b cn (by simp) hn'
        have hab : a ≤ b := hc'.1 b (by simp)
        have hbn : b ≤ cn := by
          have hmem : cn ∈ b :: rest := List.mem_of_getLast? hn'
          rcases List.mem_cons.mp hmem with h | h
          · omega
          · exact (List.pairwise_cons.mp hc'.2).1 cn h
        cases oc with
        | none =>
          cases h
          have he : sel (g.pts.map (win a b)) g.idx = [] := (coarseCell_none_iff g a b).mp hcell
          constructor
          · rw [ih.1, Grid.mask_eq, Grid.mask_eq, ← sel_win_append a b cn hab hbn g.pts hp g.idx, he, List.nil_append]
          · intro hl
            have he' : sel (g.pts.map (win a b)) g.dt = [] := sel_eq_nil_of_length_le _ g.idx g.dt he hl
            rw [ih.2 hl, Grid.mask_eq, Grid.mask_eq, ← sel_win_append a b cn hab hbn g.pts hp g.dt, he', List.nil_append]
        | some c =>
          cases h
          obtain ⟨hmin, _, hdt, _⟩ := coarseCell_ok g a b c hcell
          constructor
          · simp only [List.map_cons, List.flatten_cons, ih.1, hmin, Grid.mask_eq]
            exact sel_win_append a b cn hab hbn g.pts hp g.idx
          · intro hl
            simp only [List.map_cons, List.sum_cons, ih.2 hl, hdt, Grid.mask_eq]
            rw [← sel_win_append a b cn hab hbn g.pts hp g.dt, List.sum_append]


/-! ### `values_to_grid` -/

/-- value given to point `p` by the first interval (in list order) that contains it -/
def lookupIv (ivs : List Interval) (p : Int) : Option Rat := (ivs.find? (·.contains p)).map (·.value)

/-- no grid point lies in two intervals (at different list positions) -/
def DisjointOn (pts : List Int) (ivs : List Interval) : Prop :=
  ivs.Pairwise fun a b => ∀ p ∈ pts, ¬ (a.contains p = true ∧ b.contains p = true)

/-- no interval touches a point that already has a value -/
def CleanOn (pts : List Int) (f : Int → Option Rat) (ivs : List Interval) : Prop :=
  ∀ iv ∈ ivs, ∀ p ∈ pts, iv.contains p = true → f p = none

theorem zip_map_self {β} (pts : List Int) (f : Int → β) : pts.zip (pts.map f) = pts.map fun p => (p, f p) := by
  induction pts with
  | nil => rfl
  | cons a l ih => simp [ih]

theorem valuesToGridAux_spec (pts : List Int) : ∀ (ivs : List Interval) (f : Int → Option Rat),
    (CleanOn pts f ivs ∧ DisjointOn pts ivs →
      valuesToGridAux pts ivs (pts.map f) = .ok (pts.map fun p => match ivs.find? (·.contains p) with
        | some iv => some iv.value | none => f p)) ∧
    (¬ (CleanOn pts f ivs ∧ DisjointOn pts ivs) → valuesToGridAux pts ivs (pts.map f) = .error .overlap)
  | [], f => by
    constructor
    · intro _; simp [valuesToGridAux]
    · intro h; exact absurd ⟨(fun iv hiv => by cases hiv), List.Pairwise.nil⟩ h
  | iv :: rest, f => by
    have ih := valuesToGridAux_spec pts rest (fun p => if iv.contains p then some iv.value else f p)
    unfold valuesToGridAux
    rw [zip_map_self]
    by_cases hany : ((pts.map fun p => (p, f p)).any fun pa => iv.contains pa.1 && pa.2.isSome) = true
    · -- the interval touches a point that has a value: not clean
      rw [if_pos hany]
      constructor
      · intro ⟨hclean, _⟩
        rw [List.any_eq_true] at hany
        obtain ⟨pa, hpa, hb⟩ := hany
        rw [List.mem_map] at hpa
        obtain ⟨p, hp, rfl⟩ := hpa
        simp only [Bool.and_eq_true] at hb
        have := hclean iv (by simp) p hp hb.1
        rw [this] at hb; simp at hb
      · intro _; rfl
    · rw [if_neg hany]
      have hiv : ∀ p ∈ pts, iv.contains p = true → f p = none := by
        intro p hp hc
        cases hf : f p with
        | none => rfl
        | some v =>
          exfalso; apply hany
          rw [List.any_eq_true]
          exact ⟨(p, f p), List.mem_map.mpr ⟨p, hp, rfl⟩, by simp [hc, hf]⟩
      rw [List.map_map]
      have hfun : ((fun pa : Int × Option Rat => if iv.contains pa.1 then some iv.value else pa.2) ∘ fun p => (p, f p))
          = fun p => if iv.contains p then some iv.value else f p := rfl
      rw [hfun]
      -- relation between the conditions for `iv :: rest` and for `rest` with the updated function
      have hequiv : (CleanOn pts f (iv :: rest) ∧ DisjointOn pts (iv :: rest)) ↔
          (CleanOn pts (fun p => if iv.contains p then some iv.value else f p) rest ∧ DisjointOn pts rest) := by
        constructor
        · intro ⟨hc, hd⟩
          have hd' := List.pairwise_cons.mp hd
          refine ⟨?_, hd'.2⟩
          intro iv' hiv' p hp hcont
          have hno : ¬ (iv.contains p = true) := fun h => hd'.1 iv' hiv' p hp ⟨h, hcont⟩
          simp only [hno]
          exact hc iv' (by simp [hiv']) p hp hcont
        · intro ⟨hc, hd⟩
          constructor
          · intro iv' hiv' p hp hcont
            rcases List.mem_cons.mp hiv' with h | h
            · subst h; exact hiv p hp hcont
            · have := hc iv' h p hp hcont
              by_cases hi : iv.contains p = true
              · simp [hi] at this
              · simpa [hi] using this
          · refine List.pairwise_cons.mpr ⟨?_, hd⟩
            intro iv' hiv' p hp ⟨h1, h2⟩
            have := hc iv' hiv' p hp h2
            simp [h1] at this
      constructor
      · intro h
        have hr := hequiv.mp h
        rw [ih.1 hr]
        congr 1
        apply List.map_congr_left
        intro p hp
        by_cases hi : iv.contains p = true
        · have hnone : rest.find? (·.contains p) = none := by
            rw [List.find?_eq_none]
            intro iv' hiv' hc'
            have := hr.1 iv' hiv' p hp (by simpa using hc')
            simp [hi] at this
          simp [hi, hnone]
        · simp [hi]
      · intro h
        exact ih.2 (fun hr => h (hequiv.mpr hr))

theorem valuesToGrid_ok_iff (pts : List Int) (ivs : List Interval) :
    (∃ r, valuesToGrid pts ivs = .ok r) ↔ DisjointOn pts ivs := by
  have h := valuesToGridAux_spec pts ivs (fun _ => none)
  have hclean : CleanOn pts (fun _ => none) ivs := fun _ _ _ _ _ => rfl
  unfold valuesToGrid
  constructor
  · intro ⟨r, hr⟩
    apply Classical.byContradiction
    intro hd
    rw [h.2 (fun hh => hd hh.2)] at hr
    cases hr
  · intro hd
    exact ⟨_, h.1 ⟨hclean, hd⟩⟩

theorem valuesToGrid_ok (pts : List Int) (ivs : List Interval) (hd : DisjointOn pts ivs) :
    valuesToGrid pts ivs = .ok (pts.map (lookupIv ivs)) := by
  have h := (valuesToGridAux_spec pts ivs (fun _ => none)).1 ⟨fun _ _ _ _ _ => rfl, hd⟩
  unfold valuesToGrid
  rw [h]
  congr 1
  apply List.map_congr_left
  intro p _
  unfold lookupIv
  cases List.find? (fun x => x.contains p) ivs <;> rfl

theorem valuesToGrid_error (pts : List Int) (ivs : List Interval) (hd : ¬ DisjointOn pts ivs) :
    valuesToGrid pts ivs = .error .overlap :=
  (valuesToGridAux_spec pts ivs (fun _ => none)).2 (fun hh => hd hh.2)


/-! ### `tickRange` -/

/-- number of whole steps between start and stop -/
def tickCount (start stop : Int) (step : Nat) : Nat := ((stop - start) / (step : Int)).toNat

theorem tickRange_eq (start stop : Int) (step : Nat) (hs : 0 < step) (hle : start ≤ stop) :
    tickRange start stop step = (List.range (tickCount start stop step + 1)).map fun (k : Nat) => start + (k : Int) * (step : Int) := by
  unfold tickRange tickCount
  rw [if_neg (by omega)]

theorem tickRange_dropLast (start stop : Int) (step : Nat) (hs : 0 < step) (hle : start ≤ stop) :
    (tickRange start stop step).dropLast = (List.range (tickCount start stop step)).map fun (k : Nat) => start + (k : Int) * (step : Int) := by
  rw [tickRange_eq start stop step hs hle, ← List.map_dropLast, List.range_succ, List.dropLast_concat]

theorem tickRange_empty (start stop : Int) (step : Nat) (h : step = 0 ∨ stop < start) : tickRange start stop step = [] := by
  unfold tickRange; rw [if_pos h]

/-- `start + n·step ≤ stop < start + (n+1)·step` for `n` the number of whole steps -/
theorem tickCount_bounds (start stop : Int) (step : Nat) (hs : 0 < step) (hle : start ≤ stop) :
    start + (tickCount start stop step : Int) * step ≤ stop ∧ stop < start + ((tickCount start stop step : Int) + 1) * step := by
  unfold tickCount
  have hpos : (0 : Int) < (step : Int) := by omega
  have hnn : 0 ≤ (stop - start) / (step : Int) := Int.ediv_nonneg (by omega) (by omega)
  rw [Int.toNat_of_nonneg hnn]
  have h1 := Int.ediv_mul_le (stop - start) (b := (step : Int)) (by omega)
  have h2 := Int.lt_ediv_add_one_mul_self (stop - start) hpos
  constructor <;> omega

theorem map_tick_pairwise (start : Int) (step : Nat) (hs : 0 < step) (n : Nat) :
    ((List.range n).map fun (k : Nat) => start + (k : Int) * (step : Int)).Pairwise (· < ·) := by
  rw [List.pairwise_map]
  apply List.Pairwise.imp _ List.pairwise_lt_range
  intro a b hab
  have : (a : Int) * step < (b : Int) * step := by
    apply Int.mul_lt_mul_of_pos_right <;> omega
  omega

/-! ### `diffs`, `cumsum` -/

theorem diffs_length (u : Nat) : ∀ l : List Int, (diffs u l).length = l.length - 1
  | [] => rfl
  | [_] => rfl
  | a :: b :: rest => by simp [diffs, diffs_length u (b :: rest)]

theorem diffs_getElem? (u : Nat) : ∀ (l : List Int) (i : Nat) (h : i + 1 < l.length),
    (diffs u l)[i]? = some (mkRat (l[i+1] - l[i]) u)
  | [], i, h => by simp at h
  | [_], i, h => by simp at h
  | a :: b :: rest, 0, _ => by simp [diffs]
  | a :: b :: rest, i+1, h => by
    have := diffs_getElem? u (b :: rest) i (by simp at h ⊢; omega)
    simpa [diffs] using this

theorem cumsum_length : ∀ (xs : List Rat) (acc : Rat), (cumsum xs acc).length = xs.length
  | [], _ => rfl
  | x :: xs, acc => by simp [cumsum, cumsum_length xs]

theorem cumsum_getElem? : ∀ (xs : List Rat) (acc : Rat) (i : Nat), i < xs.length →
    (cumsum xs acc)[i]? = some (acc + (xs.take (i+1)).sum)
  | [], _, i, h => by simp at h
  | x :: xs, acc, 0, _ => by simp [cumsum, Rat.add_zero]
  | x :: xs, acc, i+1, h => by
    have := cumsum_getElem? xs (acc + x) i (by simpa using h)
    simp only [cumsum, List.getElem?_cons_succ, this, List.take_succ_cons, List.sum_cons]
    congr 1
    grind

theorem mkRat_mul_self (n : Int) (u : Nat) (hu : 0 < u) : mkRat n u * (u : Rat) = (n : Rat) := by
  rw [Rat.mkRat_eq_div]
  apply Rat.div_mul_cancel
  intro h
  have : (u : Rat) = ((0 : Nat) : Rat) := by simpa using h
  have := Rat.natCast_inj.mp this
  omega

/-- cumulated differences telescope -/
theorem cumsum_diffs_getElem? (u : Nat) : ∀ (l : List Int) (acc : Rat) (i : Nat) (h : i + 1 < l.length),
    (cumsum (diffs u l) acc)[i]? = some (acc + mkRat (l[i+1] - l[0]) u)
  | [], _, i, h => by simp at h
  | [_], _, i, h => by simp at h
  | a :: b :: rest, acc, 0, _ => by simp [diffs, cumsum]
  | a :: b :: rest, acc, i+1, h => by
    have := cumsum_diffs_getElem? u (b :: rest) (acc + mkRat (b - a) u) i (by simp at h ⊢; omega)
    simp only [diffs, cumsum, List.getElem?_cons_succ, this]
    congr 1
    simp only [List.getElem_cons_succ, List.getElem_cons_zero]
    rw [Rat.mkRat_eq_div, Rat.mkRat_eq_div, Rat.mkRat_eq_div]
    simp only [Rat.intCast_sub, Rat.div_def]
    grind



/-! ### first minor step of a coarse cell -/

theorem sel_range'_head {α} : ∀ (m : List Bool) (k : Nat) (xs : List α) (i : Nat) (is : List Nat),
    sel m (List.range' k xs.length) = i :: is → k ≤ i ∧ (sel m xs).head? = xs[i - k]?
  | [], k, xs, i, is, h => by rw [sel_nil_left] at h; cases h
  | b :: m, k, [], i, is, h => by simp [sel_nil_right] at h
  | true :: m, k, x :: xs, i, is, h => by
    simp only [List.length_cons, List.range'_succ, sel_cons_true, List.cons.injEq] at h
    obtain ⟨rfl, _⟩ := h
    simp
  | false :: m, k, x :: xs, i, is, h => by
    simp only [List.length_cons, List.range'_succ, sel_cons_false] at h
    have ih := sel_range'_head m (k+1) xs i is h
    refine ⟨by omega, ?_⟩
    simp only [sel_cons_false, ih.2]
    have : i - k = (i - (k+1)) + 1 := by omega
    rw [this, List.getElem?_cons_succ]

/-- for a reference grid with `I = 0..T-1` (top level, or re-based as in the split set-up) a coarse cell
    carries index, point and `Dt` of its FIRST minor step -/
theorem coarseCell_first (g : Grid) (a b : Int) (c : CoarseCell) (h : coarseCell g a b = .ok (some c))
    (hidx : g.idx = List.range g.pts.length) (hDt : g.Dt.length = g.pts.length) :
    c.minor.head? = some c.I ∧ (sel (g.mask a b) g.pts).head? = some c.pt ∧ (sel (g.mask a b) g.Dt).head? = some c.Dt := by
  obtain ⟨hmin, hne, _, hI, hD, hp, _⟩ := coarseCell_ok g a b c h
  cases hm : c.minor with
  | nil => exact absurd hm hne
  | cons i is =>
    have hsorted : (i :: is).Pairwise (· < ·) := by
      rw [← hm, hmin, hidx]
      exact List.pairwise_lt_range.sublist (sel_sublist _ _)
    have hIi : c.I = i := by
      rw [hI, hm]
      simp only [List.headD_cons, List.tail_cons]
      exact foldl_min_sorted is i (fun x hx => Nat.le_of_lt ((List.pairwise_cons.mp hsorted).1 x hx))
    have hsel : sel (g.mask a b) (List.range' 0 g.pts.length) = i :: is := by
      rw [← List.range_eq_range', ← hidx, ← hmin, hm]
    have h1 := (sel_range'_head (g.mask a b) 0 g.pts i is hsel).2
    have h2 := (sel_range'_head (g.mask a b) 0 g.Dt i is (by rw [hDt]; exact hsel)).2
    rw [hIi] at hD hp
    refine ⟨by simp [hIi], ?_, ?_⟩
    · rw [h1]; simpa using hp
    · rw [h2]; simpa using hD

end EAO
