import EAO.Model.ObSplit
import EAO.Model.Readout
import EAO.Lemmas.Split
import EAO.Lemmas.SplitBuild
import EAO.Lemmas.OrderBook
/-! helper lemmas for `EAO.C14O` (order books in a split optimisation): a problem and the problem without its inert
    variables; the order book on the grid of an interval -/
namespace EAO.ObSplit
open EAO EAO.Split EAO.SplitBuild

/-! ## Part 1: dropping inert variables -/

/-- the kept variables `(range n).filter p` carry everything: rows and mapping only mention them, the others have zero
    cost and a non-empty box -/
structure Keeps (P : Problem) (p : Nat → Bool) : Prop where
  l_len : P.l.length = P.n
  u_len : P.u.length = P.n
  rows : ∀ r ∈ P.rows, ∀ q ∈ r.coeffs, q.1 < P.n ∧ p q.1 = true
  mapping : ∀ m ∈ P.mapping, m.var < P.n ∧ p m.var = true
  cost : ∀ v, v < P.n → p v = false → P.c.getD v 0 = 0
  box : ∀ v, v < P.n → p v = false → P.l.getD v 0 ≤ P.u.getD v 0

def kept (P : Problem) (p : Nat → Bool) : List Nat := (List.range P.n).filter p

theorem mem_kept (P : Problem) (p : Nat → Bool) (v : Nat) : v ∈ kept P p ↔ v < P.n ∧ p v = true := by
  simp [kept, List.mem_filter]

theorem kept_nodup (P : Problem) (p : Nat → Bool) : (kept P p).Nodup :=
  List.Nodup.sublist List.filter_sublist List.nodup_range

/-- `y` (a point in the numbering of the kept variables) and `z` (a point of `P`) agree on the kept variables -/
def Agree (vs : List Nat) (y z : Vec) : Prop := ∀ v ∈ vs, y (vs.idxOf v) = z v

theorem idxOf_getElem_nodup (vs : List Nat) (h : vs.Nodup) (k : Nat) (hk : k < vs.length) : vs.idxOf vs[k] = k :=
  List.Nodup.idxOf_getElem h k hk

theorem agree_pullback (vs : List Nat) (x : Vec) : Agree vs (pullbackAlong vs x) x := by
  intro v hv
  unfold pullbackAlong
  rw [getD_idxOf_of_mem vs v hv]

theorem agree_at (vs : List Nat) (h : vs.Nodup) (y z : Vec) (hA : Agree vs y z) (k : Nat) (hk : k < vs.length) :
    y k = z vs[k] := by
  have := hA vs[k] (List.getElem_mem hk)
  rwa [idxOf_getElem_nodup vs h k hk] at this

theorem bounds_iff (vs : List Nat) (hnd : vs.Nodup) (l u : List Rat) (y z : Vec) (hA : Agree vs y z) :
    InBounds (vs.map fun i => l.getD i 0) (vs.map fun i => u.getD i 0) y ↔
      ∀ v ∈ vs, l.getD v 0 ≤ z v ∧ z v ≤ u.getD v 0 := by
  constructor
  · intro h v hv
    have hj := List.idxOf_lt_length_of_mem hv
    have := h (vs.idxOf v) (by simpa using hj)
    rw [getD_map_get vs l _ hj, getD_map_get vs u _ hj, getD_idxOf_of_mem vs v hv, hA v hv] at this
    exact this
  · intro h j hj
    have hj' : j < vs.length := by simpa using hj
    have := h vs[j] (List.getElem_mem hj')
    rw [getD_map_get vs l _ hj', getD_map_get vs u _ hj', getD_eq_getElem vs j hj', agree_at vs hnd y z hA j hj']
    exact this

theorem eval_agree (vs : List Nat) (r : Row) (hc : ∀ q ∈ r.coeffs, q.1 ∈ vs) (y z : Vec) (hA : Agree vs y z) :
    (r.rename fun v => vs.idxOf v).eval y = r.eval z := by
  unfold Row.eval Row.rename
  simp only [List.map_map, Function.comp_def]
  congr 1
  apply List.map_congr_left
  intro q hq
  rw [hA q.1 (hc q hq)]

theorem sat_agree (vs : List Nat) (r : Row) (hc : ∀ q ∈ r.coeffs, q.1 ∈ vs) (y z : Vec) (hA : Agree vs y z) :
    (r.rename fun v => vs.idxOf v).Sat y ↔ r.Sat z := by
  have e := eval_agree vs r hc y z hA
  unfold Row.Sat
  rw [e]
  rfl

theorem cost_agree (P : Problem) (p : Nat → Bool) (hK : Keeps P p) (y z : Vec) (hA : Agree (kept P p) y z) :
    costAt ((kept P p).map fun i => P.c.getD i 0) 0 y = costAt P.c 0 z := by
  rw [costAt_map_of_agree (kept P p) (fun i => P.c.getD i 0) 0 y z (fun k hk => by
    rw [Nat.zero_add]; exact agree_at _ (kept_nodup P p) y z hA k hk)]
  rw [costAt_eq_sum_range]
  unfold kept
  rw [OrderBook.sum_filter_ite]
  congr 1
  apply List.map_congr_left
  intro j hj
  have hj' : j < P.n := List.mem_range.mp hj
  simp only [Nat.zero_add]
  cases hp : p j with
  | true => simp
  | false =>
    rw [hK.cost j hj' hp]
    simp

theorem boolVars_kept (P : Problem) (p : Nat → Bool) (hK : Keeps P p) :
    (P.renameAlong (kept P p)).boolVars = P.boolVars.map fun v => (kept P p).idxOf v := by
  unfold Problem.boolVars Problem.renameAlong
  have := firstRows_rename (invPerm (kept P p)) (· ∈ kept P p)
    (fun a b ha _ h => idxOf_inj_of_mem (kept P p) a b ha h) P.mapping
    (fun m hm => (mem_kept P p _).mpr (hK.mapping m hm)) [] (by simp)
  rw [List.map_nil] at this
  simp only [this, List.filter_map, List.map_map]
  rfl

theorem boolVars_mem_kept (P : Problem) (p : Nat → Bool) (hK : Keeps P p) (v : Nat) (hv : v ∈ P.boolVars) :
    v ∈ kept P p := by
  unfold Problem.boolVars at hv
  obtain ⟨m, hm, rfl⟩ := List.mem_map.mp hv
  have hm' := mem_firstRows P.mapping [] m (List.mem_filter.mp hm).1
  exact (mem_kept P p _).mpr (hK.mapping m hm')

theorem dispatch_agree (P : Problem) (vs : List Nat) (hm : ∀ m ∈ P.mapping, m.var ∈ vs) (y z : Vec)
    (hA : Agree vs y z) (a n : String) (t : Nat) :
    dispatchOut (P.renameAlong vs).mapping a n t y = dispatchOut P.mapping a n t z := by
  unfold dispatchOut Problem.renameAlong
  simp only [List.filter_map, List.map_map]
  have e : ((fun m : MapRow => m.asset == a && isDisp n t m) ∘ MapRow.rename (invPerm vs)) =
      fun m : MapRow => m.asset == a && isDisp n t m := by
    funext m; rfl
  rw [e]
  congr 1
  apply List.map_congr_left
  intro m hm'
  have hm'' := (List.mem_filter.mp hm').1
  show y (vs.idxOf m.var) * m.factor = z m.var * m.factor
  rw [hA m.var (hm m hm'')]

/-- **the core**: for `y` and `z` that agree on the kept variables -/
theorem core (P : Problem) (p : Nat → Bool) (hK : Keeps P p) (y z : Vec) (hA : Agree (kept P p) y z) :
    ((P.renameAlong (kept P p)).FeasibleRelaxed y ↔
      (∀ v ∈ kept P p, P.l.getD v 0 ≤ z v ∧ z v ≤ P.u.getD v 0) ∧ ∀ r ∈ P.rows, r.Sat z) ∧
    (P.renameAlong (kept P p)).value y = P.value z ∧
    ((∀ j ∈ (P.renameAlong (kept P p)).boolVars, y j = 0 ∨ y j = 1) ↔ ∀ v ∈ P.boolVars, z v = 0 ∨ z v = 1) := by
  refine ⟨?_, ?_, ?_⟩
  · unfold Problem.FeasibleRelaxed
    show InBounds ((kept P p).map fun i => P.l.getD i 0) ((kept P p).map fun i => P.u.getD i 0) y ∧
      (∀ r ∈ P.rows.map (Row.rename (invPerm (kept P p))), r.Sat y) ↔ _
    rw [bounds_iff (kept P p) (kept_nodup P p) P.l P.u y z hA]
    apply and_congr Iff.rfl
    constructor
    · intro h r hr
      exact (sat_agree (kept P p) r (fun q hq => (mem_kept P p _).mpr (hK.rows r hr q hq)) y z hA).mp
        (h _ (List.mem_map.mpr ⟨r, hr, rfl⟩))
    · intro h r hr
      obtain ⟨r', hr', rfl⟩ := List.mem_map.mp hr
      exact (sat_agree (kept P p) r' (fun q hq => (mem_kept P p _).mpr (hK.rows r' hr' q hq)) y z hA).mpr (h r' hr')
  · unfold Problem.value
    show - costAt ((kept P p).map fun i => P.c.getD i 0) 0 y = _
    rw [cost_agree P p hK y z hA]
  · rw [boolVars_kept P p hK]
    constructor
    · intro h v hv
      have := h _ (List.mem_map.mpr ⟨v, hv, rfl⟩)
      rwa [hA v (boolVars_mem_kept P p hK v hv)] at this
    · intro h j hj
      obtain ⟨v, hv, rfl⟩ := List.mem_map.mp hj
      rw [hA v (boolVars_mem_kept P p hK v hv)]
      exact h v hv

theorem relaxed_iff (P : Problem) (z : Vec) :
    P.FeasibleRelaxed z ↔ (∀ v, v < P.l.length → P.l.getD v 0 ≤ z v ∧ z v ≤ P.u.getD v 0) ∧ ∀ r ∈ P.rows, r.Sat z :=
  Iff.rfl

/-- the extension of a point in the numbering of the kept variables: the others at their lower bound -/
def extendP (P : Problem) (p : Nat → Bool) (y : Vec) : Vec :=
  fun v => if (kept P p).contains v then y ((kept P p).idxOf v) else P.l.getD v 0

theorem agree_extend (P : Problem) (p : Nat → Bool) (y : Vec) : Agree (kept P p) y (extendP P p y) := by
  intro v hv
  unfold extendP
  rw [if_pos (List.contains_iff_mem.mpr hv)]

/-- forgetting the other entries keeps feasibility, value, boolean conditions -/
theorem drop_feasible (P : Problem) (p : Nat → Bool) (hK : Keeps P p) (x : Vec) :
    (P.FeasibleRelaxed x → (P.renameAlong (kept P p)).FeasibleRelaxed (pullbackAlong (kept P p) x)) ∧
    (P.Feasible x → (P.renameAlong (kept P p)).Feasible (pullbackAlong (kept P p) x)) ∧
    (P.renameAlong (kept P p)).value (pullbackAlong (kept P p) x) = P.value x := by
  obtain ⟨h1, h2, h3⟩ := core P p hK _ x (agree_pullback (kept P p) x)
  have hr : P.FeasibleRelaxed x → (P.renameAlong (kept P p)).FeasibleRelaxed (pullbackAlong (kept P p) x) := by
    intro hx
    refine h1.mpr ⟨fun v hv => hx.1 v ?_, hx.2⟩
    rw [hK.l_len]; exact ((mem_kept P p v).mp hv).1
  exact ⟨hr, fun hx => ⟨hr hx.1, h3.mpr hx.2⟩, h2⟩

/-- extending by the lower bounds keeps feasibility, value, boolean conditions -/
theorem extend_feasible (P : Problem) (p : Nat → Bool) (hK : Keeps P p) (y : Vec) :
    ((P.renameAlong (kept P p)).FeasibleRelaxed y → P.FeasibleRelaxed (extendP P p y)) ∧
    ((P.renameAlong (kept P p)).Feasible y → P.Feasible (extendP P p y)) ∧
    P.value (extendP P p y) = (P.renameAlong (kept P p)).value y := by
  obtain ⟨h1, h2, h3⟩ := core P p hK y _ (agree_extend P p y)
  have hr : (P.renameAlong (kept P p)).FeasibleRelaxed y → P.FeasibleRelaxed (extendP P p y) := by
    intro hy
    obtain ⟨hb, hrows⟩ := h1.mp hy
    refine ⟨fun v hv => ?_, hrows⟩
    by_cases hk : v ∈ kept P p
    · exact hb v hk
    · have hv' : v < P.n := by rw [← hK.l_len]; exact hv
      have hp : p v = false := by
        cases hp : p v with
        | false => rfl
        | true => exact absurd ((mem_kept P p v).mpr ⟨hv', hp⟩) hk
      have e : extendP P p y v = P.l.getD v 0 := by
        unfold extendP
        rw [if_neg (by rw [List.contains_iff_mem]; exact hk)]
      rw [e]
      exact ⟨Rat.le_refl, hK.box v hv' hp⟩
  exact ⟨hr, fun hy => ⟨hr hy.1, h3.mp hy.2⟩, h2.symm⟩

/-- the live variables of a well-formed problem carry everything -/
theorem keeps_live (P : Problem) (hw : P.wfIdx = true) : Keeps P (fun v => !P.inertVar v) := by
  have hW := wfIdx_spec P hw
  refine ⟨hW.l, hW.u, ?_, ?_, ?_, ?_⟩
  · intro r hr q hq
    refine ⟨hW.rows r hr q hq, ?_⟩
    have : (P.rows.any fun r => r.coeffs.any fun q' => q'.1 == q.1) = true :=
      List.any_eq_true.mpr ⟨r, hr, List.any_eq_true.mpr ⟨q, hq, by simp⟩⟩
    simp [Problem.inertVar, this]
  · intro m hm
    refine ⟨hW.mapping m hm, ?_⟩
    have : (P.mapping.any fun m' => m'.var == m.var) = true := List.any_eq_true.mpr ⟨m, hm, by simp⟩
    simp [Problem.inertVar, this]
  · intro v _ hp
    simp only [Problem.inertVar, Bool.not_eq_false', Bool.and_eq_true, decide_eq_true_eq] at hp
    exact hp.1.1.1
  · intro v _ hp
    simp only [Problem.inertVar, Bool.not_eq_false', Bool.and_eq_true, decide_eq_true_eq] at hp
    exact hp.1.1.2

theorem live_eq (P : Problem) : P.live = kept P (fun v => !P.inertVar v) := rfl

theorem extendInert_eq (P : Problem) (y : Vec) : extendInert P y = extendP P (fun v => !P.inertVar v) y := rfl

/-! ## Part 2: the order book on the grid of an interval -/

theorem coverPos_eq_coveredPos (g : Grid) (o : Order) : coverPos g o = coveredPos g o.start o.stop := rfl

/-- the covered positions of the picked grid, as positions of the asset grid: the covered positions whose step is in `I` -/
theorem coverPos_pick (g : Grid) (I : List Nat) (hg : g.Ok) (o : Order) :
    (coverPos (g.pick I) o).map (fun j => (pos g.idx I).getD j 0) =
      (coverPos g o).filter fun i => I.contains (g.idx.getD i 0) := by
  rw [coverPos_eq_coveredPos, coverPos_eq_coveredPos]
  exact coveredPos_pick g I hg o.start o.stop

theorem pick_df (g : Grid) (I : List Nat) (hg : g.Ok) :
    (g.pick I).df = (pos g.idx I).map fun i => g.df.getD i 0 :=
  (pos_map_getD g.idx I g.df 0 (by rw [hg.2.2, hg.1])).symm

theorem coverPos_pick_lt (g : Grid) (I : List Nat) (hg : g.Ok) (o : Order) (j : Nat) (hj : j ∈ coverPos (g.pick I) o) :
    j < (pos g.idx I).length := by
  have := (OrderBook.mem_coverPos (g.pick I) o j hj).1
  rwa [pick_T g I hg] at this

/-- weight of an order in the interval: the part of its weight that lies at steps of `I` -/
theorem coverWeight_pick (g : Grid) (I : List Nat) (hg : g.Ok) (o : Order) :
    coverWeight (g.pick I) o =
      (((coverPos g o).filter fun i => I.contains (g.idx.getD i 0)).map fun i => g.dt.getD i 0 * g.df.getD i 0).sum := by
  rw [← coverPos_pick g I hg o, List.map_map]
  unfold coverWeight
  congr 1
  apply List.map_congr_left
  intro j hj
  have hj' := coverPos_pick_lt g I hg o j hj
  simp only [Function.comp_def]
  rw [pick_dt g I hg, pick_df g I hg, getD_map_lt _ _ j 0 0 hj', getD_map_lt _ _ j 0 0 hj']

theorem orderInside_spec (g : Grid) (I : List Nat) (o : Order) (h : orderInside g I o = true) :
    (∀ i ∈ coverPos g o, g.idx.getD i 0 ∈ I) ∨ (∀ i ∈ coverPos g o, g.idx.getD i 0 ∉ I) := by
  unfold orderInside at h
  simp only [Bool.or_eq_true, List.all_eq_true, List.mem_map, forall_exists_index, and_imp,
    forall_apply_eq_imp_iff₂, List.contains_iff_mem, Bool.not_eq_true', ← Bool.not_eq_true] at h
  exact h

theorem filter_eq_nil_of (l : List Nat) (p : Nat → Bool) (h : ∀ i ∈ l, p i = false) : l.filter p = [] := by
  rw [List.filter_eq_nil_iff]
  intro i hi
  rw [h i hi]; simp

/-- an order with a covered step in `I` that does not reach across the cut weighs in the interval what it weighs unsplit -/
theorem coverWeight_inside (g : Grid) (I : List Nat) (hg : g.Ok) (o : Order) (hin : orderInside g I o = true)
    (hk : ∃ i ∈ coverPos g o, g.idx.getD i 0 ∈ I) : coverWeight (g.pick I) o = coverWeight g o := by
  rw [coverWeight_pick g I hg o]
  rcases orderInside_spec g I o hin with h | h
  · rw [List.filter_eq_self.mpr (fun i hi => List.contains_iff_mem.mpr (h i hi))]
    rfl
  · obtain ⟨i, hi, hI⟩ := hk
    exact absurd hI (h i hi)

/-- an order without a covered step in `I` covers nothing of the interval grid -/
theorem coverPos_pick_nil (g : Grid) (I : List Nat) (hg : g.Ok) (o : Order)
    (hk : ∀ i ∈ coverPos g o, g.idx.getD i 0 ∉ I) : coverPos (g.pick I) o = [] := by
  have := coverPos_pick g I hg o
  rw [filter_eq_nil_of _ _ (fun i hi => by
    have := hk i hi
    simpa using this)] at this
  exact List.map_eq_nil_iff.mp this

/-- the mapping rows of ONE order in the interval: those of the unsplit order book at the steps of `I`, steps re-based -/
theorem orderMapRows_pick (name node : String) (fe : Bool) (g : Grid) (I : List Nat) (hg : g.Ok) (τ : Nat → Nat)
    (k : Nat) (o : Order) :
    (orderMapRows name node fe (g.pick I) k o).map (MapRow.rename τ) =
      ((orderMapRows name node fe g k o).filter fun m => I.contains m.step).map fun m =>
        { m with var := τ m.var, step := I.idxOf m.step } := by
  unfold orderMapRows
  rw [List.filter_map, List.map_map, List.map_map]
  have e : ((fun m : MapRow => I.contains m.step) ∘ orderRow name node fe g k o) =
      fun i => I.contains (g.idx.getD i 0) := by
    funext i; rfl
  rw [e, ← coverPos_pick g I hg o, List.map_map]
  apply List.map_congr_left
  intro j hj
  have hj' := coverPos_pick_lt g I hg o j hj
  simp only [Function.comp_def, orderRow, MapRow.rename]
  rw [pick_dt g I hg, pick_idx g I, getD_map_lt _ _ j 0 0 hj', getD_map_lt _ _ j 0 0 hj']

theorem orderMapFrom_pick (name node : String) (fe : Bool) (g : Grid) (I : List Nat) (hg : g.Ok) (τ : Nat → Nat)
    (os : List Order) : ∀ k : Nat,
    (orderMapFrom name node fe (g.pick I) k os).map (MapRow.rename τ) =
      ((orderMapFrom name node fe g k os).filter fun m => I.contains m.step).map fun m =>
        { m with var := τ m.var, step := I.idxOf m.step } := by
  induction os with
  | nil => intro k; rfl
  | cons o os ih =>
    intro k
    simp only [orderMapFrom, List.map_append, List.filter_append]
    rw [orderMapRows_pick name node fe g I hg τ k o, ih (k + 1)]

/-- which orders are kept in the interval: those covering a step of it -/
theorem mem_keep_orderBook (name node : String) (orders : List Order) (fe : Bool) (g : Grid) (I : List Nat) (k : Nat) :
    k ∈ (orderBookProblem name node orders fe g).keep I ↔
      ∃ o, orders[k]? = some o ∧ ∃ i ∈ coverPos g o, g.idx.getD i 0 ∈ I := by
  rw [mem_keep]
  constructor
  · rintro ⟨_, m, hm, hv, hs⟩
    obtain ⟨j, o, i, hj, hi, rfl⟩ := OrderBook.mem_orderMapFrom name node fe g orders 0 m hm
    simp only [orderRow, Nat.zero_add] at hv hs
    subst hv
    exact ⟨o, hj, i, hi, hs⟩
  · rintro ⟨o, ho, i, hi, hI⟩
    have hk : k < orders.length := by
      rcases Nat.lt_or_ge k orders.length with h | h
      · exact h
      · rw [List.getElem?_eq_none h] at ho; cases ho
    refine ⟨by simpa [orderBookProblem, AssetProblem.n] using hk,
      orderRow name node fe g (0 + k) o i, OrderBook.orderRow_mem_orderMapFrom name node fe g orders 0 k o i ho hi, ?_, ?_⟩
    · simp [orderRow]
    · simpa [orderRow] using hI

theorem orderBook_c_getD (name node : String) (orders : List Order) (fe : Bool) (g : Grid) (k : Nat) (o : Order)
    (ho : orders[k]? = some o) : (orderBookProblem name node orders fe g).c.getD k 0 = orderCost g o := by
  simp [orderBookProblem, List.getD_eq_getElem?_getD, ho]

/-- **the order book of an interval, on the kept orders, is the restriction of the unsplit order book** -/
theorem orderBook_pick (name node : String) (orders : List Order) (fe : Bool) (g : Grid) (I : List Nat) (hg : g.Ok)
    (hin : ∀ o ∈ orders, orderInside g I o = true) :
    (orderBookProblem name node orders fe (g.pick I)).subVars ((orderBookProblem name node orders fe g).keep I) =
      (orderBookProblem name node orders fe g).restrictTo I := by
  have hc : ∀ v ∈ (orderBookProblem name node orders fe g).keep I,
      (orderBookProblem name node orders fe (g.pick I)).c.getD v 0 =
        (orderBookProblem name node orders fe g).c.getD v 0 := by
    intro v hv
    obtain ⟨o, ho, hk⟩ := (mem_keep_orderBook name node orders fe g I v).mp hv
    rw [orderBook_c_getD name node orders fe _ v o ho, orderBook_c_getD name node orders fe _ v o ho]
    unfold orderCost
    rw [coverWeight_inside g I hg o (hin o (List.mem_of_getElem? ho)) hk]
  unfold AssetProblem.subVars AssetProblem.restrictTo
  congr 1
  · exact List.map_congr_left hc
  · exact orderMapFrom_pick name node fe g I hg _ orders 0

/-- the other orders are inert variables of the interval's order book -/
theorem orderBook_pick_inert (name node : String) (orders : List Order) (fe : Bool) (g : Grid) (I : List Nat) (hg : g.Ok)
    (k : Nat) (hk : k < orders.length) (hn : k ∉ (orderBookProblem name node orders fe g).keep I) :
    (orderBookProblem name node orders fe (g.pick I)).c.getD k 0 = 0 ∧
    (∀ m ∈ (orderBookProblem name node orders fe (g.pick I)).mapping, m.var ≠ k) := by
  have ho : orders[k]? = some orders[k] := List.getElem?_eq_getElem hk
  have hnil : coverPos (g.pick I) orders[k] = [] := by
    apply coverPos_pick_nil g I hg
    intro i hi hI
    exact hn ((mem_keep_orderBook name node orders fe g I k).mpr ⟨_, ho, i, hi, hI⟩)
  refine ⟨?_, ?_⟩
  · rw [orderBook_c_getD name node orders fe _ k _ ho]
    exact OrderBook.orderCost_of_cover_nil (g.pick I) _ hnil
  · intro m hm
    have := OrderBook.no_row_of_cover_nil name node fe (g.pick I) orders 0 k _ ho hnil m hm
    simpa using this

end EAO.ObSplit
