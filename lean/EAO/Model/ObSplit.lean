import EAO.Model.Basic
import EAO.Model.Assemble
import EAO.Model.Grid
import EAO.Model.Contract
import EAO.Model.OrderBook
import EAO.Model.Split
import EAO.Model.SplitBuild
/-!
# EAO.Model.ObSplit — order books in `Portfolio.setup_split_optim_problem`

An `OrderBook` has no window and builds ONE variable per order on whatever grid it is given
(`OrderBook.setup_optim_problem`, assets.py 2789 ff.): in an interval of the split set-up every order is present,
the orders without a step in the interval as variables with cost `capa · 0 · price = 0`, bounds `[0, 1]`, no mapping
row and no restriction row ("inert" variables).  The block sum of the interval problems therefore has MORE variables
than the unsplit problem and no permutation matches them.

This file has
* the portfolios with order books (`OSpec`, `setupPortfolioOB`, `setupSplitOB`: the loop of `EAO.Model.SplitBuild` with
  one more asset class; the order book takes the asset's discount factors on the grid it is given, as every asset);
* what "inert" means for a finished problem (`Problem.inertVar`), the problem without its inert variables
  (`Problem.dropInert` = the problem renamed along its live variables) and the two maps between the points
  (`pullbackAlong P.live`, `extendInert P`);
* the witness MODULO INERT VARIABLES (`splitWitnessModInert`);
* the same for an asset problem and a list of kept variables (`AssetProblem.subVars`), and the decidable hypothesis
  "the order does not reach across the cut" (`orderInside`).
-/
namespace EAO

/-! ### inert variables of a finished problem -/

/-- variable `v` has zero cost, a non-empty box, no mapping row and occurs in no restriction row -/
def Problem.inertVar (P : Problem) (v : Nat) : Bool :=
  decide (P.c.getD v 0 = 0) && decide (P.l.getD v 0 ≤ P.u.getD v 0) &&
  !(P.mapping.any fun m => m.var == v) && !(P.rows.any fun r => r.coeffs.any fun q => q.1 == v)

/-- the variables that are not inert, in the problem's order -/
def Problem.live (P : Problem) : List Nat := (List.range P.n).filter fun v => !P.inertVar v

/-- **the problem without its inert variables**: cost and bounds of the live variables, rows and mapping renamed
    (variable `j` of the result is variable `live[j]` of `P`) -/
def Problem.dropInert (P : Problem) : Problem := P.renameAlong P.live

/-- a point of `P.dropInert` as a point of `P`: the inert variables sit at their lower bound -/
def extendInert (P : Problem) (y : Vec) : Vec :=
  fun v => if P.live.contains v then y (P.live.idxOf v) else P.l.getD v 0

/-- **the witness modulo inert variables**: the unsplit problem without its inert variables IS the block sum of the
    interval problems without theirs -/
def splitWitnessModInert (U : Problem) (ps : List Problem) (perm : List Nat) : Bool :=
  U.wfIdx && ps.all Problem.wfIdx && splitWitness U.dropInert (ps.map Problem.dropInert) perm

/-! ### the same for an asset problem and a list of kept variables -/

/-- the asset problem on the variables `vs` (cost, bounds picked; rows and mapping renamed by the position in `vs`) -/
def AssetProblem.subVars (a : AssetProblem) (vs : List Nat) : AssetProblem :=
  { name := a.name, nodes := a.nodes,
    c := vs.map fun v => a.c.getD v 0,
    l := vs.map fun v => a.l.getD v 0,
    u := vs.map fun v => a.u.getD v 0,
    rows := a.rows.map (Row.rename fun v => vs.idxOf v),
    mapping := a.mapping.map (MapRow.rename fun v => vs.idxOf v) }

/-- the order does not reach across the cut: the steps of the grid `g` it covers lie all inside or all outside `I` -/
def orderInside (g : Grid) (I : List Nat) (o : Order) : Bool :=
  let cov := (coverPos g o).map fun i => g.idx.getD i 0
  cov.all (fun t => I.contains t) || cov.all (fun t => !I.contains t)

/-! ### portfolios with order books -/

inductive OSpec
  | asset (a : AssetSpec)
  | book (name node : String) (orders : List Order) (fullExec : Bool) (df : List Rat)
  deriving Repr, Inhabited

/-- `asset.setup_optim_problem(prices, timegrid)`; the order book has no window: its restricted grid is the grid
    (with the asset's discount factors) -/
def buildOSpec (s : OSpec) (grid : Grid) (prices : Prices) (unitSec : Nat) : Except BuildError AssetProblem :=
  match s with
  | .asset a => buildSpec a grid prices unitSec
  | .book name node orders fe df => buildOrderBook name node orders fe { grid with df := df }

def OSpec.onInterval (s : OSpec) (ref : Grid) (ab : Int × Int) : OSpec :=
  match s with
  | .asset a => .asset (a.onInterval ref ab)
  | .book name node orders fe df => .book name node orders fe (sel (ref.mask ab.1 ab.2) df)

def setupPortfolioOB (specs : List OSpec) (grid : Grid) (prices : Prices) (unitSec : Nat) (skip : List String) :
    Except BuildError Problem := do
  let as ← specs.mapM fun s => buildOSpec s grid prices unitSec
  pure (assemble as grid.idx skip)

/-- one pass of the loop of `setup_split_optim_problem` (`none`: the interval is skipped) -/
def setupIntervalOB (specs : List OSpec) (ref : Grid) (prices : Prices) (unitSec : Nat) (skip : List String)
    (ab : Int × Int) : Except BuildError (Option Problem) :=
  let J := ref.interval ab.1 ab.2
  if J.T = 0 then pure none else do
    let P ← setupPortfolioOB (specs.map fun s => s.onInterval ref ab) J (intervalPrices ref ab prices) unitSec skip
    if P.n = 0 then pure none else pure (some (relabelNodal (intervalSteps ref ab) P))

/-- `Portfolio.setup_split_optim_problem` for portfolios with order books -/
def setupSplitOB (specs : List OSpec) (ref : Grid) (cuts : List Int) (prices : Prices) (unitSec : Nat)
    (skip : List String) : Except BuildError (List Problem) := do
  if prices.any (fun kv => kv.2.length != ref.T) then throw .lengthMismatch
  let ps ← (splitPairs cuts).mapM (setupIntervalOB specs ref prices unitSec skip)
  if (ps.filterMap id).isEmpty then throw .illPosed
  pure (ps.filterMap id)

/-- the matching of the LIVE variables: interval after interval the live variables of the unsplit problem at the
    interval's steps, numbered among the live variables of the unsplit problem -/
def splitPermLive (U : Problem) (Is : List (List Nat)) : List Nat := splitPerm U.dropInert Is

/-- decidable hypotheses about the order books of a portfolio: every order of every book lies inside ONE interval -/
def ordersInsideAll (specs : List OSpec) (ref : Grid) (cuts : List Int) : Bool :=
  let Is := (splitPairs cuts).map (intervalSteps ref)
  specs.all fun s => match s with
    | .asset _ => true
    | .book _ _ orders _ _ => orders.all fun o => Is.all fun I => orderInside ref I o

end EAO
