import EAO.Model.Basic
import EAO.Model.Grid
/-!
# EAO.Model.Periodic — periodicity and coarse asset frequency

Literal models of

* `OptimProblem.__make_periodic__` (`eaopack/optimization.py`):
  part (1), the counters `(dur, per, sub_per)` per grid step (`stepLabels`; the boundary instants that
  `pd.date_range` returns are an input, `dropEarly`/`equalSpacing` model the two lines in front of the loop),
  part (2), the merge of variables (`makePeriodic`);
* `Asset.__extend_mapping_to_minor_grid__` (`eaopack/assets.py`): `extendMinor`.

Conventions: a `NaN` in pandas is `none`; `NaN == NaN` is false (`nanEq`).  The mapping index (variable
label) is `MapRow.var`; a missing `disp_factor` is 1.
-/
namespace EAO

/-! ## part (1) of `__make_periodic__`: labels per grid step -/

/-- `if periods[1] <= tp[0]: periods = periods.drop(periods[0])` -/
def dropEarly (b : List Int) (tp0 : Int) : List Int :=
  match b with
  | _ :: b1 :: rest => if b1 ≤ tp0 then b1 :: rest else b
  | _ => b

/-- `d = periods[1:] - periods[0:-1]; all(d == d[0])` -/
def equalSpacing (b : List Int) : Bool :=
  match b with
  | b0 :: b1 :: rest => ((b1 :: rest).zip (b0 :: b1 :: rest)).all fun p => p.1 - p.2 == b1 - b0
  | _ => true

/-- the loop `for i in range(0,T)`: at most one duration boundary and one period boundary is passed per
    step; `dur`/`per` are the counters after the step (what `ffill` leaves), `sub_per` counts the steps
    since the last period boundary.  A boundary index beyond the list (an `IndexError` in the code; it
    cannot occur for `date_range` boundaries, whose last instant lies after the last grid point) is read
    as "not reached". -/
def stepLabelsAux (periods durations : List Int) : List Int → Nat → Nat → Nat → List (Nat × Nat × Nat)
  | [], _, _, _ => []
  | t :: ts, iDur, iPer, iSub =>
    let iDur' := match durations[iDur]? with
      | some b => if b ≤ t then iDur + 1 else iDur
      | none => iDur
    let ps : Nat × Nat := match periods[iPer]? with
      | some b => if b ≤ t then (iPer + 1, 0) else (iPer, iSub)
      | none => (iPer, iSub)
    (iDur', ps.1, ps.2) :: stepLabelsAux periods durations ts iDur' ps.1 (ps.2 + 1)

/-- `(dur, per, sub_per)` for every grid step (`pts` = `timegrid.timepoints`) -/
def stepLabels (pts : List Int) (periods durations : List Int) : List (Nat × Nat × Nat) :=
  stepLabelsAux periods durations pts 0 0 0

/-- `durations` when `freq_duration is None`: `[tp[0], timegrid.end + (timegrid.end - tp[0])]` — the second
    entry lies after the first point also on a grid with a single step (the former `tp[-1] + (tp[-1] - tp[0])`
    did not: repaired finding F-13l) -/
def wholeDuration (pts : List Int) (gridEnd : Int) : List Int :=
  match pts.head? with
  | some a => [a, gridEnd + (gridEnd - a)]
  | none => []

/-! ## part (2): merging variables -/

inductive PeriodicError
  | assertion   -- 'periodicity cannot be imposed where disp factors are not identical'
  | index       -- a mapping label outside `0 … len(l)-1` (IndexError)
  | chain       -- no exception in the code: a group leader was merged out later, the rows of its former
                -- followers get the label `-1` (not representable in `MapRow.var`)
  deriving Repr, DecidableEq, Inhabited

def PeriodicError.toString : PeriodicError → String
  | .assertion => "assert" | .index => "index" | .chain => "chain"

/-- pandas `==` on a column that may hold NaN -/
def nanEq {α} [BEq α] (a b : Option α) : Bool :=
  match a, b with
  | some x, some y => x == y
  | _, _ => false

/-- `dur` / `sub_per` of a mapping row after the left merge on `time_step` (NaN when the step is unknown) -/
def durOf (labels : List (Nat × Nat × Nat)) (m : MapRow) : Option Nat := (labels[m.step]?).map (·.1)
def subOf (labels : List (Nat × Nat × Nat)) (m : MapRow) : Option Nat := (labels[m.step]?).map (·.2.2)

structure GroupKey where
  asset   : String
  node    : Option String
  kind    : VarKind
  varName : String
  dur     : Option Nat
  sub     : Option Nat
  deriving Repr, DecidableEq, Inhabited

/-- the mask `I` of the four outer loops -/
def baseMask (a : String) (n : Option String) (k : VarKind) (v : String) (m : MapRow) : Bool :=
  m.asset == a && nanEq m.node n && m.varName == v && m.kind == k

/-- the mask `II` -/
def inGroup (labels : List (Nat × Nat × Nat)) (k : GroupKey) (m : MapRow) : Bool :=
  baseMask k.asset k.node k.kind k.varName m && nanEq (durOf labels m) k.dur && nanEq (subOf labels m) k.sub

/-- all loop iterations in order: unique asset / node / type / var_name / dur / sub_per, each in order of
    first appearance (`Series.unique()`; a NaN is one of the values, and never matches) -/
def groupKeys (M : List MapRow) (labels : List (Nat × Nat × Nat)) : List GroupKey :=
  (M.map (·.asset)).eraseDups.flatMap fun a =>
  (M.map (·.node)).eraseDups.flatMap fun n =>
  (M.map (·.kind)).eraseDups.flatMap fun k =>
  (M.map (·.varName)).eraseDups.flatMap fun v =>
    let I := M.filter (baseMask a n k v)
    (I.map (durOf labels)).eraseDups.flatMap fun d =>
      ((I.filter fun m => nanEq (durOf labels m) d).map (subOf labels)).eraseDups.map fun s =>
        { asset := a, node := n, kind := k, varName := v, dur := d, sub := s }

structure MergeState where
  l      : List Rat
  u      : List Rat
  c      : List Rat
  rows   : List Row
  out    : List Nat      -- `all_out`
  newIdx : List Nat      -- column `new_idx`, parallel to the mapping
  leadOf : List Nat      -- per variable: the variable it was merged into (itself while it remains)
  err    : Option PeriodicError   -- the first exception raised inside the loop
  deriving Repr, Inhabited

/-- `A[:,leading] += A[:,out].sum(axis = 1)` on a sparse row: the entries of the `out` columns are added
    (again) under the leader's index; the `out` columns themselves stay until the final deletion -/
def addColumns (lead : Nat) (outs : List Nat) (r : Row) : Row :=
  { r with coeffs := r.coeffs ++ (r.coeffs.filter fun p => outs.contains p.1).map fun p => (lead, p.2) }

/-- variables to be joined: `mapping.index[II].unique()` without those merged out already -/
def groupVars (M : List MapRow) (labels : List (Nat × Nat × Nat)) (out : List Nat) (k : GroupKey) : List Nat :=
  (((M.filter (inGroup labels k)).map (·.var)).eraseDups).filter fun v => !out.contains v

def sameFactors (II : List MapRow) : Bool :=
  match II with
  | [] => true
  | m0 :: _ => II.all fun m => m.factor == m0.factor

/-- body of the innermost loop.  `self.l[vars]` raises `IndexError` for a label beyond the variables; the
    assertion on equal `disp_factor`s of ALL rows of the group comes after the update.  After the first
    exception nothing else happens. -/
def mergeStep (M : List MapRow) (labels : List (Nat × Nat × Nat)) (st : MergeState) (k : GroupKey) : MergeState :=
  if st.err.isSome then st else
  let vars := groupVars M labels st.out k
  match vars with
  | lead :: o :: os =>
    if vars.any (fun v => decide (st.l.length ≤ v)) then { st with err := some .index } else
    let outs := o :: os
    let sumOf (xs : List Rat) : Rat := (vars.map fun v => xs.getD v 0).sum
    let mean (xs : List Rat) : Rat := sumOf xs / (vars.length : Rat)
    { l := st.l.set lead (mean st.l)
      u := st.u.set lead (mean st.u)
      c := st.c.set lead (sumOf st.c)
      rows := st.rows.map (addColumns lead outs)
      out := st.out ++ outs
      newIdx := (M.zip st.newIdx).map fun q => if outs.contains q.1.var then lead else q.2
      leadOf := (List.range st.leadOf.length).map fun j => if outs.contains j then lead else st.leadOf.getD j j
      err := if sameFactors (M.filter (inGroup labels k)) then none else some .assertion }
  | _ => st

def mergeAll (P : AssetProblem) (labels : List (Nat × Nat × Nat)) : MergeState :=
  (groupKeys P.mapping labels).foldl (mergeStep P.mapping labels)
    { l := P.l, u := P.u, c := P.c, rows := P.rows, out := [], newIdx := P.mapping.map (·.var),
      leadOf := List.range P.l.length, err := none }

/-- `my_idx`: the remaining variables -/
def keepVars (n : Nat) (out : List Nat) : List Nat := (List.range n).filter fun j => !out.contains j

/-- `new_pos[j]` (`none` = −1) -/
def newPos (keep : List Nat) (j : Nat) : Option Nat := keep.idxOf? j

def relabelRows (keep : List Nat) : List (MapRow × Nat) → Except PeriodicError (List MapRow)
  | [] => .ok []
  | (m, i) :: rest =>
    match newPos keep i with
    | none => .error .chain
    | some p =>
      match relabelRows keep rest with
      | .error e => .error e
      | .ok ms => .ok ({ m with var := p } :: ms)

/-- `A[:, my_idx]`: deleted columns vanish, the others are renumbered -/
def compactRow (keep : List Nat) (r : Row) : Row :=
  { r with coeffs := r.coeffs.filterMap fun p => (newPos keep p.1).map fun q => (q, p.2) }

/-- `__make_periodic__`, part (2) and the final compaction.  A label `≥ len(l)` that went unnoticed in the
    loop raises `IndexError` in `new_pos[...]`. -/
def makePeriodic (P : AssetProblem) (labels : List (Nat × Nat × Nat)) : Except PeriodicError AssetProblem :=
  let n := P.l.length
  let st := mergeAll P labels
  match st.err with
  | some e => .error e
  | none =>
  if P.mapping.any (fun m => decide (n ≤ m.var)) then .error .index else
  let keep := keepVars n st.out
  match relabelRows keep (P.mapping.zip st.newIdx) with
  | .error e => .error e
  | .ok M' =>
    .ok { P with
          l := keep.map fun j => st.l.getD j 0
          u := keep.map fun j => st.u.getD j 0
          c := keep.map fun j => st.c.getD j 0
          rows := st.rows.map (compactRow keep)
          mapping := M' }

/-! ## coarse asset frequency: `__extend_mapping_to_minor_grid__` -/

/-- inner loop `for my_t in I` for one mapping row: one copy of the row per minor step, with that step and
    the factor `weight · disp_factor` of the ORIGINAL row, `weight = dt_fine/dt_coarse`.  A mapping without a
    `disp_factor` column gets the weight itself — the same value, since a missing factor is 1. -/
def extendSteps (dtFine : List Rat) (dtCoarse : Rat) (r : MapRow) (I : List Nat) : List MapRow :=
  I.map fun t => { r with step := t, factor := dtFine.getD t 0 / dtCoarse * r.factor }

/-- position of the coarse step of a row: `np.where(restricted.I == r['time_step'])[0][0]` -/
def majorOf (cg : CoarseGrid) (r : MapRow) : Option Nat := cg.grid.idx.idxOf? r.step

def extendRow (cg : CoarseGrid) (dtFine : List Rat) (r : MapRow) : List MapRow :=
  match majorOf cg r with
  | none => []
  | some i => extendSteps dtFine (cg.grid.dt.getD i 0) r (cg.minor.getD i [])

/-- all look-ups of the loop are defined (an empty mapping - the asset is not active in the horizon - has no
    look-up and is returned as it is: `if len(mymap) == 0: return mymap`) -/
def extendOK (M : List MapRow) (cg : CoarseGrid) (dtFine : List Rat) : Bool :=
  M.all fun r =>
    match majorOf cg r with
    | none => false
    | some i => decide (i < cg.minor.length) && decide (i < cg.grid.dt.length) &&
                (cg.minor.getD i []).all fun t => decide (t < dtFine.length)

inductive ExtendError | index
  deriving Repr, DecidableEq, Inhabited

/-- one output row per mapping row and minor step, in the order of the two loops.  `IndexError`/`KeyError`
    (a step that is not a coarse step, a minor index outside the fine grid) are one error class.  An empty
    mapping gives the empty mapping (it used to fail at the final `mapping['time_step']`). -/
def extendMinor (M : List MapRow) (cg : CoarseGrid) (dtFine : List Rat) : Except ExtendError (List MapRow) :=
  if extendOK M cg dtFine then .ok (M.flatMap (extendRow cg dtFine)) else .error .index

/-! ## generic merge of columns (specification level; the subject of `C13.merge_columns`)

`lead` sends every variable to its group leader.  Costs are summed into the leader, columns renamed by
`lead`, then the leaders are compacted onto positions `0 … k-1` in increasing order. -/

def isLeader (lead : Nat → Nat) (j : Nat) : Bool := lead j == j

/-- the leaders among `0 … n-1`, increasing -/
def keepOf (lead : Nat → Nat) (n : Nat) : List Nat := (List.range n).filter (isLeader lead)

/-- variable ↦ position of its leader among the leaders -/
def sigmaOf (lead : Nat → Nat) (n : Nat) (j : Nat) : Nat := (keepOf lead n).idxOf (lead j)

def addAt (v : List Rat) (j : Nat) (a : Rat) : List Rat := v.set j (v.getD j 0 + a)

/-- `acc[lead i] += c_i` for the entries of `c`, numbered from `i` -/
def scatterFrom (lead : Nat → Nat) : List Rat → Nat → List Rat → List Rat
  | [], _, acc => acc
  | a :: cs, i, acc => scatterFrom lead cs (i + 1) (addAt acc (lead i) a)

/-- costs summed into the leaders (zero elsewhere) -/
def mergedCost (lead : Nat → Nat) (c : List Rat) : List Rat :=
  scatterFrom lead c 0 (List.replicate c.length 0)

/-- `np.delete`: the entries at the kept positions -/
def compact (keep : List Nat) (v : List Rat) : List Rat := keep.map fun j => v.getD j 0

/-- the merged problem; `lbar`, `ubar` are the bounds the leaders get (in `makePeriodic`: group averages) -/
def mergeProblem (P : AssetProblem) (lead : Nat → Nat) (lbar ubar : List Rat) : AssetProblem :=
  let n := P.c.length
  let keep := keepOf lead n
  { P with
    c := compact keep (mergedCost lead P.c)
    l := compact keep lbar
    u := compact keep ubar
    rows := P.rows.map (Row.rename (sigmaOf lead n))
    mapping := P.mapping.map fun m => { m with var := sigmaOf lead n m.var } }

/-- all variables with a row in group `k` -/
def grp (M : List MapRow) (labels : List (Nat × Nat × Nat)) (k : GroupKey) : List Nat :=
  ((M.filter (inGroup labels k)).map (·.var)).eraseDups

/-- the one group a mapping row belongs to (if its node and labels are not NaN) -/
def keyOf (labels : List (Nat × Nat × Nat)) (m : MapRow) : GroupKey :=
  { asset := m.asset, node := m.node, kind := m.kind, varName := m.varName, dur := durOf labels m, sub := subOf labels m }

/-- executable form of the hypothesis of `C13.makePeriodic_is_merge`: any two groups that share a variable have
    the same variables -/
def partitionCheck (M : List MapRow) (labels : List (Nat × Nat × Nat)) : Bool :=
  let gs := ((M.map (keyOf labels)).eraseDups).map (grp M labels)
  gs.all fun g1 => gs.all fun g2 => !(g1.any fun v => g2.contains v) || g1.all fun w => g2.contains w

/-- the leader map `makePeriodic` ends with -/
def finalLead (P : AssetProblem) (labels : List (Nat × Nat × Nat)) (j : Nat) : Nat :=
  (mergeAll P labels).leadOf.getD j j

/-- dense coefficient vector of a row over `k` columns (for comparing rows up to representation) -/
def Row.dense (r : Row) (k : Nat) : List Rat :=
  (List.range k).map fun j => ((r.coeffs.filter fun p => p.1 == j).map (·.2)).sum

/-- executable cross-check: the result of `makePeriodic` IS the generic merge along its final leader map
    (same costs, bounds, mapping; rows equal as dense vectors) -/
def agreesWithGeneric (P : AssetProblem) (labels : List (Nat × Nat × Nat)) : Bool :=
  match makePeriodic P labels with
  | .error _ => true
  | .ok Q =>
    let st := mergeAll P labels
    let lo := st.leadOf                       -- evaluated once (`finalLead P labels j = lo.getD j j`)
    let G := mergeProblem P (fun j => lo.getD j j) st.l st.u
    decide (Q.c = G.c) && decide (Q.l = G.l) && decide (Q.u = G.u) && decide (Q.mapping = G.mapping) &&
      decide (Q.rows.length = G.rows.length) &&
      (Q.rows.zip G.rows).all fun q =>
        decide (q.1.dense Q.c.length = q.2.dense Q.c.length) && decide (q.1.rhs = q.2.rhs) && decide (q.1.kind = q.2.kind) &&
        q.1.coeffs.all (fun p => decide (p.1 < Q.c.length)) && q.2.coeffs.all (fun p => decide (p.1 < Q.c.length))

end EAO
