import EAO.Model.Basic
import EAO.Model.Translate
/-!
# EAO.Model.ResultValue — the number a `Results` object carries in `value`

Literal model of the part of `OptimProblem.optimize` (optimization.py 200-420, cvxpy branch) and of
`SplitOptimProblem.optimize` (optimization.py 441-466) that produces `results.value`:

* the target is read through `target.lower()` TWICE: when the objective is chosen
  (`if target.lower() == 'value' … elif target.lower() == 'robust' … else raise NotImplementedError`) and again
  after the solve (`if target.lower() == 'robust': results.value = -sum(x.value * self.c)`).  `lowerWord` models
  `.lower()` letter by letter with `Char.toLower` (ASCII `A`–`Z`); Python's `str.lower` is the Unicode one, but no
  non-ASCII character lowers to one of the letters of `value` / `robust` (the harness checks this over all code
  points), so the two comparisons decide alike.
* `objective` is the number the solver reports (`prob.value`): for `'value'` the maximum of `-c·x`, for `'robust'`
  the maximum of the epigraph variable `DCF_min` under `-c_s·x >= DCF_min` for every sample.
* `Results(value = prob.value, …)` is built with the solver's number for EVERY target; for the robust target the
  field is then overwritten with `-sum(x.value * self.c)`: the element-wise products summed up from the left
  (`dotXC`), negated.  The samples do not enter `results.value`.
* a target that lowers to neither word raises `NotImplementedError` before anything is solved (`none`).
  The outcomes `'inaccurate'` / `'not successful'` (strings instead of a `Results`) are not modelled here: `resultValue`
  describes the branch `prob.status == 'optimal'`.
* `SplitOptimProblem.optimize`: `res = Results(0, …)`, then per interval `res.value += res_tmp.value` in the order
  of `self.ops` (`splitResultValueFrom`, accumulator to the LEFT); the same `*args` go to every interval, so one target
  for all; an interval that does not return a `Results` ends the loop with that outcome (`none`).
* `make_slp` returns an ordinary `OptimProblem` (cost `c/(S+1)` on the future variables and their copies,
  `EAO/Model/Slp.lean`); its `optimize` is the one above, nothing SLP-specific enters `results.value`.
-/
namespace EAO

/-- `str.lower()` on the letters that matter: every character through `Char.toLower` -/
def lowerWord (s : String) : List Char := s.toList.map Char.toLower

/-- the two targets `optimize` knows -/
inductive Target where
  | value | robust
  deriving DecidableEq, Repr

/-- `if target.lower() == 'value': … elif target.lower() == 'robust': … else: raise NotImplementedError` -/
def parseTarget (target : String) : Option Target :=
  if lowerWord target = ['v', 'a', 'l', 'u', 'e'] then some .value
  else if lowerWord target = ['r', 'o', 'b', 'u', 's', 't'] then some .robust
  else none

/-- `sum(x * c)`: Python's `sum` over the element-wise products, `0 + x_0 c_0 + x_1 c_1 + …` from the left -/
def dotXC (c : List Rat) (x : Vec) : Rat :=
  (List.range c.length).foldl (fun acc j => acc + x j * c.getD j 0) 0

/-- `results.value` of `OptimProblem.optimize` in the branch `prob.status == 'optimal'`;
    `objective` = `prob.value`.  `none` = `NotImplementedError` (unknown target). -/
def resultValue (target : String) (P : Problem) (x : Vec) (objective : Rat) : Option Rat :=
  match parseTarget target with
  | none => none
  | some _ =>
    let value := objective                                   -- `Results(value = prob.value, …)`
    if lowerWord target = ['r', 'o', 'b', 'u', 's', 't'] then
      some (- dotXC P.c x)                                   -- `results.value = -sum(x.value * self.c)`
    else some value

/-- the seeded-change shape "robust value left at the epigraph objective": the overwrite is missing -/
def resultValueNoOverwrite (target : String) (_P : Problem) (_x : Vec) (objective : Rat) : Option Rat :=
  match parseTarget target with
  | none => none
  | some _ => some objective

/-- what the solver's number is when `x` attains it: the objective handed to cvxpy evaluated at `x`
    (`-c·x` of the translated problem; for the robust target the largest epigraph value possible at `x`) -/
def solverObjective (target : String) (P : Problem) (samples : List (List Rat)) (x : Vec) : Option Rat :=
  match parseTarget target with
  | none => none
  | some .value => some ((translate P).objective x)
  | some .robust => robustObjective samples x

/-- one interval of a split problem: the interval problem, its solution and the solver's number -/
structure IntervalResult where
  P : Problem
  x : Vec
  objective : Rat

/-- `for op in self.ops: res_tmp = op.optimize(*args); res.value += res_tmp.value`, accumulator first -/
def splitResultValueFrom (target : String) : Rat → List IntervalResult → Option Rat
  | acc, [] => some acc
  | acc, iv :: rest =>
    match resultValue target iv.P iv.x iv.objective with
    | none => none
    | some v => splitResultValueFrom target (acc + v) rest

/-- `SplitOptimProblem.optimize`: `res = Results(0, …)` and the loop -/
def splitResultValue (target : String) (ivs : List IntervalResult) : Option Rat :=
  splitResultValueFrom target 0 ivs

end EAO
