import EAO.Model.Grid
import EAO.Model.State
import EAO.Model.Scaled
import EAO.Model.Structured
/-!
# EAO.Model.WrapWindow — the window logic of the wrappers (`StructuredAsset`, `ScaledAsset`)

`StructuredAsset.setup_optim_problem` (portfolio.py 383-442) and `ScaledAsset.setup_optim_problem`
(assets.py 2501-2597) hand their own `start` / `end` down to what they wrap: for the duration of the
set-up the attributes `start` / `end` of every wrapped asset are overwritten by the intersection with the
wrapper's own (CURRENT) window, the wrapped assets are set up, and `finally:` the attributes are put back.

Two levels, one object tree (`WTree`: a leaf carries a builder `Grid → Except ε AssetProblem`, i.e. an
asset class with its parameters; an order book is a leaf without window of its own):

* **pure** (`clip`, `restrictWin`, `buildTree`): windows are `Option Int × Option Int` (instants, `none` =
  not given); the window of a wrapped object is `clip own wrapper` (`State.clipStart` / `State.clipStop`: the
  same functions the state model of C10 uses); a leaf builder runs on `Grid.restrict` of the grid through its
  clipped window (`None` replaced by the grid's own start / end, as `set_restricted_grid` does); a scaled asset
  is `buildScaled` of its base's problem with the duration of ITS OWN (current) window; a structured asset is
  `structured` (Model/Structured.lean) of the problems of the wrapped objects, each built through its clipped
  window.
* **literal** (`setupL`): what the code does, statement by statement, on dates in the forms Python has them
  (`WDate`: without zone - datetime, date, naive Timestamp - compared by wall clock; zone-aware - compared by
  instant; a comparison across the two forms is the `TypeError` of `max(pd.Timestamp(..), pd.Timestamp(..))`):
  the wrapper's own `set_timegrid`, `orig_start_end`, the clipping loop (start, then end, then
  `a.set_timegrid(timegrid)`, asset by asset; an exception leaves the later assets untouched), the set-up of the
  wrapped objects in order (the first exception aborts), the `finally:` block, for the scaled asset the
  `self.set_timegrid(self.base_asset.timegrid)` AFTER the restoration.  The result records the object tree
  after the call (attributes `start` / `end` of every object), the trace of `set_restricted_grid` calls
  (object path, window as instants) and the problem or the exception.

`Env` = the `Timegrid` the set-up runs on: its steps, its own start / end, whether it has a time zone, and the
localisation of wall-clock times in that zone (`loc`, supplied by pandas; monotone on valid local times).
A zone-aware date on a grid without zone is the `TypeError` of `timepoints >= start` in `Timegrid.__init__`.

Not modelled: assets with `freq` (the assertion of `set_timegrid` and the coarse restricted grid — models
`Grid.coarsen`, `EAO.Model.CoarseBuild`), the call without grid argument (`timegrid=None`: C10, `EAO.Model.State`),
`costs_only`, `LinkedAsset`'s own loop (EAO.Model.Linked), one object held at two places of a tree, exceptions of
`buildScaledE` (do not occur for the asset classes of eaopack).
-/
namespace EAO.WrapWindow
open EAO

/-! ## pure level: windows as instants -/

/-- `(start, end)`, `none` = not given -/
abbrev Win := Option Int × Option Int

/-- the window of a wrapped asset while its wrapper (current window `wrapper`) is set up -/
def clip (own wrapper : Win) : Win := (State.clipStart own.1 wrapper.1, State.clipStop own.2 wrapper.2)

/-- does the window contain the instant?  (`start <= p < end`, a missing side does not restrict) -/
def hasPt (w : Win) (p : Int) : Bool :=
  (match w.1 with | none => true | some s => decide (s ≤ p)) &&
  (match w.2 with | none => true | some e => decide (p < e))

/-- `Timegrid.set_restricted_grid(start, end)` on a grid with own start `gs` and end `ge`:
    `if start is None: start = self.start`, `if end is None: end = self.end`, then the filter -/
def restrictWin (g : Grid) (gs ge : Int) (w : Win) : Grid := g.restrict (w.1.getD gs) (w.2.getD ge)

/-- the grid's own start / end enclose its steps (true for every `Timegrid`) -/
def Horizon (g : Grid) (gs ge : Int) : Prop := ∀ p ∈ g.pts, gs ≤ p ∧ p < ge

/-! ## dates as Python has them -/

/-- a date without zone (`datetime`, `date`, naive `Timestamp`: wall clock, seconds) or with zone (instant) -/
inductive WDate where
  | naive (wall : Int)
  | aware (inst : Int)
  deriving DecidableEq, Repr, Inhabited

abbrev WinD := Option WDate × Option WDate

/-- `a < b` on `pd.Timestamp`s; `none` = TypeError (tz-naive against tz-aware) -/
def WDate.lt? : WDate → WDate → Option Bool
  | .naive a, .naive b => some (decide (a < b))
  | .aware a, .aware b => some (decide (a < b))
  | _, _ => none

/-- Python `max(a, b)`: `b` only if `b > a` -/
def maxD (a b : WDate) : Option WDate :=
  match a.lt? b with
  | some true => some b
  | some false => some a
  | none => none

/-- Python `min(a, b)`: `b` only if `b < a` -/
def minD (a b : WDate) : Option WDate :=
  match b.lt? a with
  | some true => some b
  | some false => some a
  | none => none

/-- `if not (self.start is None): if a.start is None: a.start = self.start else: a.start = max(Timestamp(a.start),
    Timestamp(self.start))`; outer `none` = TypeError -/
def clipStartD (own wrapper : Option WDate) : Option (Option WDate) :=
  match wrapper, own with
  | none, o => some o
  | some w, none => some (some w)
  | some w, some o => (maxD o w).map some

def clipStopD (own wrapper : Option WDate) : Option (Option WDate) :=
  match wrapper, own with
  | none, o => some o
  | some w, none => some (some w)
  | some w, some o => (minD o w).map some

/-- the `Timegrid` object the set-up runs on -/
structure Env where
  g     : Grid
  gs    : Int           -- `timegrid.start`
  ge    : Int           -- `timegrid.end`
  aware : Bool          -- `timegrid.tz is not None`
  loc   : Int → Int     -- wall clock → instant in the grid's zone (identity convention for a grid without zone)

/-- the instant a date stands for on this grid (total; the TypeError is in `inst?`) -/
def Env.instD (env : Env) : WDate → Int
  | .naive w => env.loc w
  | .aware t => t

/-- `Timegrid.__init__(start, ..., ref_timegrid)`: a naive date is localised to the grid's zone; an aware date on a
    grid without zone fails in `ref_timegrid.timepoints >= self.start` (`none` = TypeError) -/
def Env.inst? (env : Env) : WDate → Option Int
  | .naive w => some (env.loc w)
  | .aware t => if env.aware then some t else none

def Env.optInst? (env : Env) : Option WDate → Option (Option Int)
  | none => some none
  | some d => (env.inst? d).map some

/-- the window `set_restricted_grid(self.start, self.end)` filters with; `none` = TypeError -/
def Env.instWin? (env : Env) (w : WinD) : Option Win :=
  match env.optInst? w.1, env.optInst? w.2 with
  | some s, some e => some (s, e)
  | _, _ => none

/-- the same without the error (what the pure level works with) -/
def Env.winI (env : Env) (w : WinD) : Win := (w.1.map env.instD, w.2.map env.instD)

/-- the restricted grid of an object whose current window (instants) is `w` -/
def Env.restricted (env : Env) (w : Win) : Grid := restrictWin env.g env.gs env.ge w

/-! ## the object tree -/

/-- an asset object: a leaf (any asset class with its parameters = a builder on the restricted grid; `win` = its
    `start` / `end` attributes; an order book has `(none, none)`), a `ScaledAsset` around a base object, a
    `StructuredAsset` around the objects of its portfolio -/
inductive WTree (ε : Type) where
  | leaf (win : WinD) (build : Grid → Except ε AssetProblem)
  | scaled (win : WinD) (p : ScaledP) (base : WTree ε)
  | structured (win : WinD) (name : String) (ext : List String) (inner : List (WTree ε))

variable {ε : Type}

/-- the attributes `start`, `end` of the object -/
def WTree.win : WTree ε → WinD
  | .leaf w _ => w
  | .scaled w _ _ => w
  | .structured w _ _ _ => w

/-- `a.start = s; a.end = e` -/
def WTree.setWin : WTree ε → WinD → WTree ε
  | .leaf _ b, w => .leaf w b
  | .scaled _ p base, w => .scaled w p base
  | .structured _ n x inner, w => .structured w n x inner

/-- the objects directly wrapped (the base asset of a scaled asset is number 0) -/
def WTree.subs : WTree ε → List (WTree ε)
  | .leaf _ _ => []
  | .scaled _ _ base => [base]
  | .structured _ _ _ inner => inner

/-- the object at a path below `t` -/
def WTree.sub? : WTree ε → List Nat → Option (WTree ε)
  | t, [] => some t
  | t, i :: q => match t.subs[i]? with
    | some c => c.sub? q
    | none => none

/-- `for a, (s, e) in zip(assets, windows): a.start = s; a.end = e` -/
def setWins : List (WTree ε) → List WinD → List (WTree ε)
  | t :: ts, w :: ws => t.setWin w :: setWins ts ws
  | ts, _ => ts

/-! ## pure level: what the wrappers build -/

/-- the window (instants) of the object at path `q` below `t` while `t`, current window `cur`, is set up:
    its own window clipped by the windows of all wrappers above it -/
def effWin (env : Env) : WTree ε → List Nat → Win → Win
  | _, [], cur => cur
  | t, i :: q, cur => match t.subs[i]? with
    | some c => effWin env c q (clip (env.winI c.win) cur)
    | none => cur

/-- the own windows (instants) of the objects along a path, the root excluded -/
def pathWins (env : Env) : WTree ε → List Nat → List Win
  | _, [] => []
  | t, i :: q => match t.subs[i]? with
    | some c => env.winI c.win :: pathWins env c q
    | none => []

mutual
/-- the problem of the object `t` whose CURRENT window is `cur`: a leaf builder on the grid restricted to `cur`; a scaled
    asset = `buildScaled` of the base built through `clip base.own cur`, fix costs over the steps of `cur`; a structured
    asset = `structured` of the inner objects, each built through `clip own cur` -/
def buildTree (env : Env) : WTree ε → Win → Except ε AssetProblem
  | .leaf _ b, cur => b (env.restricted cur)
  | .scaled _ p base, cur =>
    match buildTree env base (clip (env.winI base.win) cur) with
    | .error e => .error e
    | .ok bp => .ok (buildScaled p bp (activeDuration (env.restricted cur)))
  | .structured _ name ext inner, cur =>
    match buildList env inner cur with
    | .error e => .error e
    | .ok ps => .ok (structured name ext ps env.g.idx)
/-- the inner portfolio's loop: the first failure aborts -/
def buildList (env : Env) : List (WTree ε) → Win → Except ε (List AssetProblem)
  | [], _ => .ok []
  | c :: cs, cur =>
    match buildTree env c (clip (env.winI c.win) cur) with
    | .error e => .error e
    | .ok P =>
      match buildList env cs cur with
      | .error e => .error e
      | .ok ps => .ok (P :: ps)
end

/-- a top-level object is set up with its own window -/
def buildTop (env : Env) (t : WTree ε) : Except ε AssetProblem := buildTree env t (env.winI t.win)

/-! ## literal level -/

/-- exceptions: the TypeError of a date comparison, or what a wrapped builder raised -/
inductive Err (ε : Type) where
  | type
  | build (e : ε)
  deriving Repr

/-- one `set_restricted_grid` call: path of the object whose `set_timegrid` ran, window (instants) -/
abbrev Ev := List Nat × Win

structure Out (ε : Type) where
  tree  : WTree ε                         -- the object after the call
  trace : List Ev
  res   : Except (Err ε) AssetProblem

structure OutL (ε : Type) where
  trees : List (WTree ε)
  trace : List Ev
  res   : Except (Err ε) (List AssetProblem)

/-- body of the loop `for a in self.portfolio.assets` for one asset with attributes `a`, the wrapper's window being `w`:
    new attributes and, when all three statements ran, the window `a.set_timegrid(timegrid)` handed to the grid
    (`none` = TypeError: by the start, by the end — the start is then already overwritten — or by `set_timegrid`) -/
def clipStep (env : Env) (w a : WinD) : WinD × Option Win :=
  match clipStartD a.1 w.1 with
  | none => (a, none)
  | some s =>
    match clipStopD a.2 w.2 with
    | none => ((s, a.2), none)
    | some e => ((s, e), env.instWin? (s, e))

/-- the loop over the attributes of the inner assets (`i`: number of the first of the list): attributes after the loop,
    events, and whether it ran through; an exception leaves the remaining assets untouched -/
def clipLoop (env : Env) (w : WinD) (path : List Nat) : List WinD → Nat → List WinD × List Ev × Bool
  | [], _ => ([], [], true)
  | a :: as, i =>
    match clipStep env w a with
    | (a', none) => (a' :: as, [], false)
    | (a', some wi) =>
      match clipLoop env w path as (i + 1) with
      | (r, evs, ok) => (a' :: r, (path ++ [i], wi) :: evs, ok)

mutual
/-- `t.setup_optim_problem(prices, timegrid)` for the object `t` at `path` whose attributes `start` / `end` currently are
    `cur` (its own, or what the wrapper above made of them) -/
def setupL (env : Env) : WTree ε → WinD → List Nat → Out ε
  | .leaf _ b, cur, path =>
    -- `self.set_timegrid(timegrid)`, then the builder on `self.timegrid.restricted`
    match env.instWin? cur with
    | none => ⟨.leaf cur b, [], .error .type⟩
    | some wi =>
      ⟨.leaf cur b, [(path, wi)],
        match b (env.restricted wi) with
        | .ok P => .ok P
        | .error e => .error (.build e)⟩
  | .scaled _ p base, cur, path =>
    -- `orig_start_end = (self.base_asset.start, self.base_asset.end)`; `try:` clip start, clip end, set the base up;
    -- `finally:` restore; then `self.set_timegrid(self.base_asset.timegrid)` and the scaling
    let orig := base.win
    match clipStartD orig.1 cur.1 with
    | none => ⟨.scaled cur p ((base.setWin orig).setWin orig), [], .error .type⟩
    | some s =>
      match clipStopD orig.2 cur.2 with
      | none => ⟨.scaled cur p ((base.setWin (s, orig.2)).setWin orig), [], .error .type⟩
      | some e =>
        let o := setupL env base (s, e) (path ++ [0])
        let base' := o.tree.setWin orig
        match o.res with
        | .error err => ⟨.scaled cur p base', o.trace, .error err⟩
        | .ok bp =>
          match env.instWin? cur with
          | none => ⟨.scaled cur p base', o.trace, .error .type⟩
          | some wi =>
            ⟨.scaled cur p base', o.trace ++ [(path, wi)],
              .ok (buildScaled p bp (activeDuration (env.restricted wi)))⟩
  | .structured _ name ext inner, cur, path =>
    -- `self.set_timegrid(timegrid)`; `orig_start_end = [...]`; `try:` the clipping loop, the inner portfolio;
    -- `finally:` restore
    match env.instWin? cur with
    | none => ⟨.structured cur name ext inner, [], .error .type⟩
    | some wi =>
      let orig := inner.map (·.win)
      match clipLoop env cur path orig 0 with
      | (curs, evs, false) =>
        ⟨.structured cur name ext (setWins (setWins inner curs) orig), (path, wi) :: evs, .error .type⟩
      | (curs, evs, true) =>
        let o := setupList env inner curs path 0
        let inner' := setWins o.trees orig
        match o.res with
        | .error err => ⟨.structured cur name ext inner', (path, wi) :: (evs ++ o.trace), .error err⟩
        | .ok ps =>
          ⟨.structured cur name ext inner', (path, wi) :: (evs ++ o.trace), .ok (structured name ext ps env.g.idx)⟩
/-- the loop of the inner portfolio over its assets (`i`: number of the first of the list; `curs`: their current attributes);
    the first exception aborts: the later objects keep the (clipped) attributes they have until the wrapper's `finally:` -/
def setupList (env : Env) : List (WTree ε) → List WinD → List Nat → Nat → OutL ε
  | [], _, _, _ => ⟨[], [], .ok []⟩
  | t :: ts, curs, path, i =>
    let o := setupL env t (curs.headD t.win) (path ++ [i])
    match o.res with
    | .error err => ⟨o.tree :: setWins ts curs.tail, o.trace, .error err⟩
    | .ok P =>
      let r := setupList env ts curs.tail path (i + 1)
      ⟨o.tree :: r.trees, o.trace ++ r.trace,
        match r.res with
        | .error err => .error err
        | .ok ps => .ok (P :: ps)⟩
end

/-- a top-level object (as a portfolio calls it): attributes = its own -/
def setupTop (env : Env) (t : WTree ε) : Out ε := setupL env t t.win []

/-! ## stand-in builders (driver, examples) -/

/-- one dispatch variable per step of the restricted grid, bounds `[0, 1]`, cost `dt` (so that the problem shows the
    steps and their lengths) -/
def stubProblem (name node : String) (g : Grid) : AssetProblem :=
  { name := name, nodes := [node], c := g.dt, l := g.idx.map fun _ => 0, u := g.idx.map fun _ => 1, rows := [],
    mapping := g.idx.zipIdx.map fun ti =>
      { var := ti.2, asset := name, node := some node, kind := .d, step := ti.1, factor := 1, isBool := false,
        varName := "disp" } }

/-- a builder that raises `e` after its `set_timegrid` (`fail = some e`), or returns `stubProblem` -/
def stubBuilder (name node : String) (fail : Option ε) : Grid → Except ε AssetProblem :=
  fun g => match fail with
    | some e => .error e
    | none => .ok (stubProblem name node g)

end EAO.WrapWindow
