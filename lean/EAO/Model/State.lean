import EAO.Model.Grid
/-!
# EAO.Model.State — the mutable Python state that problem set-up touches (property C10)

A deliberately small, explicit state machine of exactly the mutable slots `eaopack` has around
`setup_optim_problem` (no Mathlib; imports only `EAO.Model.Grid` for the interval-data part):

* a `Timegrid` OBJECT (`GridObj`) has two slots written by `Asset.set_timegrid`:
  `restricted` (`set_restricted_grid(start, end, freq)`: the window and frequency of the asset that
  called last) and `disc` (`set_wacc(wacc)`: the wacc whose discount factors are stored).  Several
  grid objects may be alive (`Nat` identifies the object); all assets of a portfolio share one.
* every asset has the attribute `timegrid` (`AssetSt.grid`, `none` = attribute absent);
  a `ScaledAsset` wraps a base asset, a `StructuredAsset` wraps a list of inner assets: the wrapped
  assets have their own `timegrid` attribute and `start` / `end` (`SubSt`), the latter are
  overwritten (clipped) during the structured set-up and restored afterwards.
* a `Portfolio` has the attribute `timegrid` (`PyState.pf`).

A primitive problem builder (contract, storage, ...) READS the two slots of the grid object it works
on (`self.timegrid.restricted.*`, `...restricted.discount_factors`).  `Used` records what it read:
that is the only way state can leak into a problem, all other inputs are arguments.

`setupSt v env s call` mirrors the code literally; `v : Version` selects the code version, `current`
is the tree after the repairs:
* `rederive` (commit 7e0d787): every `setup_optim_problem` calls `self.set_timegrid(timegrid)` first,
  also when no grid argument is given ("use grid set before.  The grid object may be shared, thus set
  restricted grid again", assets.py:328-331 and the same lines in every builder).  `false`: without
  grid argument the builder read whatever the slots held.
* `scaledOwnGrid` (commit 19afd7c): a `ScaledAsset` called without grid argument hands its OWN
  `timegrid` attribute to the base asset (`if (timegrid is None) and hasattr(self, 'timegrid'):
  timegrid = self.timegrid`, assets.py:2496-2497).  `false`: the base asset used its own attribute.
`setupPure env ptrs call` is what the builders SHOULD read: the asset's own window, frequency and
wacc on the grid the call names (or, without grid argument, on the grid the asset itself was put on:
the assets' own `timegrid` attributes are legitimate input, `ptrs`; a scaled asset that never saw a
grid itself falls back to its base asset's).

Known finding H3 is part of the model: `setupSplit g tmp` (`Portfolio.setup_split_optim_problem`)
sets every interval up on a temporary grid object and then puts the portfolio and the TOP-LEVEL assets
back on `g` (portfolio.py:293-295); wrapped assets keep the grid of the last interval, which a direct
`setupSub` (set-up of a wrapped asset itself) without grid argument then uses.

Not in this model (covered only by the history oracle `harness/comp/history.py`): Python object
aliasing of parameter containers, pandas in-place semantics (`prices_to_grid`), the numeric content of
restricted grids and discount factors (models `EAO.Model.Grid`), exceptions other than "no grid set".
-/
namespace EAO.State

/-- window, own frequency and wacc of an asset: everything `set_timegrid` writes into the grid object -/
structure Params where
  start : Option Int := none
  stop  : Option Int := none
  freq  : Option Nat := none
  wacc  : Rat := 0
  deriving DecidableEq, Repr, Inhabited

/-- code version switches (see the module text) -/
structure Version where
  rederive      : Bool := true
  scaledOwnGrid : Bool := true
  deriving DecidableEq, Repr

/-- the tree after commits 7e0d787 and 19afd7c -/
def current : Version := {}

inductive Asset where
  | plain (p : Params)
  | scaled (p : Params) (base : Params)
  | structured (p : Params) (inner : List Params)
  deriving Repr, Inhabited

def Asset.params : Asset → Params
  | .plain p => p
  | .scaled p _ => p
  | .structured p _ => p

def Asset.subs : Asset → List Params
  | .plain _ => []
  | .scaled _ b => [b]
  | .structured _ inner => inner

abbrev Slot := Option Int × Option Int × Option Nat

/-- the two slots of one `Timegrid` object -/
structure GridObj where
  restricted : Option Slot := none
  disc       : Option Rat := none
  deriving DecidableEq, Repr, Inhabited

/-- mutable attributes of a wrapped (base / inner) asset -/
structure SubSt where
  grid  : Option Nat := none
  start : Option Int := none
  stop  : Option Int := none
  deriving DecidableEq, Repr, Inhabited

structure AssetSt where
  grid : Option Nat := none
  sub  : List SubSt := []
  deriving DecidableEq, Repr, Inhabited

structure PyState where
  grids  : Nat → GridObj
  assets : Nat → AssetSt
  pf     : Option Nat

abbrev Env := List Asset

def Env.asset (env : Env) (a : Nat) : Asset := env.getD a (.plain {})

def subInit (q : Params) : SubSt := { grid := none, start := q.start, stop := q.stop }

/-- freshly constructed objects: no grid anywhere, no slot written -/
def init (env : Env) : PyState :=
  { grids := fun _ => {}, assets := fun a => { grid := none, sub := (env.asset a).subs.map subInit }, pf := none }

/-- what a primitive builder reads -/
structure Used where
  grid       : Nat
  restricted : Option Slot
  disc       : Option Rat
  deriving DecidableEq, Repr, Inhabited

inductive Err where
  | noGrid      -- 'Set timegrid of asset before creating optim problem'
  deriving DecidableEq, Repr

abbrev Result := Except Err (List Used)

instance : DecidableEq Result := fun a b =>
  match a, b with
  | .ok x, .ok y => if h : x = y then isTrue (by rw [h]) else isFalse (by intro h'; cases h'; exact h rfl)
  | .error x, .error y => if h : x = y then isTrue (by rw [h]) else isFalse (by intro h'; cases h'; exact h rfl)
  | .ok _, .error _ => isFalse (by intro h; cases h)
  | .error _, .ok _ => isFalse (by intro h; cases h)

abbrev Grids := Nat → GridObj

/-- `Asset.set_timegrid` on the grid object `g`: `set_wacc(wacc)` and `set_restricted_grid(start, end, freq)` -/
def writeSlots (G : Grids) (g : Nat) (start stop : Option Int) (freq : Option Nat) (wacc : Rat) : Grids :=
  fun i => if i = g then { restricted := some (start, stop, freq), disc := some wacc } else G i

/-- `set_restricted_grid` alone (`Storage.fill_level`, `make_slp`) -/
def writeRestricted (G : Grids) (g : Nat) (sl : Slot) : Grids :=
  fun i => if i = g then { G i with restricted := some sl } else G i

def readSlots (G : Grids) (g : Nat) : Used :=
  { grid := g, restricted := (G g).restricted, disc := (G g).disc }

/-- one primitive `setup_optim_problem(prices, timegrid = arg)` of an asset whose attributes are
    `ptr` (its `timegrid`), `start`, `stop` (current values), `freq`, `wacc`.
    Returns the grid objects, the new `timegrid` attribute and what the builder read. -/
def buildPlain (rederive : Bool) (G : Grids) (ptr : Option Nat) (start stop : Option Int) (freq : Option Nat) (wacc : Rat)
    (arg : Option Nat) : Grids × Option Nat × Except Err Used :=
  -- `if (timegrid is None) and hasattr(self, 'timegrid'): timegrid = self.timegrid`   (only when `rederive`)
  let tg : Option Nat := match arg with
    | some g => some g
    | none => if rederive then ptr else none
  match tg with
  | some g =>
    -- `self.set_timegrid(timegrid)`
    let G' := writeSlots G g start stop freq wacc
    (G', some g, .ok (readSlots G' g))
  | none =>
    match ptr with
    | none => (G, none, .error .noGrid)          -- `if not hasattr(self, 'timegrid'): raise`
    | some g => (G, some g, .ok (readSlots G g))   -- pre-fix: reads the slots as they are

/-- start / end of an inner asset clipped by the structured asset's window (portfolio.py:372-378) -/
def clipStart (own wrapper : Option Int) : Option Int :=
  match wrapper, own with
  | none, o => o
  | some w, none => some w
  | some w, some o => some (if o ≤ w then w else o)     -- max

def clipStop (own wrapper : Option Int) : Option Int :=
  match wrapper, own with
  | none, o => o
  | some w, none => some w
  | some w, some o => some (if o ≤ w then o else w)     -- min

/-- the inner portfolio's loop over its assets, every one called with `timegrid = g`;
    `subs` are the (already clipped) inner assets; an exception aborts the loop -/
def buildInner (rederive : Bool) (g : Nat) : Grids → List (SubSt × Params) → Grids × List SubSt × Except Err (List Used)
  | G, [] => (G, [], .ok [])
  | G, (st, q) :: rest =>
    match buildPlain rederive G st.grid st.start st.stop q.freq q.wacc (some g) with
    | (G1, ptr, .ok u) =>
      match buildInner rederive g G1 rest with
      | (G2, sts, .ok us) => (G2, { st with grid := ptr } :: sts, .ok (u :: us))
      | (G2, sts, .error e) => (G2, { st with grid := ptr } :: sts, .error e)
    | (G1, ptr, .error e) => (G1, { st with grid := ptr } :: rest.map (·.1), .error e)

/-- body of `StructuredAsset.setup_optim_problem` once the grid `g` is known (`G0`: grid objects after the
    wrapper's own `set_timegrid`, if any): clip start / end of every inner asset and `a.set_timegrid(timegrid)`,
    set up the inner portfolio with `timegrid = g`, and (`finally:`) give the inner assets their own start / end back -/
def structuredBody (rederive : Bool) (G0 : Grids) (g : Nat) (p : Params) (inner : List Params) (sub : List SubSt) :
    Grids × List SubSt × Result :=
  let clipped : List (SubSt × Params) := (sub.zip inner).map fun sq =>
    ({ grid := some g, start := clipStart sq.1.start p.start, stop := clipStop sq.1.stop p.stop }, sq.2)
  let G1 := clipped.foldl (fun G sq => writeSlots G g sq.1.start sq.1.stop sq.2.freq sq.2.wacc) G0
  match buildInner rederive g G1 clipped with
  | (G2, sts, r) => (G2, (sts.zip sub).map fun so => { so.1 with start := so.2.start, stop := so.2.stop }, r)

/-- `asset.setup_optim_problem(prices, timegrid = arg)` for asset number `a` -/
def setupAsset (v : Version) (env : Env) (s : PyState) (a : Nat) (arg : Option Nat) : PyState × Result :=
  let st := s.assets a
  let upd (G : Grids) (st' : AssetSt) : PyState :=
    { s with grids := G, assets := fun i => if i = a then st' else s.assets i }
  match env.asset a with
  | .plain p =>
    match buildPlain v.rederive s.grids st.grid p.start p.stop p.freq p.wacc arg with
    | (G, ptr, r) => (upd G { st with grid := ptr }, r.map fun u => [u])
  | .scaled p base =>
    -- `op = self.base_asset.setup_optim_problem(prices, timegrid)`; `self.set_timegrid(self.base_asset.timegrid)`;
    -- the wrapper then reads `self.timegrid.restricted.dt.sum()`
    let b := st.sub.headD (subInit base)
    -- 19afd7c: `if (timegrid is None) and hasattr(self, 'timegrid'): timegrid = self.timegrid`
    let arg' : Option Nat := match arg with
      | some g => some g
      | none => if v.scaledOwnGrid then st.grid else none
    -- 0e4cac8: the base asset's start / end are clipped by the scaled asset's own window for the duration of the
    -- set-up and restored afterwards (`finally:`), as a structured asset does with its inner assets
    match buildPlain v.rederive s.grids b.grid (clipStart b.start p.start) (clipStop b.stop p.stop) base.freq base.wacc arg' with
    | (G, bptr, .error e) => (upd G { st with sub := [{ b with grid := bptr }] }, .error e)
    | (G, none, .ok _) => (upd G { st with sub := [{ b with grid := none }] }, .error .noGrid)   -- unreachable: a built asset has a grid
    | (G, some g, .ok u) =>
      let G' := writeSlots G g p.start p.stop p.freq p.wacc
      (upd G' { grid := some g, sub := [{ b with grid := some g }] }, .ok [u, readSlots G' g])
  | .structured p inner =>
    -- `if timegrid is None: timegrid = self.timegrid else: self.set_timegrid(timegrid)`
    match arg, st.grid with
    | none, none => (s, .error .noGrid)
    | none, some g =>
      match structuredBody v.rederive s.grids g p inner st.sub with
      | (G2, sub', r) => (upd G2 { grid := some g, sub := sub' }, r)
    | some g, _ =>
      match structuredBody v.rederive (writeSlots s.grids g p.start p.stop p.freq p.wacc) g p inner st.sub with
      | (G2, sub', r) => (upd G2 { grid := some g, sub := sub' }, r)

/-- `Portfolio.setup_optim_problem`'s loop: every asset is called with `timegrid = self.timegrid` -/
def setupAll (v : Version) (env : Env) (g : Nat) : PyState → List Nat → PyState × Result
  | s, [] => (s, .ok [])
  | s, a :: rest =>
    match setupAsset v env s a (some g) with
    | (s1, .error e) => (s1, .error e)
    | (s1, .ok us) =>
      match setupAll v env g s1 rest with
      | (s2, .ok vs) => (s2, .ok (us ++ vs))
      | (s2, .error e) => (s2, .error e)

inductive Call where
  | setTimegrid (a g : Nat)                 -- `asset.set_timegrid(tg)`
  | setup (a : Nat) (arg : Option Nat)      -- `asset.setup_optim_problem(prices[, tg])`
  | setTimegridSub (a i g : Nat)            -- `set_timegrid(tg)` on the `i`-th asset WRAPPED by asset `a`
  | setupSub (a i : Nat) (arg : Option Nat) -- the same on the `i`-th asset WRAPPED by asset `a` (base / inner asset), called directly
  | setupPortfolio (arg : Option Nat)       -- `portfolio.setup_optim_problem(prices[, tg])` (also cost samples)
  | setupSplit (g : Nat) (tmp : List Nat)   -- `portfolio.setup_split_optim_problem(prices, tg, ...)`; `tmp`: the interval grid objects
  | dcf (a : Nat)                           -- `asset.dcf(op, res)`: reads `self.timegrid.T` only
  | fillLevel (a : Nat)                     -- `storage.fill_level(op, res)`: `set_restricted_grid` of its own window
  | makeSlp (g : Nat) (t : Int)             -- `make_slp(op, portf, tg, start_future, samples)`
  deriving Repr

def setupPortfolioSt (v : Version) (env : Env) (s : PyState) (arg : Option Nat) : PyState × Result :=
  let s0 : PyState := match arg with | some g => { s with pf := some g } | none => s
  match s0.pf with
  | none => (s0, .error .noGrid)
  | some g => setupAll v env g s0 (List.range env.length)

/-- `Asset.set_timegrid(tg)` (inherited by every asset class: the wrapper's own attribute and the slots only) -/
def setTimegridSt (env : Env) (s : PyState) (a g : Nat) : PyState :=
  let p := (env.asset a).params
  { s with grids := writeSlots s.grids g p.start p.stop p.freq p.wacc,
           assets := fun i => if i = a then { s.assets a with grid := some g } else s.assets i }

/-- `set_timegrid(tg)` called directly on the `i`-th asset wrapped by `a` (its CURRENT start / end) -/
def setTimegridSubSt (env : Env) (s : PyState) (a i g : Nat) : PyState :=
  let st := s.assets a
  match st.sub[i]?, (env.asset a).subs[i]? with
  | some b, some q =>
    { s with grids := writeSlots s.grids g b.start b.stop q.freq q.wacc,
             assets := fun j => if j = a then { st with sub := st.sub.set i { b with grid := some g } } else s.assets j }
  | _, _ => s

/-- direct set-up of the `i`-th asset wrapped by `a` -/
def setupSubSt (v : Version) (env : Env) (s : PyState) (a i : Nat) (arg : Option Nat) : PyState × Result :=
  let st := s.assets a
  match st.sub[i]?, (env.asset a).subs[i]? with
  | some b, some q =>
    match buildPlain v.rederive s.grids b.grid b.start b.stop q.freq q.wacc arg with
    | (G, ptr, r) =>
      ({ s with grids := G, assets := fun j => if j = a then { st with sub := st.sub.set i { b with grid := ptr } } else s.assets j },
       r.map fun u => [u])
  | _, _ => (s, .ok [])        -- no such wrapped asset

/-- the loop over the intervals of a split set-up: `self.setup_optim_problem(prices_tmp, timegrid_tmp, ...)` -/
def setupIntervals (v : Version) (env : Env) : PyState → List Nat → PyState × Result
  | s, [] => (s, .ok [])
  | s, t :: ts =>
    match setupAll v env t { s with pf := some t } (List.range env.length) with
    | (s1, .error e) => (s1, .error e)
    | (s1, .ok us) =>
      match setupIntervals v env s1 ts with
      | (s2, .ok vs) => (s2, .ok (us ++ vs))
      | (s2, .error e) => (s2, .error e)

/-- `for a in self.assets: a.set_timegrid(timegrid)` — top-level assets only (portfolio.py:294-295) -/
def restoreTop (env : Env) (g : Nat) : PyState → List Nat → PyState
  | s, [] => s
  | s, a :: rest => restoreTop env g (setTimegridSt env s a g) rest

def setupSt (v : Version) (env : Env) (s : PyState) : Call → PyState × Result
  | .setTimegrid a g => (setTimegridSt env s a g, .ok [])
  | .setup a arg => setupAsset v env s a arg
  | .setTimegridSub a i g => (setTimegridSubSt env s a i g, .ok [])
  | .setupSub a i arg => setupSubSt v env s a i arg
  | .setupPortfolio arg => setupPortfolioSt v env s arg
  | .setupSplit g tmp =>
    match setupIntervals v env s tmp with
    | (s1, .error e) => (s1, .error e)          -- an exception leaves everything on the interval grid
    | (s1, .ok us) => (restoreTop env g { s1 with pf := some g } (List.range env.length), .ok us)
  | .dcf _ => (s, .ok [])
  | .fillLevel a =>
    let p := (env.asset a).params
    match (s.assets a).grid with
    | some g => ({ s with grids := writeRestricted s.grids g (p.start, p.stop, p.freq) }, .ok [])
    | none => (s, .error .noGrid)
  | .makeSlp g t =>
    -- future / present split on the caller's grid object, then `portf.create_cost_samples(samples, timegrid)`
    let s1 : PyState := { s with grids := writeRestricted (writeRestricted s.grids g (some t, none, none)) g (none, some t, none) }
    let r := setupPortfolioSt v env s1 (some g)
    (r.1, r.2.map fun _ => [])

def run (v : Version) (env : Env) (s : PyState) : List Call → PyState
  | [] => s
  | c :: cs => run v env (setupSt v env s c).1 cs

/-- reachable: the state after any finite call sequence on freshly constructed objects -/
def Reachable (v : Version) (env : Env) (s : PyState) : Prop :=
  ∃ calls, s = run v env (init env) calls

/-! ## what the builders should read -/

/-- the objects' own `timegrid` attributes: legitimate input of a call without grid argument -/
structure Ptrs where
  asset : Nat → Option Nat
  sub   : Nat → Nat → Option Nat       -- wrapped assets
  pf    : Option Nat

def ownPtrs (s : PyState) : Ptrs :=
  { asset := fun a => (s.assets a).grid, sub := fun a i => (s.assets a).sub[i]?.bind (·.grid), pf := s.pf }

def usedOf (g : Nat) (start stop : Option Int) (freq : Option Nat) (wacc : Rat) : Used :=
  { grid := g, restricted := some (start, stop, freq), disc := some wacc }

def pureAsset (x : Asset) (g : Nat) : List Used :=
  match x with
  | .plain p => [usedOf g p.start p.stop p.freq p.wacc]
  | .scaled p b => [usedOf g (clipStart b.start p.start) (clipStop b.stop p.stop) b.freq b.wacc, usedOf g p.start p.stop p.freq p.wacc]
  | .structured p inner => inner.map fun q => usedOf g (clipStart q.start p.start) (clipStop q.stop p.stop) q.freq q.wacc

/-- "the grid set before" of asset `a`: its own attribute; a scaled asset without one works on its base asset's -/
def ownGrid (env : Env) (ptrs : Ptrs) (a : Nat) : Option Nat :=
  match ptrs.asset a with
  | some g => some g
  | none => match env.asset a with
    | .scaled _ _ => ptrs.sub a 0
    | _ => none

def setupPure (env : Env) (ptrs : Ptrs) : Call → Result
  | .setup a arg =>
    match (match arg with | some g => some g | none => ownGrid env ptrs a) with
    | some g => .ok (pureAsset (env.asset a) g)
    | none => .error .noGrid
  | .setupSub a i arg =>
    match (env.asset a).subs[i]? with
    | none => .ok []
    | some q =>
      match (match arg with | some g => some g | none => ptrs.sub a i) with
      | some g => .ok [usedOf g q.start q.stop q.freq q.wacc]
      | none => .error .noGrid
  | .setupPortfolio arg =>
    match (match arg with | some g => some g | none => ptrs.pf) with
    | some g => .ok ((List.range env.length).flatMap fun a => pureAsset (env.asset a) g)
    | none => .error .noGrid
  | .setupSplit _ tmp => .ok (tmp.flatMap fun t => (List.range env.length).flatMap fun a => pureAsset (env.asset a) t)
  | .setTimegrid _ _ => .ok []
  | .setTimegridSub _ _ _ => .ok []
  | .dcf _ => .ok []
  | .fillLevel a => match ptrs.asset a with | some _ => .ok [] | none => .error .noGrid
  | .makeSlp _ _ => .ok []

/-- what the documentation promises about the grid attributes after a call that names a grid: the portfolio, every
    asset and every wrapped asset sit on `g` (used to state finding H3) -/
def AllOn (env : Env) (s : PyState) (g : Nat) : Prop :=
  s.pf = some g ∧ ∀ a, a < env.length → (s.assets a).grid = some g ∧ ∀ b ∈ (s.assets a).sub, b.grid = some g

/-! ## interval data: the normal form `values_to_grid` used to leave behind in the caller's dict -/

/-- `{start, end?, values}` with instants already localised -/
structure IntervalDict where
  starts : List Int
  ends   : Option (List Int)
  values : List Rat
  deriving Repr, Inhabited

def IntervalDict.intervals (d : IntervalDict) : List EAO.Interval :=
  EAO.mkIntervals d.starts d.ends d.values none

/-- the normal form: lists, and the implicit ends written out (`end` present afterwards).  A single
    start without end stays open ended ("for ever"): it has no finite normal form, the code writes
    `pd.Timestamp.max` -/
def normalise (d : IntervalDict) : IntervalDict :=
  match d.ends with
  | some _ => d
  | none =>
    let es := EAO.implicitEnds d.starts
    if es.all Option.isSome then { d with ends := some (es.map fun e => e.getD 0) } else d

end EAO.State
