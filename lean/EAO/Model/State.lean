import EAO.Model.Grid
/-!
# EAO.Model.State — the mutable Python state that problem set-up touches (property C10)

A deliberately small, explicit state machine of exactly the mutable slots `eaopack` has around
`setup_optim_problem` (no Mathlib; imports only `EAO.Model.Grid` for the interval-data part):

* a `Timegrid` OBJECT (`GridObj`) has two slots written by `Asset.set_timegrid`:
  `restricted` (`set_restricted_grid(start, end, freq)`: the window and frequency of the asset that
  called last) and `disc` (`set_wacc(wacc)`: the wacc whose discount factors are stored).  Several
  grid objects may be alive (`Nat` identifies the object); all assets of a portfolio share one.
* the assets of a portfolio are object TREES (`Asset`): a `ScaledAsset` wraps a base asset, a
  `StructuredAsset` / `LinkedAsset` wraps a list of inner assets, and the wrapped assets may be wrappers
  again (scaled over structured, structured holding scaled / structured / linked, to any depth).
  Every object of the tree has the attributes `timegrid` (`ObjSt.grid`, `none` = attribute absent),
  `start` and `end` (`ObjSt.start`, `ObjSt.stop`): the latter two are overwritten (clipped by the
  wrapper's CURRENT window) for the duration of the wrapper's set-up and restored afterwards (`finally:`).
  An object is addressed by its path (`Addr`): `[a]` is the `a`-th asset of the portfolio, `ad ++ [i]` the
  `i`-th asset wrapped by the object `ad` (the base asset of a scaled asset is number 0).
* a `Portfolio` has the attribute `timegrid` (`PyState.pf`).

A primitive problem builder (contract, storage, ...) READS the two slots of the grid object it works
on (`self.timegrid.restricted.*`, `...restricted.discount_factors`); so do a `ScaledAsset` (length of its
restricted grid for the fix costs) and a `LinkedAsset` (`self.timegrid.restricted.T`: the loop over the steps).
`Used` records what they read: that is the only way state can leak into a problem, all other inputs are arguments.

`setupSt v env s call` mirrors the code literally; `v : Version` selects the code version, `current`
is the tree after the repairs:
* `rederive` (commit 7e0d787): every `setup_optim_problem` calls `self.set_timegrid(timegrid)` first,
  also when no grid argument is given ("use grid set before.  The grid object may be shared, thus set
  restricted grid again", assets.py:328-331 and the same lines in every builder).  `false`: without
  grid argument the builder read whatever the slots held.
* `scaledOwnGrid` (commit 19afd7c): a `ScaledAsset` called without grid argument hands its OWN
  `timegrid` attribute to the base asset (`if (timegrid is None) and hasattr(self, 'timegrid'):
  timegrid = self.timegrid`, assets.py:2510-2511).  `false`: the base asset used its own attribute.
`setupPure env ptrs call` is what the builders SHOULD read: the object's own window (clipped by the windows
of all wrappers above it INSIDE the object the call names), frequency and wacc on the grid the call names (or,
without grid argument, on the grid the object itself was put on: the objects' own `timegrid` attributes are
legitimate input, `ptrs`; a scaled asset that never saw a grid itself falls back to its base asset's).

A `LinkedAsset` is a structured asset (`linked = true`) that, after the structured set-up, reads the restricted
slot of its grid: what the wrapped asset set up LAST left there (known finding F-09e is about exactly this read;
`lastWrite`).  A linked asset over an EMPTY portfolio has no variable to link (its loop raises at the first
step): no read is recorded for it.

Known finding H3 is part of the model: `setupSplit g tmp` (`Portfolio.setup_split_optim_problem`)
sets every interval up on a temporary grid object and then (`finally:`, also after a failure: commit eb7f7dd) puts the
portfolio and the TOP-LEVEL assets back on `g` (portfolio.py:252-259); wrapped assets (at every depth) keep the grid of the last interval, which
a direct set-up of a wrapped asset without grid argument then uses.

Not in this model (covered only by the history oracle `harness/comp/history.py`): Python object
aliasing of parameter containers (one asset object at two places of a tree), pandas in-place semantics
(`prices_to_grid`), the numeric content of restricted grids and discount factors (models `EAO.Model.Grid`),
exceptions other than "no grid set".
-/
namespace EAO.State

/-- window, own frequency and wacc of an asset: everything `set_timegrid` writes into the grid object -/
structure Params where
  start : Option Int := none
  stop  : Option Int := none
  freq  : Option Nat := none
  wacc  : Rat := 0
  deriving DecidableEq, Repr, Inhabited

/-- code version switches (see the module text) -/
structure Version where
  rederive      : Bool := true
  scaledOwnGrid : Bool := true
  deriving DecidableEq, Repr

/-- the tree after commits 7e0d787 and 19afd7c -/
def current : Version := {}

/-- the object tree of one asset: `scaled p base` = `ScaledAsset(base_asset = base)`,
    `structured p false inner` = `StructuredAsset(Portfolio(inner))`, `structured p true inner` = `LinkedAsset(...)` -/
inductive Asset where
  | plain (p : Params)
  | scaled (p : Params) (base : Asset)
  | structured (p : Params) (linked : Bool) (inner : List Asset)
  deriving Inhabited

def Asset.params : Asset → Params
  | .plain p => p
  | .scaled p _ => p
  | .structured p _ _ => p

/-- the objects directly wrapped -/
def Asset.subs : Asset → List Asset
  | .plain _ => []
  | .scaled _ b => [b]
  | .structured _ _ inner => inner

abbrev Addr := List Nat

/-- the object at a path below `x` -/
def Asset.sub? : Asset → List Nat → Option Asset
  | x, [] => some x
  | x, i :: r => match x.subs[i]? with
    | some c => c.sub? r
    | none => none

abbrev Slot := Option Int × Option Int × Option Nat

/-- the two slots of one `Timegrid` object -/
structure GridObj where
  restricted : Option Slot := none
  disc       : Option Rat := none
  deriving DecidableEq, Repr, Inhabited

/-- mutable attributes of one asset object -/
structure ObjSt where
  grid  : Option Nat := none
  start : Option Int := none
  stop  : Option Int := none
  deriving DecidableEq, Repr, Inhabited

abbrev Grids := Nat → GridObj
abbrev Objs := Addr → ObjSt

def Objs.set (O : Objs) (ad : Addr) (o : ObjSt) : Objs := fun a => if a = ad then o else O a

structure PyState where
  grids : Grids
  objs  : Objs
  pf    : Option Nat

abbrev Env := List Asset

/-- the `a`-th asset of the portfolio (an index beyond the list behaves like a plain asset without window: total functions) -/
def Env.asset (env : Env) (a : Nat) : Asset := env.getD a (.plain {})

/-- the object an address names -/
def Env.at (env : Env) : Addr → Option Asset
  | [] => none
  | a :: r => (env.asset a).sub? r

abbrev Win := Option Int × Option Int

def win (o : ObjSt) : Win := (o.start, o.stop)
def pwin (q : Params) : Win := (q.start, q.stop)

/-- the window an object was constructed with (`(none, none)` where there is no object) -/
def iwin (env : Env) (ad : Addr) : Win :=
  match env.at ad with
  | some x => pwin x.params
  | none => (none, none)

/-- freshly constructed objects: no grid anywhere, no slot written -/
def init (env : Env) : PyState :=
  { grids := fun _ => {},
    objs := fun ad =>
      let w := iwin env ad
      { grid := none, start := w.1, stop := w.2 },
    pf := none }

/-- what a builder reads -/
structure Used where
  grid       : Nat
  restricted : Option Slot
  disc       : Option Rat
  deriving DecidableEq, Repr, Inhabited

inductive Err where
  | noGrid      -- 'Set timegrid of asset before creating optim problem' / no attribute 'timegrid'
  deriving DecidableEq, Repr

abbrev Result := Except Err (List Used)

instance : DecidableEq Result := fun a b =>
  match a, b with
  | .ok x, .ok y => if h : x = y then isTrue (by rw [h]) else isFalse (by intro h'; cases h'; exact h rfl)
  | .error x, .error y => if h : x = y then isTrue (by rw [h]) else isFalse (by intro h'; cases h'; exact h rfl)
  | .ok _, .error _ => isFalse (by intro h; cases h)
  | .error _, .ok _ => isFalse (by intro h; cases h)

/-- `Asset.set_timegrid` on the grid object `g`: `set_wacc(wacc)` and `set_restricted_grid(start, end, freq)` -/
def writeSlots (G : Grids) (g : Nat) (start stop : Option Int) (freq : Option Nat) (wacc : Rat) : Grids :=
  fun i => if i = g then { restricted := some (start, stop, freq), disc := some wacc } else G i

/-- `set_restricted_grid` alone (`Storage.fill_level`, `make_slp`) -/
def writeRestricted (G : Grids) (g : Nat) (sl : Slot) : Grids :=
  fun i => if i = g then { G i with restricted := some sl } else G i

def readSlots (G : Grids) (g : Nat) : Used :=
  { grid := g, restricted := (G g).restricted, disc := (G g).disc }

/-- one primitive `setup_optim_problem(prices, timegrid = arg)` of an asset whose attributes are
    `ptr` (its `timegrid`), `start`, `stop` (current values), `freq`, `wacc`.
    Returns the grid objects, the new `timegrid` attribute and what the builder read. -/
def buildPlain (rederive : Bool) (G : Grids) (ptr : Option Nat) (start stop : Option Int) (freq : Option Nat) (wacc : Rat)
    (arg : Option Nat) : Grids × Option Nat × Except Err Used :=
  -- `if (timegrid is None) and hasattr(self, 'timegrid'): timegrid = self.timegrid`   (only when `rederive`)
  let tg : Option Nat := match arg with
    | some g => some g
    | none => if rederive then ptr else none
  match tg with
  | some g =>
    -- `self.set_timegrid(timegrid)`
    let G' := writeSlots G g start stop freq wacc
    (G', some g, .ok (readSlots G' g))
  | none =>
    match ptr with
    | none => (G, none, .error .noGrid)          -- `if not hasattr(self, 'timegrid'): raise`
    | some g => (G, some g, .ok (readSlots G g))   -- pre-fix: reads the slots as they are

/-- start / end of a wrapped asset clipped by the wrapper's window (portfolio.py:372-378, assets.py:2517-2522) -/
def clipStart (own wrapper : Option Int) : Option Int :=
  match wrapper, own with
  | none, o => o
  | some w, none => some w
  | some w, some o => some (if o ≤ w then w else o)     -- max

def clipStop (own wrapper : Option Int) : Option Int :=
  match wrapper, own with
  | none, o => o
  | some w, none => some w
  | some w, some o => some (if o ≤ w then o else w)     -- min

/-- is `a` the address of one of the first `n` objects wrapped by `ad`? -/
def isKid (ad : Addr) (n : Nat) (a : Addr) : Bool :=
  a.dropLast == ad && (match a.getLast? with | some i => decide (i < n) | none => false)

/-- first loop of `StructuredAsset.setup_optim_problem` (object part): every inner asset gets start / end clipped by the
    wrapper's window `s e` and `a.set_timegrid(timegrid)` (its own attribute points to `g`) -/
def clipKids (ad : Addr) (n : Nat) (s e : Option Int) (g : Nat) (O : Objs) : Objs :=
  fun a =>
    let o := O a      -- (looked up once: the objects are closures over all earlier updates)
    if isKid ad n a then { grid := some g, start := clipStart o.start s, stop := clipStop o.stop e } else o

/-- the same loop, grid part: what the `set_timegrid` calls write into the slots, one entry (clipped start, clipped end, frequency, wacc)
    per inner asset (`i`: number of the first asset of the list; `O`: the objects BEFORE the loop) -/
def kidSlots (ad : Addr) (s e : Option Int) (O : Objs) : List Asset → Nat → List (Slot × Rat)
  | [], _ => []
  | c :: cs, i =>
    let o := O (ad ++ [i])
    ((clipStart o.start s, clipStop o.stop e, c.params.freq), c.params.wacc) :: kidSlots ad s e O cs (i + 1)

/-- the slots of `g` written one after the other -/
def writeAll (g : Nat) : List (Slot × Rat) → Grids → Grids
  | [], G => G
  | (sl, w) :: r, G => writeAll g r (writeSlots G g sl.1 sl.2.1 sl.2.2 w)

/-- the grid objects after the first loop of `StructuredAsset.setup_optim_problem` -/
def writeKids (ad : Addr) (s e : Option Int) (g : Nat) (O : Objs) (cs : List Asset) (i : Nat) (G : Grids) : Grids :=
  writeAll g (kidSlots ad s e O cs i) G

/-- `orig_start_end = [(a.start, a.end) for a in self.portfolio.assets]`: the windows of the `n` objects wrapped by `ad` -/
def kidWins (ad : Addr) (n : Nat) (O : Objs) : List Win :=
  (List.range n).map fun i => win (O (ad ++ [i]))

/-- `finally:` the inner assets get the start / end back they had before (`orig`, one entry per inner asset) -/
def restoreKids (ad : Addr) (orig : List Win) (O : Objs) : Objs :=
  fun a =>
    let o := O a
    if isKid ad orig.length a then
      let w := orig.getD (a.getLast?.getD 0) (none, none)
      { o with start := w.1, stop := w.2 }
    else o

/-- 19afd7c: the grid a scaled asset hands to its base asset: `if (timegrid is None) and hasattr(self, 'timegrid'): timegrid = self.timegrid` -/
def scaledArg (v : Version) (arg ptr : Option Nat) : Option Nat :=
  match arg with
  | some g => some g
  | none => if v.scaledOwnGrid then ptr else none

/-- 0e4cac8: the base asset's start / end are clipped by the scaled asset's own (current) window for the duration of the set-up -/
def scaledClipWith (O : Objs) (ad : Addr) (o bo : ObjSt) : Objs :=
  O.set (ad ++ [0]) { bo with start := clipStart bo.start o.start, stop := clipStop bo.stop o.stop }

/-- the same with the two objects looked up (`o` = the scaled asset, `bo` = its base asset).  (The set-up functions hand the
    looked-up objects to `scaledClipWith` / the evaluated list to `writeAll`: a definition of function type that looks objects up
    in its body would do so again at every later access to the state it returns.) -/
def scaledClip (O : Objs) (ad : Addr) : Objs :=
  scaledClipWith O ad (O ad) (O (ad ++ [0]))

/-- `ScaledAsset.setup_optim_problem` after the set-up of the base asset returned `res` (`O`: the objects before the call):
    `finally:` the base asset's own start / end back; `self.set_timegrid(self.base_asset.timegrid)`;
    the wrapper then reads `self.timegrid.restricted.dt.sum()` -/
def scaledFinish (p : Params) (ad : Addr) (O : Objs) : Grids × Objs × Result → Grids × Objs × Result
  | (G2, O2, r) =>
    let O3 := O2.set (ad ++ [0]) { O2 (ad ++ [0]) with start := (O (ad ++ [0])).start, stop := (O (ad ++ [0])).stop }
    match r with
    | .error e => (G2, O3, .error e)
    | .ok us =>
      match (O2 (ad ++ [0])).grid with
      | none => (G2, O3, .error .noGrid)        -- unreachable: an asset that was set up has a grid
      | some g =>
        let G3 := writeSlots G2 g (O ad).start (O ad).stop p.freq p.wacc
        (G3, O3.set ad { O ad with grid := some g }, .ok (us ++ [readSlots G3 g]))

/-- `StructuredAsset.setup_optim_problem`: `if timegrid is None: timegrid = self.timegrid else: self.set_timegrid(timegrid)`:
    the grid to work on and the grid objects after the wrapper's own `set_timegrid`, if any -/
def structuredGrid (p : Params) (arg : Option Nat) (o : ObjSt) (G : Grids) : Option (Nat × Grids) :=
  match arg with
  | some g => some (g, writeSlots G g o.start o.stop p.freq p.wacc)
  | none => match o.grid with
    | some g => some (g, G)
    | none => none

/-- `StructuredAsset.setup_optim_problem` after the inner portfolio's set-up returned `res` (`Oa`: the objects before the inner
    assets were clipped; `orig`: their windows then): `finally:` own start / end of the inner assets back; a `LinkedAsset` then loops
    `for t in range(self.timegrid.restricted.T)` -/
def structuredFinish (linked : Bool) (ad : Addr) (g : Nat) (orig : List Win) : Grids × Objs × Result → Grids × Objs × Result
  | (G2, O2, r) =>
    let O3 := restoreKids ad orig O2
    match r with
    | .error e => (G2, O3, .error e)
    | .ok us => (G2, O3, .ok (if linked && orig.length != 0 then us ++ [readSlots G2 g] else us))

/-- the reads of the assets set up before those of the rest of the loop -/
def consRes (us : List Used) : Grids × Objs × Result → Grids × Objs × Result
  | (G, O, .ok vs) => (G, O, .ok (us ++ vs))
  | (G, O, .error e) => (G, O, .error e)

mutual
/-- `x.setup_optim_problem(prices, timegrid = arg)` for the object tree `x` living at address `ad` -/
def setupTree (v : Version) : Asset → Addr → Option Nat → Grids → Objs → Grids × Objs × Result
  | .plain p, ad, arg, G, O =>
    match buildPlain v.rederive G (O ad).grid (O ad).start (O ad).stop p.freq p.wacc arg with
    | (G', ptr, r) => (G', O.set ad { O ad with grid := ptr }, r.map fun u => [u])
  | .scaled p b, ad, arg, G, O =>
    -- `op = self.base_asset.setup_optim_problem(prices, timegrid)` between clipping and restoring the base asset's window
    scaledFinish p ad O (setupTree v b (ad ++ [0]) (scaledArg v arg (O ad).grid) G (scaledClipWith O ad (O ad) (O (ad ++ [0]))))
  | .structured p linked inner, ad, arg, G, O =>
    match structuredGrid p arg (O ad) G with
    | none => (G, O, .error .noGrid)
    | some (g, G0) =>
      let Oa := O.set ad { O ad with grid := some g }
      -- clip start / end of every inner asset and `a.set_timegrid(timegrid)`; then the inner portfolio: every inner asset is
      -- called with `timegrid = g`
      let slots := kidSlots ad (O ad).start (O ad).stop Oa inner 0
      structuredFinish linked ad g (kidWins ad inner.length Oa)
        (setupList v inner ad 0 g (writeAll g slots G0) (clipKids ad inner.length (O ad).start (O ad).stop g Oa))
/-- the inner portfolio's loop over its assets (`i`: number of the first asset of the list), every one called with
    `timegrid = g`; an exception aborts the loop -/
def setupList (v : Version) : List Asset → Addr → Nat → Nat → Grids → Objs → Grids × Objs × Result
  | [], _, _, _, G, O => (G, O, .ok [])
  | x :: xs, ad, i, g, G, O =>
    match setupTree v x (ad ++ [i]) (some g) G O with
    | (G1, O1, .error e) => (G1, O1, .error e)
    | (G1, O1, .ok us) => consRes us (setupList v xs ad (i + 1) g G1 O1)
end

/-- `obj.setup_optim_problem(prices, timegrid = arg)` for the object at address `ad` (top-level or wrapped, called directly) -/
def setupAt (v : Version) (env : Env) (s : PyState) (ad : Addr) (arg : Option Nat) : PyState × Result :=
  match env.at ad with
  | none => (s, .ok [])            -- no such object
  | some x =>
    match setupTree v x ad arg s.grids s.objs with
    | (G, O, r) => ({ s with grids := G, objs := O }, r)

/-- `Portfolio.setup_optim_problem`'s loop: every asset is called with `timegrid = self.timegrid` -/
def setupAll (v : Version) (env : Env) (g : Nat) : PyState → List Nat → PyState × Result
  | s, [] => (s, .ok [])
  | s, a :: rest =>
    match setupAt v env s [a] (some g) with
    | (s1, .error e) => (s1, .error e)
    | (s1, .ok us) =>
      match setupAll v env g s1 rest with
      | (s2, .ok vs) => (s2, .ok (us ++ vs))
      | (s2, .error e) => (s2, .error e)

inductive Call where
  | setTimegrid (ad : Addr) (g : Nat)       -- `obj.set_timegrid(tg)` (top-level asset `[a]` or wrapped asset)
  | setup (ad : Addr) (arg : Option Nat)    -- `obj.setup_optim_problem(prices[, tg])` (top-level asset `[a]` or wrapped asset, called directly)
  | setupPortfolio (arg : Option Nat)       -- `portfolio.setup_optim_problem(prices[, tg])` (also cost samples)
  | setupSplit (g : Nat) (tmp : List Nat)   -- `portfolio.setup_split_optim_problem(prices, tg, ...)`; `tmp`: the interval grid objects
  | dcf (a : Nat)                           -- `asset.dcf(op, res)`: reads `self.timegrid.T` only
  | fillLevel (a : Nat)                     -- `storage.fill_level(op, res)`: `set_restricted_grid` of its own window
  | makeSlp (g : Nat) (t : Int)             -- `make_slp(op, portf, tg, start_future, samples)`
  deriving Repr

def setupPortfolioSt (v : Version) (env : Env) (s : PyState) (arg : Option Nat) : PyState × Result :=
  let s0 : PyState := match arg with | some g => { s with pf := some g } | none => s
  match s0.pf with
  | none => (s0, .error .noGrid)
  | some g => setupAll v env g s0 (List.range env.length)

/-- `Asset.set_timegrid(tg)` (inherited by every asset class: the object's own attribute and the slots only; its CURRENT start / end) -/
def setTimegridSt (env : Env) (s : PyState) (ad : Addr) (g : Nat) : PyState :=
  match env.at ad with
  | none => s
  | some x =>
    let o := s.objs ad
    { s with grids := writeSlots s.grids g o.start o.stop x.params.freq x.params.wacc,
             objs := s.objs.set ad { o with grid := some g } }

/-- the loop over the intervals of a split set-up: `self.setup_optim_problem(prices_tmp, timegrid_tmp, ...)` -/
def setupIntervals (v : Version) (env : Env) : PyState → List Nat → PyState × Result
  | s, [] => (s, .ok [])
  | s, t :: ts =>
    match setupAll v env t { s with pf := some t } (List.range env.length) with
    | (s1, .error e) => (s1, .error e)
    | (s1, .ok us) =>
      match setupIntervals v env s1 ts with
      | (s2, .ok vs) => (s2, .ok (us ++ vs))
      | (s2, .error e) => (s2, .error e)

/-- `for a in self.assets: a.set_timegrid(timegrid)` — top-level assets only (portfolio.py:258-259) -/
def restoreTop (env : Env) (g : Nat) : PyState → List Nat → PyState
  | s, [] => s
  | s, a :: rest => restoreTop env g (setTimegridSt env s [a] g) rest

def setupSt (v : Version) (env : Env) (s : PyState) : Call → PyState × Result
  | .setTimegrid ad g => (setTimegridSt env s ad g, .ok [])
  | .setup ad arg => setupAt v env s ad arg
  | .setupPortfolio arg => setupPortfolioSt v env s arg
  | .setupSplit g tmp =>
    -- eb7f7dd: `try: ... finally: self.set_timegrid(timegrid); for a in self.assets: a.set_timegrid(timegrid)`: the portfolio and
    -- the TOP-LEVEL assets go back to the grid of the whole horizon, also when the set-up of an interval fails
    match setupIntervals v env s tmp with
    | (s1, r) => (restoreTop env g { s1 with pf := some g } (List.range env.length), r)
  | .dcf _ => (s, .ok [])
  | .fillLevel a =>
    let o := s.objs [a]
    match o.grid with
    | some g => ({ s with grids := writeRestricted s.grids g (o.start, o.stop, (env.asset a).params.freq) }, .ok [])
    | none => (s, .error .noGrid)
  | .makeSlp g t =>
    -- future / present split on the caller's grid object, then `portf.create_cost_samples(samples, timegrid)`
    let s1 : PyState := { s with grids := writeRestricted (writeRestricted s.grids g (some t, none, none)) g (none, some t, none) }
    let r := setupPortfolioSt v env s1 (some g)
    (r.1, r.2.map fun _ => [])

def run (v : Version) (env : Env) (s : PyState) : List Call → PyState
  | [] => s
  | c :: cs => run v env (setupSt v env s c).1 cs

/-- reachable: the state after any finite call sequence on freshly constructed objects -/
def Reachable (v : Version) (env : Env) (s : PyState) : Prop :=
  ∃ calls, s = run v env (init env) calls

/-! ## what the builders should read -/

/-- the objects' own `timegrid` attributes: legitimate input of a call without grid argument -/
structure Ptrs where
  obj : Addr → Option Nat
  pf  : Option Nat

def ownPtrs (s : PyState) : Ptrs :=
  { obj := fun ad => (s.objs ad).grid, pf := s.pf }

def usedOf (g : Nat) (start stop : Option Int) (freq : Option Nat) (wacc : Rat) : Used :=
  { grid := g, restricted := some (start, stop, freq), disc := some wacc }

mutual
/-- what the slots of grid `g` hold after the object tree (CURRENT window `s e` of its root) was set up with `timegrid = g` -/
def lastWrite (g : Nat) : Asset → Option Int → Option Int → Used
  | .plain p, s, e => usedOf g s e p.freq p.wacc
  | .scaled p _, s, e => usedOf g s e p.freq p.wacc
  | .structured p _ inner, s, e => lastWriteL g inner s e (usedOf g s e p.freq p.wacc)
/-- the same for the inner assets of a wrapper with window `s e` (`d`: what the slots held before) -/
def lastWriteL (g : Nat) : List Asset → Option Int → Option Int → Used → Used
  | [], _, _, d => d
  | c :: cs, s, e, _ => lastWriteL g cs s e (lastWrite g c (clipStart c.params.start s) (clipStop c.params.stop e))
end

mutual
/-- what the builders of the object tree should read on grid `g`, the root's CURRENT window being `s e`: every object its
    own window clipped by the windows of all wrappers above it, its own frequency and wacc; a scaled asset after its base
    asset; a linked asset, after its inner assets, what the LAST of them left -/
def pureAt (g : Nat) : Asset → Option Int → Option Int → List Used
  | .plain p, s, e => [usedOf g s e p.freq p.wacc]
  | .scaled p b, s, e => pureAt g b (clipStart b.params.start s) (clipStop b.params.stop e) ++ [usedOf g s e p.freq p.wacc]
  | .structured p linked inner, s, e =>
    if linked && inner.length != 0 then pureList g inner s e ++ [lastWriteL g inner s e (usedOf g s e p.freq p.wacc)]
    else pureList g inner s e
def pureList (g : Nat) : List Asset → Option Int → Option Int → List Used
  | [], _, _ => []
  | c :: cs, s, e => pureAt g c (clipStart c.params.start s) (clipStop c.params.stop e) ++ pureList g cs s e
end

def pureAsset (x : Asset) (g : Nat) : List Used := pureAt g x x.params.start x.params.stop

/-- the window the object at path `q` below `x` has while `x` (current window `s e`) is set up: its own window clipped by the
    windows of all wrappers above it -/
def effWin : Asset → List Nat → Option Int → Option Int → Win
  | _, [], s, e => (s, e)
  | x, i :: q, s, e => match x.subs[i]? with
    | some c => effWin c q (clipStart c.params.start s) (clipStop c.params.stop e)
    | none => (s, e)

/-- "the grid set before" of the object at `ad`: its own attribute; a scaled asset without one works on its base asset's -/
def ownGrid (P : Addr → Option Nat) : Asset → Addr → Option Nat
  | .scaled _ b, ad => match P ad with
    | some g => some g
    | none => ownGrid P b (ad ++ [0])
  | .plain _, ad => P ad
  | .structured _ _ _, ad => P ad

def setupPure (env : Env) (ptrs : Ptrs) : Call → Result
  | .setup ad arg =>
    match env.at ad with
    | none => .ok []
    | some x =>
      match (match arg with | some g => some g | none => ownGrid ptrs.obj x ad) with
      | some g => .ok (pureAsset x g)
      | none => .error .noGrid
  | .setupPortfolio arg =>
    match (match arg with | some g => some g | none => ptrs.pf) with
    | some g => .ok ((List.range env.length).flatMap fun a => pureAsset (env.asset a) g)
    | none => .error .noGrid
  | .setupSplit _ tmp => .ok (tmp.flatMap fun t => (List.range env.length).flatMap fun a => pureAsset (env.asset a) t)
  | .setTimegrid _ _ => .ok []
  | .dcf _ => .ok []
  | .fillLevel a =>
    match ptrs.obj [a] with | some _ => .ok [] | none => .error .noGrid
  | .makeSlp _ _ => .ok []

mutual
/-- the paths of all objects of a tree -/
def Asset.paths : Asset → List (List Nat)
  | .plain _ => [[]]
  | .scaled _ b => [] :: b.paths.map (0 :: ·)
  | .structured _ _ inner => [] :: pathsL inner 0
def pathsL : List Asset → Nat → List (List Nat)
  | [], _ => []
  | c :: cs, i => c.paths.map (i :: ·) ++ pathsL cs (i + 1)
end

/-- what the documentation promises about the grid attributes after a call that names a grid: the portfolio, every
    asset and every wrapped asset (at every depth) sit on `g` (used to state finding H3) -/
def AllOn (env : Env) (s : PyState) (g : Nat) : Prop :=
  s.pf = some g ∧ ∀ a, a < env.length → ∀ p ∈ (env.asset a).paths, (s.objs (a :: p)).grid = some g

/-! ## interval data: the normal form `values_to_grid` used to leave behind in the caller's dict -/

/-- `{start, end?, values}` with instants already localised -/
structure IntervalDict where
  starts : List Int
  ends   : Option (List Int)
  values : List Rat
  deriving Repr, Inhabited

def IntervalDict.intervals (d : IntervalDict) : List EAO.Interval :=
  EAO.mkIntervals d.starts d.ends d.values none

/-- the normal form: lists, and the implicit ends written out (`end` present afterwards).  A single
    start without end stays open ended ("for ever"): it has no finite normal form, the code writes
    `pd.Timestamp.max` -/
def normalise (d : IntervalDict) : IntervalDict :=
  match d.ends with
  | some _ => d
  | none =>
    let es := EAO.implicitEnds d.starts
    if es.all Option.isSome then { d with ends := some (es.map fun e => e.getD 0) } else d

end EAO.State
