import EAO.Model.CHP
/-!
# EAO.Model.CHPProfile — `CHPAsset` / `Plant` WITH start / shutdown ramp profiles (`eaopack/assets.py`)

A start ramp profile (`start_ramp_lower_bounds`, `start_ramp_upper_bounds`, `S` entries after conversion to the
grid's frequency) prescribes bounds for the virtual dispatch `v = power + conv·heat` in the `k`-th step after a
start (`k = 0 … S−1`, the step of the start being `k = 0`); a shutdown profile (`Q` entries) in the `k`-th step
BEFORE a shutdown (`k = 0` is the last step before the unit is off).  With a profile the code always has on,
start and shutdown variables (`shutdown_j` at index `shutdownIdx + j = startIdx + T + j`) and

* minimum runtime is increased by `S + Q`;
* capacity rows (steps `i ≥ max(0, S − tar)` when already running, else all):
    `v_i − min_i·on_i + Σ_{j<S, j≤i} (min_i − sl_j)·start_{i−j} + Σ_{j<Q, i+j+1<T} (min_i − ql_j)·shut_{i+j+1} ≥ 0`
    `v_i − max_i·on_i + Σ_{j<S, j≤i} (max_i − su_j)·start_{i−j} + Σ_{j<Q, i+j+1<T} (max_i − qu_j)·shut_{i+j+1} ≤ 0`
  (a unit that started `j` steps ago — exactly one flag set — is bounded by `[sl_j, su_j]` instead of `[min, max]`);
* heat variants (ONLY when `shutdown_ramp_lower_bounds_heat` is given and there is a heat node), same steps:
    `heat_i − Σ slh_j·start_{i−j} − Σ qlh_j·shut_{i+j+1} ≥ 0`
    `heat_i − (max_i/conv_i)·on_i + Σ (max_i/conv_i − suh_j)·start_{i−j} + Σ (max_i/conv_i − quh_j)·shut_{i+j+1} ≤ 0`;
* a unit in its start ramp at the beginning (`0 < tar < S`): `sl_{tar+i} ≤ v_i ≤ su_{tar+i}` for `i < S − tar`;
* ramp rows (if `ramp` is given) are relaxed during the ramps:
    lower row of step `t`: `… + Σ_{i<Q, t+i<T} (max_{t−1} − ramp)·shut_{t+i}`,
    upper row of step `t`: `… + Σ_{i<S, i≤t} (ramp − max_t)·start_{t−i}`,
    first-step lower row: `… + Σ_{i<Q} (last − ramp)·shut_i` (no guard `i < T`: IndexError for `Q > T`);
* start and shutdown flags are defined simultaneously by EQUALITIES
    `on_{t+1} − on_t − start_{t+1} + shut_{t+1} = 0` (`t < T−1`),
    `on_0 − start_0 = 0` (was off) resp. `on_0 + shut_0 = 1` (was running),
    `start_t + shut_t ≤ 1` (ALL `t < T`, the last step included: repaired in /repo, commit e7aae05), and
    `u[shut_0] = 0` (was off) resp. `u[start_0] = 0` (was running);
* shutdown variables cost nothing and have no fuel rows.

`_convert_ramp` (profile given in `ramp_freq`, default: the main time unit) is modelled by `convertRamp`:
identity when the two frequency STRINGS are equal, linear interpolation (`np.interp`) when the grid is finer than
`ramp_freq`, (partial-step weighted) averaging when it is coarser; afterwards the bounds are multiplied by
`convert_time_unit(1, freq, main_time_unit)` = step / unit.
-/
namespace EAO

/-- constructor arguments: profiles as given, `rampFreqSec` = seconds of `ramp_freq` (of the main time unit when
    `ramp_freq` is `None`), `sameFreq` = the string comparison `ramp_freq == timegrid.freq` -/
structure CHPProfP where
  startLo  : Option (List Rat)
  startUp  : Option (List Rat)
  shutLo   : Option (List Rat)
  shutUp   : Option (List Rat)
  startLoH : Option (List Rat)
  startUpH : Option (List Rat)
  shutLoH  : Option (List Rat)
  shutUpH  : Option (List Rat)
  rampFreqSec : Nat
  sameFreq : Bool
  deriving Repr, Inhabited

/-- `np.interp(x, xp, fp)` for increasing `xp` (constant continuation on both sides) -/
def interp (xp fp : List Rat) (x : Rat) : Rat :=
  match xp, fp with
  | [], _ => 0
  | _, [] => 0
  | x0 :: xs, f0 :: fs =>
    if x ≤ x0 then f0 else
    let rec go : Rat → Rat → List Rat → List Rat → Rat
      | _, fa, [], _ => fa
      | _, fa, _, [] => fa
      | xa, fa, xb :: xr, fb :: fr =>
        if x < xb then fa + (x - xa) * ((fb - fa) / (xb - xa)) else go xb fb xr fr
    go x0 f0 xs fs

/-- `_convert_ramp(ramp, ramp_freq)` in exact arithmetic; `ct = step / ramp_freq` is `converted_time` -/
def convertRamp (ramp : List Rat) (stepSec rampSec : Nat) (sameFreq : Bool) : List Rat :=
  if sameFreq then ramp else
  let ct : Rat := (stepSec : Rat) / (rampSec : Rat)
  let n := ramp.length
  if ct < 1 then
    -- the grid is finer: interpolate between the old points `(j+1)·ramp_freq/step`
    let old := (List.range n).map fun j => ((j + 1 : Nat) : Rat) * (rampSec : Rat) / (stepSec : Rat)
    let newN := (((n : Nat) : Rat) * (rampSec : Rat) / (stepSec : Rat)).ceil.toNat
    (List.range newN).map fun k => interp old ramp ((k + 1 : Nat) : Rat)
  else
    -- the grid is coarser: average, partial old steps weighted by the covered share
    let padded := ramp ++ List.replicate ct.ceil.toNat (ramp.getLastD 0)
    let newN := (((n : Nat) : Rat) * (rampSec : Rat) / (stepSec : Rat)).ceil.toNat
    (List.range newN).map fun i =>
      let a : Rat := ((i : Nat) : Rat) * ct
      let ar := a.ceil.toNat
      let b : Rat := ((i + 1 : Nat) : Rat) * ct
      let br := b.floor.toNat
      let mid : Rat := if ar < br then (((padded.drop ar).take (br - ar)).sum / ((br - ar : Nat) : Rat)) * ((br - ar : Nat) : Rat) else 0
      let left : Rat := if (a : Rat) < ((ar : Nat) : Rat) then (((ar : Nat) : Rat) - a) * padded.getD (ar - 1) 0 else 0
      let right : Rat := if ((br : Nat) : Rat) < b then (b - ((br : Nat) : Rat)) * padded.getD br 0 else 0
      (mid + left + right) / (b - a)

/-- profiles on the grid: `S`, `Q` and the bounds in volume per step -/
structure CHPProf where
  sl  : List Rat
  su  : List Rat
  ql  : List Rat
  qu  : List Rat
  slh : Option (List Rat)
  suh : Option (List Rat)
  qlh : Option (List Rat)
  quh : Option (List Rat)
  deriving Repr, Inhabited

def CHPProf.S (f : CHPProf) : Nat := f.sl.length
def CHPProf.Q (f : CHPProf) : Nat := f.ql.length

/-- resolved inputs with profiles: the profile-free part (`core`, with the increased minimum runtime and all
    three include decisions true) and the profiles -/
structure CHPRP where
  core : CHPR
  prof : CHPProf
  deriving Repr, Inhabited

def CHPRP.shutIdx (r : CHPRP) : Nat := r.core.layout.startIdx + r.core.T
def CHPRP.shut (r : CHPRP) (j : Nat) : Nat := r.shutIdx + j

/-- `Σ_{j<S, j≤i} f(j)·start_{i−j}` as coefficient list -/
def CHPRP.startTerms (r : CHPRP) (i : Nat) (f : Nat → Rat) : List (Nat × Rat) :=
  ((List.range r.prof.S).filter fun j => decide (j ≤ i)).map fun j => (r.core.layout.start (i - j), f j)

/-- `Σ_{j<Q, i+j+1<T} f(j)·shut_{i+j+1}` (the code leaves the loop at the first `j` with `i+j+1 ≥ T`) -/
def CHPRP.shutTerms (r : CHPRP) (i : Nat) (f : Nat → Rat) : List (Nat × Rat) :=
  ((List.range r.prof.Q).filter fun j => decide (i + j + 1 < r.core.T)).map fun j => (r.shut (i + j + 1), f j)

/-- first step with ordinary capacity rows: `max(0, S − tar)` when already running -/
def CHPRP.firstCap (r : CHPRP) : Nat := if 0 < r.core.tar then r.prof.S - r.core.tar else 0

def CHPRP.capLower (r : CHPRP) (i : Nat) : Row :=
  let c := r.core
  { c.capLower i with coeffs := (c.capLower i).coeffs ++ r.startTerms i (fun j => c.minCap i - r.prof.sl.getD j 0) ++
                                  r.shutTerms i (fun j => c.minCap i - r.prof.ql.getD j 0) }

def CHPRP.capUpper (r : CHPRP) (i : Nat) : Row :=
  let c := r.core
  { c.capUpper i with coeffs := (c.capUpper i).coeffs ++ r.startTerms i (fun j => c.maxCap i - r.prof.su.getD j 0) ++
                                  r.shutTerms i (fun j => c.maxCap i - r.prof.qu.getD j 0) }

def CHPRP.capSteps (r : CHPRP) : List Nat := (List.range r.core.n).filter fun i => decide (r.firstCap ≤ i)

def CHPRP.heatProfLower (r : CHPRP) (slh qlh : List Rat) (i : Nat) : Row :=
  { coeffs := [(r.core.layout.heat i, 1)] ++ r.startTerms i (fun j => 0 - slh.getD j 0) ++ r.shutTerms i (fun j => 0 - qlh.getD j 0),
    rhs := 0, kind := .L }

def CHPRP.heatProfUpper (r : CHPRP) (suh quh : List Rat) (i : Nat) : Row :=
  let c := r.core
  let m := c.maxCap i / c.cv i
  { coeffs := [(c.layout.heat i, 1), (c.layout.on (c.stepOff i), - m)] ++ r.startTerms i (fun j => m - suh.getD j 0) ++
                r.shutTerms i (fun j => m - quh.getD j 0),
    rhs := 0, kind := .U }

/-- heat rows exist iff the SHUTDOWN heat lower profile is given (and there is a heat node) -/
def CHPRP.heatProfRows (r : CHPRP) : List Row :=
  match r.core.heat, r.prof.qlh with
  | true, some qlh =>
    let slh := r.prof.slh.getD []
    let suh := r.prof.suh.getD []
    let quh := r.prof.quh.getD []
    r.capSteps.map (r.heatProfLower slh qlh) ++ r.capSteps.map (r.heatProfUpper suh quh)
  | _, _ => []

/-- a unit in its start ramp at the beginning of the horizon -/
def CHPRP.initRampRows (r : CHPRP) : List Row :=
  let c := r.core
  if 0 < c.tar ∧ c.tar < r.prof.S then
    (List.range (r.prof.S - c.tar)).flatMap fun i =>
      [{ coeffs := c.virt i (c.cv i), rhs := r.prof.su.getD (c.tar + i) 0, kind := .U },
       { coeffs := c.virt i (c.cv i), rhs := r.prof.sl.getD (c.tar + i) 0, kind := .L }]
  else []

def CHPRP.capRows (r : CHPRP) : List Row :=
  r.capSteps.map r.capLower ++ r.capSteps.map r.capUpper ++ r.heatProfRows ++ r.initRampRows

def CHPRP.rampLower (r : CHPRP) (ρ : Rat) (t : Nat) : Row :=
  let c := r.core
  { c.rampLower ρ t with coeffs := (c.rampLower ρ t).coeffs ++
      (((List.range r.prof.Q).filter fun i => decide (t + i < c.T)).map fun i => (r.shut (t + i), c.maxCap (t - 1) - ρ)) }

def CHPRP.rampUpper (r : CHPRP) (ρ : Rat) (t : Nat) : Row :=
  let c := r.core
  { c.rampUpper ρ t with coeffs := (c.rampUpper ρ t).coeffs ++
      (((List.range r.prof.S).filter fun i => decide (i ≤ t)).map fun i => (c.layout.start (t - i), ρ - c.maxCap t)) }

def CHPRP.rampFirstLower (r : CHPRP) (ρ : Rat) : Row :=
  let c := r.core
  { c.rampFirstLower ρ with coeffs := (c.rampFirstLower ρ).coeffs ++
      ((List.range r.prof.Q).map fun i => (r.shut i, c.last - ρ)) }

def CHPRP.rampRows (r : CHPRP) : List Row :=
  match r.core.ramp with
  | none => []
  | some ρ =>
    ((List.range (r.core.T - 1)).flatMap fun k => [r.rampLower ρ (k + 1), r.rampUpper ρ (k + 1)]) ++
      [r.rampFirstLower ρ, r.core.rampFirstUpper ρ]

def CHPRP.startShutRow (r : CHPRP) (t : Nat) : Row :=
  let L := r.core.layout
  { coeffs := [(L.on (t + 1), 1), (L.on t, -1), (L.start (t + 1), -1), (r.shut (t + 1), 1)], rhs := 0, kind := .S }

def CHPRP.firstRunningRow (r : CHPRP) : Row :=
  { coeffs := [(r.core.layout.on 0, 1), (r.shut 0, 1)], rhs := 1, kind := .S }

def CHPRP.overlapRow (r : CHPRP) (t : Nat) : Row :=
  { coeffs := [(r.core.layout.start t, 1), (r.shut t, 1)], rhs := 1, kind := .U }

def CHPRP.startShutRows (r : CHPRP) : List Row :=
  (List.range (r.core.T - 1)).map r.startShutRow ++
    [if r.core.tar = 0 then r.core.startFirstRow else r.firstRunningRow] ++
    (List.range r.core.T).map r.overlapRow

def CHPRP.rows (r : CHPRP) : List Row :=
  r.core.baseRows ++ r.capRows ++ r.rampRows ++ r.startShutRows ++ r.core.runtimeRows ++ r.core.downtimeRows ++
    r.core.heatRows

/-- `xs[k] = v` -/
def setAt (xs : List Rat) (k : Nat) (v : Rat) : List Rat := setSlice xs k (k + 1) v

def CHPRP.lower (r : CHPRP) : List Rat := r.core.lower ++ List.replicate r.core.T 0

def CHPRP.upper (r : CHPRP) : List Rat :=
  let u := r.core.upper ++ List.replicate r.core.T 1
  if r.core.tar = 0 then setAt u r.shutIdx 0 else setAt u r.core.layout.startIdx 0

def CHPRP.cost (r : CHPRP) : List Rat := r.core.cost ++ List.replicate r.core.T 0

def CHPRP.shutRows (r : CHPRP) : List MapRow :=
  (r.core.boolRows "bool_shutdown").zipIdx.map fun q => { q.1 with var := r.core.mappingCore.length + q.2 }

def CHPRP.mapping (r : CHPRP) : List MapRow :=
  r.core.mappingCore ++ r.shutRows ++ (match r.core.fuel with | none => [] | some f => r.core.fuelRows f)

def assembleCHPP (r : CHPRP) : AssetProblem :=
  { name := r.core.name, nodes := r.core.nodes, c := r.cost, l := r.lower, u := r.upper, rows := r.rows,
    mapping := r.mapping }

/-! ## resolution -/

/-- constructor part for the profiles: defaults of the upper bounds, length and order assertions.
    Returns the raw (lower, upper) pairs; an absent lower profile means "no profile". -/
def profCtor (q : CHPProfP) : Except BuildError ((List Rat × List Rat) × (List Rat × List Rat)) := do
  let pair (lo up : Option (List Rat)) : Except BuildError (List Rat × List Rat) :=
    match lo with
    | none => pure ([], [])
    | some l =>
      let u := up.getD l
      if l.length ≠ u.length then throw .assertion
      else if (l.zip u).any (fun p => decide (p.2 < p.1)) then throw .assertion
      else pure (l, u)
  let s ← pair q.startLo q.startUp
  let d ← pair q.shutLo q.shutUp
  -- heat variants: same lengths as the power profiles
  match q.shutUpH with
  | none => pure ()
  | some uh =>
    if (q.shutLoH.getD []).length ≠ d.1.length ∨ uh.length ≠ d.2.length then throw .assertion
  match q.startUpH with
  | none => pure ()
  | some uh =>
    if uh.length ≠ s.2.length ∨ (q.startLoH.getD []).length ≠ s.1.length then throw .assertion
  pure (s, d)

/-- conversion to the grid: `_convert_ramp` and the factor step / unit -/
def mkProf (q : CHPProfP) (s d : List Rat × List Rat) (stepSec unitSec : Nat) : CHPProf :=
  let f : Rat := (stepSec : Rat) / (unitSec : Rat)
  let cv (l : List Rat) : List Rat := (convertRamp l stepSec q.rampFreqSec q.sameFreq).map (· * f)
  let cvo (o : Option (List Rat)) (active : Bool) : Option (List Rat) := if active then o.map cv else o
  { sl := if s.1.isEmpty then [] else cv s.1, su := if s.1.isEmpty then [] else cv s.2,
    ql := if d.1.isEmpty then [] else cv d.1, qu := if d.1.isEmpty then [] else cv d.2,
    slh := cvo q.startLoH (!s.1.isEmpty), suh := cvo q.startUpH (!s.1.isEmpty),
    qlh := cvo q.shutLoH (!d.1.isEmpty), quh := cvo q.shutUpH (!d.1.isEmpty) }

/-- `some (some r)`: profiles present and the window non-empty; `some none`: empty window; the profile-free case
    is not handled here (use `resolveCHPWith`) -/
def resolveCHPP (p : CHPP) (q : CHPProfP) (base : AssetProblem) (g : Grid) (prices : Prices) (unitSec stepSec : Nat)
    (costsOnly : Bool) : Except BuildError (Option CHPRP) := do
  let hf ← chpCtor p
  let sd ← profCtor q
  if g.T = 0 then return none
  if p.freqMismatch then throw .illPosed
  let prof := mkProf q sd.1 sd.2 stepSec unitSec
  let v ← chpVectors p g prices hf.1 hf.2
  let core := mkCHPR p base g hf.1 hf.2 v unitSec stepSec (prof.S + prof.Q) (decide (0 < prof.S) || decide (0 < prof.Q))
  let r : CHPRP := { core := core, prof := prof }
  chpCostCheck core
  if costsOnly then return some r
  chpLateChecks core
  -- `np.zeros(self.n - start)` with a negative length
  if core.n < r.firstCap then throw .illPosed
  -- the first-step lower ramp row addresses `shutdown_idx + i` for all `i < Q`
  if core.ramp.isSome ∧ core.T < prof.Q then throw .index
  pure (some r)

/-- does the asset have a profile (then `resolveCHPP` applies)? -/
def CHPProfP.active (q : CHPProfP) : Bool :=
  (match q.startLo with | some l => !l.isEmpty | none => false) || (match q.shutLo with | some l => !l.isEmpty | none => false)

/-- model of `CHPAsset.setup_optim_problem` / `Plant` with profiles -/
def buildCHPP (p : CHPP) (q : CHPProfP) (base : AssetProblem) (g : Grid) (prices : Prices) (unitSec stepSec : Nat) :
    Except BuildError AssetProblem := do
  match ← resolveCHPP p q base g prices unitSec stepSec false with
  | none => pure base
  | some r => pure (assembleCHPP r)

/-- the builder for either case: with a profile `buildCHPP`, without `buildCHP` -/
def buildCHPAny (p : CHPP) (q : CHPProfP) (base : AssetProblem) (g : Grid) (prices : Prices) (unitSec stepSec : Nat) :
    Except BuildError AssetProblem :=
  if q.active then buildCHPP p q base g prices unitSec stepSec else buildCHP p base g prices unitSec stepSec

end EAO
