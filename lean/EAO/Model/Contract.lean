import EAO.Model.Basic
import EAO.Model.Grid
import EAO.Model.Param
/-!
# EAO.Model.Contract — models of the contract and transport builders

`SimpleContract.setup_optim_problem`, `define_restr`, `Contract`, `MultiCommodityContract`, `Transport`,
`ExtendedTransport` of `eaopack/assets.py`, for an asset grid of the portfolio's own frequency (`freq=None`)
and without `periodicity` (both are modelled elsewhere).

The builders receive the asset's RESTRICTED grid `g` (`asset.timegrid.restricted`: points, reference
indices `I`, `dt`, discount factors), the price data (arrays over the FULL grid), the number of steps of the
full grid `fullT` (price arrays must have that length) and, where take periods exist, the length of the main
time unit in seconds.  Literal about: order of variables (`disp` | `disp_in` block then `disp_out` block),
order of rows (max-take rows, then min-take rows, each in the order of the periods, periods covering no step
omitted), order of mapping rows, the order in which the implementation detects errors, and the error class.

NaN: a capacity given as interval data may have gaps; comparisons with NaN are false, so a gap neither
triggers the `min_cap > max_cap` check nor satisfies `all(max_cap <= 0)`; the `OptimProblem` constructor
then rejects the problem (`nanInput`).
-/
namespace EAO

/-- change of the main time unit seen from the grid: every step length is multiplied by `k` -/
def Grid.scaleDt (k : Rat) (g : Grid) : Grid :=
  { g with dt := g.dt.map (· * k), Dt := g.Dt.map (· * k) }

/-- the per-step lists of a grid have the length of its point list -/
def Grid.Ok (g : Grid) : Prop := g.idx.length = g.T ∧ g.dt.length = g.T ∧ g.df.length = g.T

instance (g : Grid) : Decidable g.Ok := by unfold Grid.Ok; exact inferInstance

/-- a take period: start instant, end instant, volume -/
abbrev Take := Int × Int × Rat

structure ContractP where
  name       : String
  nodes      : List String        -- the contract sits in the first one; a multi-commodity contract uses all
  price      : Option String      -- key of the price series
  extraCosts : ParamValue
  minCap     : ParamValue
  maxCap     : ParamValue
  minTake    : List Take
  maxTake    : List Take
  deriving Repr, Inhabited

structure TransportP where
  name       : String
  nodes      : List String        -- exactly two: from, to
  costsConst : Rat
  costsKey   : Option String      -- `costs_time_series`
  minCap     : Rat                -- the constructor's `assert min_cap <= max_cap` only admits numbers
  maxCap     : Rat
  efficiency : Rat
  minTake    : List Take
  maxTake    : List Take
  deriving Repr, Inhabited

def Interval.scale (c : Rat) (iv : Interval) : Interval := { iv with value := iv.value * c }

/-- multiply every value of a parameter by `k`; a key refers to price data and is left alone -/
def ParamValue.scale (k : Rat) : ParamValue → ParamValue
  | .scalar v => .scalar (v * k)
  | .array vs => .array (vs.map (· * k))
  | .key s => .key s
  | .intervals ivs => .intervals (ivs.map (Interval.scale k))

def ParamValue.isKey : ParamValue → Bool
  | .key _ => true
  | _ => false

/-- re-express the rates of a contract for a main time unit that makes every `dt` `k` times as large -/
def ContractP.rescale (k : Rat) (p : ContractP) : ContractP :=
  { p with minCap := p.minCap.scale (1 / k), maxCap := p.maxCap.scale (1 / k) }

def TransportP.rescale (k : Rat) (p : TransportP) : TransportP :=
  { p with minCap := p.minCap * (1 / k), maxCap := p.maxCap * (1 / k) }

def rmin (a b : Rat) : Rat := if a ≤ b then a else b
def rmax (a b : Rat) : Rat := if a ≤ b then b else a

/-- `any(a > b)` on vectors that may hold NaN (`none`): comparisons with NaN are false -/
def anyGt (a b : List (Option Rat)) : Bool :=
  (a.zip b).any fun p => match p.1, p.2 with
    | some x, some y => decide (y < x)
    | _, _ => false

/-- the constructor's check, made only when both capacities are plain numbers -/
def scalarIllPosed : ParamValue → ParamValue → Bool
  | .scalar a, .scalar b => decide (b < a)
  | _, _ => false

/-- the price series restricted to the asset's steps: zero when no key is given; the key must exist
    (assertion) and the array must have the length of the FULL grid (ValueError) -/
def priceVector (key : Option String) (g : Grid) (prices : Prices) (fullT : Nat) : Except BuildError (List Rat) :=
  match key with
  | none => sample (List.replicate fullT 0) g.idx
  | some k => match prices.lookup k with
    | none => throw .assertion
    | some arr => if arr.length = fullT then sample arr g.idx else throw .lengthMismatch

/-- one dispatch mapping row with factor 1 (contracts have no `disp_factor` column) -/
def dispRow (asset node varName : String) (var step : Nat) : MapRow :=
  { var := var, asset := asset, node := some node, kind := .d, step := step, factor := 1, isBool := false,
    varName := varName }

/-- mapping block of `T` variables starting at variable `off`, one per step of the grid -/
def dispBlock (asset node varName : String) (off : Nat) (g : Grid) : List MapRow :=
  g.idx.zipIdx.map fun ti => dispRow asset node varName (off + ti.2) ti.1

/-- capacities in volume per step: `make_vector(max_cap, convert=True)`, `make_vector(min_cap, convert=True)`
    and the vector-wise `min_cap > max_cap` check; extra costs with default 0 -/
def contractVectors (p : ContractP) (g : Grid) (prices : Prices) :
    Except BuildError (List (Option Rat) × List (Option Rat) × List (Option Rat)) := do
  let maxO ← makeVector p.maxCap g prices none true
  let minO ← makeVector p.minCap g prices none true
  if anyGt minO maxO then throw .illPosed
  let ecO ← makeVector p.extraCosts g prices (some 0) false
  pure (minO, maxO, ecO)

/-- cost vector of the one-variable form: spread subtracted when the contract can only buy, added when it
    can only sell (both happen when both conditions hold, e.g. all capacities zero) -/
def oneVarPrice (price ec minC maxC : List Rat) : List Rat :=
  if ec.any (fun e => e != 0) then
    let p1 := if maxC.all (fun v => decide (v ≤ 0)) then List.zipWith (· - ·) price ec else price
    if minC.all (fun v => decide (0 ≤ v)) then List.zipWith (· + ·) p1 ec else p1
  else price

def oneVariable (ec minC maxC : List Rat) : Bool :=
  ec.all (fun e => e == 0) || maxC.all (fun v => decide (v ≤ 0)) || minC.all (fun v => decide (0 ≤ v))

/-- `SimpleContract.setup_optim_problem` -/
def buildSimpleContract (p : ContractP) (g : Grid) (prices : Prices) (fullT : Nat) :
    Except BuildError AssetProblem := do
  if scalarIllPosed p.minCap p.maxCap then throw .illPosed            -- constructor
  let price ← priceVector p.price g prices fullT
  let (minO, maxO, ecO) ← contractVectors p g prices
  let node ← match p.nodes with
    | [] => throw .index
    | n :: _ => pure n
  -- NaN assertions of OptimProblem.__init__ (c, l, u): every vector ends up in one of them
  let ec ← allSome ecO
  let minC ← allSome minO
  let maxC ← allSome maxO
  if oneVariable ec minC maxC then
    pure { name := p.name, nodes := p.nodes,
           c := List.zipWith (· * ·) (oneVarPrice price ec minC maxC) g.df,
           l := minC, u := maxC, rows := [],
           mapping := dispBlock p.name node "disp" 0 g }
  else
    pure { name := p.name, nodes := p.nodes,
           c := List.zipWith (· * ·) (List.zipWith (· - ·) price ec) g.df
                ++ List.zipWith (· * ·) (List.zipWith (· + ·) price ec) g.df,
           l := minC.map (rmin 0) ++ minC.map (rmax 0),
           u := maxC.map (rmin 0) ++ maxC.map (rmax 0),
           rows := [],
           mapping := dispBlock p.name node "disp_in" 0 g ++ dispBlock p.name node "disp_out" g.T g }

/-! ### `define_restr` -/

/-- positions of the restricted grid whose point lies in `[s, e)` -/
def coveredPos (g : Grid) (s e : Int) : List Nat :=
  (List.range g.T).filter fun i => decide (s ≤ g.pts.getD i 0) && decide (g.pts.getD i 0 < e)

def nodeOK (node : Option String) (m : MapRow) : Bool :=
  match node with
  | none => true
  | some n => m.node == some n

/-- mapping rows of reference step `t` (at `node`, if one is given), in mapping order -/
def rowsAt (mapping : List MapRow) (node : Option String) (t : Nat) : List MapRow :=
  mapping.filter fun m => m.step == t && nodeOK node m

/-- duration of a period in main time units -/
def takeDuration (s e : Int) (unitSec : Nat) : Rat := ((e - s : Int) : Rat) / ((unitSec : Nat) : Rat)

/-- the covered positions that have at least one selected mapping row (`time_step.unique()`) -/
def takeSteps (g : Grid) (mapping : List MapRow) (node : Option String) (s e : Int) : List Nat :=
  (coveredPos g s e).filter fun i => !(rowsAt mapping node (g.idx.getD i 0)).isEmpty

/-- the selected mapping rows of a period: step-major in grid order, mapping order within a step -/
def takeSel (g : Grid) (mapping : List MapRow) (node : Option String) (s e : Int) : List MapRow :=
  (coveredPos g s e).flatMap fun i => rowsAt mapping node (g.idx.getD i 0)

/-- one period: no row when it selects no mapping row; else the factors of all selected mapping rows
    (several rows of one variable add up) against the volume prorated by covered time -/
def takeRow (kind : RowKind) (unitSec : Nat) (g : Grid) (mapping : List MapRow) (node : Option String)
    (tk : Take) : Option Row :=
  let sel := takeSel g mapping node tk.1 tk.2.1
  if sel.isEmpty then none else
  some { coeffs := sel.map fun m => (m.var, m.factor),
         rhs := tk.2.2 / takeDuration tk.1 tk.2.1 unitSec
                * ((takeSteps g mapping node tk.1 tk.2.1).map fun i => g.dt.getD i 0).sum,
         kind := kind }

def defineRestr (kind : RowKind) (unitSec : Nat) (g : Grid) (mapping : List MapRow) (node : Option String)
    (takes : List Take) : List Row :=
  takes.filterMap (takeRow kind unitSec g mapping node)

/-- `Contract.setup_optim_problem`: max-take rows (`U`) first, then min-take rows (`L`) -/
def buildContract (p : ContractP) (g : Grid) (prices : Prices) (fullT unitSec : Nat) :
    Except BuildError AssetProblem := do
  let a ← buildSimpleContract p g prices fullT
  pure { a with rows := a.rows ++ defineRestr .U unitSec g a.mapping none p.maxTake
                               ++ defineRestr .L unitSec g a.mapping none p.minTake }

/-- `MultiCommodityContract`: the contract's problem (take rows built on the single-node mapping), then the
    mapping is copied once per node with the node's factor -/
def buildMulti (p : ContractP) (factors : List Rat) (g : Grid) (prices : Prices) (fullT unitSec : Nat) :
    Except BuildError AssetProblem := do
  if scalarIllPosed p.minCap p.maxCap then throw .illPosed            -- constructor of SimpleContract
  if factors.length ≠ p.nodes.length then throw .assertion           -- constructor of MultiCommodityContract
  let a ← buildContract p g prices fullT unitSec
  pure { a with mapping := (p.nodes.zip factors).flatMap fun nf =>
                  a.mapping.map fun m => { m with node := some nf.1, factor := m.factor * nf.2 } }

/-! ### transports -/

/-- `costs_time_series` restricted to the asset's steps; a missing key and a wrong length are ValueErrors -/
def transportCosts (key : Option String) (g : Grid) (prices : Prices) (fullT : Nat) : Except BuildError (List Rat) :=
  match key with
  | none => sample (List.replicate fullT 0) g.idx
  | some k => match prices.lookup k with
    | none => throw .missingPrice
    | some arr => if arr.length = fullT then sample arr g.idx else throw .lengthMismatch

def transportBlock (asset node : String) (factor : Rat) (g : Grid) : List MapRow :=
  g.idx.zipIdx.map fun ti =>
    { var := ti.2, asset := asset, node := some node, kind := .d, step := ti.1, factor := factor,
      isBool := false, varName := "disp" }

/-- `Transport.setup_optim_problem`: ONE variable per step with two mapping rows (factor −1 at the first
    node, +efficiency at the second); costs act on |flow|: negated when all capacities are ≤ 0; mixed signs
    with costs are refused -/
def buildTransport (p : TransportP) (g : Grid) (prices : Prices) (fullT : Nat) :
    Except BuildError AssetProblem := do
  match p.nodes with
  | [n0, n1] =>
    if p.maxCap < p.minCap then throw .assertion                       -- constructor
    if ¬ (0 < p.efficiency) then throw .assertion                      -- constructor
    let cts ← transportCosts p.costsKey g prices fullT
    let minC := g.dt.map (p.minCap * ·)
    let maxC := g.dt.map (p.maxCap * ·)
    let c0 := cts.map (· + p.costsConst)
    let allNeg := maxC.all (fun v => decide (v ≤ 0))
    if !(allNeg || minC.all (fun v => decide (0 ≤ v)) || c0.all (fun v => v == 0)) then throw .notImplemented
    let c1 := if allNeg then c0.map (fun v => -v) else c0
    pure { name := p.name, nodes := p.nodes,
           c := List.zipWith (· * ·) c1 g.df, l := minC, u := maxC, rows := [],
           mapping := transportBlock p.name n0 (-1) g ++ transportBlock p.name n1 p.efficiency g }
  | _ => throw .assertion                                              -- constructor: exactly two nodes

def negTake (tk : Take) : Take := (tk.1, tk.2.1, - tk.2.2)

/-- `ExtendedTransport`: take periods restrict the flow FROM the first node, whose mapping rows carry
    factor −1 — so the volume is negated and a maximum becomes an `L` row, a minimum a `U` row -/
def buildExtTransport (p : TransportP) (g : Grid) (prices : Prices) (fullT unitSec : Nat) :
    Except BuildError AssetProblem := do
  let a ← buildTransport p g prices fullT
  let node := p.nodes.head?
  pure { a with rows := a.rows ++ defineRestr .L unitSec g a.mapping node (p.maxTake.map negTake)
                               ++ defineRestr .U unitSec g a.mapping node (p.minTake.map negTake) }

end EAO
