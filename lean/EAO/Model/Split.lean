import EAO.Model.Basic
import EAO.Model.Assemble
import EAO.Model.Translate
/-!
# EAO.Model.Split — the decidable witness "the unsplit problem IS the block sum of the interval problems"

`SplitOptimProblem` optimises the interval problems one by one; `blockSum ps` is the problem it
thereby solves (`EAO.C03`).  Whether that problem is the UNSPLIT problem of the same portfolio is a
statement about two concrete `Problem`s: after renaming the variables of the unsplit problem `U`
along a permutation `perm` (`perm[j]` = the variable of `U` that is variable `j` of the block sum)
the two have the same cost / bounds, the same restriction rows up to the order of the rows (rows are
compared in a normal form: equal columns merged, zero coefficients dropped, sorted by column; the
type letters `S` and `N` both mean equality) and the same boolean variables.

Everything here is computable and evaluated exactly by the driver on every generated case
(`splitWitness`); `EAO.C14` proves what a true witness means.  The `mapping` and the nodal record
are NOT compared (they describe the variables, not the optimisation problem) — only the boolean
index set derived from the mapping is.
-/
namespace EAO

/-! ### normal form of a row -/

/-- add `a` to the coefficient of column `j` in a list sorted by column -/
def insCoeff (j : Nat) (a : Rat) : List (Nat × Rat) → List (Nat × Rat)
  | [] => [(j, a)]
  | (k, b) :: rest =>
    if j < k then (j, a) :: (k, b) :: rest
    else if j = k then (k, b + a) :: rest
    else (k, b) :: insCoeff j a rest

/-- equal columns merged, sorted by column, zero coefficients dropped -/
def normCoeffs (cs : List (Nat × Rat)) : List (Nat × Rat) :=
  (cs.foldr (fun p acc => insCoeff p.1 p.2 acc) []).filter fun p => p.2 != 0

/-- `S` and `N` rows are both equalities -/
def RowKind.norm : RowKind → RowKind
  | .N => .S
  | k => k

def Row.norm (r : Row) : Row := { coeffs := normCoeffs r.coeffs, rhs := r.rhs, kind := r.kind.norm }

/-- equality of rows that are already in normal form -/
def Row.same (r s : Row) : Bool :=
  decide (r.kind = s.kind) && decide (r.rhs = s.rhs) && decide (r.coeffs = s.coeffs)

/-- every row of the first list occurs in the second -/
def rowsSubset (as bs : List Row) : Bool := as.all fun r => bs.any fun s => r.same s

def natsSubset (as bs : List Nat) : Bool := as.all fun j => bs.contains j

/-- equality of two problems up to the order (and multiplicity) of the rows and the writing of each row -/
def sameProblem (A B : Problem) : Bool :=
  let na := A.rows.map Row.norm
  let nb := B.rows.map Row.norm
  decide (A.n = B.n) && decide (A.c = B.c) && decide (A.l = B.l) && decide (A.u = B.u) &&
  rowsSubset na nb && rowsSubset nb na &&
  natsSubset A.boolVars B.boolVars && natsSubset B.boolVars A.boolVars

/-! ### renaming the variables along a permutation -/

/-- `perm` is a permutation of `[0, n)` -/
def isPermOf (perm : List Nat) (n : Nat) : Bool :=
  decide (perm.length = n) && perm.all (fun i => decide (i < n)) && decide perm.Nodup &&
  (List.range n).all fun i => perm.contains i

/-- position of variable `i` of the unsplit problem in the block sum (`perm.length` when absent) -/
def invPerm (perm : List Nat) (i : Nat) : Nat := perm.idxOf i

def MapRow.rename (g : Nat → Nat) (m : MapRow) : MapRow := { m with var := g m.var }

/-- the unsplit problem written in the variable order of the block sum: variable `j` of the result is
    variable `perm[j]` of `U` -/
def Problem.renameAlong (U : Problem) (perm : List Nat) : Problem :=
  { c := perm.map fun i => U.c.getD i 0,
    l := perm.map fun i => U.l.getD i 0,
    u := perm.map fun i => U.u.getD i 0,
    rows := U.rows.map (Row.rename (invPerm perm)),
    mapping := U.mapping.map (MapRow.rename (invPerm perm)),
    nodal := U.nodal }

/-- a point of the block sum as a point of the unsplit problem: `y (perm[j]) = x j` -/
def transportAlong (perm : List Nat) (x : Vec) : Vec := fun i => x (invPerm perm i)

/-- a point of the unsplit problem as a point of the block sum: `x j = y (perm[j])` -/
def pullbackAlong (perm : List Nat) (y : Vec) : Vec := fun j => y (perm.getD j 0)

/-- bounds have one entry per variable; rows and mapping only mention variables -/
def Problem.wfIdx (P : Problem) : Bool :=
  decide (P.l.length = P.n) && decide (P.u.length = P.n) &&
  (P.rows.all fun r => r.coeffs.all fun p => decide (p.1 < P.n)) &&
  P.mapping.all fun m => decide (m.var < P.n)

/-- **the witness**: all problems are well-formed, `perm` is a permutation, and the unsplit problem `U`,
    renamed along `perm`, is the block-diagonal sum of the interval problems `ps` (nothing couples the
    intervals, nothing is lost at the cuts) -/
def splitWitness (U : Problem) (ps : List Problem) (perm : List Nat) : Bool :=
  U.wfIdx && ps.all Problem.wfIdx && isPermOf perm U.n &&
  sameProblem (U.renameAlong perm) (blockSum ps)

end EAO
