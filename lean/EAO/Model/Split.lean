import EAO.Model.Basic
import EAO.Model.Assemble
import EAO.Model.Translate
/-!
# EAO.Model.Split — the decidable witness "the unsplit problem IS the block sum of the interval problems"

`SplitOptimProblem` optimises the interval problems one by one; `blockSum ps` is the problem it
thereby solves (`EAO.C03`).  Whether that problem is the UNSPLIT problem of the same portfolio is a
statement about two concrete `Problem`s: after renaming the variables of the unsplit problem `U`
along a permutation `perm` (`perm[j]` = the variable of `U` that is variable `j` of the block sum)
the two have the same cost / bounds, the same restriction rows up to the order of the rows (rows are
compared in a normal form: equal columns merged, zero coefficients dropped, sorted by column; the
type letters `S` and `N` both mean equality) and the same boolean variables.

Everything here is computable and evaluated exactly by the driver on every generated case
(`splitWitness`); `EAO.C14` proves what a true witness means.  The `mapping` and the nodal record
are NOT compared (they describe the variables, not the optimisation problem) — only the boolean
index set derived from the mapping is.
-/
namespace EAO

/-! ### normal form of a row -/

/-- add `a` to the coefficient of column `j` in a list sorted by column -/
def insCoeff (j : Nat) (a : Rat) : List (Nat × Rat) → List (Nat × Rat)
  | [] => [(j, a)]
  | (k, b) :: rest =>
    if j < k then (j, a) :: (k, b) :: rest
    else if j = k then (k, b + a) :: rest
    else (k, b) :: insCoeff j a rest

/-- equal columns merged, sorted by column, zero coefficients dropped -/
def normCoeffs (cs : List (Nat × Rat)) : List (Nat × Rat) :=
  (cs.foldr (fun p acc => insCoeff p.1 p.2 acc) []).filter fun p => p.2 != 0

/-- `S` and `N` rows are both equalities -/
def RowKind.norm : RowKind → RowKind
  | .N => .S
  | k => k

def Row.norm (r : Row) : Row := { coeffs := normCoeffs r.coeffs, rhs := r.rhs, kind := r.kind.norm }

/-- equality of rows that are already in normal form -/
def Row.same (r s : Row) : Bool :=
  decide (r.kind = s.kind) && decide (r.rhs = s.rhs) && decide (r.coeffs = s.coeffs)

/-- every row of the first list occurs in the second -/
def rowsSubset (as bs : List Row) : Bool := as.all fun r => bs.any fun s => r.same s

def natsSubset (as bs : List Nat) : Bool := as.all fun j => bs.contains j

/-- equality of two problems up to the order (and multiplicity) of the rows and the writing of each row -/
def sameProblem (A B : Problem) : Bool :=
  let na := A.rows.map Row.norm
  let nb := B.rows.map Row.norm
  decide (A.n = B.n) && decide (A.c = B.c) && decide (A.l = B.l) && decide (A.u = B.u) &&
  rowsSubset na nb && rowsSubset nb na &&
  natsSubset A.boolVars B.boolVars && natsSubset B.boolVars A.boolVars

/-! ### renaming the variables along a permutation -/

/-- `perm` is a permutation of `[0, n)` -/
def isPermOf (perm : List Nat) (n : Nat) : Bool :=
  decide (perm.length = n) && perm.all (fun i => decide (i < n)) && decide perm.Nodup &&
  (List.range n).all fun i => perm.contains i

/-- position of variable `i` of the unsplit problem in the block sum (`perm.length` when absent) -/
def invPerm (perm : List Nat) (i : Nat) : Nat := perm.idxOf i

def MapRow.rename (g : Nat → Nat) (m : MapRow) : MapRow := { m with var := g m.var }

/-- the unsplit problem written in the variable order of the block sum: variable `j` of the result is
    variable `perm[j]` of `U` -/
def Problem.renameAlong (U : Problem) (perm : List Nat) : Problem :=
  { c := perm.map fun i => U.c.getD i 0,
    l := perm.map fun i => U.l.getD i 0,
    u := perm.map fun i => U.u.getD i 0,
    rows := U.rows.map (Row.rename (invPerm perm)),
    mapping := U.mapping.map (MapRow.rename (invPerm perm)),
    nodal := U.nodal }

/-- a point of the block sum as a point of the unsplit problem: `y (perm[j]) = x j` -/
def transportAlong (perm : List Nat) (x : Vec) : Vec := fun i => x (invPerm perm i)

/-- a point of the unsplit problem as a point of the block sum: `x j = y (perm[j])` -/
def pullbackAlong (perm : List Nat) (y : Vec) : Vec := fun j => y (perm.getD j 0)

/-- bounds have one entry per variable; rows and mapping only mention variables -/
def Problem.wfIdx (P : Problem) : Bool :=
  decide (P.l.length = P.n) && decide (P.u.length = P.n) &&
  (P.rows.all fun r => r.coeffs.all fun p => decide (p.1 < P.n)) &&
  P.mapping.all fun m => decide (m.var < P.n)

/-- **the witness**: all problems are well-formed, `perm` is a permutation, and the unsplit problem `U`,
    renamed along `perm`, is the block-diagonal sum of the interval problems `ps` (nothing couples the
    intervals, nothing is lost at the cuts) -/
def splitWitness (U : Problem) (ps : List Problem) (perm : List Nat) : Bool :=
  U.wfIdx && ps.all Problem.wfIdx && isPermOf perm U.n &&
  sameProblem (U.renameAlong perm) (blockSum ps)

/-! ### the one-sided witness: every restriction of the unsplit problem FOLLOWS from the interval problems

For storages whose start level equals their end level the unsplit problem is not the block sum (its level rows
are cumulative over the whole horizon), but every one of its rows is a combination of rows of the interval
problems: the cumulative row at a step of interval `k` is the interval's own cumulative row plus the end-level
rows of the intervals before.  A certificate gives, for every row of the unsplit problem, the multipliers of
such a combination; checking it is exact rational arithmetic. -/

/-- the multiplier keeps the direction `≤` : non-negative on `U` rows, non-positive on `L` rows, free on equalities -/
def signLe (k : RowKind) (y : Rat) : Bool :=
  match k with
  | .U => decide (0 ≤ y)
  | .L => decide (y ≤ 0)
  | _ => true

/-- the multiplier keeps the direction `≥` -/
def signGe (k : RowKind) (y : Rat) : Bool :=
  match k with
  | .U => decide (y ≤ 0)
  | .L => decide (0 ≤ y)
  | _ => true

/-- the rows that take part in a combination (non-zero multiplier), with their multipliers -/
def activeRows (rows : List Row) (lam : List Rat) : List (Row × Rat) :=
  (rows.zip lam).filter fun q => q.2 != 0

/-- coefficients of `Σ_i lam_i · rows_i` (not yet merged) -/
def combCoeffs (L : List (Row × Rat)) : List (Nat × Rat) :=
  L.flatMap fun q => q.1.coeffs.map fun p => (p.1, q.2 * p.2)

/-- right-hand side of `Σ_i lam_i · rows_i` -/
def combRhs (L : List (Row × Rat)) : Rat := (L.map fun q => q.2 * q.1.rhs).sum

/-- `a·x ≤ b` is the combination `Σ lam_i rows_i` (each term keeping the direction `≤`), possibly with a
    smaller right-hand side -/
def leCert (a : List (Nat × Rat)) (b : Rat) (rows : List Row) (lam : List Rat) : Bool :=
  let L := activeRows rows lam
  decide (lam.length = rows.length) && L.all (fun q => signLe q.1.kind q.2) &&
  decide (normCoeffs (combCoeffs L) = normCoeffs a) && decide (combRhs L ≤ b)

/-- `b ≤ a·x` is the combination `Σ lam_i rows_i` (each term keeping the direction `≥`), possibly with a
    larger right-hand side -/
def geCert (a : List (Nat × Rat)) (b : Rat) (rows : List Row) (lam : List Rat) : Bool :=
  let L := activeRows rows lam
  decide (lam.length = rows.length) && L.all (fun q => signGe q.1.kind q.2) &&
  decide (normCoeffs (combCoeffs L) = normCoeffs a) && decide (b ≤ combRhs L)

/-- **row `r` follows from `rows`** with the multipliers `lam` (one per row of `rows`).  For an equality row `r`
    either one multiplier list that is an exact equality combination (it passes both directions), or two lists
    one after the other (`lam.length = 2 * rows.length`): the first for `≤`, the second for `≥`. -/
def rowImplied (r : Row) (rows : List Row) (lam : List Rat) : Bool :=
  match r.kind with
  | .U => leCert r.coeffs r.rhs rows lam
  | .L => geCert r.coeffs r.rhs rows lam
  | _ =>
    if lam.length = rows.length then leCert r.coeffs r.rhs rows lam && geCert r.coeffs r.rhs rows lam
    else leCert r.coeffs r.rhs rows (lam.take rows.length) && geCert r.coeffs r.rhs rows (lam.drop rows.length)

/-- entrywise `≤` of two vectors of the same length -/
def vecLe (a b : List Rat) : Bool := decide (a.length = b.length) && (a.zip b).all fun p => decide (p.1 ≤ p.2)

/-- **the one-sided witness**: all problems well-formed, `perm` a permutation, and the unsplit problem renamed
    along `perm` has the cost vector of the block sum of the interval problems, bounds that are not tighter, no
    boolean variable the block sum does not have, and every one of its rows follows from the rows of the block sum
    with the multipliers `lams[i]` given for it — the feasible set of the block sum lies inside the feasible set of
    the unsplit problem and the objectives agree -/
def splitLeWitness (U : Problem) (ps : List Problem) (perm : List Nat) (lams : List (List Rat)) : Bool :=
  let A := U.renameAlong perm
  let B := blockSum ps
  U.wfIdx && ps.all Problem.wfIdx && isPermOf perm U.n &&
  decide (A.n = B.n) && decide (A.c = B.c) && vecLe A.l B.l && vecLe B.u A.u &&
  natsSubset A.boolVars B.boolVars &&
  decide (lams.length = A.rows.length) && (A.rows.zip lams).all fun q => rowImplied q.1 B.rows q.2

/-! ### objectives that differ by a combination of rows

A storage with `cost_store` pays for the level, and the level after a step is cumulative: in the unsplit problem
the cost entry of a step counts all later steps of the horizon, in an interval problem only those of the interval.
The two cost vectors differ by a multiple of the interval's end-level rows — which vanish on the feasible set of
the block sum.  The witness below accepts, instead of equal cost vectors, a certificate that
`(c_B − c_A)·x ≥ 0` follows from the rows of the block sum (then the unsplit value of a transported split-feasible
point is at least its split value). -/

/-- coefficients of `(cB − cA)·x` -/
def costDiff (cA cB : List Rat) : List (Nat × Rat) :=
  (List.range cB.length).map fun j => (j, cB.getD j 0 - cA.getD j 0)

/-- equal cost vectors, or `(cB − cA)·x ≥ 0` certified from `rows` with the multipliers `lamC` -/
def costCert (cA cB : List Rat) (rows : List Row) (lamC : List Rat) : Bool :=
  decide (cA = cB) || (decide (cA.length = cB.length) && geCert (costDiff cA cB) 0 rows lamC)

/-- the one-sided witness with a certified (instead of an equal) objective -/
def splitLeWitnessC (U : Problem) (ps : List Problem) (perm : List Nat) (lams : List (List Rat))
    (lamC : List Rat) : Bool :=
  let A := U.renameAlong perm
  let B := blockSum ps
  U.wfIdx && ps.all Problem.wfIdx && isPermOf perm U.n &&
  decide (A.n = B.n) && costCert A.c B.c B.rows lamC && vecLe A.l B.l && vecLe B.u A.u &&
  natsSubset A.boolVars B.boolVars &&
  decide (lams.length = A.rows.length) && (A.rows.zip lams).all fun q => rowImplied q.1 B.rows q.2

end EAO
