import EAO.Model.Schema
/-!
# EAO.Model.Params — `io.get_params_tree` / `io.get_param` / `io.set_param` (io.py 210-293, property C11)

The parameter tree of an object is `json.loads (to_json obj)` WITHOUT object hook: a plain JSON tree of
dictionaries, lists and scalars.  It is modelled by the value type `EAO.Schema.JVal` of the codec model
(`enc` is the model of `to_json`).  A dictionary is an association list in insertion order; the key a
Python dictionary would find is the FIRST pair with that key (`EAO.Schema.lookup`); the trees the code
produces have distinct keys per dictionary (`nodupKeys`).

* `keysOf`   — the nested key list `make_dict` returns, literally: the function handles TWO levels per call
  (`k` at the first, `myk` at the second level) and recurses at the third, gluing `[k] + l_myk + l_ttk`;
  a scalar child of the top level is listed as the BARE key `k`, everything else as a list of keys;
  an empty list / dictionary contributes nothing; a scalar argument gives `None` (`none`).
* `getPath`  — the inner function `get` of `get_param`: `d[l[0]]` step by step with Python's indexing
  (dictionary: key look-up; list: integer index, negative from the end; string: a character; everything
  else `TypeError`), the empty path is an `IndexError` (`l[0]` of an empty list).
* `setPath`  — the inner function `sett` of `set_param`, as a function returning the mutated tree:
  walk down with `o[l[0]]`, then `o[l[0]] = v` (dictionary: replace or APPEND the key — also for an
  integer key, which `json.dumps` writes as its decimal string; list: replace inside the range; string and
  scalars: `TypeError`).
* `getParam` / `setParam` — the two functions on an object tree of the codec model: `get` on `enc v`;
  `sett` on `enc v`, then `load_from_json (json.dumps o)` = `dec`; a failing loader is the `ValueError` of the
  `except` branch — or the `TypeError` that branch itself raises when `o['name']` is no string
  (`loadFailure`).  The errors of the walk are raised BEFORE the `try` and reach the caller unchanged.

Not modelled: keys of a path that are neither `str` nor `int` (floats, `None`, tuples, bools); values handed
to `set_param` that are no JSON values (a `datetime`, a numpy array: `json.dumps` raises inside the `try`,
hence `ValueError`); non-finite floats (`JVal.flt` is a rational); `sort_keys=True` of `to_json` (the order
of the keys of the tree: every function here works on the order it is given).
-/
namespace EAO.Params
open EAO.Schema

/-- one element of a path: a dictionary key or a list index -/
inductive Key
  | name (s : String)
  | idx (i : Int)
  deriving DecidableEq, Repr, Inhabited

/-- one entry of the key list of `make_dict`: the bare key `k`, or a list `[k, myk, …]` -/
inductive KeyEntry
  | bare (k : Key)
  | path (ks : List Key)
  deriving DecidableEq, Repr, Inhabited

/-- `if not isinstance(ttk, list): l_ttk = [ttk] else: l_ttk = ttk` — also how `get_param` / `set_param`
turn a bare key into a path -/
def KeyEntry.toPath : KeyEntry → List Key
  | .bare k => [k]
  | .path ks => ks

/-- exception classes of the walk -/
inductive PathError
  | key      -- KeyError: dictionary without that key (an integer is never a key of a loaded JSON dictionary)
  | index    -- IndexError: list / string index out of range; empty path
  | type     -- TypeError: scalar indexed, list / string indexed by a string, item assignment on a string / scalar
  deriving DecidableEq, Repr, Inhabited

def PathError.toString : PathError → String
  | .key => "KeyError"
  | .index => "IndexError"
  | .type => "TypeError"

def isContainer : JVal → Bool
  | .arr _ => true
  | .obj _ => true
  | _ => false

/-! ## `make_dict` -/

mutual
  /-- `keys` of `make_dict dd` for a list / dictionary `dd` (`[]` for a scalar: `keysOf` answers `none` there) -/
  def keys1 : JVal → List KeyEntry
    | .arr xs => level1List 0 xs
    | .obj kvs => level1Fields kvs
    | _ => []
  /-- `for k in range(0, len(dd))`, from position `i` on -/
  def level1List (i : Nat) : List JVal → List KeyEntry
    | [] => []
    | c :: cs => level1Child (.idx i) c ++ level1List (i + 1) cs
  /-- `for k in list(dd)` -/
  def level1Fields : List (String × JVal) → List KeyEntry
    | [] => []
    | (k, c) :: rest => level1Child (.name k) c ++ level1Fields rest
  /-- body of the outer loop for the child `c = dd[k]` -/
  def level1Child (k : Key) : JVal → List KeyEntry
    | .arr ys => level2List k 0 ys
    | .obj kvs => level2Fields k kvs
    | _ => [.bare k]                                   -- `else: keys.append(k)`
  /-- `for myk in range(0, len(dd[k]))` -/
  def level2List (k : Key) (i : Nat) : List JVal → List KeyEntry
    | [] => []
    | g :: gs => level2Child k (.idx i) g ++ level2List k (i + 1) gs
  /-- `for myk in list(dd[k])` -/
  def level2Fields (k : Key) : List (String × JVal) → List KeyEntry
    | [] => []
    | (m, g) :: rest => level2Child k (.name m) g ++ level2Fields k rest
  /-- body of the inner loop for the grandchild `g = dd[k][myk]` -/
  def level2Child (k myk : Key) : JVal → List KeyEntry
    | .arr zs => (level1List 0 zs).map (fun e => .path ([k, myk] ++ e.toPath))     -- `[k] + l_myk + l_ttk`
    | .obj kvs => (level1Fields kvs).map (fun e => .path ([k, myk] ++ e.toPath))
    | _ => [.path [k, myk]]                            -- `else: keys.append([k] + l_myk)`
end

/-- first component of `get_params_tree`: `None` for a scalar -/
def keysOf (t : JVal) : Option (List KeyEntry) :=
  if isContainer t then some (keys1 t) else none

/-- second component of `get_params_tree`: `copy.deepcopy dd`, `None` for a scalar -/
def treeOf (t : JVal) : JVal :=
  if isContainer t then t else .null

/-! ## Python indexing -/

/-- position addressed by index `i` in a sequence of length `n` (`none`: out of range) -/
def pyIndex (n : Nat) (i : Int) : Option Nat :=
  if 0 ≤ i then (if i.toNat < n then some i.toNat else none)
  else (if (-i).toNat ≤ n then some (n - (-i).toNat) else none)

/-- `d[k]` -/
def getStep : JVal → Key → Except PathError JVal
  | .obj kvs, .name s =>
      match lookup s kvs with
      | some v => .ok v
      | none => .error .key
  | .obj _, .idx _ => .error .key
  | .arr xs, .idx i =>
      match pyIndex xs.length i with
      | some n => (match xs[n]? with
                   | some v => .ok v
                   | none => .error .index)
      | none => .error .index
  | .arr _, .name _ => .error .type
  | .str s, .idx i =>
      match pyIndex s.toList.length i with
      | some n => (match s.toList[n]? with
                   | some c => .ok (.str (String.ofList [c]))
                   | none => .error .index)
      | none => .error .index
  | .str _, .name _ => .error .type
  | _, _ => .error .type

/-- the inner function `get` of `get_param` -/
def getPath : JVal → List Key → Except PathError JVal
  | _, [] => .error .index                              -- `l[0]` of the empty list
  | d, [k] => getStep d k                               -- `if len(l) == 1: return d[l[0]]`
  | d, k :: k' :: rest =>
      match getStep d k with
      | .ok c => getPath c (k' :: rest)
      | .error e => .error e

/-- key a dictionary entry has after `json.dumps` -/
def Key.toStr : Key → String
  | .name s => s
  | .idx i => toString i

/-- `dd[k] = v` on a dictionary: the first pair with that key gets the value, a new key is appended -/
def assocSet (k : String) (v : JVal) : List (String × JVal) → List (String × JVal)
  | [] => [(k, v)]
  | (k', w) :: rest => if k' == k then (k', v) :: rest else (k', w) :: assocSet k v rest

/-- `o[k] = v` -/
def setStep : JVal → Key → JVal → Except PathError JVal
  | .obj kvs, k, v => .ok (.obj (assocSet k.toStr v kvs))
  | .arr xs, .idx i, v =>
      match pyIndex xs.length i with
      | some n => .ok (.arr (xs.set n v))
      | none => .error .index
  | .arr _, .name _, _ => .error .type
  | _, _, _ => .error .type

/-- the inner function `sett` of `set_param`; the result is the tree after the in-place assignment
(`c'` is the child after the recursive call; putting it back with `setStep` is the functional reading of the
mutation of `o[l[0]]` — the trees have no shared sub-objects: `json.loads` followed by `deepcopy`) -/
def setPath : JVal → List Key → JVal → Except PathError JVal
  | _, [], _ => .error .index
  | d, [k], v => setStep d k v
  | d, k :: k' :: rest, v =>
      match getStep d k with
      | .error e => .error e
      | .ok c =>
          match setPath c (k' :: rest) v with
          | .error e => .error e
          | .ok c' => setStep d k c'

/-! ## the three functions of io.py on an object of the codec model -/

/-- `get_params_tree obj` = (keys, tree) -/
def paramsTree (S : List ClassSchema) (tc : TimeCodec) (v : PyVal) : Option (List KeyEntry) × JVal :=
  (keysOf (enc S tc v), treeOf (enc S tc v))

/-- `get_param obj path` -/
def getParam (S : List ClassSchema) (tc : TimeCodec) (v : PyVal) (p : List Key) : Except PathError JVal :=
  getPath (treeOf (enc S tc v)) p

/-- exception classes of `set_param` -/
inductive SetError
  | walk (e : PathError)   -- raised by `sett`, before the `try`
  | value                  -- the `ValueError` of the `except` branch: the object could not be created
  | nameType               -- `TypeError` raised INSIDE the `except` branch while the message is put together
  deriving DecidableEq, Repr, Inhabited

def SetError.toString : SetError → String
  | .walk e => e.toString
  | .value => "ValueError"
  | .nameType => "TypeError"

/-- what the `except` branch raises for the mutated tree `o`:
`if 'name' in o: n = o['name'] else: n = 'NA'; raise ValueError('…' + n + …)` — for a dictionary whose `name`
is no string the concatenation is a `TypeError`; for a list that CONTAINS the string 'name', `o['name']` is one -/
def loadFailure : JVal → SetError
  | .obj kvs =>
      match lookup "name" kvs with
      | some (.str _) => .value
      | some _ => .nameType
      | none => .value
  | .arr xs => if xs.any (fun x => match x with | .str s => s == "name" | _ => false) then .nameType else .value
  | _ => .value

/-- `set_param obj path value`: an error of the walk, the re-created object, or the error of the `except` branch
when `load_from_json (json.dumps o)` fails -/
def setParam (S : List ClassSchema) (tc : TimeCodec) (v : PyVal) (p : List Key) (x : JVal) :
    Except SetError PyVal :=
  match setPath (treeOf (enc S tc v)) p x with
  | .error e => .error (.walk e)
  | .ok t =>
      match dec S tc t with
      | some w => .ok w
      | none => .error (loadFailure t)

/-! ## predicates used by the theorems -/

mutual
  /-- the flat reading of the key list: every path from the root to a scalar, one level per recursion -/
  def leafPaths : JVal → List (List Key)
    | .arr xs => leafPathsList 0 xs
    | .obj kvs => leafPathsFields kvs
    | _ => []
  def leafPathsList (i : Nat) : List JVal → List (List Key)
    | [] => []
    | c :: cs => leafPathsChild (.idx i) c ++ leafPathsList (i + 1) cs
  def leafPathsFields : List (String × JVal) → List (List Key)
    | [] => []
    | (k, c) :: rest => leafPathsChild (.name k) c ++ leafPathsFields rest
  def leafPathsChild (k : Key) : JVal → List (List Key)
    | .arr xs => (leafPathsList 0 xs).map (k :: ·)
    | .obj kvs => (leafPathsFields kvs).map (k :: ·)
    | _ => [[k]]
end

mutual
  /-- every dictionary of the tree has distinct keys (what a Python dictionary is) -/
  def nodupKeys : JVal → Bool
    | .arr xs => nodupKeysList xs
    | .obj kvs => nodupB (kvs.map (·.1)) && nodupKeysFields kvs
    | _ => true
  def nodupKeysList : List JVal → Bool
    | [] => true
    | x :: xs => nodupKeys x && nodupKeysList xs
  def nodupKeysFields : List (String × JVal) → Bool
    | [] => true
    | (_, v) :: rest => nodupKeys v && nodupKeysFields rest
end

/-- a path in the form the key list uses: list positions counted from the front -/
def nonNegPath (p : List Key) : Bool :=
  p.all fun k => match k with
    | .idx i => decide (0 ≤ i)
    | .name _ => true

def isStr : JVal → Bool
  | .str _ => true
  | _ => false

/-- the walk along `p` indexes into a string at some step (reads a character) -/
def strStep : JVal → List Key → Bool
  | _, [] => false
  | d, k :: rest =>
      isStr d || (match getStep d k with
                  | .ok c => strStep c rest
                  | .error _ => false)

/-- the entry `make_dict` writes for a path: the bare key for a path of length one, the list otherwise -/
def entryOf : List Key → KeyEntry
  | [k] => .bare k
  | ks => .path ks

end EAO.Params
