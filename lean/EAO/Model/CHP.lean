import EAO.Model.Basic
import EAO.Model.Grid
import EAO.Model.Param
/-!
# EAO.Model.CHP — model of `CHPAsset.setup_optim_problem` / `Plant` (`eaopack/assets.py`)
WITHOUT start/shutdown ramp profiles (`start_ramp_* = shutdown_ramp_* = None`, hence no shutdown
variables), without `periodicity` and without an own coarse `freq`.

The CHP builder starts from the problem of its parent class `Contract` (one dispatch variable per step,
cost `c`, bounds `l = min_cap·dt`, `u = max_cap·dt`, optional min/max-take rows): that BASE problem is
an input here.  The model adds, literally in the order of the code: heat variables, on/start
variables, capacity rows, ramp rows (steps `t ≥ 1`, then the first step relative to `last_dispatch`),
start-definition rows, min-runtime rows and bound, min-downtime rows and bound, heat-share rows, the
cost extension and the fuel mapping rows.

Quirks of the code that are reproduced on purpose (see notes/findings_chp.md):
* the first-step LOWER ramp row has right-hand side `last_dispatch` (not `last_dispatch − ramp`) when
  `time_already_running = 0` (F-06c);
* `include_on_variables` looks at the RAW `min_cap` argument (`np.any(self.min_cap != 0.)`): any interval
  dictionary or price key counts as non-zero;
* the XOR guard on (`time_already_running`, `time_already_off`) is evaluated by the constructor on the raw
  values, and only when the raw `min_downtime > 1` (F-06d).
Repaired in /repo and followed here: first-step upper ramp row with on-variables is `v_0 − ramp·on_0 ≤ last`
(F-06a); ramp rows weight the heat of step `t−1` with the conversion factor of step `t−1` (F-06e); the
initial-state bound slices are limited to the on block (`min(R − tar, T)`, `min(D − tao, T)`: F-06f).
-/
namespace EAO

/-- `np.any(self.min_cap != 0.)` on the RAW constructor argument: a dict or a string is `!= 0.` -/
def rawNonzero : ParamValue → Bool
  | .scalar v => v != 0
  | .array vs => vs.any (· != 0)
  | .key _ => true
  | .intervals _ => true

/-- constructor arguments of `CHPAsset` / `Plant` beyond those of `Contract` (which only enter through
    the base problem), profile-free case -/
structure CHPP where
  name               : String
  nodes              : List String
  noHeat             : Bool                  -- `Plant` (`_no_heat = True`)
  minCap             : ParamValue            -- RAW `min_cap` (only `rawNonzero` of it is used here)
  convFactor         : ParamValue            -- `conversion_factor_power_heat`
  maxShareHeat       : Option ParamValue
  ramp               : Option Rat
  startCosts         : ParamValue
  runningCosts       : ParamValue
  minRuntime         : Rat                   -- durations in main time units, as given
  timeAlreadyRunning : Rat
  minDowntime        : Rat
  timeAlreadyOff     : Rat
  lastDispatch       : Rat
  startFuel          : ParamValue
  fuelEfficiency     : ParamValue
  consumptionIfOn    : ParamValue
  freqMismatch       : Bool                  -- `self.freq is not None and self.freq != timegrid.freq`
  deriving Repr, Inhabited

/-- `convert_to_timegrid_freq` with rounding: `int(ceil(value · unit / step))` (non-negative values) -/
def convertSteps (value : Rat) (unitSec stepSec : Nat) : Nat :=
  (value * (unitSec : Rat) / (stepSec : Rat)).ceil.toNat

/-- index layout of the variables: power `j`, heat `heatIdx + j`, on `onIdx + j`, start `startIdx + j` -/
structure CHPLayout where
  heatIdx  : Nat
  onIdx    : Nat
  startIdx : Nat
  deriving Repr, Inhabited, DecidableEq

def CHPLayout.power (_ : CHPLayout) (j : Nat) : Nat := j
def CHPLayout.heat (L : CHPLayout) (j : Nat) : Nat := L.heatIdx + j
def CHPLayout.on (L : CHPLayout) (j : Nat) : Nat := L.onIdx + j
def CHPLayout.start (L : CHPLayout) (j : Nat) : Nat := L.startIdx + j

/-- everything the generation of variables, rows and mapping depends on, after conversion of durations to
    steps, scaling of `ramp` / `last_dispatch` by `dt[0]`, `make_vector` and the include decisions -/
structure CHPR where
  name         : String
  nodes        : List String
  T            : Nat
  idx          : List Nat            -- `timegrid.restricted.I`
  base         : AssetProblem        -- what `Contract.setup_optim_problem` returned
  heat         : Bool                -- heat node present
  fuel         : Option String       -- fuel node
  conv         : List Rat
  share        : Option (List Rat)
  ramp         : Option Rat
  last         : Rat
  startCosts   : List Rat
  runningCosts : List Rat            -- already × dt
  R            : Nat
  D            : Nat
  tar          : Nat
  tao          : Nat
  incOn        : Bool
  incStart     : Bool
  fuelEff      : List Rat
  consIfOn     : List Rat            -- already × dt
  startFuel    : List Rat
  deriving Repr, Inhabited

/-- `self.n = len(min_cap)` -/
def CHPR.n (r : CHPR) : Nat := r.base.l.length
def CHPR.minCap (r : CHPR) (i : Nat) : Rat := r.base.l.getD i 0
def CHPR.maxCap (r : CHPR) (i : Nat) : Rat := r.base.u.getD i 0
def CHPR.cv (r : CHPR) (i : Nat) : Rat := r.conv.getD i 0

/-- `heat_idx = len(op.mapping)`; `on_idx = len(op.mapping)` after the duplication for the heat node;
    `start_idx = on_idx + T` -/
def CHPR.layout (r : CHPR) : CHPLayout :=
  let h := r.base.mapping.length
  let o := if r.heat then 2 * (r.base.mapping.filter fun m => m.kind == VarKind.d).length else r.base.mapping.length
  { heatIdx := h, onIdx := o, startIdx := o + r.T }

/-- `var["time_step"] - starting_timestep` for the `i`-th mapping row -/
def CHPR.stepOff (r : CHPR) (i : Nat) : Nat := (r.base.mapping.getD i default).step - r.idx.getD 0 0

/-- coefficients of the virtual dispatch `power_i + c·heat_i` -/
def CHPR.virt (r : CHPR) (i : Nat) (c : Rat) : List (Nat × Rat) :=
  (r.layout.power i, 1) :: (if r.heat then [(r.layout.heat i, c)] else [])

/-- virtual dispatch `power_i + conv_i · heat_i` of an assignment -/
def CHPR.vd (r : CHPR) (x : Vec) (i : Nat) : Rat :=
  x (r.layout.power i) + (if r.heat then r.cv i * x (r.layout.heat i) else 0)

/-! ## row families -/

def CHPR.capLower (r : CHPR) (i : Nat) : Row :=
  { coeffs := r.virt i (r.cv i) ++ (if r.incOn then [(r.layout.on (r.stepOff i), - r.minCap i)] else []),
    rhs := 0, kind := .L }

def CHPR.capUpper (r : CHPR) (i : Nat) : Row :=
  { coeffs := r.virt i (r.cv i) ++ (if r.incOn then [(r.layout.on (r.stepOff i), - r.maxCap i)] else []),
    rhs := if r.incOn then 0 else r.maxCap i, kind := .U }

def CHPR.capRows (r : CHPR) : List Row :=
  (List.range r.n).map r.capLower ++ (List.range r.n).map r.capUpper

/-- `v_t − v_{t−1}` -/
def CHPR.rampDiff (r : CHPR) (t : Nat) : List (Nat × Rat) :=
  r.virt t (r.cv t) ++ ((r.layout.power (t - 1), -1) :: (if r.heat then [(r.layout.heat (t - 1), - r.cv (t - 1))] else []))

def CHPR.rampLower (r : CHPR) (ρ : Rat) (t : Nat) : Row :=
  { coeffs := r.rampDiff t ++ (if r.incOn then [(r.layout.on (t - 1), ρ)] else []),
    rhs := if r.incOn then 0 else - ρ, kind := .L }

def CHPR.rampUpper (r : CHPR) (ρ : Rat) (t : Nat) : Row :=
  { coeffs := r.rampDiff t ++ (if r.incOn then [(r.layout.on t, - ρ)] else []),
    rhs := if r.incOn then 0 else ρ, kind := .U }

def CHPR.rampFirstLower (r : CHPR) (ρ : Rat) : Row :=
  { coeffs := r.virt 0 (r.cv 0), rhs := if r.tar = 0 then r.last else - ρ + r.last, kind := .L }

def CHPR.rampFirstUpper (r : CHPR) (ρ : Rat) : Row :=
  { coeffs := r.virt 0 (r.cv 0) ++ (if r.incOn then [(r.layout.on 0, - ρ)] else []),
    rhs := if !r.incOn then r.last + ρ else r.last,
    kind := .U }

def CHPR.rampRows (r : CHPR) : List Row :=
  match r.ramp with
  | none => []
  | some ρ =>
    ((List.range (r.T - 1)).flatMap fun k => [r.rampLower ρ (k + 1), r.rampUpper ρ (k + 1)]) ++
      [r.rampFirstLower ρ, r.rampFirstUpper ρ]

def CHPR.startDefRow (r : CHPR) (i : Nat) : Row :=
  { coeffs := [(r.layout.on (i + 1), 1), (r.layout.on i, -1), (r.layout.start (i + 1), -1)], rhs := 0, kind := .U }

def CHPR.startFirstRow (r : CHPR) : Row :=
  { coeffs := [(r.layout.on 0, 1), (r.layout.start 0, -1)], rhs := 0, kind := .S }

def CHPR.startRows (r : CHPR) : List Row :=
  if r.incStart then
    (List.range (r.T - 1)).map r.startDefRow ++ (if r.tar = 0 then [r.startFirstRow] else [])
  else []

def CHPR.runtimeRow (r : CHPR) (t i : Nat) : Row :=
  { coeffs := [(r.layout.on t, 1), (r.layout.start (t - i), -1)], rhs := 0, kind := .L }

/-- `for t in range(T): for i in range(1, min_runtime): if i > t: continue` -/
def CHPR.runtimeRows (r : CHPR) : List Row :=
  if r.incStart ∧ 1 < r.R then
    (List.range r.T).flatMap fun t => ((List.range' 1 (r.R - 1)).filter fun i => decide (i ≤ t)).map fun i => r.runtimeRow t i
  else []

def CHPR.downtimeRow (r : CHPR) (t i : Nat) : Row :=
  { coeffs := [(r.layout.on t, 1), (r.layout.on (t - i), -1)] ++ (if i < t then [(r.layout.on (t - i - 1), 1)] else []),
    rhs := if ¬ i < t ∧ r.tao = 0 then 0 else 1, kind := .U }

def CHPR.downtimeRows (r : CHPR) : List Row :=
  if 1 < r.D then
    (List.range r.T).flatMap fun t => ((List.range' 1 (r.D - 1)).filter fun i => decide (i ≤ t)).map fun i => r.downtimeRow t i
  else []

/-- the rows that involve on/start variables only ("commitment rows") -/
def CHPR.commitRows (r : CHPR) : List Row := r.startRows ++ r.runtimeRows ++ r.downtimeRows

def CHPR.heatRow (r : CHPR) (s : List Rat) (i : Nat) : Row :=
  { coeffs := [(r.layout.heat i, 1), (r.layout.power i, - s.getD i 0)], rhs := 0, kind := .U }

def CHPR.heatRows (r : CHPR) : List Row :=
  match r.heat, r.share with
  | true, some s => (List.range r.n).map (r.heatRow s)
  | _, _ => []

/-- rows of the base problem after `sp.hstack([A, conv * A])` (heat columns start at `A.shape[1]`) -/
def CHPR.baseRows (r : CHPR) : List Row :=
  if r.heat then
    r.base.rows.map fun row =>
      { row with coeffs := row.coeffs ++ row.coeffs.map fun q => (r.base.c.length + q.1, r.cv q.1 * q.2) }
  else r.base.rows

def CHPR.rows (r : CHPR) : List Row :=
  r.baseRows ++ r.capRows ++ r.rampRows ++ r.commitRows ++ r.heatRows

/-! ## bounds -/

/-- `xs[a:b] = v` (numpy slice assignment: clipped at the end of the array) -/
def setSliceFrom : List Rat → Nat → Nat → Nat → Rat → List Rat
  | [], _, _, _, _ => []
  | x :: xs, i, a, b, v => (if a ≤ i ∧ i < b then v else x) :: setSliceFrom xs (i + 1) a b v

def setSlice (xs : List Rat) (a b : Nat) (v : Rat) : List Rat := setSliceFrom xs 0 a b v

def CHPR.uHeat (r : CHPR) : List Rat :=
  match r.share with
  | some s => (List.range r.n).map fun i => s.getD i 0 * r.maxCap i
  | none => (List.range r.n).map fun i => r.maxCap i / r.cv i

def CHPR.lower (r : CHPR) : List Rat :=
  let l0 := if r.incOn then r.base.l.map fun _ => (0 : Rat) else r.base.l
  let l1 := if r.heat then List.replicate (2 * r.base.c.length) (0 : Rat) else l0
  let l2 := if r.incOn then l1 ++ List.replicate r.T 0 else l1
  let l3 := if r.incOn ∧ r.incStart then l2 ++ List.replicate r.T 0 else l2
  if r.incStart ∧ 1 < r.R ∧ 0 < r.tar ∧ r.tar < r.R then setSlice l3 r.layout.onIdx (r.layout.onIdx + min (r.R - r.tar) r.T) 1 else l3

def CHPR.upper (r : CHPR) : List Rat :=
  let u1 := if r.heat then r.base.u ++ r.uHeat else r.base.u
  let u2 := if r.incOn then u1 ++ List.replicate r.T 1 else u1
  let u3 := if r.incOn ∧ r.incStart then u2 ++ List.replicate r.T 1 else u2
  if 1 < r.D ∧ 0 < r.tao ∧ r.tao < r.D then setSlice u3 r.layout.onIdx (r.layout.onIdx + min (r.D - r.tao) r.T) 0 else u3

def CHPR.cost (r : CHPR) : List Rat :=
  r.base.c ++ (if r.heat then (if r.conv.length = 1 then r.base.c.map (r.cv 0 * ·)   -- numpy broadcasts a one-element factor
                               else List.zipWith (· * ·) r.conv r.base.c) else []) ++
    (if r.incOn then r.runningCosts else []) ++ (if r.incOn ∧ r.incStart then r.startCosts else [])

/-! ## mapping -/

def CHPR.boolRows (r : CHPR) (varName : String) : List MapRow :=
  r.idx.map fun s => { var := 0, asset := r.name, node := none, kind := .i, step := s, factor := 1, isBool := true, varName := varName }

/-- mapping before the fuel rows, after `reset_index` (the index enumerates the rows = the variables) -/
def CHPR.mappingCore (r : CHPR) : List MapRow :=
  let m1 := if r.heat then
      (r.nodes.take 2).flatMap fun nd => (r.base.mapping.filter fun m => m.kind == VarKind.d).map fun m => { m with node := some nd }
    else r.base.mapping
  let m2 := if r.incOn then m1 ++ r.boolRows "bool_on" else m1
  let m3 := if r.incOn ∧ r.incStart then m2 ++ r.boolRows "bool_start" else m2
  m3.zipIdx.map fun q => { q.1 with var := q.2 }

/-- the rows of `var_name == 'disp'` at the given node (those that are copied to the fuel node) -/
def CHPR.dispRowsAt (r : CHPR) (nd : String) : List MapRow :=
  r.mappingCore.filter fun m => m.varName == "disp" && m.node == some nd

def withFactors (rows : List MapRow) (fs : List Rat) (node : String) : List MapRow :=
  (rows.zip fs).map fun q => { q.1 with node := some node, kind := .d, factor := q.2 }

/-- `_add_fuel_consumption`: extra mapping rows at the fuel node -/
def CHPR.fuelRows (r : CHPR) (f : String) : List MapRow :=
  let k (i : Nat) := r.fuelEff.getD i 0
  let n := r.fuelEff.length
  withFactors (r.dispRowsAt (r.nodes.getD 0 "")) ((List.range n).map fun i => -1 / k i) f ++
  (if r.heat then withFactors (r.dispRowsAt (r.nodes.getD 1 "")) ((List.range n).map fun i => - r.cv i / k i) f else []) ++
  (if r.incOn then withFactors (r.mappingCore.filter fun m => m.varName == "bool_on") (r.consIfOn.map fun v => - v) f else []) ++
  (if r.incOn ∧ r.incStart then withFactors (r.mappingCore.filter fun m => m.varName == "bool_start") (r.startFuel.map fun v => - v) f else [])

def CHPR.mapping (r : CHPR) : List MapRow :=
  match r.fuel with
  | none => r.mappingCore
  | some f => r.mappingCore ++ r.fuelRows f

/-- the asset problem generated from resolved inputs -/
def assembleCHP (r : CHPR) : AssetProblem :=
  { name := r.name, nodes := r.nodes, c := r.cost, l := r.lower, u := r.upper, rows := r.rows, mapping := r.mapping }

/-- decidable form of what `resolveCHP` guarantees about its result (one variable and one mapping row per
    step, all of type 'd' when they are duplicated for the heat node; the include decisions cover `R > 1`,
    `D > 1`, and start variables imply on variables).  The driver evaluates it on every request. -/
def CHPR.commitOK (r : CHPR) : Bool :=
  decide (0 < r.T) && decide (r.base.l.length = r.T) && decide (r.base.u.length = r.T) &&
  decide (r.base.c.length = r.T) && decide (r.base.mapping.length = r.T) &&
  (!r.heat || r.base.mapping.all fun m => m.kind == VarKind.d) &&
  (!decide (1 < r.R) || r.incStart) && (!decide (1 < r.D) || r.incOn) && (!r.incStart || r.incOn)

/-- the mapping `Contract` produces for a one-variable contract: one dispatch row per step at the power node -/
def CHPR.canonicalBaseMapping (r : CHPR) : List MapRow :=
  r.idx.zipIdx.map fun q =>
    { var := q.2, asset := r.name, node := some (r.nodes.getD 0 ""), kind := VarKind.d, step := q.1, factor := 1,
      isBool := false, varName := "disp" }

/-- decidable hypotheses of the fuel-dispatch theorem (`C06.fuel_rows`), evaluated by the driver on every request:
    canonical base mapping, distinct steps, vector lengths, fuel node different from power and heat node -/
def CHPR.fuelOK (r : CHPR) : Bool :=
  match r.fuel with
  | none => true
  | some f =>
    decide (r.base.mapping = r.canonicalBaseMapping) && decide (r.idx.length = r.T) && decide r.idx.Nodup &&
    decide (r.fuelEff.length = r.T) && decide (r.consIfOn.length = r.T) && decide (r.startFuel.length = r.T) &&
    decide (f ≠ r.nodes.getD 0 "") &&
    (!r.heat || (decide (f ≠ r.nodes.getD 1 "") && decide (r.nodes.getD 0 "" ≠ r.nodes.getD 1 "") && decide (2 ≤ r.nodes.length)))

/-! ## resolution of the constructor arguments -/

/-- constructor: meaning of the nodes and assertions.  Returns (heat node present, fuel node) -/
def chpCtor (p : CHPP) : Except BuildError (Bool × Option String) := do
  let nn := p.nodes.length
  let res ← if !p.noHeat then
      (if nn = 2 ∨ nn = 3 then pure (true, if nn = 3 then p.nodes[2]? else none) else throw BuildError.assertion)
    else pure (false, if nn = 2 then p.nodes[1]? else none)
  if p.minRuntime < 0 then throw .assertion
  if 1 < p.minDowntime ∧ (decide (p.timeAlreadyOff = 0) == decide (p.timeAlreadyRunning = 0)) then throw .assertion
  pure res

def vec (v : ParamValue) (g : Grid) (prices : Prices) (dflt : Rat) (convert : Bool) : Except BuildError (List Rat) := do
  allSome (← makeVector v g prices (some dflt) convert)

/-- the parameter vectors `make_vector` produces, in the order and with the assertions of the code -/
structure CHPVecs where
  startCosts   : List Rat
  runningCosts : List Rat
  share        : Option (List Rat)
  conv         : List Rat
  startFuel    : List Rat
  fuelEff      : List Rat
  consIfOn     : List Rat
  deriving Repr, Inhabited

def chpVectors (p : CHPP) (g : Grid) (prices : Prices) (heat : Bool) (fuel : Option String) :
    Except BuildError CHPVecs := do
  let startCosts ← vec p.startCosts g prices 0 false
  let runningCosts ← vec p.runningCosts g prices 0 true
  let share ← match p.maxShareHeat with
    | none => pure none
    | some v => do pure (some (← vec v g prices 1 false))
  let conv ← vec p.convFactor g prices 1 false
  if heat ∧ conv.any (· == 0) then throw .assertion
  let (startFuel, fuelEff, consIfOn) ← match fuel with
    | none => pure (([] : List Rat), ([] : List Rat), ([] : List Rat))
    | some _ => do
      let sf ← vec p.startFuel g prices 0 false
      let fe ← vec p.fuelEfficiency g prices 1 false
      let ci ← vec p.consumptionIfOn g prices 0 true
      if fe.any (· == 0) then throw .assertion
      pure (sf, fe, ci)
  pure { startCosts, runningCosts, share, conv, startFuel, fuelEff, consIfOn }

/-- conversion of durations, scaling by `dt[0]` and the include decisions (pure).  `rampTimes` = start + shutdown
    ramp time in steps (added to the minimum runtime), `prof` = a start or shutdown ramp profile is given
    (both 0 / false in the profile-free case) -/
def mkCHPR (p : CHPP) (base : AssetProblem) (g : Grid) (heat : Bool) (fuel : Option String) (v : CHPVecs)
    (unitSec stepSec : Nat) (rampTimes : Nat) (prof : Bool) : CHPR :=
  let R := convertSteps p.minRuntime unitSec stepSec + rampTimes
  let D := convertSteps p.minDowntime unitSec stepSec
  let dt0 := g.dt.getD 0 0
  let incStart0 := decide (1 < R) || v.startCosts.any (· != 0) || prof
  let incOn0 := incStart0 || decide (1 < D) || prof || rawNonzero p.minCap
  let incStart := if fuel.isSome then incStart0 || v.startFuel.any (· != 0) else incStart0
  let incOn := if fuel.isSome then incOn0 || incStart || v.consIfOn.any (· != 0) else incOn0
  { name := p.name, nodes := p.nodes, T := g.T, idx := g.idx, base := base, heat := heat, fuel := fuel,
    conv := v.conv, share := v.share, ramp := p.ramp.map (· * dt0), last := p.lastDispatch * dt0,
    startCosts := v.startCosts, runningCosts := v.runningCosts, R := R, D := D,
    tar := convertSteps p.timeAlreadyRunning unitSec stepSec, tao := convertSteps p.timeAlreadyOff unitSec stepSec,
    incOn := incOn, incStart := incStart, fuelEff := v.fuelEff, consIfOn := v.consIfOn, startFuel := v.startFuel }

/-- the checks of the code AFTER the cost vector is complete (not reached with `costs_only`) -/
def chpLateChecks (r : CHPR) : Except BuildError Unit := do
  if r.base.l.any (· < 0) then throw .assertion
  if r.base.u.any (· < 0) then throw .assertion
  -- with non-negative `min_cap` the contract has one variable per step; anything else is outside this model
  if r.base.c.length ≠ r.T ∨ r.base.l.length ≠ r.T ∨ r.base.u.length ≠ r.T ∨ r.base.mapping.length ≠ r.T then
    throw .notImplemented
  -- `_add_dispatch_variables`: "Only variables of type 'd' are allowed in op.mapping at this point"
  if r.heat ∧ r.base.mapping.any (fun m => m.kind != VarKind.d) then throw .assertion
  -- pandas: assigning a length-T array to a selection of another length is a ValueError
  match r.fuel with
  | none => pure ()
  | some _ =>
    if (r.dispRowsAt (r.nodes.getD 0 "")).length ≠ r.T then throw .lengthMismatch
    if r.heat ∧ (r.dispRowsAt (r.nodes.getD 1 "")).length ≠ r.T then throw .lengthMismatch

/-- `np.hstack([c, conversion_factor_power_heat * c])`: numpy broadcast error when the base problem has two
    variables per step (it is rejected a few lines later anyway: its lower bounds are negative) -/
def chpCostCheck (r : CHPR) : Except BuildError Unit :=
  if r.heat ∧ r.conv.length ≠ r.base.c.length ∧ r.conv.length ≠ 1 ∧ r.base.c.length ≠ 1 then throw .lengthMismatch
  else pure ()

/-- constructor + the part of `setup_optim_problem` in front of the generation.  `none`: the asset has no
    step on the grid and the base problem is returned unchanged.  With `costsOnly` the code returns the cost
    vector before the late checks. -/
def resolveCHPWith (p : CHPP) (base : AssetProblem) (g : Grid) (prices : Prices) (unitSec stepSec : Nat)
    (costsOnly : Bool) : Except BuildError (Option CHPR) := do
  let hf ← chpCtor p
  if g.T = 0 then return none
  if p.freqMismatch then throw .illPosed
  let v ← chpVectors p g prices hf.1 hf.2
  let r := mkCHPR p base g hf.1 hf.2 v unitSec stepSec 0 false
  chpCostCheck r
  if costsOnly then return some r
  chpLateChecks r
  pure (some r)

def resolveCHP (p : CHPP) (base : AssetProblem) (g : Grid) (prices : Prices) (unitSec stepSec : Nat) :
    Except BuildError (Option CHPR) := resolveCHPWith p base g prices unitSec stepSec false

/-- model of `CHPAsset.setup_optim_problem` (and `Plant`), profile-free case, on top of the base problem -/
def buildCHP (p : CHPP) (base : AssetProblem) (g : Grid) (prices : Prices) (unitSec stepSec : Nat) :
    Except BuildError AssetProblem := do
  match ← resolveCHP p base g prices unitSec stepSec with
  | none => pure base
  | some r => pure (assembleCHP r)

/-- `setup_optim_problem(costs_only=True)`: the cost vector (of the base problem when the window is empty) -/
def costsOnlyCHP (p : CHPP) (base : AssetProblem) (g : Grid) (prices : Prices) (unitSec stepSec : Nat) :
    Except BuildError (List Rat) := do
  match ← resolveCHPWith p base g prices unitSec stepSec true with
  | none => pure base.c
  | some r => pure r.cost

end EAO
