import EAO.Model.Contract
import EAO.Model.CoarseBuild
import EAO.Model.Storage
import EAO.Model.OrderBook
import EAO.Model.CHP
import EAO.Model.CHPMinLoad
import EAO.Model.CHPProfile
import EAO.Model.Scaled
import EAO.Model.Structured
import EAO.Model.Linked
import EAO.Model.Periodic
import EAO.Model.Assemble
/-!
# EAO.Model.CostsOnly — the `costs_only=True` branch of every builder and `Portfolio.create_cost_samples`

Every `setup_optim_problem` of eaopack has a switch `costs_only`: the builder then returns only the cost vector `c`
(a numpy array) and leaves as soon as `c` is complete.  `Portfolio.setup_optim_problem(costs_only=True)` concatenates
the vectors of its assets, `Portfolio.create_cost_samples(price_samples)` does that once per price sample; the result
feeds `make_slp` and the robust target (C17).

For each builder this file states LITERALLY what runs before the `return c`:

| class | statements that run | what is skipped (so `costs_only` may succeed where the set-up fails) |
|---|---|---|
| `SimpleContract` | constructor check, price look-up and length check, `make_vector` of `max_cap`, `min_cap` (with the vector check `min_cap > max_cap`), of `extra_costs` (gaps filled with 0), the one- or two-variable decision on the vectors AS THEY ARE (a NaN capacity compares false), `c` | `self.nodes[0]` (IndexError for an asset without node), the NaN assertions of `OptimProblem.__init__` on `l`, `u`; the mapping extension of a coarse asset; `periodicity` (F-17e) |
| `Contract`, `MultiCommodityContract` | as `SimpleContract` (+ the constructors' checks) | the take rows, the mapping copies, `periodicity` |
| `Transport`, `ExtendedTransport` | everything up to `c` — which is everything that can fail | (mapping, take rows), `periodicity` |
| `Storage` | empty window → `[]`; price look-up and length check; `c` and one zero per boolean variable | `self.nodes[0]`, the block structure (`block_size`: IndexError / NaN rows), `periodicity` |
| `OrderBook` | the loop over the orders | (mapping); a NaN capacity / price gives a vector WITH NaN instead of the assertion |
| `CHPAsset`, `Plant` | the contract's vector, window test, freq test, conversions, `make_vector`s with their assertions, the cost extension (heat copy, on / start / shutdown blocks) | the sign assertions on `l`, `u`, everything about rows and mapping |
| `CHPAsset_with_min_load_costs` | the CHP vector, the two `make_vector`s, `+ min_load_costs` when active | the row generation (IndexError / assertion) |
| `ScaledAsset` | constructor assertions, base with `costs_only`, `len(c) == 0` → unchanged, else `+ [fix_costs·Σdt]` | the tie rows (shape / index errors) |
| `StructuredAsset` | the FULL set-up of the inner portfolio, then `op.c` | nothing |
| `LinkedAsset` | the structured asset's vector | the linking loop (IndexError / ValueError / AttributeError) |

`CSpec` is a closed description of an asset (parameters + the restricted grid it sees), `CSpec.build` its full set-up,
`CSpec.costsOnly` the cost-only branch, `portfolioCostsOnly` / `createCostSamples` the two portfolio functions.
Periodicity is a wrapper node (`CSpec.periodic`): the full set-up merges variables (`makePeriodic`), the cost-only
branch returns the UN-MERGED vector (finding F-17e) — except inside a structured asset, whose cost-only branch runs the
full set-up of the wrapped assets.
-/
namespace EAO

/-! ## contracts -/

/-- `all(v <= 0.)` on a vector that may hold NaN (`none`): a comparison with NaN is false -/
def allLe0O (v : List (Option Rat)) : Bool :=
  v.all fun o => match o with
    | some x => decide (x ≤ 0)
    | none => false

/-- `all(v >= 0.)` on a vector that may hold NaN -/
def allGe0O (v : List (Option Rat)) : Bool :=
  v.all fun o => match o with
    | some x => decide (0 ≤ x)
    | none => false

/-- the one- or two-variable decision on the capacity vectors as `make_vector` returned them -/
def oneVariableO (ec : List Rat) (minO maxO : List (Option Rat)) : Bool :=
  ec.all (fun e => e == 0) || allLe0O maxO || allGe0O minO

/-- price of the one-variable form (see `oneVarPrice`) -/
def oneVarPriceO (price ec : List Rat) (minO maxO : List (Option Rat)) : List Rat :=
  if ec.any (fun e => e != 0) then
    let p1 := if allLe0O maxO then List.zipWith (· - ·) price ec else price
    if allGe0O minO then List.zipWith (· + ·) p1 ec else p1
  else price

/-- `SimpleContract.setup_optim_problem(costs_only=True)` from the line `max_cap = self.make_vector(…)` to
    `if costs_only: return c`, on asset grid `g` with the price vector `price` (sampled or averaged before).
    The extra costs are read with default 0: they cannot hold NaN (`allSome` never fails on them). -/
def simpleCostCore (p : ContractP) (g : Grid) (prices : Prices) (price : List Rat) : Except BuildError (List Rat) := do
  let (minO, maxO, ecO) ← contractVectors p g prices
  let ec ← allSome ecO
  if oneVariableO ec minO maxO then
    pure (List.zipWith (· * ·) (oneVarPriceO price ec minO maxO) g.df)
  else
    pure (List.zipWith (· * ·) (List.zipWith (· - ·) price ec) g.df
          ++ List.zipWith (· * ·) (List.zipWith (· + ·) price ec) g.df)

def costsOnlySimpleContract (p : ContractP) (g : Grid) (prices : Prices) (fullT : Nat) : Except BuildError (List Rat) := do
  if scalarIllPosed p.minCap p.maxCap then throw .illPosed            -- constructor
  let price ← priceVector p.price g prices fullT
  simpleCostCore p g prices price

/-- `Contract`: `op = super().setup_optim_problem(…, costs_only); if costs_only: return op` -/
def costsOnlyContract (p : ContractP) (g : Grid) (prices : Prices) (fullT : Nat) : Except BuildError (List Rat) :=
  costsOnlySimpleContract p g prices fullT

/-- `MultiCommodityContract`: the constructors' checks, then the contract's vector -/
def costsOnlyMulti (p : ContractP) (factors : List Rat) (g : Grid) (prices : Prices) (fullT : Nat) :
    Except BuildError (List Rat) := do
  if scalarIllPosed p.minCap p.maxCap then throw .illPosed
  if factors.length ≠ p.nodes.length then throw .assertion
  costsOnlyContract p g prices fullT

/-- a `SimpleContract` with an own coarse `freq`: price = plain mean per coarse step, everything else on the coarse grid;
    the mapping extension is not reached -/
def costsOnlyCoarseSimpleContract (p : ContractP) (cg : CoarseGrid) (prices : Prices) (fullT : Nat) :
    Except BuildError (List Rat) := do
  if scalarIllPosed p.minCap p.maxCap then throw .illPosed
  let price ← coarsePrice p.price cg.minor prices fullT
  simpleCostCore p cg.grid prices price

/-! ## transports -/

/-- `Transport.setup_optim_problem` from the capacities to `if costs_only: return c` -/
def transportCostCore (p : TransportP) (g : Grid) (cts : List Rat) : Except BuildError (List Rat) := do
  let minC := g.dt.map (p.minCap * ·)
  let maxC := g.dt.map (p.maxCap * ·)
  let c0 := cts.map (· + p.costsConst)
  let allNeg := maxC.all (fun v => decide (v ≤ 0))
  if !(allNeg || minC.all (fun v => decide (0 ≤ v)) || c0.all (fun v => v == 0)) then throw .notImplemented
  let c1 := if allNeg then c0.map (fun v => -v) else c0
  pure (List.zipWith (· * ·) c1 g.df)

def costsOnlyTransport (p : TransportP) (g : Grid) (prices : Prices) (fullT : Nat) : Except BuildError (List Rat) := do
  match p.nodes with
  | [_, _] =>
    if p.maxCap < p.minCap then throw .assertion
    if ¬ (0 < p.efficiency) then throw .assertion
    let cts ← transportCosts p.costsKey g prices fullT
    transportCostCore p g cts
  | _ => throw .assertion

def costsOnlyExtTransport (p : TransportP) (g : Grid) (prices : Prices) (fullT : Nat) : Except BuildError (List Rat) :=
  costsOnlyTransport p g prices fullT

def costsOnlyCoarseTransport (p : TransportP) (cg : CoarseGrid) (prices : Prices) (fullT : Nat) :
    Except BuildError (List Rat) := do
  match p.nodes with
  | [_, _] =>
    if p.maxCap < p.minCap then throw .assertion
    if ¬ (0 < p.efficiency) then throw .assertion
    let cts ← coarseCosts p.costsKey cg.minor prices fullT
    transportCostCore p cg.grid cts
  | _ => throw .assertion

/-! ## storage -/

/-- `Storage.setup_optim_problem(costs_only=True)`: `c` followed by one zero per boolean variable
    (`Storage.costVec` already has them) -/
def costsOnlyStorage (p : StorageP) (g : Grid) (T : Nat) (prices : Prices) : Except BuildError (List Rat) :=
  if g.dt.length = 0 then .ok []
  else match Storage.priceVec p g T prices with
    | .error e => .error e
    | .ok pr => .ok (Storage.costVec p g g.T pr)

/-- constructor guards in front -/
def mkCostsOnlyStorage (p : StorageP) (g : Grid) (T : Nat) (prices : Prices) : Except BuildError (List Rat) :=
  if p.guards then costsOnlyStorage p g T prices else throw .assertion

/-! ## order book -/

def costsOnlyOrderBook (orders : List Order) (g : Grid) : List Rat := orders.map (orderCost g)

/-- the four columns as given.  The constructor asserts equal lengths.  A NaN capacity or price makes the entry of the
    cost vector NaN — the code returns that vector WITHOUT raising; a vector with NaN is not representable here and is
    answered with `nanInput` (the correspondence reads it as "vector holds NaN") -/
def costsOnlyOrderBookRaw (starts stops : List Int) (capas prices : List (Option Rat)) (g : Grid) :
    Except BuildError (List Rat) :=
  if starts.length ≠ stops.length ∨ starts.length ≠ capas.length ∨ starts.length ≠ prices.length then
    .error .assertion
  else
    let cols := (starts.zip stops).zip (capas.zip prices)
    match cols.mapM (fun q => match q.2.1, q.2.2 with
        | some c, some p => some ({ start := q.1.1, stop := q.1.2, capa := c, price := p } : Order)
        | _, _ => none) with
    | none => .error .nanInput
    | some orders => .ok (costsOnlyOrderBook orders g)

/-! ## CHP, plant, minimum-load costs -/

/-- with `costs_only` the parent class hands over a bare vector: an asset problem carrying only that vector -/
def costCarrier (name : String) (nodes : List String) (c : List Rat) : AssetProblem :=
  { name := name, nodes := nodes, c := c, l := [], u := [], rows := [], mapping := [] }

/-- `CHPAsset.setup_optim_problem(costs_only=True)` / `Plant` given the vector `baseC` the parent `Contract` returned:
    the models `resolveCHPWith` / `resolveCHPP` with their `costsOnly` switch (the late checks are not reached) -/
def costsOnlyCHPFrom (p : CHPP) (q : CHPProfP) (baseC : List Rat) (g : Grid) (prices : Prices) (unitSec stepSec : Nat) :
    Except BuildError (List Rat) :=
  if q.active then do
    match ← resolveCHPP p q (costCarrier p.name p.nodes baseC) g prices unitSec stepSec true with
    | none => pure baseC
    | some r => pure r.cost
  else costsOnlyCHP p (costCarrier p.name p.nodes baseC) g prices unitSec stepSec

/-- the constructors of the CHP family, in the order of the code: `SimpleContract.__init__` (ValueError), then the
    assertions of `CHPAsset.__init__` -/
def chpAssetCtor (p : CHPP) (q : CHPProfP) (cp : ContractP) : Except BuildError Unit := do
  if scalarIllPosed cp.minCap cp.maxCap then throw .illPosed
  let _ ← chpCtor p
  if q.active then
    let _ ← profCtor q
    pure ()

/-- the full set-up of a CHP asset / plant / CHP with minimum-load costs on top of its parent `Contract` -/
def buildCHPAsset (p : CHPP) (q : CHPProfP) (ml : Option MinLoadP) (cp : ContractP) (g : Grid) (prices : Prices)
    (fullT unitSec stepSec : Nat) : Except BuildError AssetProblem := do
  chpAssetCtor p q cp
  let base ← buildContract cp g prices fullT unitSec
  let a ← buildCHPAny p q base g prices unitSec stepSec
  match ml with
  | none => pure a
  | some m => buildMinLoad m a g prices

/-- the cost-only branch of the same chain -/
def costsOnlyCHPAsset (p : CHPP) (q : CHPProfP) (ml : Option MinLoadP) (cp : ContractP) (g : Grid) (prices : Prices)
    (fullT unitSec stepSec : Nat) : Except BuildError (List Rat) := do
  chpAssetCtor p q cp
  let baseC ← costsOnlyContract cp g prices fullT
  let c ← costsOnlyCHPFrom p q baseC g prices unitSec stepSec
  match ml with
  | none => pure c
  | some m => costsOnlyMinLoad m c g prices

/-! ## wrappers -/

/-- `ScaledAsset.setup_optim_problem(costs_only=True)` after the base returned `baseC`:
    `if len(op) == 0: return op` else `hstack((op, fix_costs * restricted.dt.sum()))` -/
def costsOnlyScaled (p : ScaledP) (baseC : List Rat) (dtSum : Rat) : List Rat :=
  if baseC.length = 0 then baseC else baseC ++ [p.fixCosts * dtSum]

/-- `StructuredAsset.setup_optim_problem(costs_only=True)`: the inner portfolio is set up IN FULL
    (`self.portfolio.setup_optim_problem(prices, timegrid, skip_nodes=…)`), then `return op.c` -/
def costsOnlyStructured (name : String) (ext : List String) (inner : List AssetProblem) (gridI : List Nat) : List Rat :=
  (structured name ext inner gridI).c

/-! ## error classes of the wrapped components in one enumeration -/

def liftLink {α} : Except LinkError α → Except BuildError α
  | .ok a => .ok a
  | .error .index => .error .index
  | .error .value => .error .illPosed          -- ValueError
  | .error .attribute => .error .assertion     -- AttributeError (`A is None`); no class of its own here

def liftPeriodic {α} : Except PeriodicError α → Except BuildError α
  | .ok a => .ok a
  | .error .assertion => .error .assertion
  | .error .index => .error .index
  | .error .chain => .error .notImplemented    -- no exception in the code; result not representable

/-! ## closed asset descriptions -/

/-- an asset as the portfolio sees it when it is set up: constructor arguments and the restricted grid(s) the asset's
    own window (clipped by the windows of the wrappers around it) selects.  Grids are data (`EAO/Model/Grid.lean`). -/
inductive CSpec
  | simple (p : ContractP) (g : Grid) (fullT : Nat)
  | contract (p : ContractP) (g : Grid) (fullT unitSec : Nat)
  | multi (p : ContractP) (factors : List Rat) (g : Grid) (fullT unitSec : Nat)
  | transport (p : TransportP) (g : Grid) (fullT : Nat)
  | extTransport (p : TransportP) (g : Grid) (fullT unitSec : Nat)
  | coarseSimple (p : ContractP) (cg : CoarseGrid) (dtFine : List Rat) (fullT : Nat)
  | coarseTransport (p : TransportP) (cg : CoarseGrid) (dtFine : List Rat) (fullT : Nat)
  | storage (p : StorageP) (g : Grid) (T : Nat)
  | orderBook (name node : String) (starts stops : List Int) (capas prices : List (Option Rat)) (fullExec : Bool) (g : Grid)
  | chp (p : CHPP) (q : CHPProfP) (ml : Option MinLoadP) (cp : ContractP) (g : Grid) (fullT unitSec stepSec : Nat)
  | scaled (p : ScaledP) (base : CSpec) (dtSum : Rat)
  | structured (name : String) (ext : List String) (inner : List CSpec) (gridI : List Nat)
  | linked (name : String) (ext : List String) (inner : List CSpec) (gridI : List Nat) (lp : LinkP)
      (unitSec stepSec T : Nat) (aCols : Option Nat)
  | periodic (s : CSpec) (labels : List (Nat × Nat × Nat))
  deriving Inhabited

mutual
/-- `asset.setup_optim_problem(prices, timegrid)` -/
def CSpec.build : CSpec → Prices → Except BuildError AssetProblem
  | .simple p g fullT, pr => buildSimpleContract p g pr fullT
  | .contract p g fullT unitSec, pr => buildContract p g pr fullT unitSec
  | .multi p f g fullT unitSec, pr => buildMulti p f g pr fullT unitSec
  | .transport p g fullT, pr => buildTransport p g pr fullT
  | .extTransport p g fullT unitSec, pr => buildExtTransport p g pr fullT unitSec
  | .coarseSimple p cg dtFine fullT, pr => buildCoarseSimpleContract p cg dtFine pr fullT
  | .coarseTransport p cg dtFine fullT, pr => buildCoarseTransport p cg dtFine pr fullT
  | .storage p g T, pr => mkStorage p g T pr
  | .orderBook name node starts stops capas prices fullExec g, _ =>
      buildOrderBookRaw name node starts stops capas prices fullExec g
  | .chp p q ml cp g fullT unitSec stepSec, pr => buildCHPAsset p q ml cp g pr fullT unitSec stepSec
  | .scaled p b dtSum, pr => do
      if !p.ctorOk then throw .assertion
      let base ← b.build pr
      pure (buildScaled p base dtSum)
  | .structured name ext inner gridI, pr => do
      let as ← CSpec.buildAll inner pr
      pure (EAO.structured name ext as gridI)
  | .linked name ext inner gridI lp unitSec stepSec T aCols, pr => do
      let as ← CSpec.buildAll inner pr
      liftLink (linkedAsset name ext as gridI lp unitSec stepSec T aCols)
  | .periodic s labels, pr => do
      let a ← s.build pr
      liftPeriodic (makePeriodic a labels)
/-- the loop `for a in self.assets: a.setup_optim_problem(…)`: the first failure ends it -/
def CSpec.buildAll : List CSpec → Prices → Except BuildError (List AssetProblem)
  | [], _ => pure []
  | s :: ss, pr => do
      let a ← s.build pr
      let as ← CSpec.buildAll ss pr
      pure (a :: as)
end

/-- `asset.setup_optim_problem(prices, timegrid, costs_only=True)` -/
def CSpec.costsOnly : CSpec → Prices → Except BuildError (List Rat)
  | .simple p g fullT, pr => costsOnlySimpleContract p g pr fullT
  | .contract p g fullT _, pr => costsOnlyContract p g pr fullT
  | .multi p f g fullT _, pr => costsOnlyMulti p f g pr fullT
  | .transport p g fullT, pr => costsOnlyTransport p g pr fullT
  | .extTransport p g fullT _, pr => costsOnlyExtTransport p g pr fullT
  | .coarseSimple p cg _ fullT, pr => costsOnlyCoarseSimpleContract p cg pr fullT
  | .coarseTransport p cg _ fullT, pr => costsOnlyCoarseTransport p cg pr fullT
  | .storage p g T, pr => mkCostsOnlyStorage p g T pr
  | .orderBook _ _ starts stops capas prices _ g, _ => costsOnlyOrderBookRaw starts stops capas prices g
  | .chp p q ml cp g fullT unitSec stepSec, pr => costsOnlyCHPAsset p q ml cp g pr fullT unitSec stepSec
  | .scaled p b dtSum, pr => do
      if !p.ctorOk then throw .assertion
      let c ← b.costsOnly pr
      pure (costsOnlyScaled p c dtSum)
  | .structured name ext inner gridI, pr => do
      let as ← CSpec.buildAll inner pr
      pure (costsOnlyStructured name ext as gridI)
  | .linked name ext inner gridI _ _ _ _ _, pr => do
      let as ← CSpec.buildAll inner pr
      pure (linkedCostsOnly (EAO.structured name ext as gridI))
  | .periodic s _, pr => s.costsOnly pr      -- the vector before `__make_periodic__` (finding F-17e)

/-- no periodic asset whose cost-only branch is reached: periodic nodes only inside structured / linked assets -/
def CSpec.periodicFree : CSpec → Bool
  | .scaled _ b _ => b.periodicFree
  | .periodic _ _ => false
  | _ => true

/-! ## portfolio -/

/-- `Portfolio.setup_optim_problem(prices, costs_only=True)`: `c = concatenate((c, a.setup_optim_problem(…, costs_only=True)))`
    over the assets in order; the first failure ends the loop -/
def assetCostVectors : List CSpec → Prices → Except BuildError (List (List Rat))
  | [], _ => pure []
  | s :: ss, pr => do
      let c ← s.costsOnly pr
      let cs ← assetCostVectors ss pr
      pure (c :: cs)

def portfolioCostsOnly (specs : List CSpec) (pr : Prices) : Except BuildError (List Rat) := do
  let cs ← assetCostVectors specs pr
  pure cs.flatten

/-- `Portfolio.create_cost_samples(price_samples)`: one vector per sample; the first failing sample ends the loop -/
def createCostSamples (specs : List CSpec) : List Prices → Except BuildError (List (List Rat))
  | [] => pure []
  | pr :: rest => do
      let c ← portfolioCostsOnly specs pr
      let cs ← createCostSamples specs rest
      pure (c :: cs)

/-- `Portfolio.setup_optim_problem(prices)`: all assets set up, then assembled -/
def portfolioProblem (specs : List CSpec) (gridI : List Nat) (skip : List String) (pr : Prices) :
    Except BuildError Problem := do
  let as ← CSpec.buildAll specs pr
  pure (assemble as gridI skip)

end EAO
