import EAO.Model.Basic
import EAO.Model.Grid
import EAO.Model.Param
/-!
# EAO.Model.OrderBook — model of `OrderBook.setup_optim_problem` (eaopack/assets.py)

An order book is a list of orders `(start, end, capa, price)`.  Order number `k` (position in the
list, from 0) gets ONE variable `x_k ∈ [0,1]` ("executed fraction").  The order *covers* the steps of
the (restricted = whole, an order book has no window of its own) grid whose START point `p` satisfies
`start ≤ p < end` (`myI = (tp>=mys) & (tp<mye)`): a step that merely overlaps the order's window is
not covered, a step that starts inside but ends after `end` is covered completely.

* cost `c_k = capa · (Σ_{t covered} dt_t·df_t) · price`  (paid as if in every covered step, discounted)
* one mapping row per covered step: variable `k`, step `I_t`, factor `capa·dt_t`, type 'd', the single
  node, `var_name = k`, boolean flag iff `full_exec` (the column only exists under full execution);
  rows in the literal order of the loop (`pd.concat`): order-major, step-minor
* no restriction rows at all (`A = None`)
* an order covering no step still has its variable, with cost `capa·0·price = 0` and no mapping row.

Order dates without time zone are localised to the grid's zone by the code; the harness does the
same before instants reach the model.  NaN capacities/prices (`none`) make `OptimProblem.__init__`
reject the cost vector; unequal column lengths are rejected by the constructor.
-/
namespace EAO

structure Order where
  start : Int
  stop  : Int
  capa  : Rat
  price : Rat
  deriving Repr, Inhabited, DecidableEq

/-- does the order cover a step starting at instant `p`?  (`tp >= start & tp < end`) -/
def Order.covers (o : Order) (p : Int) : Bool := decide (o.start ≤ p) && decide (p < o.stop)

/-- positions (in the grid `g`) of the steps covered by the order, increasing -/
def coverPos (g : Grid) (o : Order) : List Nat := g.select o.covers

/-- `Σ_{t covered} dt_t · df_t` -/
def coverWeight (g : Grid) (o : Order) : Rat :=
  ((coverPos g o).map fun i => g.dt.getD i 0 * g.df.getD i 0).sum

/-- `c[iO] = myc * sum(dt[myI] * discount_factors[myI]) * myp` -/
def orderCost (g : Grid) (o : Order) : Rat := o.capa * coverWeight g o * o.price

/-- the mapping row of order number `k` for the covered grid position `i` -/
def orderRow (name node : String) (fullExec : Bool) (g : Grid) (k : Nat) (o : Order) (i : Nat) : MapRow :=
  { var := k, asset := name, node := some node, kind := .d, step := g.idx.getD i 0,
    factor := o.capa * g.dt.getD i 0, isBool := fullExec, varName := toString k }

/-- mapping rows of order number `k` -/
def orderMapRows (name node : String) (fullExec : Bool) (g : Grid) (k : Nat) (o : Order) : List MapRow :=
  (coverPos g o).map (orderRow name node fullExec g k o)

/-- the loop over the orders from running number `k` on: mapping frames are concatenated -/
def orderMapFrom (name node : String) (fullExec : Bool) (g : Grid) : Nat → List Order → List MapRow
  | _, [] => []
  | k, o :: os => orderMapRows name node fullExec g k o ++ orderMapFrom name node fullExec g (k + 1) os

/-- the problem the builder returns (it cannot fail on well-typed orders) -/
def orderBookProblem (name node : String) (orders : List Order) (fullExec : Bool) (g : Grid) : AssetProblem :=
  { name := name, nodes := [node],
    c := orders.map (orderCost g),
    l := orders.map fun _ => 0,
    u := orders.map fun _ => 1,
    rows := [],
    mapping := orderMapFrom name node fullExec g 0 orders }

def buildOrderBook (name node : String) (orders : List Order) (fullExec : Bool) (g : Grid) :
    Except BuildError AssetProblem :=
  .ok (orderBookProblem name node orders fullExec g)

/-- the four columns as the user gives them (`none` = NaN).  Column lengths are asserted by the
    constructor; a NaN capacity or price makes the cost NaN (also for an order covering no step:
    `nan*0*p`), which `OptimProblem.__init__` rejects. -/
def buildOrderBookRaw (name node : String) (starts stops : List Int) (capas prices : List (Option Rat))
    (fullExec : Bool) (g : Grid) : Except BuildError AssetProblem :=
  if starts.length ≠ stops.length ∨ starts.length ≠ capas.length ∨ starts.length ≠ prices.length then
    .error .assertion
  else
    let cols := (starts.zip stops).zip (capas.zip prices)
    match cols.mapM (fun q => match q.2.1, q.2.2 with
        | some c, some p => some ({ start := q.1.1, stop := q.1.2, capa := c, price := p } : Order)
        | _, _ => none) with
    | none => .error .nanInput
    | some orders => buildOrderBook name node orders fullExec g

end EAO
