import EAO.Model.Basic
import EAO.Model.Grid
import EAO.Model.Param
/-!
# EAO.Model.Storage — model of `eaopack.assets.Storage`

`buildStorage` reproduces `Storage.setup_optim_problem` (cost, bounds, restriction rows in the order and
with the kinds of the code, mapping) on a given RESTRICTED grid `g` (`asset.timegrid.restricted`, data);
`T` is the length of the full grid (only used for the length check of the price array).
`fillLevel`, `chargeOut`, `dischargeOut` model `Storage.fill_level` and the `<name>_charge`,
`<name>_discharge`, `<name>_fill_level` columns of `io.extract_output`.

Not modelled here: coarse asset frequency (`freq`) and `periodicity` (separate components).

Time blocks (`block_size`): the positions `aa` at which blocks start are computed by the code with
pandas calendar logic (`date_range`); they are an INPUT of the model (`StorageP.blocks`, the array `aa`
after `np.unique`, before `n` is appended).  `blockStartsTick` models the computation of `aa` for tick
frequencies.

Variables (positions as in the code): one-variable form `disp_t = t`; two-variable form
`disp_in_t = t`, `disp_out_t = n + t`; then `n` booleans `bool_1` (no simultaneous in/out, only in the
two-variable form), then `n` booleans `bool_2` (maximum holding duration).
-/
namespace EAO

structure StorageP where
  name       : String
  nodes      : List String
  size       : Rat
  capIn      : Rat
  capOut     : Rat
  startLevel : Rat
  endLevel   : Rat
  costIn     : Rat
  costOut    : Rat
  costStore  : Rat
  effIn      : Rat
  inflow     : Rat
  price      : Option String
  noSimult   : Bool
  maxStoreDuration : Option Rat
  blocks     : Option (List Nat)
  deriving Repr, Inhabited

/-- the assertions of `Storage.__init__` (all `AssertionError`) -/
def StorageP.guards (p : StorageP) : Bool :=
  decide (p.startLevel ≤ p.size) && decide (0 ≤ p.capIn) && decide (0 ≤ p.capOut) && decide (p.nodes.length ≤ 2)

/-- `Σ_{j<k} f j` -/
def sumTo (f : Nat → Rat) : Nat → Rat
  | 0 => 0
  | k + 1 => sumTo f k + f k

/-- `[xs[i:].sum() for i in range(len(xs))]` -/
def tailSums : List Rat → List Rat
  | [] => []
  | x :: xs => (x :: xs).sum :: tailSums xs

namespace Storage

/-- two dispatch variables per step? (`sep_needed`) -/
def sep (p : StorageP) : Bool :=
  decide (p.effIn ≠ 1) || decide (p.costIn ≠ 0) || decide (p.costOut ≠ 0) || decide (p.nodes.length = 2)

def dtAt (g : Grid) (i : Nat) : Rat := g.dt.getD i 0
def dfAt (g : Grid) (i : Nat) : Rat := g.df.getD i 0
def idxAt (g : Grid) (i : Nat) : Nat := g.idx.getD i 0

/-- `ct = cap_out * dt`, `cp = cap_in * dt` -/
def ct (p : StorageP) (g : Grid) (i : Nat) : Rat := p.capOut * dtAt g i
def cp (p : StorageP) (g : Grid) (i : Nat) : Rat := p.capIn * dtAt g i

/-- inflow volume of step `k` -/
def infl (p : StorageP) (g : Grid) (k : Nat) : Rat := p.inflow * dtAt g k

/-- `np.cumsum(inflow*dt)[k-1]`, and `0` for `k = 0` -/
def cumInfl (p : StorageP) (g : Grid) (k : Nat) : Rat := sumTo (infl p g) k

/-- number of dispatch variables -/
def nd (p : StorageP) (n : Nat) : Nat := if sep p then 2 * n else n

/-- booleans of the no-simultaneous option exist only in the two-variable form -/
def hasNS (p : StorageP) : Bool := p.noSimult && sep p

/-- position of the first `bool_2` variable (`m` of `(n_exist, m) = A.shape`) -/
def mHold (p : StorageP) (n : Nat) : Nat := nd p n + (if hasNS p then n else 0)

/-- number of variables -/
def nVars (p : StorageP) (n : Nat) : Nat := mHold p n + (if p.maxStoreDuration.isSome then n else 0)

/-- price sampled at the asset's steps; errors: key missing (assert), wrong length (ValueError) -/
def priceVec (p : StorageP) (g : Grid) (T : Nat) (prices : Prices) : Except BuildError (Nat → Rat) :=
  match p.price with
  | none => pure fun _ => 0
  | some k => match prices.lookup k with
    | none => throw .assertion
    | some arr => if arr.length ≠ T then throw .lengthMismatch
                  else pure fun i => arr.getD (idxAt g i) 0

/-- `cost_store * dt * discount`, summed over the tail of the WHOLE window; absent if `cost_store = 0` -/
def storeTail (p : StorageP) (g : Grid) (n : Nat) : List Rat :=
  if p.costStore = 0 then (List.range n).map fun _ => 0
  else tailSums ((List.range n).map fun i => p.costStore * dtAt g i * dfAt g i)

def costVec (p : StorageP) (g : Grid) (n : Nat) (pr : Nat → Rat) : List Rat :=
  let cs := storeTail p g n
  let dispc :=
    if sep p then
      ((List.range n).map fun i => (-(p.costIn) - pr i) * dfAt g i - cs.getD i 0 * p.effIn) ++
      ((List.range n).map fun i => (p.costOut - pr i) * dfAt g i - cs.getD i 0)
    else (List.range n).map fun i => 0 - pr i * dfAt g i - cs.getD i 0
  dispc ++ (List.range (nVars p n - nd p n)).map fun _ => 0

def lowerVec (p : StorageP) (g : Grid) (n : Nat) : List Rat :=
  (if sep p then ((List.range n).map fun i => -(cp p g i)) ++ ((List.range n).map fun _ => (0 : Rat))
   else (List.range n).map fun i => -(cp p g i))
  ++ (List.range (nVars p n - nd p n)).map fun _ => 0

def upperVec (p : StorageP) (g : Grid) (n : Nat) : List Rat :=
  (if sep p then ((List.range n).map fun _ => (0 : Rat)) ++ ((List.range n).map fun i => ct p g i)
   else (List.range n).map fun i => ct p g i)
  ++ (List.range (nVars p n - nd p n)).map fun _ => 1

/-! ### fill-level rows -/

/-- level a block starts with: the first block with the start level, later ones with the end level -/
def blockStart (p : StorageP) (a : Nat) : Rat := if a = 0 then p.startLevel else p.endLevel

/-- row `i` of `-tril(ones)` restricted to the block starting at `a` (times `eff_in` on the charge
    variables in the two-variable form) -/
def levelCoeffs (p : StorageP) (n a i : Nat) : List (Nat × Rat) :=
  if sep p then
    ((List.range' a (i + 1 - a)).map fun j => (j, -1 * p.effIn)) ++
    ((List.range' a (i + 1 - a)).map fun j => (n + j, (-1 : Rat)))
  else (List.range' a (i + 1 - a)).map fun j => (j, (-1 : Rat))

/-- inflow since the start of the block, up to and including step `i` -/
def blockInfl (p : StorageP) (g : Grid) (a i : Nat) : Rat := cumInfl p g (i + 1) - cumInfl p g a

/-- right-hand side "full": `size - start - inflow`; in the last row of a block the end-level value -/
def upRhs (p : StorageP) (g : Grid) (a e i : Nat) : Rat :=
  if i + 1 = e then p.endLevel - blockStart p a - blockInfl p g a i
  else (p.size - blockStart p a) - blockInfl p g a i

/-- right-hand side "empty": `-start - inflow`; in the last row of a block the end-level value -/
def loRhs (p : StorageP) (g : Grid) (a e i : Nat) : Rat :=
  if i + 1 = e then p.endLevel - blockStart p a - blockInfl p g a i
  else -(blockStart p a) - blockInfl p g a i

/-- upper limit of the fill level itself (`level_max`): the size, and the end level at the last step of
    the window / of every block -/
def levelMax (p : StorageP) (e i : Nat) : Rat := if i + 1 = e then p.endLevel else p.size

/-- with a maximum holding duration the "full" rows `(A x)_i ≤ b_i` become
    `(A x)_i − level_max_i·ind_i ≤ b_i − level_max_i`, i.e. `level_i ≤ level_max_i·ind_i`
    (code after the repair of F-05d) -/
def upperRow (p : StorageP) (g : Grid) (n a e i : Nat) : Row :=
  match p.maxStoreDuration with
  | none => { coeffs := levelCoeffs p n a i, rhs := upRhs p g a e i, kind := .U }
  | some _ => { coeffs := levelCoeffs p n a i ++ [(mHold p n + i, -(levelMax p e i))],
                rhs := upRhs p g a e i - levelMax p e i, kind := .U }

def lowerRow (p : StorageP) (g : Grid) (n a e i : Nat) : Row :=
  { coeffs := levelCoeffs p n a i, rhs := loRhs p g a e i, kind := .L }

def upperRows (p : StorageP) (g : Grid) (n : Nat) (bl : List (Nat × Nat)) : List Row :=
  bl.flatMap fun ae => (List.range' ae.1 (ae.2 - ae.1)).map fun i => upperRow p g n ae.1 ae.2 i

def lowerRows (p : StorageP) (g : Grid) (n : Nat) (bl : List (Nat × Nat)) : List Row :=
  bl.flatMap fun ae => (List.range' ae.1 (ae.2 - ae.1)).map fun i => lowerRow p g n ae.1 ae.2 i

/-- consecutive pairs of the block boundaries -/
def blockPairs (aa : List Nat) : List (Nat × Nat) := aa.zip aa.tail

def strictInc : List Nat → Bool
  | a :: b :: rest => decide (a < b) && strictInc (b :: rest)
  | _ => true

/-- blocks `[a, e)` of the window.  Without `block_size`: one block.  With: from the start positions
    `aa` (strictly increasing, `< n` — what `np.unique` of `argwhere` results is; anything else is
    outside the model's domain and answered with `index`), `n` appended; an empty `aa` is an
    `IndexError` (`aa[-1]`); rows before the first block keep their NaN right-hand side, which
    `OptimProblem.__init__` rejects. -/
def withEnd (aa : List Nat) (n : Nat) : List Nat := if aa.getLast? = some n then aa else aa ++ [n]

def blocksOf (p : StorageP) (n : Nat) : Except BuildError (List (Nat × Nat)) :=
  match p.blocks with
  | none => .ok [(0, n)]
  | some aa =>
    if strictInc aa && aa.all (fun v => decide (v < n)) then
      match aa with
      | [] => .error .index
      | a0 :: tl => if a0 = 0 then .ok (blockPairs (withEnd (a0 :: tl) n)) else .error .nanInput
    else .error .index

/-! ### no simultaneous charge and discharge -/

/-- `x_in,i - cp_i·b_i ≥ -cp_i`  ("0 means mode in") -/
def nsInRow (p : StorageP) (g : Grid) (n i : Nat) : Row :=
  { coeffs := [(i, 1), (2 * n + i, -(cp p g i))], rhs := -(cp p g i), kind := .L }

/-- `x_out,i - ct_i·b_i ≤ 0`  ("1 means mode out") -/
def nsOutRow (p : StorageP) (g : Grid) (n i : Nat) : Row :=
  { coeffs := [(n + i, 1), (2 * n + i, -(ct p g i))], rhs := 0, kind := .U }

def nsRows (p : StorageP) (g : Grid) (n : Nat) : List Row :=
  if hasNS p then ((List.range n).map (nsInRow p g n)) ++ ((List.range n).map (nsOutRow p g n)) else []

/-! ### maximum holding duration -/

/-- `dt[i:].cumsum()[k]` -/
def cumDtFrom (g : Grid) (i k : Nat) : Rat := sumTo (fun j => dtAt g (i + j)) (k + 1)

/-- relative positions of the window starting at `i`: the steps whose cumulative length is within the
    limit plus the first one beyond; `none` if no step lies beyond (no row is generated) -/
def holdWindow (g : Grid) (n : Nat) (d : Rat) (i : Nat) : Option (List Nat) :=
  let ks := List.range (n - i)
  match ks.find? (fun k => !decide (cumDtFrom g i k ≤ d)) with
  | none => none
  | some k0 => some (ks.filter fun k => decide (cumDtFrom g i k ≤ d) || k == k0)

def holdRow (p : StorageP) (g : Grid) (n : Nat) (d : Rat) (i : Nat) : Option Row :=
  (holdWindow g n d i).map fun sel =>
    { coeffs := sel.map fun k => (mHold p n + i + k, (1 : Rat)), rhs := (sel.length : Rat) - 1, kind := .U }

def holdRows (p : StorageP) (g : Grid) (n : Nat) : List Row :=
  match p.maxStoreDuration with
  | none => []
  | some d => (List.range n).filterMap (holdRow p g n d)

/-! ### mapping -/

def nodeIn (p : StorageP) : Option String := p.nodes.head?
def nodeOut (p : StorageP) : Option String := if p.nodes.length = 2 then p.nodes[1]? else p.nodes.head?

def dispMap (p : StorageP) (g : Grid) (n : Nat) : List MapRow :=
  if sep p then
    ((List.range n).map fun k => { var := k, asset := p.name, node := nodeIn p, kind := .d, step := idxAt g k,
                                   factor := 1, isBool := false, varName := "disp_in" }) ++
    ((List.range n).map fun k => { var := n + k, asset := p.name, node := nodeOut p, kind := .d, step := idxAt g k,
                                   factor := 1, isBool := false, varName := "disp_out" })
  else (List.range n).map fun k => { var := k, asset := p.name, node := nodeIn p, kind := .d, step := idxAt g k,
                                     factor := 1, isBool := false, varName := "disp" }

def boolMap (p : StorageP) (g : Grid) (n off : Nat) (nm : String) : List MapRow :=
  (List.range n).map fun k => { var := off + k, asset := p.name, node := none, kind := .i, step := idxAt g k,
                                factor := 1, isBool := true, varName := nm }

def mapping (p : StorageP) (g : Grid) (n : Nat) : List MapRow :=
  dispMap p g n ++ (if hasNS p then boolMap p g n (2 * n) "bool_1" else [])
    ++ (if p.maxStoreDuration.isSome then boolMap p g n (mHold p n) "bool_2" else [])

end Storage

open Storage in
/-- `Storage.setup_optim_problem(prices, timegrid)` on the restricted grid `g` -/
def buildStorage (p : StorageP) (g : Grid) (T : Nat) (prices : Prices) : Except BuildError AssetProblem :=
  if g.dt.length = 0 then   -- window and horizon do not overlap: no variables
    .ok { name := p.name, nodes := p.nodes, c := [], l := [], u := [], rows := [], mapping := [] }
  else
  match priceVec p g T prices with
  | .error e => .error e
  | .ok pr =>
    if p.nodes.isEmpty then .error .index else
    match blocksOf p g.T with
    | .error e => .error e
    | .ok bl =>
      .ok { name := p.name, nodes := p.nodes,
            c := costVec p g g.T pr, l := lowerVec p g g.T, u := upperVec p g g.T,
            rows := upperRows p g g.T bl ++ lowerRows p g g.T bl ++ nsRows p g g.T ++ holdRows p g g.T,
            mapping := mapping p g g.T }

/-- constructor guards, then set-up -/
def mkStorage (p : StorageP) (g : Grid) (T : Nat) (prices : Prices) : Except BuildError AssetProblem :=
  if p.guards then buildStorage p g T prices else throw .assertion

/-! ### block starts for tick frequencies -/

/-- `aa` of the code for a block size of `bs` seconds: for `d = s - bs, s, s + bs, … ≤ e` the position of
    the last grid point `≤ d` (0 if none), stopping after the first `d` that is `≥` all points; sorted and
    de-duplicated.  `s`, `e` are `restricted.start`, `restricted.end`. -/
def blockStartsTick (g : Grid) (s e : Int) (bs : Nat) : List Nat :=
  let ds := tickRange (s - bs) e bs
  let pos := fun (d : Int) => (g.pts.filter fun q => decide (q ≤ d)).length
  let rec go : List Int → List Nat
    | [] => []
    | d :: rest => (pos d - 1) :: (if pos d = g.pts.length then [] else go rest)
  (go ds).foldl (fun acc a => if acc.contains a then acc else acc ++ [a]) []

/-! ### read-out -/

def posPart (r : Rat) : Rat := if 0 ≤ r then r else 0     -- `max(0, r)`
def negPart (r : Rat) : Rat := if r ≤ 0 then r else 0     -- `min(0, r)`

/-- mapping rows of the storage's dispatch variables, first row per variable -/
def storageDispRows (M : List MapRow) (name : String) : List MapRow :=
  firstRows (M.filter fun m => m.asset == name && m.kind == .d) []

/-- what `Storage.fill_level` adds at full-grid step `t`: `max(0,-x)·eff_in + min(0,-x)` for every
    dispatch variable booked at `t`, plus the inflow of the step if it lies in the asset's window
    (`fill_level[restricted.I] += inflow*restricted.dt`; the indices `I` are distinct) -/
def fillInc (p : StorageP) (M : List MapRow) (g : Grid) (x : Vec) (t : Nat) : Rat :=
  (((storageDispRows M p.name).filter fun m => m.step == t).map fun m =>
      posPart (-(x m.var)) * p.effIn + negPart (-(x m.var))).sum
  + (((List.range g.idx.length).filter fun k => Storage.idxAt g k == t).map fun k => p.inflow * Storage.dtAt g k).sum

/-- `Storage.fill_level(op, res)`: one value per step of the FULL grid (`T` steps) -/
def fillLevel (p : StorageP) (M : List MapRow) (g : Grid) (T : Nat) (x : Vec) : List Rat :=
  (List.range T).map fun t => sumTo (fillInc p M g x) (t + 1) + p.startLevel

/-- `<name>_charge` column of `internal_variables`: `Σ max(0,-x_i)·disp_factor` over ALL mapping rows of
    the storage with type 'd' at one of its nodes -/
def chargeOut (p : StorageP) (M : List MapRow) (x : Vec) (t : Nat) : Rat :=
  ((M.filter fun m => m.asset == p.name && m.kind == .d &&
      (match m.node with | some nn => p.nodes.contains nn | none => false) && m.step == t).map fun m =>
    posPart (-(x m.var)) * m.factor).sum

/-- `<name>_discharge` column: `Σ min(0,-x_i)·disp_factor` (so discharge is reported with negative sign) -/
def dischargeOut (p : StorageP) (M : List MapRow) (x : Vec) (t : Nat) : Rat :=
  ((M.filter fun m => m.asset == p.name && m.kind == .d &&
      (match m.node with | some nn => p.nodes.contains nn | none => false) && m.step == t).map fun m =>
    negPart (-(x m.var)) * m.factor).sum

end EAO
