import EAO.Model.Basic
import EAO.Model.Assemble
/-!
# EAO.Model.Structured — model of `StructuredAsset.setup_optim_problem` (`eaopack/portfolio.py`)

The inner portfolio is assembled with the structured asset's external nodes skipped (their balance is
imposed by the outer portfolio).  The nodal restrictions of the inner nodes become plain equalities
(`cType.replace('N','S')`: EVERY row of type `N`, also one an inner asset brought along); all mapping
rows are re-assigned to the wrapper; rows at non-external nodes are renamed `<name>_internal_<node>`
and typed internal ('i', whatever their type was — also the 'size' row of an inner scaled asset);
`var_name` gets the suffix `__<inner asset>` where it is not NaN (NaN is transported as the string
"nan").

The window of the wrapper is applied by the code to the inner assets BEFORE their problems are built
(and restored afterwards); it is therefore part of the inner builders' inputs, not of this function.

`var_name` is converted to a string before the suffix is appended (order numbers of an `OrderBook`
become "0__ob"); the transport format carries variable names as strings already.

Not modelled: an inner node whose own name already has the form `<name>_internal_<other inner node>`
(the code's renaming loop would rename such rows twice).
-/
namespace EAO

/-- `cType.replace('N','S')` -/
def Row.nToS (r : Row) : Row := match r.kind with
  | .N => { r with kind := .S }
  | _ => r

/-- kind of a row at a non-external node: dispatch becomes internal; special kinds ('size') stay
    (`op.mapping.loc[In & type.isin(['d','i']), 'type'] = 'i'`) -/
def innerKind : VarKind → VarKind
  | .d => .i
  | .i => .i
  | .other s => .other s

/-- what happens to one mapping row -/
def structuredMapRow (name : String) (ext : List String) (m : MapRow) : MapRow :=
  let m := if m.varName == "nan" then m else { m with varName := m.varName ++ "__" ++ m.asset }
  match m.node with
  | some nd => if ext.contains nd then { m with asset := name }
               else { m with asset := name, node := some (name ++ "_internal_" ++ nd),
                             kind := innerKind m.kind }
  | none => { m with asset := name }

/-- the problem a structured asset hands to the outer portfolio: inner portfolio assembled with the
    external nodes skipped; nodal rows turned into equalities; all variables re-assigned to the wrapper;
    non-external nodes renamed `<name>_internal_<node>` and their dispatch rows typed internal ('i');
    rows of any other kind (the 'size' of a scaled asset) keep their kind -/
def structured (name : String) (ext : List String) (inner : List AssetProblem) (gridI : List Nat) :
    AssetProblem :=
  let P := assemble inner gridI ext
  { name := name, nodes := ext, c := P.c, l := P.l, u := P.u, rows := P.rows.map Row.nToS,
    mapping := P.mapping.map (structuredMapRow name ext) }

end EAO
