import EAO.Model.SplitStorage
/-!
# EAO.Model.BlockSplit — storages optimised in time blocks (`block_size`) in the split set-up

`EAO.Model.SplitStorage` takes the block starts of a storage (`StorageP.blocks`, the array `aa` of
`Storage.setup_optim_problem`) as an INPUT that is the same on every grid.  The real code recomputes them on the grid
the storage is set up on (assets.py 428-445): `pd.date_range(restricted.start - block_size, restricted.end, block_size)`,
every date mapped to the last point of the restricted grid at or before it, stopping at the first date at or after the
last point.  `restricted.start` / `restricted.end` are the asset's OWN `start` / `end` when given, else start / end of
the grid handed over (`Timegrid.set_restricted_grid`) — in a split optimisation the start / end of the INTERVAL.  So

* without an own `start` the blocks of an interval are anchored at the interval's start (finding F-14k), and
* a date at or after the last point of the (interval) grid is mapped to the last step, which becomes a block of its own —
  once in the unsplit problem, at the end of every interval in the split one (finding F-14f).

`SpecK` = a builder asset or a storage with an optional tick block size (seconds) and its window as given
(`none` = argument absent); `SpecK.toS` computes the block starts on a grid with `blockStartsTick` and yields the
`SpecS` of `EAO.Model.SplitStorage`; `setupPortfolioK`, `setupIntervalK`, `setupSplitK` are the literal counterparts of
`setupPortfolioS` … `setupSplitS`.  `blocksAligned` is the decidable alignment condition of `EAO.C14K`.
-/
namespace EAO

inductive SpecK
  | builder (a : AssetSpec)
  | storage (p : StorageP) (bs : Option Nat) (start stop : Option Int) (df : List Rat)
  deriving Repr, Inhabited

/-- the restricted grid of a storage with window `start`, `stop` (as given) and discount factors `df` on the grid `grid`
    that starts at `gs` and ends at `ge` -/
def restrictedK (grid : Grid) (gs ge : Int) (start stop : Option Int) (df : List Rat) : Grid :=
  ({ grid with df := df } : Grid).restrict (start.getD gs) (stop.getD ge)

/-- `aa` of the code on the grid `grid` (start `gs`, end `ge`): `none` without `block_size` -/
def blocksOn (grid : Grid) (gs ge : Int) (bs : Option Nat) (start stop : Option Int) (df : List Rat) : Option (List Nat) :=
  bs.map fun b => blockStartsTick (restrictedK grid gs ge start stop df) (start.getD gs) (stop.getD ge) b

/-- the asset as it is set up on the grid `grid` that starts at `gs` and ends at `ge`: block starts computed there -/
def SpecK.toS (a : SpecK) (grid : Grid) (gs ge : Int) : SpecS :=
  match a with
  | .builder b => .builder b
  | .storage p bs start stop df =>
    .storage { p with blocks := blocksOn grid gs ge bs start stop df } (start.getD gs) (stop.getD ge) df

/-- the same asset without time blocks -/
def SpecK.unblocked (a : SpecK) (gs ge : Int) : SpecS :=
  match a with
  | .builder b => .builder b
  | .storage p _ start stop df => .storage { p with blocks := none } (start.getD gs) (stop.getD ge) df

/-- `Portfolio.setup_optim_problem(prices, timegrid)`; `gs`, `ge` = `timegrid.start`, `timegrid.end` -/
def setupPortfolioK (specs : List SpecK) (grid : Grid) (gs ge : Int) (prices : Prices) (unitSec : Nat)
    (skip : List String) : Except BuildError Problem :=
  setupPortfolioS (specs.map fun a => a.toS grid gs ge) grid prices unitSec skip

/-- the asset as it is seen in the interval: its discount factors at the interval's steps -/
def SpecK.onInterval (a : SpecK) (ref : Grid) (ab : Int × Int) : SpecK :=
  match a with
  | .builder b => .builder (b.onInterval ref ab)
  | .storage p bs s e df => .storage p bs s e (sel (ref.mask ab.1 ab.2) df)

/-- the assets of the interval `[ab.1, ab.2)` as they are set up on the interval grid -/
def intervalSpecsK (specs : List SpecK) (ref : Grid) (ab : Int × Int) : List SpecS :=
  specs.map fun a => (a.onInterval ref ab).toS (ref.interval ab.1 ab.2) ab.1 ab.2

/-- one pass of the loop: `none` = the interval is skipped (no step, or no variable) -/
def setupIntervalK (specs : List SpecK) (ref : Grid) (prices : Prices) (unitSec : Nat) (skip : List String)
    (ab : Int × Int) : Except BuildError (Option Problem) :=
  let J := ref.interval ab.1 ab.2
  if J.T = 0 then pure none else do
    let P ← setupPortfolioS (intervalSpecsK specs ref ab) J (intervalPrices ref ab prices) unitSec skip
    if P.n = 0 then pure none else pure (some (relabelNodal (intervalSteps ref ab) P))

/-- `Portfolio.setup_split_optim_problem` for a portfolio with storages in time blocks: the interval problems -/
def setupSplitK (specs : List SpecK) (ref : Grid) (cuts : List Int) (prices : Prices) (unitSec : Nat)
    (skip : List String) : Except BuildError (List Problem) := do
  if prices.any (fun kv => kv.2.length != ref.T) then throw .lengthMismatch
  let ps ← (splitPairs cuts).mapM (setupIntervalK specs ref prices unitSec skip)
  if (ps.filterMap id).isEmpty then throw .illPosed
  pure (ps.filterMap id)

/-! ### block boundaries, unsplit and split, on the positions of the storage's unsplit grid -/

/-- boundaries `aa ++ [n]` of a storage with `n` steps; without `block_size` one block -/
def boundariesOf (aa : Option (List Nat)) (n : Nat) : List Nat :=
  if n = 0 then [] else Storage.withEnd (aa.getD [0]) n

/-- block boundaries of the unsplit storage (positions of its restricted grid) -/
def unsplitBoundaries (ref : Grid) (gs ge : Int) (bs : Option Nat) (start stop : Option Int) (df : List Rat) : List Nat :=
  boundariesOf (blocksOn ref gs ge bs start stop df) (restrictedK ref gs ge start stop df).T

/-- block boundaries of the interval storages, written as positions of the UNSPLIT restricted grid: the boundaries of
    the interval `[a, b)` shifted by the position of the interval's first step (the interval's start and end are
    boundaries: the level restarts there) -/
def splitBoundaries (ref : Grid) (gs ge : Int) (cuts : List Int) (bs : Option Nat) (start stop : Option Int)
    (df : List Rat) : List Nat :=
  let g := restrictedK ref gs ge start stop df
  (splitPairs cuts).flatMap fun ab =>
    let J := ref.interval ab.1 ab.2
    let dfJ := sel (ref.mask ab.1 ab.2) df
    let gJ := restrictedK J ab.1 ab.2 start stop dfJ
    (boundariesOf (blocksOn J ab.1 ab.2 bs start stop dfJ) gJ.T).map
      fun v => v + g.segStart (intervalSteps ref ab)

def sameSet (as bs : List Nat) : Bool := as.all (fun v => bs.contains v) && bs.all (fun v => as.contains v)

/-- **alignment**: for every storage the block boundaries of the unsplit problem are exactly the cuts and the block
    boundaries of the interval problems (both ways) -/
def blocksAligned (specs : List SpecK) (ref : Grid) (gs ge : Int) (cuts : List Int) : Bool :=
  specs.all fun a =>
    match a with
    | .builder _ => true
    | .storage _ bs start stop df =>
      sameSet (unsplitBoundaries ref gs ge bs start stop df) (splitBoundaries ref gs ge cuts bs start stop df)

/-- LP form of a storage apart from time blocks, no storage costs, start level = end level inside the storage -/
def StorageP.lpK (p : StorageP) : Bool :=
  !Storage.hasNS p && p.maxStoreDuration.isNone && decide (p.costStore = 0) && p.levelOK

end EAO
