import EAO.Model.CHP
/-!
# EAO.Model.CHPMinLoad — model of `CHPAsset_with_min_load_costs.setup_optim_problem` (`eaopack/assets.py`)

The class adds to the problem of its parent (`CHPAsset`; here: any asset problem `a` whose first node is the
power node) one boolean `bool_threshhold` per step of the asset's own (restricted) grid with cost
`min_load_costs·dt`, bounds `[0, 1]`, and one row per power-dispatch mapping row

    disp_t + thr_t·b_t − thr_t·on_t ≥ 0        (on-variables present)
    disp_t + thr_t·b_t ≥ thr_t                  (no on-variables)

with `thr = min_load_threshhold·dt`.  Nothing is added when the window is empty, when one of the two parameters
is `None` (the default of `min_load_costs`!), or when the largest threshold or the largest cost is negative.
`disp` is the POWER dispatch variable, not the virtual dispatch `power + conv·heat`.
Variables are identified as the code does it: through the mapping (`node == power node & var_name == 'disp'`,
`var_name == 'bool_on' & node is NaN`, first row with the step's `time_step`).
-/
namespace EAO

structure MinLoadP where
  threshold : Option ParamValue      -- `min_load_threshhold` (default 0.)
  costs     : Option ParamValue      -- `min_load_costs` (default None)
  deriving Repr, Inhabited

/-- `make_vector(value, prices, default_value=0., convert=True)`; `None` stays `None` -/
def optVec (v : Option ParamValue) (g : Grid) (prices : Prices) : Except BuildError (Option (List Rat)) :=
  match v with
  | none => pure none
  | some v => do pure (some (← vec v g prices 0 true))

/-- `(x is not None) and (max(x) >= 0.)` for both vectors; returns them when the booleans are to be added -/
def minLoadActive (thr costs : Option (List Rat)) : Option (List Rat × List Rat) :=
  match thr, costs with
  | some t, some c => if t.any (fun v => decide (0 ≤ v)) ∧ c.any (fun v => decide (0 ≤ v)) then some (t, c) else none
  | _, _ => none

/-- `op.mapping.index.max() + 1`: the first new variable index -/
def nextVar (mapping : List MapRow) : Nat := mapping.foldl (fun acc m => max acc m.var) 0 + 1

def thrRows (name : String) (idx : List Nat) (off : Nat) : List MapRow :=
  idx.zipIdx.map fun q =>
    { var := off + q.2, asset := name, node := none, kind := .i, step := q.1, factor := 1, isBool := true,
      varName := "bool_threshhold" }

/-- `frame.index[frame['time_step'] == t][0]` -/
def firstAt (rows : List MapRow) (t : Nat) : Option MapRow := rows.find? fun m => m.step == t

def minLoadRow (d b : MapRow) (o : Option MapRow) (th : Rat) : Row :=
  { coeffs := [(d.var, 1), (b.var, th)] ++ (match o with | some o => [(o.var, - th)] | none => []),
    rhs := if o.isSome then 0 else th, kind := .L }

/-- the row generated for the power-dispatch mapping row `m` (`none`: one of the look-ups fails — IndexError) -/
def minLoadRowAt (mapDisp mapBool mapOn : List MapRow) (idx : List Nat) (thr : List Rat) (m : MapRow) : Option Row :=
  match firstAt mapDisp m.step, firstAt mapBool m.step with
  | some d, some b =>
    let th := thr.getD (idx.idxOf m.step) 0
    if mapOn.isEmpty then some (minLoadRow d b none th)
    else match firstAt mapOn m.step with
      | some o => some (minLoadRow d b (some o) th)
      | none => none
  | _, _ => none

/-- power-dispatch rows, threshold rows, on rows of a mapping -/
def powerDispRows (power : String) (mapping : List MapRow) : List MapRow :=
  mapping.filter fun m => m.node == some power && m.varName == "disp"
def thrBoolRows (mapping : List MapRow) : List MapRow := mapping.filter fun m => m.varName == "bool_threshhold"
def onBoolRows (mapping : List MapRow) : List MapRow :=
  mapping.filter fun m => m.varName == "bool_on" && m.node == none

/-- the part after the parent's problem `a` is there, on restricted grid `g` with vectors `thr`, `costs` -/
def addMinLoad (a : AssetProblem) (g : Grid) (thr costs : List Rat) : Except BuildError AssetProblem := do
  let mapping := a.mapping ++ thrRows a.name g.idx (nextVar a.mapping)
  let mapDisp := powerDispRows (a.nodes.getD 0 "") mapping
  let mapBool := thrBoolRows mapping
  let mapOn := onBoolRows mapping
  if mapDisp.length ≠ mapBool.length then throw .assertion
  if ¬ mapDisp.all (fun m => (minLoadRowAt mapDisp mapBool mapOn g.idx thr m).isSome) then throw .index
  pure { a with c := a.c ++ costs, l := a.l ++ List.replicate g.T 0, u := a.u ++ List.replicate g.T 1,
                mapping := mapping,
                rows := a.rows ++ mapDisp.filterMap (minLoadRowAt mapDisp mapBool mapOn g.idx thr) }

/-- `CHPAsset_with_min_load_costs.setup_optim_problem` given the parent's result `a` -/
def buildMinLoad (q : MinLoadP) (a : AssetProblem) (g : Grid) (prices : Prices) : Except BuildError AssetProblem := do
  if g.T = 0 then return a
  let thr ← optVec q.threshold g prices
  let costs ← optVec q.costs g prices
  match minLoadActive thr costs with
  | none => pure a
  | some (t, c) => addMinLoad a g t c

/-- `costs_only=True`: the parent's cost vector followed by the costs of the booleans -/
def costsOnlyMinLoad (q : MinLoadP) (c : List Rat) (g : Grid) (prices : Prices) : Except BuildError (List Rat) := do
  if g.T = 0 then return c
  let thr ← optVec q.threshold g prices
  let costs ← optVec q.costs g prices
  match minLoadActive thr costs with
  | none => pure c
  | some (_, cs) => pure (c ++ cs)

end EAO
