import EAO.Model.Basic
/-!
# EAO.Model.Lagrange — exact Lagrangian upper bound of a box-constrained LP

`lagrangianUB P y = Σ_i y_i b_i + Σ_j max ((-c_j - (Aᵀy)_j) l_j) ((-c_j - (Aᵀy)_j) u_j)`.
Computable over `Rat`; used as optimality / infeasibility certificate for what the external
solver returns (C03) and for the supergradient statement about nodal prices (C18).
-/
namespace EAO

/-- coefficient of variable `j` in a sparse row (repeated entries add up) -/
def Row.coef (r : Row) (j : Nat) : Rat := (r.coeffs.map fun p => if p.1 = j then p.2 else 0).sum

/-- `(Aᵀ y)_j` -/
def colDot (rows : List Row) (y : List Rat) (j : Nat) : Rat :=
  ((rows.zip y).map fun q => q.2 * q.1.coef j).sum

def reducedCost (P : Problem) (y : List Rat) (j : Nat) : Rat := - P.c.getD j 0 - colDot P.rows y j

def lagrangianUB (P : Problem) (y : List Rat) : Rat :=
  ((P.rows.zip y).map fun q => q.2 * q.1.rhs).sum +
  ((List.range P.n).map fun j =>
      max (reducedCost P y j * P.l.getD j 0) (reducedCost P y j * P.u.getD j 0)).sum

/-- multipliers are non-negative on `U` rows, non-positive on `L` rows, free on `S`/`N` rows -/
def Row.SignOK (r : Row) (y : Rat) : Prop :=
  match r.kind with
  | .U => 0 ≤ y
  | .L => y ≤ 0
  | _ => True

instance (r : Row) (y : Rat) : Decidable (r.SignOK y) := by
  unfold Row.SignOK; cases r.kind <;> exact inferInstance

def SignOK (rows : List Row) (y : List Rat) : Prop :=
  y.length = rows.length ∧ ∀ q ∈ rows.zip y, q.1.SignOK q.2

/-- all column indices occurring in rows are variables, bounds have one entry per variable -/
def Problem.WFCols (P : Problem) : Prop :=
  P.l.length = P.n ∧ P.u.length = P.n ∧ ∀ r ∈ P.rows, ∀ p ∈ r.coeffs, p.1 < P.n

/-- add `δ` to the right-hand side of row number `i` -/
def perturbRows : List Row → Nat → Rat → List Row
  | [], _, _ => []
  | r :: rs, 0, δ => { r with rhs := r.rhs + δ } :: rs
  | r :: rs, i + 1, δ => r :: perturbRows rs i δ

def Problem.perturbRhs (P : Problem) (i : Nat) (δ : Rat) : Problem :=
  { P with rows := perturbRows P.rows i δ }

end EAO
