/-!
# EAO.Model.Schema — class / attribute schema of the JSON serialisation (property C11)

`ClassSchema` is the shape of one record of the table `EAO.Schema.classes` that
`harness/schema_gen.py` REGENERATES from the eaopack sources on every run (file
`EAO/Generated/Schema.lean`).  Everything in this file is hand-written and import-free:

* `RoundTripOK c` — the decidable condition under which `load_from_json (to_json o)` rebuilds an
  object of class `c` with the same stored state (checked by the kernel over the regenerated table);
* an abstract object model `PyVal` (scalars, strings, lists, dicts, datetimes, dates, numpy arrays,
  `DatetimeIndex`, objects = class name + attribute list) with `enc : PyVal → JVal` and
  `dec : JVal → Option PyVal` defined FROM the schema table: `enc` is `json_serialize_objects` applied
  bottom-up by `json.dumps(default=…)`, `dec` is `json.loads(object_hook=json_deserialize_objects)`
  (children first, then the hook on the dictionary of decoded children).

What is abstracted: `strftime` / `strptime` are the two functions of a `TimeCodec` (their inverse law
on whole seconds is a hypothesis of the codec theorems and is tested on the real code by the harness);
an aware time stamp is its UTC instant plus the zone NAME (so `tz_convert('UTC')` / `tz_localize('UTC')
.tz_convert(name)` are the identity on the representation); a float is the rational it denotes
(`repr` / `float` round trip of the json module is trusted); `datetime` vs `pd.Timestamp`, `list` vs
`tuple` and non-string dictionary keys are not distinguished / not modelled.
-/
namespace EAO.Schema

/-- how `__init__` obtains an attribute from the keyword parameters of the class -/
inductive Kind
  | same      -- `self.x = x` (possibly after an idempotent normalisation, listed in `norms`)
  | renamed   -- as `same`, parameter has another name (`self.tz = timezone`)
  | derived   -- computed from parameters
  | const     -- independent of every parameter of this class (constant, or default of a base class)
  deriving DecidableEq, Repr, Inhabited

/-- literal defaults / constants of the source -/
inductive Lit
  | none
  | bool (b : Bool)
  | int (i : Int)
  | num (n : Int) (d : Nat)      -- float literal, exact value n / d
  | str (s : String)
  | other (src : String)         -- anything else (source text)
  deriving DecidableEq, Repr, Inhabited

structure Param where
  name : String
  required : Bool
  default : Lit
  deriving DecidableEq, Repr, Inhabited

structure Attr where
  name : String
  kind : Kind
  src : String          -- parameter it comes from (`same` / `renamed`), "" otherwise
  cond : Bool           -- assigned on some paths only
  lit : Lit             -- value for `const` (for `derived`: `.other` with the parameters it depends on)
  norms : List String   -- idempotent normalisations applied (N1 … N7 of schema_gen.py)
  deriving DecidableEq, Repr, Inhabited

structure Stored where
  key : String
  attr : String
  cond : Bool           -- written only when the attribute exists
  deriving DecidableEq, Repr, Inhabited

structure ClassSchema where
  name : String
  tag : String                       -- value of '__class__' the serialiser writes
  bases : List String
  params : List Param                -- keyword parameters `Cls(**obj)` accepts (whole super chain)
  swallows : Bool                    -- a `**kwargs` silently absorbs unknown keys
  assumedDefault : List String       -- optional, never stored parameters: at their default on reload
  setters : List (String × String)   -- key ↦ attribute the deserialiser sets through a setter method
  attrs : List Attr                  -- attributes assigned by `__init__` along the chain, first assignment order
  computed : List String             -- attributes assigned in other methods (computed fields)
  dictCopy : Bool                    -- serialiser starts from `obj.__dict__.copy()`
  explicit : List Stored             -- keys written explicitly (`res = {…}` / `res[k] = obj.a`)
  pops : List String                 -- keys the serialiser pops for this class
  adds : List (String × String)      -- constant keys the serialiser adds (key, value)
  deserPops : List String            -- keys the deserialiser removes before calling the constructor
  positional : Bool                  -- deserialiser calls `Cls(obj[k₁], …)` instead of `Cls(**obj)`
  ctorKeys : List String             -- … with these keys
  dispatch : String                  -- key holding the class name (`asset_type`), "" if the branch names the class
  resolvable : Bool                  -- class name reachable through `globals()` of serialization.py
  unparsed : List String             -- statements the translator could not interpret (must be empty)
  deriving DecidableEq, Repr, Inhabited

/-! ## What is stored, what the constructor sees -/

def ClassSchema.attrNames (c : ClassSchema) : List String := c.attrs.map (·.name)

def ClassSchema.paramNames (c : ClassSchema) : List String := c.params.map (·.name)

def ClassSchema.findAttr (c : ClassSchema) (a : String) : Option Attr := c.attrs.find? (·.name == a)

/-- keys written for an object of the class (without the added constant keys).
`withComputed`: the object also carries the computed fields (after `setup_optim_problem`). -/
def storedOf (c : ClassSchema) (withComputed : Bool) : List Stored :=
  let fromDict : List Stored :=
    if c.dictCopy then
      let init := c.attrs.map (fun a => Stored.mk a.name a.name a.cond)
      let comp := if withComputed then
          (c.computed.filter (fun a => !(c.attrNames.contains a))).map (fun a => Stored.mk a a true)
        else []
      (init ++ comp).filter (fun s => !(c.pops.contains s.key))
    else []
  fromDict ++ c.explicit

def storedKeys (c : ClassSchema) (withComputed : Bool) : List String := (storedOf c withComputed).map (·.key)

/-- the setter-restored attributes as pseudo constructor attributes -/
def setterAttrs (c : ClassSchema) : List Attr :=
  c.setters.map (fun ka => Attr.mk ka.2 (if ka.1 == ka.2 then .same else .renamed) ka.1 true .none [])

/-- attributes making up the state the constructor (plus setters) builds -/
def stateAttrs (c : ClassSchema) : List Attr := c.attrs ++ setterAttrs c

/-- keys that reach the constructor call / the setters -/
def presented (c : ClassSchema) (withComputed : Bool) : List String :=
  ((storedKeys c withComputed) ++ c.adds.map (·.1)).filter (fun k => !(c.deserPops.contains k))

def acceptedKeys (c : ClassSchema) : List String :=
  (if c.positional then c.ctorKeys else c.paramNames) ++ c.setters.map (·.1)

def nodupB : List String → Bool
  | [] => true
  | x :: xs => !(xs.contains x) && nodupB xs

def isParamKind : Kind → Bool
  | .same | .renamed => true
  | _ => false

/-! ## The decidable round-trip condition -/

/-- the translator interpreted every statement of the (de)serialiser branch and of the constructors -/
def chkParsed (c : ClassSchema) : Bool := c.unparsed.isEmpty

/-- the class can be found again: '__class__' is written with the tag, the dispatch key with the class name,
and the name resolves in `globals()` -/
def chkTag (c : ClassSchema) : Bool :=
  c.tag != "" && c.adds.lookup "__class__" == some c.tag &&
  (c.dispatch == "" || (c.adds.lookup c.dispatch == some c.name && c.resolvable)) &&
  c.adds.all (fun kv => c.deserPops.contains kv.1) && nodupB (c.adds.map (·.1))

/-- stored keys ⊆ accepted constructor parameters (or swallowed by `**kwargs`, then the attribute must be a
constant of the class), also after a set-up call -/
def chkAccepted (c : ClassSchema) : Bool :=
  (presented c true).all fun k =>
    (acceptedKeys c).contains k ||
    (c.swallows && !c.positional &&
      (storedOf c true).all (fun s => s.key != k || (match c.findAttr s.attr with
                                                       | some a => a.kind == .const
                                                       | none => false)))

/-- required parameters ⊆ keys that are always stored (and reach the constructor) -/
def chkRequired (c : ClassSchema) : Bool :=
  (c.params.all fun p => !p.required ||
    ((storedOf c false).any (fun s => s.key == p.name && !s.cond) && !(c.deserPops.contains p.name) &&
      (!c.positional || c.ctorKeys.contains p.name))) &&
  (!c.positional || c.ctorKeys.all (fun k => c.params.any (fun p => p.name == k && p.required)))

/-- every stored key that is a parameter (or setter key) is re-assigned, unchanged, to the attribute it was
read from: `same` for `__dict__` keys, the matching rename for explicit keys -/
def chkStoredSame (c : ClassSchema) : Bool :=
  (storedOf c false).all fun s =>
    c.deserPops.contains s.key || !((acceptedKeys c).contains s.key) ||
    (stateAttrs c).any (fun a => a.name == s.attr && isParamKind a.kind && a.src == s.key)

/-- computed fields are popped (or restored through a setter of the deserialiser) -/
def chkComputedPopped (c : ClassSchema) : Bool :=
  c.computed.all fun a =>
    (storedOf c true).all (fun s => s.attr != a ||
      (stateAttrs c).any (fun b => b.name == a && isParamKind b.kind && b.src == s.key))

/-- nothing the constructor derives (or fixes) is stored under the name of a parameter -/
def chkNoDerivedUnderParam (c : ClassSchema) : Bool :=
  c.attrs.all fun a => isParamKind a.kind ||
    (storedOf c false).all (fun s => s.attr != a.name || !((acceptedKeys c).contains s.key) || c.deserPops.contains s.key)

/-- no state is lost: every attribute that carries a parameter is stored under that parameter's name and
reaches the constructor -/
def chkStateStored (c : ClassSchema) : Bool :=
  (stateAttrs c).all fun a => !isParamKind a.kind ||
    ((storedOf c false).any (fun s => s.attr == a.name && s.key == a.src) &&
      (acceptedKeys c).contains a.src && !(c.deserPops.contains a.src))

/-- names are unambiguous -/
def chkNodup (c : ClassSchema) : Bool :=
  nodupB ((stateAttrs c).map (·.name)) && nodupB (storedKeys c true) && nodupB c.paramNames &&
  (c.adds.all fun kv => !((storedKeys c true).contains kv.1))

/-- parameters that are not written back under their own name (what they carried cannot survive) -/
def lostParams (c : ClassSchema) : List String :=
  c.paramNames.filter fun p => !((storedKeys c false).contains p)

/-- the only parameter that may be lost: a `Timegrid` cut out of a reference grid (`ref_timegrid`, used for
the asset-internal restricted grids) is written as a stand-alone grid.  Hand-written, deliberately short. -/
def knownLostParams : List (String × String) := [("Timegrid", "ref_timegrid")]

/-- every parameter is stored (the translator classifies attributes under the assumption that a parameter
which is never stored is at its default on reload — `assumedDefault` — so this check is what keeps a
forgotten key, e.g. the time zone of a `Timegrid`, from going unnoticed) -/
def chkParamsStored (c : ClassSchema) : Bool :=
  (lostParams c).all (fun p => knownLostParams.contains (c.name, p)) &&
  c.assumedDefault.all (fun p => (lostParams c).contains p)

/-- the named checks, for reports -/
def checks (c : ClassSchema) : List (String × Bool) :=
  [("parsed", chkParsed c), ("tag", chkTag c), ("stored-keys-accepted", chkAccepted c),
   ("required-stored", chkRequired c), ("stored-reassigned-same", chkStoredSame c),
   ("computed-popped", chkComputedPopped c), ("no-derived-under-parameter-name", chkNoDerivedUnderParam c),
   ("state-stored", chkStateStored c), ("names-unambiguous", chkNodup c), ("parameters-stored", chkParamsStored c)]

/-- **the round-trip condition of one class** -/
def RoundTripOK (c : ClassSchema) : Bool :=
  chkParsed c && chkTag c && chkAccepted c && chkRequired c && chkStoredSame c && chkComputedPopped c &&
  chkNoDerivedUnderParam c && chkStateStored c && chkNodup c && chkParamsStored c

/-- failed checks per class (what the harness prints when the obligation breaks) -/
def report (S : List ClassSchema) : List (String × List String) :=
  (S.map fun c => (c.name, ((checks c).filter (fun x => !x.2)).map (·.1))).filter (fun x => !x.2.isEmpty)

/-- consistency of the table around one class: the first class carrying its tag decides how the class is
recovered (literal class of the branch, or the dispatch key) and agrees with this class -/
def classOK (S : List ClassSchema) (c : ClassSchema) : Bool :=
  match S.find? (fun d => d.tag == c.tag) with
  | some d => d.dispatch == c.dispatch && (c.dispatch != "" || d.name == c.name)
  | none => false

def tableOK (S : List ClassSchema) : Bool := nodupB (S.map (·.name)) && S.all (classOK S)

/-! ## Abstract values -/

/-- JSON text as a tree (ints and floats are different tokens in Python's json) -/
inductive JVal
  | null
  | bool (b : Bool)
  | int (i : Int)
  | flt (q : Rat)
  | str (s : String)
  | arr (xs : List JVal)
  | obj (kvs : List (String × JVal))
  deriving Repr, Inhabited

/-- naive: `secs` = wall-clock seconds since 1970-01-01 00:00:00, `tz = none`;
aware: `secs` = UTC instant, `tz = some (str tzinfo)` -/
structure DateTime where
  secs : Int
  nanos : Nat
  tz : Option String
  deriving DecidableEq, Repr, Inhabited

inductive PyVal
  | none
  | bool (b : Bool)
  | int (i : Int)
  | float (q : Rat)
  | str (s : String)
  | list (xs : List PyVal)
  | dict (kvs : List (String × PyVal))
  | datetime (t : DateTime)
  | date (day : Int)                                   -- days since 1970-01-01
  | ndarray (xs : List PyVal)                          -- numeric numpy array (`tolist()` form)
  | ndarrayDate (ns : List Int)                        -- datetime64[ns] array: `tolist()` gives integers
  | dtindex (freq : Option String) (ts : List DateTime)
  | obj (cls : String) (attrs : List (String × PyVal))
  deriving Repr, Inhabited

/-- `strftime("%Y-%m-%d %H:%M:%S")` / `strptime` and `str(date)` / `strptime("%Y-%m-%d")` -/
structure TimeCodec where
  fmt : Int → String
  parse : String → Option Int
  fmtDate : Int → String
  parseDate : String → Option Int

structure TimeCodec.Lawful (tc : TimeCodec) : Prop where
  parse_fmt : ∀ s, tc.parse (tc.fmt s) = some s
  parseDate_fmtDate : ∀ d, tc.parseDate (tc.fmtDate d) = some d

def lookup {β : Type} (k : String) : List (String × β) → Option β
  | [] => none
  | (k', v) :: rest => if k' == k then some v else lookup k rest

def Lit.toPy : Lit → Option PyVal
  | .none => some .none
  | .bool b => some (.bool b)
  | .int i => some (.int i)
  | .num n d => some (.float ((n : Rat) / (d : Rat)))
  | .str s => some (.str s)
  | .other _ => Option.none

/-! ### encoding (`json.dumps(default = json_serialize_objects)`) -/

def encDT (tc : TimeCodec) (t : DateTime) : JVal :=
  .obj [("__class__", .str "datetime"),
        ("__tz__", match t.tz with | some z => .str z | Option.none => .null),
        ("__value__", .str (tc.fmt t.secs))]

def optStr : Option String → JVal
  | some s => .str s
  | Option.none => .null

/-- the dictionary `json_serialize_objects` returns for an object, given its (already encoded) attributes -/
def serialise (c : ClassSchema) (fields : List (String × JVal)) : List (String × JVal) :=
  c.adds.map (fun kv => (kv.1, JVal.str kv.2)) ++
  (storedOf c true).filterMap (fun s => (lookup s.attr fields).map (fun v => (s.key, v)))

def findByName (S : List ClassSchema) (n : String) : Option ClassSchema := S.find? (·.name == n)

mutual
  def enc (S : List ClassSchema) (tc : TimeCodec) : PyVal → JVal
    | .none => .null
    | .bool b => .bool b
    | .int i => .int i
    | .float q => .flt q
    | .str s => .str s
    | .list xs => .arr (encList S tc xs)
    | .dict kvs => .obj (encFields S tc kvs)
    | .datetime t => encDT tc t
    | .date d => .obj [("__class__", .str "date"), ("__value__", .str (tc.fmtDate d))]
    | .ndarray xs => .obj [("__class__", .str "np_array"), ("is_date", .bool false), ("np_list", .arr (encList S tc xs))]
    | .ndarrayDate ns => .obj [("__class__", .str "np_array"), ("is_date", .bool true), ("np_list", .arr (ns.map JVal.int))]
    | .dtindex f ts => .obj [("__class__", .str "pd_DateTimeIndex"), ("__freq__", optStr f), ("__value__", .arr (ts.map (encDT tc)))]
    | .obj cls attrs =>
        match findByName S cls with
        | some c => .obj (serialise c (encFields S tc attrs))
        | Option.none => .null      -- TypeError: not json serializable
  def encList (S : List ClassSchema) (tc : TimeCodec) : List PyVal → List JVal
    | [] => []
    | x :: xs => enc S tc x :: encList S tc xs
  def encFields (S : List ClassSchema) (tc : TimeCodec) : List (String × PyVal) → List (String × JVal)
    | [] => []
    | (k, v) :: rest => (k, enc S tc v) :: encFields S tc rest
end

/-! ### decoding (`json.loads(object_hook = json_deserialize_objects)`) -/

/-- the class a tagged dictionary is rebuilt as: the class the branch of the tag names, or the class whose
name the dispatch key holds (`globals()[asset_type]`) -/
def classFor (S : List ClassSchema) (tag : String) (kvs : List (String × PyVal)) : Option ClassSchema :=
  match S.find? (fun c => c.tag == tag) with
  | Option.none => Option.none
  | some c0 =>
      if c0.dispatch == "" then findByName S c0.name
      else match lookup c0.dispatch kvs with
        | some (.str n) =>
            match findByName S n with
            | some c => if c.tag == tag && c.resolvable then some c else Option.none
            | Option.none => Option.none
        | _ => Option.none

/-- value the (abstract) constructor gives attribute `a` for keyword arguments `kw` -/
def attrVal (kw : List (String × PyVal)) (a : Attr) : Option PyVal :=
  match a.kind with
  | .same | .renamed => lookup a.src kw
  | .const => a.lit.toPy
  | .derived => Option.none          -- a function of the other attributes: not part of the abstract state

/-- state built by `Cls(**kw)` followed by the setter calls -/
def build (c : ClassSchema) (kw : List (String × PyVal)) : List (String × PyVal) :=
  (stateAttrs c).filterMap (fun a => (attrVal kw a).map (fun v => (a.name, v)))

def hasKey {β : Type} (k : String) (l : List (String × β)) : Bool := l.any (fun kv => kv.1 == k)

/-- the deserialiser branch of a schema class: remove keys, check the call is well-formed, construct -/
def construct (c : ClassSchema) (kvs : List (String × PyVal)) : Option PyVal :=
  let kw := kvs.filter (fun kv => !(c.deserPops.contains kv.1))
  let keysOK :=
    if c.positional then c.ctorKeys.all (fun k => hasKey k kw)      -- obj[k]: KeyError when absent
    else kw.all (fun kv => (acceptedKeys c).contains kv.1 || c.swallows)   -- unexpected keyword: TypeError
  let reqOK := c.params.all (fun p => !p.required || hasKey p.name kw)      -- missing argument: TypeError
  if keysOK && reqOK then
    some (.obj c.name (build c (kw.filter (fun kv => (acceptedKeys c).contains kv.1))))
  else Option.none

def asDateTime : PyVal → Option DateTime
  | .datetime t => some t
  | _ => Option.none

def asInt : PyVal → Option Int
  | .int i => some i
  | _ => Option.none

def mapM' {α β : Type} (f : α → Option β) : List α → Option (List β)
  | [] => some []
  | x :: xs => match f x, mapM' f xs with
    | some y, some ys => some (y :: ys)
    | _, _ => Option.none

/-- `json_deserialize_objects` on a dictionary whose values are already decoded -/
def hook (S : List ClassSchema) (tc : TimeCodec) (kvs : List (String × PyVal)) : Option PyVal :=
  match lookup "__class__" kvs with
  | Option.none => some (.dict kvs)
  | some (.str tag) =>
      if tag == "datetime" then
        match lookup "__value__" kvs with
        | some (.str s) =>
            (tc.parse s).bind fun secs =>
              match lookup "__tz__" kvs with
              | some (.str z) => some (.datetime ⟨secs, 0, some z⟩)
              | some .none => some (.datetime ⟨secs, 0, Option.none⟩)
              | Option.none => some (.datetime ⟨secs, 0, Option.none⟩)
              | _ => Option.none
        | _ => Option.none
      else if tag == "date" then
        match lookup "__value__" kvs with
        | some (.str s) => (tc.parseDate s).map PyVal.date
        | _ => Option.none
      else if tag == "np_array" then
        match lookup "np_list" kvs with
        | some (.list xs) =>
            match lookup "is_date" kvs with
            | some (.bool true) => (mapM' asInt xs).map PyVal.ndarrayDate
            | _ => some (.ndarray xs)
        | _ => Option.none
      else if tag == "pd_DateTimeIndex" then
        match lookup "__value__" kvs, lookup "__freq__" kvs with
        | some (.list xs), some (.str f) => (mapM' asDateTime xs).map (PyVal.dtindex (some f))
        | some (.list xs), some .none => (mapM' asDateTime xs).map (PyVal.dtindex Option.none)
        | _, _ => Option.none
      else
        match classFor S tag kvs with
        | some c => construct c kvs
        | Option.none => Option.none    -- NotImplementedError / KeyError
  | some _ => Option.none

mutual
  def dec (S : List ClassSchema) (tc : TimeCodec) : JVal → Option PyVal
    | .null => some .none
    | .bool b => some (.bool b)
    | .int i => some (.int i)
    | .flt q => some (.float q)
    | .str s => some (.str s)
    | .arr xs => match decList S tc xs with
        | some ys => some (.list ys)
        | Option.none => Option.none
    | .obj kvs => match decFields S tc kvs with
        | some fs => hook S tc fs
        | Option.none => Option.none
  def decList (S : List ClassSchema) (tc : TimeCodec) : List JVal → Option (List PyVal)
    | [] => some []
    | x :: xs => match dec S tc x, decList S tc xs with
        | some y, some ys => some (y :: ys)
        | _, _ => Option.none
  def decFields (S : List ClassSchema) (tc : TimeCodec) : List (String × JVal) → Option (List (String × PyVal))
    | [] => some []
    | (k, v) :: rest => match dec S tc v, decFields S tc rest with
        | some y, some ys => some ((k, y) :: ys)
        | _, _ => Option.none
end

/-! ### well-formed object trees -/

/-- tags of the value codec: a class of the table must not use them, a plain dict must not carry '__class__' -/
def reservedTags : List String := ["datetime", "date", "np_array", "pd_DateTimeIndex"]

/-- the format string drops the sub-second part: only whole seconds survive -/
def WholeSecond (t : DateTime) : Prop := t.nanos = 0

/-- an object is one the constructor can have built: `attrs = build c kw` for keyword arguments among the
accepted keys, containing the required ones -/
def Reachable (c : ClassSchema) (attrs : List (String × PyVal)) : Prop :=
  ∃ kw : List (String × PyVal),
    attrs = build c kw ∧ (∀ kv ∈ kw, kv.1 ∈ acceptedKeys c) ∧
    (∀ p ∈ c.params, p.required = true → hasKey p.name kw = true)

mutual
  /-- what the round-trip theorem quantifies over -/
  def Valid (S : List ClassSchema) : PyVal → Prop
    | .none | .bool _ | .int _ | .float _ | .str _ | .date _ | .ndarrayDate _ => True
    | .list xs => ValidList S xs
    | .dict kvs => lookup "__class__" kvs = Option.none ∧ ValidFields S kvs
    | .datetime t => WholeSecond t
    | .ndarray xs => ValidList S xs
    | .dtindex _ ts => ∀ t ∈ ts, WholeSecond t
    | .obj cls attrs =>
        (∃ c, findByName S cls = some c ∧ c.name = cls ∧ RoundTripOK c = true ∧ classOK S c = true ∧
              c.tag ∉ reservedTags ∧
              Reachable c attrs) ∧ ValidFields S attrs
  def ValidList (S : List ClassSchema) : List PyVal → Prop
    | [] => True
    | x :: xs => Valid S x ∧ ValidList S xs
  def ValidFields (S : List ClassSchema) : List (String × PyVal) → Prop
    | [] => True
    | (_, v) :: rest => Valid S v ∧ ValidFields S rest
end

end EAO.Schema
