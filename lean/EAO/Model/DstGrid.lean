import EAO.Model.Grid
/-!
# EAO.Model.DstGrid — daily grids (`freq = 'd'`, `'k d'`) in a zone with daylight saving

`Timegrid(start, end, freq='kd', timezone=zone)` (`eaopack/basic_classes.py` 152-165) takes its points from
`pd.date_range(start, end, freq, tz)`.  For a frequency of whole days pandas
(`DatetimeArray._generate_range`, pandas 2.2) does NOT count 24-hour ticks: it

1. strips the zone from both ends (`tz_localize(None)`: the local WALL time of start and end),
2. generates the regular range `wall(start), wall(start) + k·86400, … ≤ wall(end)` in wall time,
3. brings every wall time back to an instant (`tz_localize_to_utc(…, ambiguous='raise', nonexistent='raise')`:
   the first wall time in order that no instant has raises `NonExistentTimeError`, that two instants have
   raises `AmbiguousTimeError`),
4. localises the wall times of start and end again in the same way (so an end inside the repeated hour of
   autumn raises `AmbiguousTimeError` even when no point falls there).

The zone is a finite table of UTC-offset transitions (an input: produced by the harness from the zone data
base for the years in question): `base` = offset in seconds before the first transition, `trans` =
`(instant, offset from this instant on)` with increasing instants.  Instants and wall times are `Int` seconds
(wall time = seconds since the epoch of the local clock reading, read as if UTC).
Import-free core Lean except for `EAO.Model.Grid` (reused: `tickRange`, `Grid.ofPoints`).
-/
namespace EAO

structure Zone where
  base  : Int
  trans : List (Int × Int)
  deriving Repr, Inhabited, DecidableEq

/-- offset valid at instant `u`: that of the last transition at or before `u` (instants increasing) -/
def offsetFrom (base : Int) : List (Int × Int) → Int → Int
  | [], _ => base
  | (t, o) :: rest, u => if t ≤ u then offsetFrom o rest u else base

def Zone.offset (z : Zone) (u : Int) : Int := offsetFrom z.base z.trans u

/-- local wall time of an instant -/
def Zone.wall (z : Zone) (u : Int) : Int := u + z.offset u

/-- all offsets the zone ever has -/
def Zone.offsets (z : Zone) : List Int := z.base :: z.trans.map (·.2)

inductive TzError
  | nonexistent    -- pytz.exceptions.NonExistentTimeError
  | ambiguous      -- pytz.exceptions.AmbiguousTimeError
  | assertion      -- `assert self.start < self.end`
  deriving Repr, DecidableEq, Inhabited

def TzError.toString : TzError → String
  | .nonexistent => "NonExistentTimeError" | .ambiguous => "AmbiguousTimeError" | .assertion => "assert"

/-- the instants whose wall time is `w` (an instant with wall time `w` is `w - o` for one of the zone's
    offsets `o`; the same instant may be listed more than once) -/
def Zone.candidates (z : Zone) (w : Int) : List Int :=
  (z.offsets.map fun o => w - o).filter fun u => z.wall u == w

/-- `tz_localize(…, ambiguous='raise', nonexistent='raise')` of one wall time -/
def Zone.localize (z : Zone) (w : Int) : Except TzError Int :=
  match z.candidates w with
  | [] => .error .nonexistent
  | u :: rest => if rest.all (· == u) then .ok u else .error .ambiguous

/-- the wall times in order; the first that fails decides the error -/
def Zone.localizeAll (z : Zone) : List Int → Except TzError (List Int)
  | [] => .ok []
  | w :: ws =>
    match z.localize w with
    | .error e => .error e
    | .ok u =>
      match z.localizeAll ws with
      | .error e => .error e
      | .ok us => .ok (u :: us)

/-- the wall times of a range of whole days -/
def dayWalls (z : Zone) (start stop : Int) (kdays : Nat) : List Int :=
  tickRange (z.wall start) (z.wall stop) (kdays * 86400)

/-- `pd.date_range(start, end, freq='<kdays>d', tz=zone)` for zone-aware ends: ALL points (including the
    closing one) or the error class -/
def localDayRange (z : Zone) (start stop : Int) (kdays : Nat) : Except TzError (List Int) :=
  match z.localizeAll (dayWalls z start stop kdays) with
  | .error e => .error e
  | .ok pts =>
    match z.localize (z.wall start) with
    | .error e => .error e
    | .ok _ =>
      match z.localize (z.wall stop) with
      | .error e => .error e
      | .ok _ => .ok pts

/-- top-level `Timegrid(start, end, freq='<kdays>d', main_time_unit, timezone=zone)` -/
def dayGrid (z : Zone) (start stop : Int) (kdays unitSec : Nat) (df : List Rat) : Except TzError Grid :=
  if start < stop then
    match localDayRange z start stop kdays with
    | .error e => .error e
    | .ok pts => .ok (Grid.ofPoints pts unitSec df)
  else .error .assertion

/-- `pd.Timestamp(pd.Timestamp(naive), tz=zone)` — what the constructor does with a NAIVE datetime (it first makes a naive
    `Timestamp` of it, lines 81-83, then a zone-aware one, lines 153-156).  Unlike `tz_localize` (and unlike
    `pd.Timestamp(datetime, tz=zone)`) this does NOT raise for a wall time that two instants have: it silently takes the
    reading that the zone data base flags as daylight-saving time.  Which of the two instants that is (`first` = the earlier
    one: the usual case of a clock set back at the end of summer time; the later one for zones whose "saving" is negative,
    e.g. Europe/Dublin) is an input, read by the harness from the zone data base.  A wall time that no instant has raises. -/
def Zone.localizeNaive (z : Zone) (first : Bool) (w : Int) : Except TzError Int :=
  match z.candidates w with
  | [] => .error .nonexistent
  | u :: rest => .ok (rest.foldl (fun a b => if first then min a b else max a b) u)

/-- the same constructor called with NAIVE datetimes: the start is localised, then the end, then `assert start < end` -/
def dayGridNaive (z : Zone) (first : Bool) (startWall stopWall : Int) (kdays unitSec : Nat) (df : List Rat) : Except TzError Grid :=
  match z.localizeNaive first startWall with
  | .error e => .error e
  | .ok start =>
    match z.localizeNaive first stopWall with
    | .error e => .error e
    | .ok stop => dayGrid z start stop kdays unitSec df

/-- largest difference of two offsets stays below `bound` (decidable; for the tables of real zones over a few
    years the difference is one hour, 30 min for Lord Howe) -/
def Zone.spreadBelow (z : Zone) (bound : Int) : Bool :=
  z.offsets.all fun o => z.offsets.all fun o' => decide (o - o' < bound)

/-- decidable hypothesis on one grid (used for "no point after the end"): the offset at the end is the offset `rem`
    seconds earlier, `rem` = what the whole periods of `kdays` days leave over between the wall times of start and end
    (0 when the end is on the lattice of days: then trivially true) -/
def endOK (z : Zone) (start stop : Int) (kdays : Nat) : Bool :=
  z.offset (stop - (z.wall stop - z.wall start) % ((kdays * 86400 : Nat) : Int)) == z.offset stop

end EAO
