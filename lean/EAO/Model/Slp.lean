import EAO.Model.Basic
import EAO.Model.Param
import EAO.Model.Readout
/-!
# EAO.Model.Slp — model of `eaopack.stoch_lin_prog.make_slp` and of the SLP-specific part of
`io.extract_output`

`make_slp(optim_problem, portf, timegrid, start_future, samples)` turns a problem into a two stage
stochastic program.  Literal model of what the code does:

* `future_tg.I` = indices of the grid points `>= start_future` (`futureStepsOf`); the assertion
  `start_future < timegrid.end` comes first; an EMPTY future (start_future strictly inside the last
  step) makes `future_tg.I[0]` raise `IndexError`.
* `fut_vars` = the distinct mapping labels, in order of first appearance, whose FIRST mapping row has a
  step in the future grid (`slpFutVars`);  `If = zeros(m, bool); If[fut_vars] = True` — a boolean array
  over ALL `m` variables (`slpMask`): a variable is "future" iff it has a mapping row and its first row
  lies in the future; variables without mapping row belong to the present.  A future label `>= m`
  would raise `IndexError` (cannot happen for portfolio problems).  `If` is used by position for `l`,
  `u`, `c`, the cost samples and the columns of `A`, and by label membership for the mapping.
* new variables: `nS` copies of the future variables appended in sample order; `l`, `u` tiled;
  `c`: first the entries of straddling present variables (`slpStraddle`: present, but with some mapping row at a
  future step) are replaced by the mean of the own cost and the sample costs (`presentCosts`); then the
  future entries are divided by `nS+1`, then per sample the future entries of the sample cost
  vector divided by `nS+1`; `b`, `cType` repeated `nS+1` times; matrix: original rows, then per sample
  `i` the rows with present columns kept and future column `j` moved to
  `m + i*n_f + rank_f j` (`slpEmbed`; `rank_f = cumsum(If) - 1`).
* read-out (`io.extract_output`): the contribution of a mapping row to the dispatch table is divided by the
  number of distinct sample ids iff that row carries a sample id (`slpDispatchRows`).
* mapping: original rows keep their label and get `slp_step_<I[0]>` = −1 where the label is a future
  variable (else NaN); then per sample `i` the rows of future variables are appended (all rows of
  such a variable, in mapping order) with sample number `i` and label `m + i*n_f + rank_f[label]`,
  i.e. the label of the copy of that variable.  (Before commit c776509 the mapping was renumbered by
  rows with `reset_index`; finding F-17g.)
  `map_nodal_restr` is left as it is (it is NOT repeated although the N rows are).

The cost samples are an input (they are produced by `Portfolio.create_cost_samples`, i.e. by the
cost part of every asset builder with other prices).
-/
namespace EAO

/-- `arr[mask]` (numpy, boolean mask of the same length): positional selection -/
def maskSel {α : Type} : List Bool → List α → List α
  | b :: bs, x :: xs => if b then x :: maskSel bs xs else maskSel bs xs
  | _, _ => []

/-- number of selected positions strictly before `j` -/
def maskRank : List Bool → Nat → Nat
  | [], _ => 0
  | _ :: _, 0 => 0
  | b :: bs, j + 1 => (if b then 1 else 0) + maskRank bs j

/-- number of selected positions (`n_f`) -/
def maskCount : List Bool → Nat
  | [] => 0
  | b :: bs => (if b then 1 else 0) + maskCount bs

/-- `np.tile(xs, k)` -/
def tile {α : Type} (xs : List α) : Nat → List α
  | 0 => []
  | k + 1 => xs ++ tile xs k

/-- `future_tg.I`: indices of the grid points at or after `startFuture` (restricted grid with the end of
    the full grid) -/
def futureStepsOf (pts : List Int) (startFuture : Int) : List Nat :=
  pts.zipIdx.filterMap fun (p, i) => if startFuture ≤ p then some i else none

/-- `fut_vars`: distinct mapping labels (order of first appearance) whose first row lies in the future -/
def slpFutVars (P : Problem) (F : List Nat) : List Nat :=
  ((firstRows P.mapping []).filter fun m => F.contains m.step).map (·.var)

/-- the boolean array `If` over all variables: `If[fut_vars] = True` -/
def slpMask (P : Problem) (F : List Nat) : List Bool :=
  (List.range P.n).map fun j => (slpFutVars P F).contains j

/-- index map from the variables of the original problem to those of the SLP for scenario `s`
    (`0` = the original future, `i+1` = sample `i`): unselected ↦ itself, selected `j` ↦ its copy -/
def slpEmbed (mask : List Bool) (n : Nat) (s : Nat) (j : Nat) : Nat :=
  match s with
  | 0 => j
  | i + 1 => if mask.getD j false then n + i * maskCount mask + maskRank mask j else j

/-- `c[If] = c[If]/(nS+1)` -/
def scaleSel (k : Rat) : List Bool → List Rat → List Rat
  | b :: bs, c :: cs => (if b then c / k else c) :: scaleSel k bs cs
  | _, cs => cs

/-- `Ipf`: the present variables (not in `If`) that have SOME mapping row at a future step — e.g. the variable of
    an asset on a coarser frequency whose block starts in the present and ends in the future
    (`Ipf[ind_f[ind_f<m]] = True; Ipf = Ipf & ~If`; only rows of the original mapping have labels `< m`) -/
def slpStraddle (P : Problem) (F : List Nat) : List Bool :=
  (List.range P.n).map fun j =>
    !(slpFutVars P F).contains j && P.mapping.any fun m => m.var == j && F.contains m.step

/-- pointwise sum of two vectors -/
def addVec : List Rat → List Rat → List Rat
  | a :: as, b :: bs => (a + b) :: addVec as bs
  | _, _ => []

/-- `c + sum(myc for myc in c_samples)` -/
def totalCosts (c : List Rat) : List (List Rat) → List Rat
  | [] => c
  | s :: rest => addVec s (totalCosts c rest)

/-- entries selected by `sel` are replaced by `tot/k`, the others keep `c` -/
def meanSel (k : Rat) : List Bool → List Rat → List Rat → List Rat
  | b :: bs, c :: cs, t :: ts => (if b then t / k else c) :: meanSel k bs cs ts
  | _, cs, _ => cs

/-- `c[Ipf] = (c[Ipf] + sum(myc[Ipf] for myc in c_samples))/(nS+1)`: a straddling present variable gets the MEAN
    of its cost over the original and the samples (since commit 20639b0) -/
def presentCosts (k : Rat) (strad : List Bool) (c : List Rat) (samples : List (List Rat)) : List Rat :=
  meanSel k strad c (totalCosts c samples)

/-- the appended cost blocks: `hstack(myc[If]/(nS+1) for myc in c_samples)` -/
def sampleCosts (k : Rat) (mask : List Bool) : List (List Rat) → List Rat
  | [] => []
  | cs :: rest => (maskSel mask cs).map (· / k) ++ sampleCosts k mask rest

/-- the appended row blocks: for sample `i = i0, i0+1, …` the original rows with selected columns moved -/
def sampleRows (mask : List Bool) (n : Nat) (rows : List Row) : Nat → Nat → List Row
  | _, 0 => []
  | i0, k + 1 => rows.map (Row.rename (slpEmbed mask n (i0 + 1))) ++ sampleRows mask n rows (i0 + 1) k

/-- the rows appended to the mapping: for sample `i = 0 … nS-1` the rows of future variables with the label
    of the copy -/
def slpCopyRows (mask : List Bool) (n : Nat) (mapF : List MapRow) (nS : Nat) : List (MapRow × Nat) :=
  (List.range nS).flatMap fun i => mapF.map fun m => ({ m with var := slpEmbed mask n (i + 1) m.var }, i)

/-- mapping rows of the SLP with the value of the `slp_step_…` column -/
def slpMappingRows (P : Problem) (F : List Nat) (nS : Nat) : List (MapRow × Option Int) :=
  let fut := fun (m : MapRow) => (slpFutVars P F).contains m.var
  let orig := P.mapping.map fun m => (m, if fut m then some (-1 : Int) else none)
  orig ++ (slpCopyRows (slpMask P F) P.n (P.mapping.filter fut) nS).map fun p => (p.1, some (Int.ofNat p.2))

/-- the mapping of the SLP -/
def slpMapping (P : Problem) (F : List Nat) (nS : Nat) : List MapRow :=
  P.mapping ++ (slpCopyRows (slpMask P F) P.n (P.mapping.filter fun m => (slpFutVars P F).contains m.var) nS).map (·.1)

/-- the `slp_step_<I[0]>` column of the SLP mapping, row by row -/
def slpColumn (P : Problem) (F : List Nat) (nS : Nat) : List (Option Int) :=
  (slpMappingRows P F nS).map (·.2)

/-- `make_slp` on the problem, the future grid indices and the cost vectors of the samples -/
def makeSlp (P : Problem) (futureSteps : List Nat) (costSamples : List (List Rat)) :
    Except BuildError Problem :=
  let mask := slpMask P futureSteps
  let nS := costSamples.length
  let k : Rat := (nS : Rat) + 1
  if futureSteps.isEmpty then .error .index                       -- `future_tg.I[0]`
  else if (slpFutVars P futureSteps).any (fun v => decide (P.n ≤ v)) then .error .index   -- `If[fut_vars] = True`
  else if P.l.length ≠ P.n ∨ P.u.length ≠ P.n then .error .index  -- `l[If]`, `u[If]`
  else if costSamples.any (fun cs => cs.length ≠ P.n) then .error .index   -- `myc[If]`
  else .ok
    { c := scaleSel k mask (presentCosts k (slpStraddle P futureSteps) P.c costSamples) ++ sampleCosts k mask costSamples,
      l := P.l ++ tile (maskSel mask P.l) nS,
      u := P.u ++ tile (maskSel mask P.u) nS,
      rows := P.rows ++ sampleRows mask P.n P.rows 0 nS,
      mapping := slpMapping P futureSteps nS,
      nodal := P.nodal }

/-- with the time arguments: the assertion `start_future < timegrid.end` comes first -/
def makeSlpAt (P : Problem) (pts : List Int) (gridEnd startFuture : Int) (costSamples : List (List Rat)) :
    Except BuildError Problem :=
  if startFuture < gridEnd then makeSlp P (futureStepsOf pts startFuture) costSamples
  else .error .assertion

/-! ### read-out of an SLP result (`io.extract_output`) -/

/-- distinct values of a list, in order of first appearance -/
def distinctInts : List (Option Int) → List (Option Int) → List (Option Int)
  | [], _ => []
  | a :: as, seen => if seen.contains a then distinctInts as seen else a :: distinctInts as (a :: seen)

/-- `n_samples = len(mapping.loc[is_sample, col].unique())` -/
def slpNSamples (slp : List (Option Int)) : Nat :=
  (distinctInts (slp.filter (·.isSome)) []).length

/-- dispatch table entry from mapping rows paired with their sample id: every row of the asset/node/step
    contributes `x[label] * disp_factor`, divided by `k` iff THAT ROW carries a sample id
    (`if not pd.isnull(r[myc]): my_disp = my_disp/n_samples[myc]`, io.py since commit 43d96c3; before, the whole
    table row of a step was divided, finding F-17h) -/
def slpDispatchRows (R : List (MapRow × Option Int)) (k : Rat) (a n : String) (t : Nat) (x : Vec) : Rat :=
  ((R.filter fun p => p.1.asset == a && isDisp n t p.1).map fun p =>
    if p.2.isSome then p.1.contrib x / k else p.1.contrib x).sum

/-- dispatch table entry of an SLP result: `k` = number of distinct sample ids (−1 counts) -/
def slpDispatchOut (M : List MapRow) (slp : List (Option Int)) (a n : String) (t : Nat) (x : Vec) : Rat :=
  slpDispatchRows (M.zip slp) (slpNSamples slp : Rat) a n t x

end EAO
