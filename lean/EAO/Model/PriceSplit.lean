import EAO.Model.Basic
import EAO.Model.Readout
import EAO.Model.Translate
import EAO.Model.Lagrange
/-!
# EAO.Model.PriceSplit — the nodal price table of a split optimisation (and of an SLP result)

Literal model of three pieces of code:

* `SplitOptimProblem.__init__` (optimization.py 428-437): `self.map_nodal_restr` is the concatenation of the
  interval problems' nodal records (`splitNodal`; the records were re-labelled to ORIGINAL steps by
  `setup_split_optim_problem`, `EAO.relabelNodal` of `EAO/Model/SplitBuild.lean`);
* `SplitOptimProblem.optimize` (optimization.py 441-466): `res.duals[key] = np.hstack(parts)` over the intervals
  that have the key (`splitDuals`; an interval without rows of the type contributes the empty array);
* `OptimProblem.optimize` (optimization.py 328-337): `myduals[t] = constraints[...].dual_value` — the duals come
  per row TYPE, in the order the rows of that type have in the problem (`dualsOfKind`), and
  `io.extract_output` (io.py 120-127) writes `-res.duals['N'][ii]` for the `ii`-th entry of `map_nodal_restr`
  (`EAO.nodalPrices`).  `readPrices` composes the two: the price table as a function of the whole multiplier vector.

Positions: `rowOffset ps i` = number of rows of the intervals before `i` (row index of interval `i`'s first row in
`blockSum ps`), `nodalOffset ps i` = number of price-table entries written by the intervals before `i`.
-/
namespace EAO

/-- `SplitOptimProblem.map_nodal_restr`: `for op in ops: self.map_nodal_restr += op.map_nodal_restr` -/
def splitNodal (ps : List Problem) : List (Nat × String) := ps.flatMap (·.nodal)

/-- `res.duals[key] = np.hstack([np.atleast_1d(pp) for pp in parts])` -/
def splitDuals (parts : List (List Rat)) : List Rat := parts.flatten

/-- the price table `io.extract_output` writes for a split result: entry `m` is
    `((original step, node), -duals['N'][m])` -/
def splitPrices (ps : List Problem) (dualNs : List (List Rat)) : List ((Nat × String) × Rat) :=
  nodalPrices (splitNodal ps) (splitDuals dualNs)

/-- number of rows of the intervals before `i` -/
def rowOffset (ps : List Problem) (i : Nat) : Nat := ((ps.take i).map fun p => p.rows.length).sum

/-- number of nodal entries of the intervals before `i` -/
def nodalOffset (ps : List Problem) (i : Nat) : Nat := ((ps.take i).map fun p => p.nodal.length).sum

/-- index, among the rows of `blockSum ps`, of the `k`-th nodal row of interval `i` (nodal rows come last in every
    interval problem) -/
def splitNodalRow (ps : List Problem) (i k : Nat) : Nat :=
  rowOffset ps i + ((ps.getD i default).rows.length - (ps.getD i default).nodal.length + k)

/-- position in the price table of the `k`-th nodal entry of interval `i` -/
def splitPriceIndex (ps : List Problem) (i k : Nat) : Nat := nodalOffset ps i + k

/-- the duals of the rows of type `k`, in problem order, out of a multiplier vector with one entry per row
    (`constraints[constr_types[k]].dual_value`) -/
def dualsOfKind (rows : List Row) (y : List Rat) (k : RowKind) : List Rat :=
  ((rows.zip y).filter fun q => q.1.kind == k).map (·.2)

/-- the price table as a function of the whole multiplier vector -/
def readPrices (P : Problem) (y : List Rat) : List ((Nat × String) × Rat) :=
  nodalPrices P.nodal (dualsOfKind P.rows y .N)

/-- the price table of a split run as a function of the interval multiplier vectors -/
def readSplitPrices (ps : List Problem) (ys : List (List Rat)) : List ((Nat × String) × Rat) :=
  splitPrices ps ((ps.zip ys).map fun q => dualsOfKind q.1.rows q.2 .N)

/-- the rows of type `N` of the problem are exactly its last `nodal.length` rows (true for what
    `Portfolio.setup_optim_problem` builds since F-18a: inner nodal rows of wrappers are plain equalities) -/
def nodalLast (P : Problem) : Bool :=
  decide (P.nodal.length ≤ P.rows.length) &&
  ((P.rows.take (P.rows.length - P.nodal.length)).all fun r => r.kind != .N) &&
  ((P.rows.drop (P.rows.length - P.nodal.length)).all fun r => r.kind == .N)

/-- add `δ` to the right-hand sides of all rows whose index is in `idx` -/
def perturbMany (P : Problem) (idx : List Nat) (δ : Rat) : Problem :=
  idx.foldl (fun Q i => Q.perturbRhs i δ) P

end EAO
