import EAO.Model.Basic
import EAO.Model.Grid
import EAO.Model.Param
import EAO.Model.Contract
import EAO.Model.Periodic
/-!
# EAO.Model.CoarseBuild — the `freq` path of `SimpleContract` and `Transport`

`EAO/Model/Contract.lean` models the builders on an asset grid of the portfolio's own frequency.  With an
own, coarser `freq` (`Asset.set_timegrid` → `Timegrid.set_restricted_grid(start, end, freq)`) the restricted
grid is a COARSE grid (`EAO.CoarseGrid`: one step per pair of cuts holding a fine step, `I` = first minor index,
summed `dt`, `Dt` / point / discount factor read at the first minor step, `I_minor_in_major`), and
`SimpleContract.setup_optim_problem` / `Transport.setup_optim_problem` (`eaopack/assets.py`) differ from the
`freq=None` path in exactly two places:

* the price (cost) series is not sampled at `I` but replaced by the PLAIN mean over the minor steps of every
  coarse step (`price[myI].mean()`), `meanVector`;
* at the end the mapping is extended to the minor grid (`__extend_mapping_to_minor_grid__`, modelled in
  `EAO/Model/Periodic.lean` as `extendMinor`): one row per mapping row and minor step with factor
  `dt_fine/dt_coarse · disp_factor`.

Everything else runs on the coarse grid as it would on a fine one: capacities are `make_vector(…, convert=True)`
= value at the FIRST minor step (key), at the coarse point (interval data) or the constant, times the coarse
`dt`; extra costs are sampled the same way (NOT averaged); discount factor of the first minor step.  To make
this sharing literal the builders of `Contract.lean` are restated here with the price vector as an argument
(`simpleCore`, `transportCore`); `EAO.CoarseBuild.buildSimpleContract_eq_core` / `buildTransport_eq_core`
(lemma file) show that the `freq=None` builders are these cores applied to the sampled series.

Not modelled: `profile` (must be `None`; anything else raises `NotImplementedError`), `costs_only`,
`periodicity` together with `freq` (see `Periodic.lean`), calendar frequencies for which `pd.Timedelta` fails.
Order of error detection as in the code; the NaN assertions of `OptimProblem.__init__` come after the mapping
has been extended in the code and before it here — `extendMinor` cannot fail on a coarse grid made by
`Grid.coarsen` from a top-level grid, so the difference is not observable.

The second part of the file holds the (computable) objects the theorems of `EAO/Properties/C13Builders.lean`
speak about: the owner / weight lists of the fine steps, the expansion of a coarse point to the fine variables
and the "same rate inside a coarse step" equalities.
-/
namespace EAO

/-! ## the builders -/

/-- `price[myI].mean()`: plain (unweighted) mean over the minor steps of one coarse step -/
def meanAt (arr : List Rat) (cell : List Nat) : Rat :=
  (cell.map fun t => arr.getD t 0).sum / (cell.length : Rat)

/-- the loop `for myI in restricted.I_minor_in_major: myprice.append(price[myI].mean())`; a minor index
    beyond the array is an IndexError (cannot happen for an array of the length of the full grid) -/
def meanVector (arr : List Rat) (minor : List (List Nat)) : Except BuildError (List Rat) :=
  if minor.all (fun cell => cell.all fun t => decide (t < arr.length)) then pure (minor.map (meanAt arr))
  else throw .index

/-- price series of a coarse `SimpleContract`: zeros when no key is given; the key must exist (assertion) and
    the array must have the length of the FULL grid (ValueError); then the means per coarse step -/
def coarsePrice (key : Option String) (minor : List (List Nat)) (prices : Prices) (fullT : Nat) :
    Except BuildError (List Rat) :=
  match key with
  | none => meanVector (List.replicate fullT 0) minor
  | some k => match prices.lookup k with
    | none => throw .assertion
    | some arr => if arr.length = fullT then meanVector arr minor else throw .lengthMismatch

/-- cost series of a coarse `Transport`: a missing key and a wrong length are ValueErrors -/
def coarseCosts (key : Option String) (minor : List (List Nat)) (prices : Prices) (fullT : Nat) :
    Except BuildError (List Rat) :=
  match key with
  | none => meanVector (List.replicate fullT 0) minor
  | some k => match prices.lookup k with
    | none => throw .missingPrice
    | some arr => if arr.length = fullT then meanVector arr minor else throw .lengthMismatch

/-- `SimpleContract.setup_optim_problem` from the line `max_cap = self.make_vector(…)` on, on asset grid `g`
    with the price vector `price` (one entry per step of `g`) -/
def simpleCore (p : ContractP) (g : Grid) (prices : Prices) (price : List Rat) : Except BuildError AssetProblem := do
  let (minO, maxO, ecO) ← contractVectors p g prices
  let node ← match p.nodes with
    | [] => throw .index
    | n :: _ => pure n
  let ec ← allSome ecO
  let minC ← allSome minO
  let maxC ← allSome maxO
  if oneVariable ec minC maxC then
    pure { name := p.name, nodes := p.nodes,
           c := List.zipWith (· * ·) (oneVarPrice price ec minC maxC) g.df,
           l := minC, u := maxC, rows := [],
           mapping := dispBlock p.name node "disp" 0 g }
  else
    pure { name := p.name, nodes := p.nodes,
           c := List.zipWith (· * ·) (List.zipWith (· - ·) price ec) g.df
                ++ List.zipWith (· * ·) (List.zipWith (· + ·) price ec) g.df,
           l := minC.map (rmin 0) ++ minC.map (rmax 0),
           u := maxC.map (rmin 0) ++ maxC.map (rmax 0),
           rows := [],
           mapping := dispBlock p.name node "disp_in" 0 g ++ dispBlock p.name node "disp_out" g.T g }

/-- `Transport.setup_optim_problem` from the capacities on, on asset grid `g` with the cost series `cts` -/
def transportCore (p : TransportP) (n0 n1 : String) (g : Grid) (cts : List Rat) : Except BuildError AssetProblem := do
  let minC := g.dt.map (p.minCap * ·)
  let maxC := g.dt.map (p.maxCap * ·)
  let c0 := cts.map (· + p.costsConst)
  let allNeg := maxC.all (fun v => decide (v ≤ 0))
  if !(allNeg || minC.all (fun v => decide (0 ≤ v)) || c0.all (fun v => v == 0)) then throw .notImplemented
  let c1 := if allNeg then c0.map (fun v => -v) else c0
  pure { name := p.name, nodes := p.nodes,
         c := List.zipWith (· * ·) c1 g.df, l := minC, u := maxC, rows := [],
         mapping := transportBlock p.name n0 (-1) g ++ transportBlock p.name n1 p.efficiency g }

/-- `__extend_mapping_to_minor_grid__` inside a builder: `IndexError` / `KeyError` are one class -/
def extendMapping (M : List MapRow) (cg : CoarseGrid) (dtFine : List Rat) : Except BuildError (List MapRow) :=
  match extendMinor M cg dtFine with
  | .ok M' => pure M'
  | .error _ => throw .index

/-- `SimpleContract(…, freq=f).setup_optim_problem` on the coarse restricted grid `cg` of a full grid with step
    lengths `dtFine` and `fullT` steps -/
def buildCoarseSimpleContract (p : ContractP) (cg : CoarseGrid) (dtFine : List Rat) (prices : Prices) (fullT : Nat) :
    Except BuildError AssetProblem := do
  if scalarIllPosed p.minCap p.maxCap then throw .illPosed            -- constructor
  let price ← coarsePrice p.price cg.minor prices fullT
  let a ← simpleCore p cg.grid prices price
  let M ← extendMapping a.mapping cg dtFine
  pure { a with mapping := M }

/-- `Transport(…, freq=f).setup_optim_problem` -/
def buildCoarseTransport (p : TransportP) (cg : CoarseGrid) (dtFine : List Rat) (prices : Prices) (fullT : Nat) :
    Except BuildError AssetProblem := do
  match p.nodes with
  | [n0, n1] =>
    if p.maxCap < p.minCap then throw .assertion                       -- constructor
    if ¬ (0 < p.efficiency) then throw .assertion                      -- constructor
    let cts ← coarseCosts p.costsKey cg.minor prices fullT
    let a ← transportCore p n0 n1 cg.grid cts
    let M ← extendMapping a.mapping cg dtFine
    pure { a with mapping := M }
  | _ => throw .assertion                                              -- constructor: exactly two nodes

/-- `Asset.set_timegrid` in front: the guard `freq_a >= freq_p` (twice: in `set_timegrid` and in the `Timegrid`
    constructor) and the construction of the coarse grid from the cuts `date_range(start, end, freq)` -/
def coarseOf (ref : Grid) (freqA freqP : Nat) (cuts : List Int) : Except BuildError CoarseGrid :=
  match ref.coarsenChecked freqA freqP cuts with
  | .ok cg => pure cg
  | .error .assertion => throw .assertion
  | .error _ => throw .index

/-- from the full grid `ref` (with the asset's discount factors) and the cuts -/
def buildCoarseSimpleContractG (p : ContractP) (ref : Grid) (freqA freqP : Nat) (cuts : List Int) (prices : Prices) :
    Except BuildError AssetProblem := do
  if scalarIllPosed p.minCap p.maxCap then throw .illPosed            -- constructor, before any grid is touched
  let cg ← coarseOf ref freqA freqP cuts
  buildCoarseSimpleContract p cg ref.dt prices ref.T

def buildCoarseTransportG (p : TransportP) (ref : Grid) (freqA freqP : Nat) (cuts : List Int) (prices : Prices) :
    Except BuildError AssetProblem := do
  match p.nodes with
  | [_, _] =>
    if p.maxCap < p.minCap then throw .assertion
    if ¬ (0 < p.efficiency) then throw .assertion
    let cg ← coarseOf ref freqA freqP cuts
    buildCoarseTransport p cg ref.dt prices ref.T
  | _ => throw .assertion

/-! ## the fine problem the coarse one is compared with -/

/-- coarse position of every fine step, in the order of the minor lists: `[0,…,0, 1,…,1, …]`, counted from `i` -/
def ownerFrom (i : Nat) : List (List Nat) → List Nat
  | [] => []
  | cell :: rest => cell.map (fun _ => i) ++ ownerFrom (i + 1) rest

/-- weight `dt_fine/dt_coarse` of every fine step, in the same order -/
def weightFrom (dtFine dtCoarse : List Rat) (i : Nat) : List (List Nat) → List Rat
  | [] => []
  | cell :: rest => cell.map (fun t => dtFine.getD t 0 / dtCoarse.getD i 0) ++ weightFrom dtFine dtCoarse (i + 1) rest

def CoarseGrid.owner (cg : CoarseGrid) : List Nat := ownerFrom 0 cg.minor
def CoarseGrid.weights (cg : CoarseGrid) (dtFine : List Rat) : List Rat := weightFrom dtFine cg.grid.dt 0 cg.minor

/-- the fine steps of a coarse grid as an asset grid of the reference frequency: all minor steps in order, each
    with its own point, index, `dt`, `Dt` and discount factor of the reference grid `ref` (a top-level grid:
    index = position).  For a window of whole coarse steps this IS `ref.restrict start end`
    (`EAO.C13B.minorGrid_eq_restrict`). -/
def minorGrid (ref : Grid) (cg : CoarseGrid) : Grid :=
  let I := cg.minor.flatten
  { pts := I.map (ref.pts.getD · 0), idx := I, dt := I.map (ref.dt.getD · 0), Dt := I.map (ref.Dt.getD · 0),
    df := I.map (ref.df.getD · 0) }

/-- a vector over the coarse steps read at the owner of every fine step: the price series with every entry replaced
    by the plain mean of its coarse step, at the fine steps -/
def spreadList (owner : List Nat) (v : List Rat) : List Rat := owner.map (v.getD · 0)

/-- the same for vectors that may hold NaN -/
def spreadO (owner : List Nat) (v : List (Option Rat)) : List (Option Rat) := owner.map (v.getD · none)

/-- THE FINE PROBLEM a coarse simple contract is compared with: `SimpleContract.setup_optim_problem` of the `freq=None`
    path (`simpleCore`) on the fine steps of the coarse grid, with the price series replaced by its plain mean per
    coarse step (the same constructor check and price look-up in front) -/
def fineSimpleContract (p : ContractP) (ref : Grid) (cg : CoarseGrid) (prices : Prices) (fullT : Nat) :
    Except BuildError AssetProblem := do
  if scalarIllPosed p.minCap p.maxCap then throw .illPosed
  let price ← coarsePrice p.price cg.minor prices fullT
  simpleCore p (minorGrid ref cg) prices (spreadList cg.owner price)

/-- the same for a transport -/
def fineTransport (p : TransportP) (ref : Grid) (cg : CoarseGrid) (prices : Prices) (fullT : Nat) :
    Except BuildError AssetProblem := do
  match p.nodes with
  | [n0, n1] =>
    if p.maxCap < p.minCap then throw .assertion
    if ¬ (0 < p.efficiency) then throw .assertion
    let cts ← coarseCosts p.costsKey cg.minor prices fullT
    transportCore p n0 n1 (minorGrid ref cg) (spreadList cg.owner cts)
  | _ => throw .assertion

/-- a coarse point `z` (one value per coarse variable, in blocks of `Tc` variables: one block `disp`, or two blocks
    `disp_in | disp_out`) expanded to the fine variables (blocks of `Tf` = number of fine steps): every fine step gets
    the share `dt_fine/dt_coarse` of its coarse step's volume -/
def expand (owner : List Nat) (w : List Rat) (Tc : Nat) (z : Vec) : Vec := fun j =>
  z (Tc * (j / owner.length) + owner.getD (j % owner.length) 0) * w.getD (j % owner.length) 0

/-- "same RATE in all fine steps of a coarse step": volume over step length agrees for any two of the first `n` fine
    variables that belong to the same block and the same coarse step (`dts` = length of every fine step in order;
    written without division) -/
def SameRate (owner : List Nat) (dts : List Rat) (n : Nat) (x : Vec) : Prop :=
  ∀ j k, j < n → k < n → j / owner.length = k / owner.length →
    owner.getD (j % owner.length) 0 = owner.getD (k % owner.length) 0 →
    x j * dts.getD (k % owner.length) 0 = x k * dts.getD (j % owner.length) 0

/-! ## the hypotheses under which coarse and fine problem agree -/

/-- a top-level grid as `Timegrid.__init__` and `set_wacc` make it: indices `0 … T-1`, one step length, cumulated time
    and discount factor per step, increasing points, positive step lengths -/
structure Grid.TopLevel (g : Grid) : Prop where
  idx : g.idx = List.range g.pts.length
  dtLen : g.dt.length = g.pts.length
  DtLen : g.Dt.length = g.pts.length
  dfLen : g.df.length = g.pts.length
  pts : g.pts.Pairwise (· < ·)
  dtPos : ∀ d, d ∈ g.dt → 0 < d

/-- what the builders use of a coarse grid (all of it holds for `Grid.coarsen` on a top-level grid with positive step
    lengths and increasing points, `EAO.C13B.coarsen_wellFormed`): per-step lists of equal length, distinct indices,
    every coarse step as long as its minor steps together, which exist and have positive length -/
structure CoarseGrid.WellFormed (cg : CoarseGrid) (dtFine : List Rat) : Prop where
  ok : cg.grid.Ok
  minorLen : cg.minor.length = cg.grid.T
  nodup : cg.grid.idx.Nodup
  dtSum : ∀ i, i < cg.minor.length → cg.grid.dt.getD i 0 = ((cg.minor.getD i []).map (dtFine.getD · 0)).sum
  dtPos : ∀ cell, cell ∈ cg.minor → ∀ t, t ∈ cell → 0 < dtFine.getD t 0
  nonempty : ∀ cell, cell ∈ cg.minor → cell ≠ []

/-- no discounting, or equal discount factors inside every coarse step (the coarse step carries the factor of its
    first minor step; the complement is finding F-13h) -/
def EqualDiscount (ref : Grid) (cg : CoarseGrid) : Prop :=
  ∀ i, i < cg.minor.length → ∀ t, t ∈ cg.minor.getD i [] → ref.df.getD t 0 = cg.grid.df.getD i 0

instance (ref : Grid) (cg : CoarseGrid) : Decidable (EqualDiscount ref cg) := by
  unfold EqualDiscount; exact inferInstance

/-- capacities and extra costs constant inside every coarse step: evaluated on the fine steps they are the values
    of the coarse steps (the coarse step carries the value at its first minor step / its point; the complement is
    finding F-13i).  Scalars always satisfy this (`EAO.C13B.constInside_scalar`). -/
structure ConstInside (p : ContractP) (ref : Grid) (cg : CoarseGrid) (prices : Prices) : Prop where
  maxCap : baseVector p.maxCap (minorGrid ref cg) prices none
             = (baseVector p.maxCap cg.grid prices none).map (spreadO cg.owner)
  minCap : baseVector p.minCap (minorGrid ref cg) prices none
             = (baseVector p.minCap cg.grid prices none).map (spreadO cg.owner)
  extra  : baseVector p.extraCosts (minorGrid ref cg) prices (some 0)
             = (baseVector p.extraCosts cg.grid prices (some 0)).map (spreadO cg.owner)

end EAO
