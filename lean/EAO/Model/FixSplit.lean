import EAO.Model.Basic
import EAO.Model.Assemble
import EAO.Model.Translate
import EAO.Model.SplitBuild
/-!
# EAO.Model.FixSplit — `fix_time_window` in `Portfolio.setup_split_optim_problem`

`__setup_split_intervals__` (portfolio.py 261-318) hands every interval its part of the window and of the
previous solution:

```
len_res = 0
for every pair of cuts:
    timegrid_tmp = Timegrid(start_tmp, end_tmp, ..., ref_timegrid = timegrid)
    if timegrid_tmp.T == 0: continue
    tmp_I = timegrid_tmp.I                       # the ORIGINAL steps of the interval
    timegrid_tmp.I = range(T_i)                  # re-based
    fix_tmp = {'I': fix_time_window['I'], 'x': fix_time_window['x'][len_res:]}
    if isinstance(fix_tmp['I'], (np.ndarray, list)):
        my_I = np.asarray(fix_tmp['I'])
        if my_I.dtype != bool:                   # indices of time steps -> mask on the whole grid
            my_idx = my_I if my_I.size > 0 else my_I.astype(int)
            my_I = np.zeros(timegrid.T, dtype = bool);  my_I[my_idx] = True
        fix_tmp['I'] = my_I[tmp_I]               # the mask cut at the steps of the interval
    op_tmp = self.setup_optim_problem(prices_tmp, timegrid_tmp, skip_nodes, fix_time_window = fix_tmp)
    if op_tmp.c.shape[0] == 0: continue
    ... op_tmp.map_nodal_restr re-labelled with tmp_I ...
    len_res += op_tmp.c.shape[0]
```

and `setup_optim_problem` (lines 208-227) turns a date into the mask `timegrid_tmp.timepoints <= date`, refuses
anything that is neither array nor list (AssertionError), refuses a value vector shorter than the problem
(AssertionError), cuts a longer one (`x[0:n_vars]`) and pins the variables with a mapping row at
`timegrid_tmp.I[mask]` — which is `fixWindow` of `EAO.Model.Assemble` on the interval problem with the LOCAL steps.

The interval problems WITHOUT window are inputs here (`IntervalIn.prob`: any asset class; for portfolios of the
builders of `EAO.Model.Contract` they are what `setupPortfolio` of `EAO.Model.SplitBuild` gives on the interval grid
inside `setupInterval`), together with the original steps `tmp_I` and the points of the interval grid.
-/
namespace EAO

/-- the forms of `fix_time_window['I']` -/
inductive FixI
  | mask (bs : List Bool)   -- numpy bool array / list of bools (any length)
  | idx (is : List Int)     -- integer indices, numpy semantics (negative = from the end); `[]` = the empty list
  | floats                  -- a NON-empty array / list that is neither boolean nor integer
  | date (d : Int)          -- a date: all points `<= d`
  | other                   -- neither date nor array nor list (tuple, pandas Series, ...)
  deriving Repr, Inhabited, DecidableEq

/-- error classes: IndexError (numpy indexing), AssertionError (asserts of `setup_optim_problem`),
    ValueError (`pd.concat` of nothing: every interval skipped) -/
inductive FixErr | index | assertion | value
  deriving Repr, Inhabited, DecidableEq

def FixErr.toString : FixErr → String
  | .index => "index" | .assertion => "assertion" | .value => "value"

/-- one pass of the loop: the original steps `tmp_I` (empty: `timegrid_tmp.T == 0`), the points of the interval
    grid, and the interval problem as `setup_optim_problem` builds it WITHOUT window (mapping with the re-based,
    local steps `0 .. T_i-1`; nodal record not yet re-labelled) -/
structure IntervalIn where
  steps : List Nat
  pts   : List Int
  prob  : Problem
  deriving Repr, Inhabited

/-- numpy index into an axis of length `T`: `0 ≤ i < T` as it is, `-T ≤ i < 0` counted from the end, else IndexError -/
def normIdx (T : Nat) (i : Int) : Option Nat :=
  if 0 ≤ i then (if i.toNat < T then some i.toNat else none)
  else if -(T : Int) ≤ i then some ((T : Int) + i).toNat
  else none

/-- `my_I = np.zeros(T, bool); my_I[idx] = True` -/
def idxMask (T : Nat) (is : List Int) : Except FixErr (List Bool) :=
  match is.mapM (normIdx T) with
  | none => .error .index
  | some ns => .ok ((List.range T).map fun t => ns.contains t)

/-- `my_I[tmp_I]`: a boolean array read at the positions `tmp_I` (IndexError beyond its length) -/
def cutMask (m : List Bool) (steps : List Nat) : Except FixErr (List Bool) :=
  if steps.all (fun t => decide (t < m.length)) then .ok (steps.map fun t => m.getD t false) else .error .index

/-- `timegrid_tmp.I[mask]` with `I = range(T_i)`: the positions at which the mask holds -/
def localSteps (m : List Bool) : List Nat := (List.range m.length).filter fun t => m.getD t false

/-- the LOCAL steps of the interval that the window names (what `setup_optim_problem` of the interval pins) -/
def windowLocal (T : Nat) (w : FixI) (iv : IntervalIn) : Except FixErr (List Nat) :=
  match w with
  | .mask bs => do
    let m ← cutMask bs iv.steps
    pure (localSteps m)
  | .idx is => do
    let m ← idxMask T is
    let m' ← cutMask m iv.steps
    pure (localSteps m')
  | .floats => .error .index
  | .date d => pure (localSteps (iv.pts.map fun p => decide (p ≤ d)))
  | .other => .error .assertion

/-- `setup_optim_problem(..., fix_time_window = fix_tmp)` of one interval, `x` = the values from `len_res` on -/
def fixInterval (T : Nat) (w : FixI) (iv : IntervalIn) (x : List Rat) : Except FixErr Problem := do
  let loc ← windowLocal T w iv
  if x.length < iv.prob.n then throw .assertion
  pure (fixWindow iv.prob loc (x.take iv.prob.n))

/-- the loop, from running `len_res` -/
def fixSplitFrom (T : Nat) (w : FixI) (x : List Rat) : Nat → List IntervalIn → Except FixErr (List Problem)
  | _, [] => pure []
  | lenRes, iv :: rest =>
    if iv.steps.isEmpty then fixSplitFrom T w x lenRes rest
    else do
      let Q ← fixInterval T w iv (x.drop lenRes)
      if Q.n = 0 then fixSplitFrom T w x lenRes rest
      else do
        let Qs ← fixSplitFrom T w x (lenRes + Q.n) rest
        pure (relabelNodal iv.steps Q :: Qs)

/-- **`setup_split_optim_problem(..., fix_time_window = {'I': w, 'x': x})`**: the interval problems `ops`
    (`T` = number of steps of the whole grid) -/
def fixSplit (T : Nat) (w : FixI) (x : List Rat) (ivs : List IntervalIn) : Except FixErr (List Problem) := do
  let Qs ← fixSplitFrom T w x 0 ivs
  if Qs.isEmpty then throw .value   -- `pd.concat(mappings)` of an empty list
  pure Qs

/-! ### what the theorems of `EAO.Properties.C15Split` are stated with -/

/-- the passes of the loop that contribute an interval problem: some step, some variable -/
def keptIntervals (ivs : List IntervalIn) : List IntervalIn :=
  ivs.filter fun iv => !iv.steps.isEmpty && !decide (iv.prob.n = 0)

/-- the value `len_res` has when the loop reaches each contributing interval -/
def withOffsets : Nat → List IntervalIn → List (Nat × IntervalIn)
  | _, [] => []
  | off, iv :: rest => (off, iv) :: withOffsets (off + iv.prob.n) rest

/-- the interval problem with its mapping (and nodal record) written in ORIGINAL steps — `mapping_tmp` with
    `orig_I = [tmp_I[a] for a in mapping_tmp["time_step"]]`, the part of `SplitOptimProblem.mapping` of this interval -/
def IntervalIn.orig (iv : IntervalIn) : Problem :=
  { iv.prob with
    mapping := iv.prob.mapping.map fun m => { m with step := iv.steps.getD m.step 0 },
    nodal := iv.prob.nodal.map fun p => (iv.steps.getD p.1 0, p.2) }

/-- the block-sum problem of a split set-up without window, mapping in original steps -/
def splitProblem (ivs : List IntervalIn) : Problem := blockSum ((keptIntervals ivs).map IntervalIn.orig)

/-- **the window expressed in original steps** (`refPts`: the points of the whole grid) — the steps
    `timegrid.I[fix_time_window['I']]` of the unsplit set-up -/
def windowSteps (T : Nat) (refPts : List Int) : FixI → List Nat
  | .mask bs => localSteps bs
  | .idx is => is.filterMap (normIdx T)
  | .date d => localSteps (refPts.map fun p => decide (p ≤ d))
  | .floats => []
  | .other => []

/-- the local steps of an interval that belong to a set `W` of original steps -/
def localOf (W : List Nat) (iv : IntervalIn) : List Nat :=
  (List.range iv.steps.length).filter fun s => W.contains (iv.steps.getD s 0)

/-- the interval data fit the whole grid: the points of the interval grid are those of the whole grid at the
    interval's steps -/
def IntervalIn.onGrid (refPts : List Int) (iv : IntervalIn) : Prop :=
  (∀ t ∈ iv.steps, t < refPts.length) ∧ iv.pts = iv.steps.map fun t => refPts.getD t 0

/-- the interval problem is indexed as `setup_optim_problem` does: one bound per variable, mapping rows point to
    variables of the problem and to steps of the interval grid -/
def IntervalIn.wf (iv : IntervalIn) : Prop :=
  iv.prob.l.length = iv.prob.n ∧ iv.prob.u.length = iv.prob.n ∧
  (∀ m ∈ iv.prob.mapping, m.var < iv.prob.n) ∧ ∀ m ∈ iv.prob.mapping, m.step < iv.steps.length

/-- a window the set-up accepts: a mask over the whole grid, indices inside the grid (from the front or from the
    end), a date -/
def FixI.valid (T : Nat) : FixI → Bool
  | .mask bs => decide (bs.length = T)
  | .idx is => is.all fun i => (normIdx T i).isSome
  | .date _ => true
  | .floats => false
  | .other => false

/-- the local steps the sliced window names in an interval (`[]` where the slicing fails) -/
def windowLocalD (T : Nat) (w : FixI) (iv : IntervalIn) : List Nat :=
  match windowLocal T w iv with
  | .ok loc => loc
  | .error _ => []

/-- the interval problem a successful set-up returns for the contributing interval `p.2` reached with `len_res = p.1` -/
def fixedInterval (T : Nat) (w : FixI) (x : List Rat) (p : Nat × IntervalIn) : Problem :=
  relabelNodal p.2.steps (fixWindow p.2.prob (windowLocalD T w p.2) ((x.drop p.1).take p.2.prob.n))

end EAO
