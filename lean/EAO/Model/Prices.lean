/-!
# EAO.Model.Prices — model of `Timegrid.prices_to_grid` (`eaopack/basic_classes.py` 176-204)

```
if not isinstance(prices, pd.DataFrame): prices = pd.DataFrame.from_dict(prices)
if not isinstance(prices.index, pd.DatetimeIndex):
    prices = prices.copy()
    if pd.api.types.is_any_real_numeric_dtype(prices.index): prices.index = self.timepoints
    else:                                                    prices.index = pd.to_datetime(prices.index)
prices = prices.reindex(prices.index.union(self.timepoints))
prices = prices.interpolate(method='time', limit_direction="both")
prices = prices.loc[self.timepoints]
```

Import-free core Lean.  Instants are `Int` seconds (UTC; naive timestamps: their wall clock read as UTC), `none` is NaN.
The construction of the frame (`DataFrame.from_dict`) and the parsing of keys (`pd.to_datetime`) are pandas' work and
happen before the model: the model starts from the FRAME = one index + named columns.

* index: `numeric n` (a `RangeIndex` / integer / float index with `n` rows: the VALUES of the keys are ignored, the rows
  are laid on the grid points in their order; `n ≠ T` with at least one column is pandas' "Length mismatch" ValueError —
  a frame without columns may change its length) or `instants aware ts` (a `DatetimeIndex`, or what `pd.to_datetime`
  made of the keys; `aware` = carries a time zone).
* `reindex(index.union(timepoints))`: the union is sorted (pandas sorts the union unless the two indexes are equal or one
  is empty), rows of new instants are NaN: `sortRows` + `mergeRows` (every grid point not yet present is inserted at its
  place with `none`).  An index with a repeated instant: "cannot reindex on an axis with duplicate labels".
* `interpolate(method='time', limit_direction='both')`, column by column: nothing happens to a column without a defined
  entry; otherwise `np.interp(x[invalid], x[valid], y[valid])` — the DEFINED entries are kept, every undefined one gets
  `slope·(x − x_j) + y_j` between the neighbouring defined entries `j, j+1`, the first / last defined value outside
  (`npInterp`, `interpolateCol`).  A naive index on a zone-aware grid (or the reverse) makes the union an object index and
  `interpolate` raises "time-weighted interpolation only works … with a DatetimeIndex" — unless the frame is empty (no
  column or no row after the union), where `interpolate` returns at once.
* `.loc[timepoints]`: the row of every grid point (`locRow`).

Outside the model (documented, not generated): an index that has a repeated instant AND is sorted AND contains every grid
instant (then the union equals the index, `reindex` does nothing and `.loc` returns the repeated rows — the model answers
`duplicate`); columns that are not numeric; infinite values.
-/
namespace EAO

inductive PricesError
  | length      -- ValueError: Length mismatch (numeric index whose length is not the number of grid points)
  | duplicate   -- ValueError: cannot reindex on an axis with duplicate labels
  | tz          -- ValueError: time-weighted interpolation only works … with a DatetimeIndex (naive against zone-aware)
  deriving Repr, DecidableEq, Inhabited

def PricesError.toString : PricesError → String
  | .length => "length" | .duplicate => "duplicate" | .tz => "tz"

inductive PriceIndex
  | numeric (n : Nat)
  | instants (aware : Bool) (ts : List Int)
  deriving Repr, DecidableEq, Inhabited

/-- a price frame: the index and the named columns (every column as long as the index) -/
structure PriceFrame where
  index : PriceIndex
  cols  : List (String × List (Option Rat))
  deriving Repr, DecidableEq, Inhabited

/-- one row of one column: instant and value (`none` = NaN) -/
abbrev PRow := Int × Option Rat

/-- the defined entries of a column (`x[valid]`, `y[valid]`) -/
def definedRows (rows : List PRow) : List (Int × Rat) :=
  rows.filterMap fun r => r.2.map fun v => (r.1, v)

/-- `np.interp(x, xp, fp)` for increasing `xp`: `fp[0]` up to `xp[0]`, `fp[-1]` from `xp[-1]` on,
    `slope·(x − xp[j]) + fp[j]` with `slope = (fp[j+1] − fp[j]) / (xp[j+1] − xp[j])` for `xp[j] ≤ x < xp[j+1]`;
    `none` only for an empty `xp` (pandas does not call `np.interp` then: the column stays as it is) -/
def npInterp : List (Int × Rat) → Int → Option Rat
  | [], _ => none
  | [q], _ => some q.2
  | q :: r :: rest, x =>
    if x ≤ q.1 then some q.2
    else if x < r.1 then some ((r.2 - q.2) / ((r.1 - q.1 : Int) : Rat) * ((x - q.1 : Int) : Rat) + q.2)
    else npInterp (r :: rest) x

/-- one row after the interpolation: a defined entry stays, an undefined one is interpolated from the defined rows `valid` -/
def fillRow (valid : List (Int × Rat)) (r : PRow) : PRow :=
  match r.2 with
  | some _ => r
  | none => (r.1, npInterp valid r.1)

/-- `interpolate(method='time', limit_direction='both')` on one column: defined entries stay, the others are interpolated
    in time from the defined ones -/
def interpolateCol (col : List PRow) : List PRow :=
  col.map (fillRow (definedRows col))

/-- one grid point joins a sorted column: nothing to do if its instant is there, else a NaN row at its place -/
def insertPt (p : Int) : List PRow → List PRow
  | [] => [(p, none)]
  | r :: rs => if p < r.1 then (p, none) :: r :: rs else if p = r.1 then r :: rs else r :: insertPt p rs

/-- `reindex(index.union(timepoints))` for a sorted column -/
def mergeRows (rows : List PRow) (pts : List Int) : List PRow :=
  pts.foldl (fun acc p => insertPt p acc) rows

/-- insertion into a column sorted by instant (behind the rows that are not later) -/
def insertRow (r : PRow) : List PRow → List PRow
  | [] => [r]
  | s :: ss => if r.1 < s.1 then r :: s :: ss else s :: insertRow r ss

/-- the rows in the order of their instants (the union of the two indexes is sorted) -/
def sortRows : List PRow → List PRow
  | [] => []
  | r :: rs => insertRow r (sortRows rs)

/-- `.loc[p]` on a column with unique instants -/
def locRow (col : List PRow) (p : Int) : Option Rat :=
  match col.find? (fun r => r.1 == p) with
  | some r => r.2
  | none => none

/-- one column, rows sorted by instant, brought to the grid: union, interpolation, selection -/
def gridColumn (pts : List Int) (rows : List PRow) : List (Option Rat) :=
  pts.map (locRow (interpolateCol (mergeRows rows pts)))

/-- `Timegrid.prices_to_grid`: `pts` are the grid's time points, `gridAware` says whether they carry a zone -/
def pricesToGrid (pts : List Int) (gridAware : Bool) (f : PriceFrame) :
    Except PricesError (List (String × List (Option Rat))) :=
  match f.index with
  | .numeric n =>
    if !f.cols.isEmpty && n != pts.length then .error .length
    else .ok (f.cols.map fun c => (c.1, gridColumn pts (pts.zip c.2)))
  | .instants aware ts =>
    if !pts.isEmpty && !decide ts.Nodup then .error .duplicate
    else if aware != gridAware && !f.cols.isEmpty && !(pts.isEmpty && ts.isEmpty) then .error .tz
    else .ok (f.cols.map fun c => (c.1, gridColumn pts (sortRows (ts.zip c.2))))

end EAO
