/-!
# EAO.Model.Basic — data model of an EAO optimisation problem

Import-free (core Lean only).  Numbers are exact rationals (`Rat`); an assignment of the
variables is a total function `Nat → Rat` (arrays are read with default 0), rows are sparse.

Mirrors `eaopack.optimization.OptimProblem`: cost `c`, bounds `l`, `u`, restriction rows
`A x (<=,>=,=,=) b` with type letter `U`/`L`/`S`/`N`, the `mapping` table (one or several rows
per variable) and `map_nodal_restr` (one `(step, node)` entry per `N` row).
-/

namespace EAO

abbrev Vec := Nat → Rat

inductive RowKind | U | L | S | N
  deriving DecidableEq, Repr, Inhabited

structure Row where
  coeffs : List (Nat × Rat)
  rhs    : Rat
  kind   : RowKind
  deriving Repr, Inhabited

/-- value of the left-hand side: a variable mentioned several times contributes several times -/
def Row.eval (r : Row) (x : Vec) : Rat := (r.coeffs.map fun p => p.2 * x p.1).sum

def Row.Sat (r : Row) (x : Vec) : Prop :=
  match r.kind with
  | .U => r.eval x ≤ r.rhs
  | .L => r.rhs ≤ r.eval x
  | .S => r.eval x = r.rhs
  | .N => r.eval x = r.rhs

instance (r : Row) (x : Vec) : Decidable (r.Sat x) := by
  unfold Row.Sat; cases r.kind <;> exact inferInstance

/-- renaming of variable indices (embedding an asset block, merging columns, permuting variables) -/
def Row.rename (g : Nat → Nat) (r : Row) : Row :=
  { r with coeffs := r.coeffs.map fun p => (g p.1, p.2) }

/-- `type` column of the mapping: 'd' dispatch, 'i' internal, anything else is "special" (e.g. 'size') -/
inductive VarKind | d | i | other (s : String)
  deriving DecidableEq, Repr, Inhabited

structure MapRow where
  var     : Nat            -- index of the variable (position in c, l, u and the columns of A)
  asset   : String
  node    : Option String  -- NaN in pandas = none
  kind    : VarKind
  step    : Nat            -- `time_step`
  factor  : Rat            -- `disp_factor` (missing = 1)
  isBool  : Bool           -- `bool` (missing = false)
  varName : String         -- `var_name`
  deriving Repr, Inhabited, DecidableEq

/-- what `asset.setup_optim_problem` returns, with local variable indices -/
structure AssetProblem where
  name    : String
  nodes   : List String
  c       : List Rat
  l       : List Rat
  u       : List Rat
  rows    : List Row
  mapping : List MapRow
  deriving Repr, Inhabited

def AssetProblem.n (a : AssetProblem) : Nat := a.c.length

structure Problem where
  c       : List Rat
  l       : List Rat
  u       : List Rat
  rows    : List Row
  mapping : List MapRow
  nodal   : List (Nat × String)   -- `map_nodal_restr`: (step, node) of the k-th N row
  deriving Repr, Inhabited

def Problem.n (P : Problem) : Nat := P.c.length

/-- variables flagged boolean: those whose *first* mapping row carries the flag
    (`map.loc[(~map.index.duplicated(keep='first')) & map['bool']]` in `OptimProblem.optimize`) -/
def firstRows : List MapRow → List Nat → List MapRow
  | [], _ => []
  | m :: ms, seen => if seen.contains m.var then firstRows ms seen else m :: firstRows ms (m.var :: seen)

def Problem.boolVars (P : Problem) : List Nat :=
  ((firstRows P.mapping []).filter (·.isBool)).map (·.var)

def InBounds (l u : List Rat) (x : Vec) : Prop :=
  ∀ j, j < l.length → l.getD j 0 ≤ x j ∧ x j ≤ u.getD j 0

/-- feasibility without integrality -/
def Problem.FeasibleRelaxed (P : Problem) (x : Vec) : Prop :=
  InBounds P.l P.u x ∧ ∀ r ∈ P.rows, r.Sat x

def Problem.Feasible (P : Problem) (x : Vec) : Prop :=
  P.FeasibleRelaxed x ∧ ∀ j ∈ P.boolVars, x j = 0 ∨ x j = 1

/-- `Σ_j c_j x_(off+j)` -/
def costAt : List Rat → Nat → Vec → Rat
  | [], _, _ => 0
  | cj :: cs, off, x => cj * x off + costAt cs (off + 1) x

/-- the objective EAO maximises: `-c·x` -/
def Problem.value (P : Problem) (x : Vec) : Rat := - costAt P.c 0 x

def AssetProblem.FeasibleRelaxed (a : AssetProblem) (x : Vec) : Prop :=
  InBounds a.l a.u x ∧ ∀ r ∈ a.rows, r.Sat x

end EAO
