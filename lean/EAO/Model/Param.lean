import EAO.Model.Basic
import EAO.Model.Grid
/-!
# EAO.Model.Param — model of `Asset.make_vector` and of price look-up

A parameter is given as scalar, array (must already have the restricted length), key into the price
data (sampled at the asset's grid indices `I`; for a coarse asset grid that is the FIRST fine index of
each coarse step), or interval data evaluated on the restricted points (gaps filled with the default
only where the caller passes one; otherwise a gap is NaN and the problem is rejected).
-/
namespace EAO

inductive BuildError
  | nanInput        -- NaN in c, l, u or b  (assertions of `OptimProblem.__init__`)
  | overlap         -- overlapping intervals (ValueError of values_to_grid)
  | missingPrice    -- key not in price data
  | lengthMismatch  -- price / array of wrong length
  | illPosed        -- min_cap > max_cap and similar ValueErrors
  | notImplemented
  | assertion       -- other assertion of the implementation
  | index           -- IndexError / KeyError of the implementation
  deriving Repr, DecidableEq, Inhabited

def BuildError.toString : BuildError → String
  | .nanInput => "nan" | .overlap => "overlap" | .missingPrice => "missing-price"
  | .lengthMismatch => "length" | .illPosed => "ill-posed" | .notImplemented => "not-implemented"
  | .assertion => "assert" | .index => "index"

inductive ParamValue
  | scalar (v : Rat)
  | array (vs : List Rat)
  | key (k : String)
  | intervals (ivs : List Interval)
  deriving Repr, Inhabited

abbrev Prices := List (String × List Rat)

def Prices.lookup (p : Prices) (k : String) : Option (List Rat) := (List.find? (fun e => e.1 == k) p).map (·.2)

/-- `make_vector(value, prices, default_value, convert)` on restricted grid `g`; `none` entries are NaN -/
def makeVector (v : ParamValue) (g : Grid) (prices : Prices) (dflt : Option Rat) (convert : Bool) :
    Except BuildError (List (Option Rat)) := do
  let base : List (Option Rat) ← match v with
    | .scalar s => pure (g.pts.map fun _ => some s)
    | .array vs => if vs.length = g.T then pure (vs.map some) else throw .lengthMismatch
    | .key k => match prices.lookup k with
      | none => throw .assertion
      | some arr => pure (g.idx.map fun i => if i < arr.length then some (arr.getD i 0) else none)
    | .intervals ivs => match valuesToGrid g.pts ivs with
      | .error _ => throw .overlap
      | .ok r => pure (match dflt with
        | some d => r.map fun o => some (o.getD d)
        | none => r)
  if convert then pure ((base.zip g.dt).map fun p => p.1.map (· * p.2)) else pure base

/-- all entries defined, else the problem is rejected as NaN input -/
def allSome (xs : List (Option Rat)) : Except BuildError (List Rat) :=
  xs.mapM fun o => match o with | some v => pure v | none => throw .nanInput

end EAO
