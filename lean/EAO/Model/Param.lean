import EAO.Model.Basic
import EAO.Model.Grid
/-!
# EAO.Model.Param — model of `Asset.make_vector` and of price look-up

A parameter is given as scalar, array (of the restricted length, or of length one: numpy broadcasting), key into
the price data (sampled at the asset's grid indices `I`; for a coarse asset grid that is the FIRST fine index of
each coarse step; an index beyond the array is an IndexError), or interval data evaluated on the restricted points
(gaps filled with the default only where the caller passes one; otherwise a gap is NaN and the problem is rejected).
-/
namespace EAO

inductive BuildError
  | nanInput        -- NaN in c, l, u or b  (assertions of `OptimProblem.__init__`)
  | overlap         -- overlapping intervals (ValueError of values_to_grid)
  | missingPrice    -- key not in price data
  | lengthMismatch  -- price / array of wrong length
  | illPosed        -- min_cap > max_cap and similar ValueErrors
  | notImplemented
  | assertion       -- other assertion of the implementation
  | index           -- IndexError / KeyError of the implementation
  deriving Repr, DecidableEq, Inhabited

def BuildError.toString : BuildError → String
  | .nanInput => "nan" | .overlap => "overlap" | .missingPrice => "missing-price"
  | .lengthMismatch => "length" | .illPosed => "ill-posed" | .notImplemented => "not-implemented"
  | .assertion => "assert" | .index => "index"

inductive ParamValue
  | scalar (v : Rat)
  | array (vs : List Rat)
  | key (k : String)
  | intervals (ivs : List Interval)
  deriving Repr, Inhabited

abbrev Prices := List (String × List Rat)

def Prices.lookup (p : Prices) (k : String) : Option (List Rat) := (List.find? (fun e => e.1 == k) p).map (·.2)

/-- `arr[I]` (numpy fancy indexing with non-negative indices): an index beyond the array is an IndexError -/
def sample (arr : List Rat) (is : List Nat) : Except BuildError (List Rat) :=
  if is.all (fun i => decide (i < arr.length)) then pure (is.map fun i => arr.getD i 0) else throw .index

/-- `value * np.ones(T)` for an ndarray `value`: equal length passes, a one-element array is broadcast, every
    other length is numpy's broadcast ValueError.  (NOT modelled: for `T = 1` numpy broadcasts the other way
    round and silently returns a vector of the array's length.) -/
def broadcastArray (vs : List Rat) (T : Nat) : Except BuildError (List Rat) :=
  if vs.length = T then pure vs
  else match vs with
    | [v] => pure (List.replicate T v)
    | _ => throw .lengthMismatch

/-- `make_vector(value, prices, default_value, convert)` on restricted grid `g`; `none` entries are NaN.
    scalar: constant; array: see `broadcastArray`; key: must be in the price data (assertion), sampled at the
    grid's indices `I` (IndexError when too short); interval data: `values_to_grid` on the restricted points,
    gaps filled with the default only where one is passed (`baseVector`).  `convert` multiplies by `dt`. -/
def baseVector (v : ParamValue) (g : Grid) (prices : Prices) (dflt : Option Rat) :
    Except BuildError (List (Option Rat)) :=
  match v with
  | .scalar s => pure (g.pts.map fun _ => some s)
  | .array vs => (broadcastArray vs g.T).map (·.map some)
  | .key k => match prices.lookup k with
    | none => throw .assertion
    | some arr => (sample arr g.idx).map (·.map some)
  | .intervals ivs => match valuesToGrid g.pts ivs with
    | .error _ => throw .overlap
    | .ok r => pure (match dflt with
      | some d => r.map fun o => some (o.getD d)
      | none => r)

/-- `vec * restricted.dt` (NaN stays NaN) -/
def timesDt (base : List (Option Rat)) (g : Grid) : List (Option Rat) :=
  (base.zip g.dt).map fun p => p.1.map (· * p.2)

def makeVector (v : ParamValue) (g : Grid) (prices : Prices) (dflt : Option Rat) (convert : Bool) :
    Except BuildError (List (Option Rat)) := do
  let base ← baseVector v g prices dflt
  if convert then pure (timesDt base g) else pure base

/-- all entries defined, else the problem is rejected as NaN input -/
def allSome (xs : List (Option Rat)) : Except BuildError (List Rat) :=
  if xs.all Option.isSome then pure (xs.map fun o => o.getD 0) else throw .nanInput

end EAO
