import EAO.Model.Basic
import EAO.Model.Assemble
import EAO.Model.Grid
import EAO.Model.Param
import EAO.Model.Contract
/-!
# EAO.Model.SplitBuild — `Portfolio.setup_split_optim_problem` for portfolios of contracts and transports

`setup_split_optim_problem` (portfolio.py 230-310) cuts the horizon at the instants `interval_timepoints`
(`cuts`, computed by pandas: `date_range(start, end, freq = interval_size)` plus the end, plus the start when the
range does not begin there) and sets the portfolio up once per pair of consecutive cuts on an INTERVAL GRID:

* `Timegrid(start_tmp, end_tmp, freq, ref_timegrid = timegrid)` — the points of the reference grid in
  `[start_tmp, end_tmp)` with their `dt`, cumulative time `Dt` and discount factors (`Grid.restrict`), then
  `timegrid_tmp.I = range(T)`: the step indices are RE-BASED, everything else is kept (`Grid.interval`);
  `tmp_I`, the original steps, is kept aside (`intervalSteps`);
* the price data (a DataFrame on the full grid after `timegrid.prices_to_grid`) is restricted to the interval's
  points (`intervalPrices`);
* an interval without steps, and an interval in which no asset has a variable, is skipped;
* every asset sets the interval grid as its grid: its own restricted grid is the interval grid restricted to the
  asset's window (`Asset.set_timegrid`), its discount factors are computed from the KEPT cumulative time, i.e.
  they are the asset's discount factors on the full grid at the steps of the interval;
* the nodal record of the interval problem is re-labelled with the original steps.

The builders covered are those of `EAO.Model.Contract` (`freq = None`, no periodicity).  `AssetSpec` carries what
the portfolio needs to know about an asset besides the builder's parameters: its window (`start`/`end`; a missing
bound is sent as an instant before / after every grid point) and its discount factors on the full grid (the asset's
own `wacc`; an input, as everywhere).

Everything else in this file is what the theorems of `EAO.Properties.C14Builders` are stated with: the sub-problem
of an asset problem on the variables of a set of steps (`AssetProblem.restrictTo`), the asset grid of an interval
written with the original steps (`Grid.pick`), and the explicit matching of the variables (`splitPerm`).
-/
namespace EAO

/-! ### the interval grid -/

/-- `Timegrid(a, b, freq, ref_timegrid = ref)` followed by `timegrid_tmp.I = np.array(range(0, T))`: points,
    `dt`, `Dt`, discount factors of the reference steps in `[a, b)`; step indices re-based to `0 .. T-1` -/
def Grid.interval (ref : Grid) (a b : Int) : Grid :=
  let r := ref.restrict a b
  { r with idx := List.range r.T }

/-- `tmp_I`: the original step indices of the interval -/
def intervalSteps (ref : Grid) (ab : Int × Int) : List Nat := sel (ref.mask ab.1 ab.2) ref.idx

/-- `timegrid_tmp.prices_to_grid(prices)` for price data already on the full grid: the rows of the interval's points -/
def intervalPrices (ref : Grid) (ab : Int × Int) (prices : Prices) : Prices :=
  prices.map fun kv => (kv.1, sel (ref.mask ab.1 ab.2) kv.2)

/-- consecutive pairs of the cut instants -/
def splitPairs : List Int → List (Int × Int)
  | a :: b :: rest => (a, b) :: splitPairs (b :: rest)
  | _ => []

/-! ### portfolios of contracts and transports -/

inductive BuilderSpec
  | simple (p : ContractP)
  | contract (p : ContractP)
  | multi (p : ContractP) (factors : List Rat)
  | transport (p : TransportP)
  | extTransport (p : TransportP)
  deriving Repr, Inhabited

structure AssetSpec where
  spec  : BuilderSpec
  start : Int            -- window `[start, stop)` of the asset
  stop  : Int
  df    : List Rat       -- the asset's discount factors on the grid it is set up on (one per step)
  deriving Repr, Inhabited

/-- `asset.setup_optim_problem(prices, timegrid)`: the grid gets the asset's discount factors (`set_wacc`), the
    asset's restricted grid is the grid restricted to the asset's window -/
def buildSpec (a : AssetSpec) (grid : Grid) (prices : Prices) (unitSec : Nat) : Except BuildError AssetProblem :=
  let g := ({ grid with df := a.df } : Grid).restrict a.start a.stop
  match a.spec with
  | .simple p => buildSimpleContract p g prices grid.T
  | .contract p => buildContract p g prices grid.T unitSec
  | .multi p f => buildMulti p f g prices grid.T unitSec
  | .transport p => buildTransport p g prices grid.T
  | .extTransport p => buildExtTransport p g prices grid.T unitSec

/-- the asset problems in portfolio order; the first failing builder decides the error -/
def buildAll (specs : List AssetSpec) (grid : Grid) (prices : Prices) (unitSec : Nat) :
    Except BuildError (List AssetProblem) :=
  specs.mapM fun a => buildSpec a grid prices unitSec

/-- `Portfolio.setup_optim_problem(prices, timegrid)` without a fixed window -/
def setupPortfolio (specs : List AssetSpec) (grid : Grid) (prices : Prices) (unitSec : Nat) (skip : List String) :
    Except BuildError Problem := do
  let as ← buildAll specs grid prices unitSec
  pure (assemble as grid.idx skip)

/-- `op_tmp.map_nodal_restr` re-labelled with the original steps: `(tmp_I[t], node)` -/
def relabelNodal (I : List Nat) (P : Problem) : Problem :=
  { P with nodal := P.nodal.map fun p => (I.getD p.1 0, p.2) }

/-- the asset as it is seen in the interval: its discount factors at the interval's steps -/
def AssetSpec.onInterval (a : AssetSpec) (ref : Grid) (ab : Int × Int) : AssetSpec :=
  { a with df := sel (ref.mask ab.1 ab.2) a.df }

/-- one pass of the loop: `none` = the interval is skipped (no step, or no variable) -/
def setupInterval (specs : List AssetSpec) (ref : Grid) (prices : Prices) (unitSec : Nat) (skip : List String)
    (ab : Int × Int) : Except BuildError (Option Problem) :=
  let J := ref.interval ab.1 ab.2
  if J.T = 0 then pure none else do
    let P ← setupPortfolio (specs.map fun a => a.onInterval ref ab) J (intervalPrices ref ab prices) unitSec skip
    if P.n = 0 then pure none else pure (some (relabelNodal (intervalSteps ref ab) P))

/-- `Portfolio.setup_split_optim_problem`: the interval problems `SplitOptimProblem.ops`.  The price data must be
    arrays on the full grid (`timegrid.prices_to_grid(prices)` raises a ValueError otherwise). -/
def setupSplit (specs : List AssetSpec) (ref : Grid) (cuts : List Int) (prices : Prices) (unitSec : Nat)
    (skip : List String) : Except BuildError (List Problem) := do
  if prices.any (fun kv => kv.2.length != ref.T) then throw .lengthMismatch
  let ps ← (splitPairs cuts).mapM (setupInterval specs ref prices unitSec skip)
  -- every interval skipped: `pd.concat(mappings)` of an empty list is a ValueError
  if (ps.filterMap id).isEmpty then throw .illPosed
  pure (ps.filterMap id)

/-! ### the sub-problem on the variables of a set of steps -/

/-- does variable `v` have a mapping row at a step of `I`? -/
def varAtSteps (M : List MapRow) (I : List Nat) (v : Nat) : Bool :=
  M.any fun m => m.var == v && I.contains m.step

/-- the variables of an asset problem that sit at the steps `I`, in the asset's order -/
def AssetProblem.keep (a : AssetProblem) (I : List Nat) : List Nat :=
  (List.range a.n).filter (varAtSteps a.mapping I)

/-- **the sub-problem of `a` on the variables at the steps `I`**: cost and bounds of those variables, the rows all
    of whose variables are among them, the mapping rows at those steps; variables renumbered in their order
    (`vs.idxOf`), steps renumbered by their position in `I` (the re-based step index of the interval grid) -/
def AssetProblem.restrictTo (a : AssetProblem) (I : List Nat) : AssetProblem :=
  let vs := a.keep I
  { name := a.name, nodes := a.nodes,
    c := vs.map fun v => a.c.getD v 0,
    l := vs.map fun v => a.l.getD v 0,
    u := vs.map fun v => a.u.getD v 0,
    rows := (a.rows.filter fun r => r.coeffs.all fun q => vs.contains q.1).map (Row.rename fun v => vs.idxOf v),
    mapping := (a.mapping.filter fun m => I.contains m.step).map fun m =>
      { m with var := vs.idxOf m.var, step := I.idxOf m.step } }

/-- the variables of a problem that sit at the steps `I`, in the problem's order -/
def Problem.keep (P : Problem) (I : List Nat) : List Nat :=
  (List.range P.n).filter (varAtSteps P.mapping I)

/-- **the matching of the variables**: variable `j` of the block sum of the interval problems is variable
    `perm[j]` of the unsplit problem `U` — interval after interval the variables of `U` at the interval's
    (original) steps, in the order they have in `U` -/
def splitPerm (U : Problem) (Is : List (List Nat)) : List Nat := Is.flatMap fun I => U.keep I

/-- the interval problem of asset problems `as` for the original steps `I`: every asset restricted to `I`,
    assembled on the re-based grid `0 .. |I|-1`, nodal record re-labelled -/
def intervalProblem (as : List AssetProblem) (skip : List String) (I : List Nat) : Problem :=
  relabelNodal I (assemble (as.map fun a => a.restrictTo I) (List.range I.length) skip)

/-! ### the asset's grid in an interval, written with the original steps -/

/-- which positions of the asset grid `g` belong to the steps `I` -/
def Grid.pickMask (g : Grid) (I : List Nat) : List Bool := g.idx.map fun t => I.contains t

/-- the steps of `g` that belong to `I`, with the step index re-based to the position in `I` -/
def Grid.pick (g : Grid) (I : List Nat) : Grid :=
  let m := g.pickMask I
  { pts := sel m g.pts, idx := (sel m g.idx).map fun t => I.idxOf t, dt := sel m g.dt, Dt := sel m g.Dt,
    df := sel m g.df }

/-- price arrays at the steps `I` -/
def pickPrices (I : List Nat) (prices : Prices) : Prices :=
  prices.map fun kv => (kv.1, I.map fun t => kv.2.getD t 0)

/-! ### what has to be the same in an interval: the data-dependent form of a contract -/

/-- the decisions `SimpleContract.setup_optim_problem` takes from the data on its grid: one variable per step or
    two, a non-zero spread somewhere, can only buy, can only sell (`none`: the set-up fails before) -/
def contractFlags (p : ContractP) (g : Grid) (prices : Prices) : Option (Bool × Bool × Bool × Bool) :=
  match contractVectors p g prices with
  | .ok (minO, maxO, ecO) =>
    match allSome ecO, allSome minO, allSome maxO with
    | .ok ec, .ok minC, .ok maxC =>
      some (oneVariable ec minC maxC, ec.any (fun e => e != 0), maxC.all (fun v => decide (v ≤ 0)),
            minC.all (fun v => decide (0 ≤ v)))
    | _, _, _ => none
  | .error _ => none

/-- the contract takes the same decisions on `gJ` as on `g`: the same number of variables per step, and — where the
    grid `gJ` sees a non-zero spread at all — the same sign conditions -/
def sameForm (p : ContractP) (g gJ : Grid) (prices pricesJ : Prices) : Bool :=
  match contractFlags p g prices, contractFlags p gJ pricesJ with
  | some f, some fJ => (fJ.1 == f.1) && (!fJ.2.1 || ((fJ.2.2.1 == f.2.2.1) && (fJ.2.2.2 == f.2.2.2)))
  | _, _ => true

/-- a parameter that does not depend on the LENGTH of the asset's grid: no array, except one of length one
    (an array is multiplied with `np.ones(T)` and fits one grid length only) -/
def ParamValue.gridFree : ParamValue → Bool
  | .array vs => vs.length == 1
  | _ => true

def ContractP.gridFree (p : ContractP) : Bool :=
  p.extraCosts.gridFree && p.minCap.gridFree && p.maxCap.gridFree

/-! ### the decidable hypotheses of `EAO.C14B.split_witness_builders` -/

/-- no step lies in two of the step lists -/
def pairwiseDisjoint : List (List Nat) → Bool
  | [] => true
  | I :: rest => rest.all (fun J => I.all fun t => !J.contains t) && pairwiseDisjoint rest

/-- the step lists cut `0 .. T-1` into pieces: every step in one list, no step in two -/
def isPartition (Is : List (List Nat)) (T : Nat) : Bool :=
  (List.range T).all (fun t => Is.any fun I => I.contains t) && pairwiseDisjoint Is

/-- a take period does not reach across a cut: the steps of the asset grid `g` it covers lie all inside or all
    outside the steps `I` -/
def takeInside (g : Grid) (I : List Nat) (tk : Take) : Bool :=
  let cov := (coveredPos g tk.1 tk.2.1).map fun i => g.idx.getD i 0
  cov.all (fun t => I.contains t) || cov.all (fun t => !I.contains t)

/-- what the builder of one asset needs in one interval (original steps `I`; `g` the asset's grid on the full
    horizon, `prices` the full price data) -/
def specStable (a : AssetSpec) (g : Grid) (I : List Nat) (prices : Prices) : Bool :=
  let contractOK (p : ContractP) (takes : Bool) : Bool :=
    p.gridFree && ((g.pick I).T == 0 || sameForm p g (g.pick I) prices (pickPrices I prices)) &&
    (if takes then (p.minTake ++ p.maxTake).all (takeInside g I) else true)
  match a.spec with
  | .simple p => contractOK p false
  | .contract p => contractOK p true
  | .multi p _ => contractOK p true
  | .transport _ => g.dt.all fun d => decide (0 < d)
  | .extTransport p => (g.dt.all fun d => decide (0 < d)) && (p.minTake ++ p.maxTake).all (takeInside g I)

/-- **the hypotheses**: the reference grid is a top-level grid (`I = 0 .. T-1`, one `dt` per step), every asset has one
    discount factor per step, the price arrays are on the grid, the cuts divide the steps into pieces, and every
    asset is stable in every piece (`specStable`) -/
def splitHyps (specs : List AssetSpec) (ref : Grid) (cuts : List Int) (prices : Prices) : Bool :=
  let Is := (splitPairs cuts).map (intervalSteps ref)
  decide (ref.idx = List.range ref.T) && decide (ref.dt.length = ref.T) && decide (ref.Dt.length = ref.T) &&
  specs.all (fun a => decide (a.df.length = ref.T)) &&
  prices.all (fun kv => decide (kv.2.length = ref.T)) &&
  isPartition Is ref.T &&
  specs.all fun a => Is.all fun I =>
    specStable a (({ ref with df := a.df } : Grid).restrict a.start a.stop) I prices

end EAO

namespace EAO

/-! ### the hypotheses of the general theorem `EAO.C14B.split_witness_of_banded` -/

/-- an asset problem whose variables each belong to ONE step of the grid `0 .. T-1` (all mapping rows of a variable
    sit at the same step, every variable has a mapping row), without boolean variables, with bounds for every
    variable and rows over its own variables -/
structure Banded (a : AssetProblem) (T : Nat) : Prop where
  l_len     : a.l.length = a.n
  u_len     : a.u.length = a.n
  map_var   : ∀ m ∈ a.mapping, m.var < a.n
  map_step  : ∀ m ∈ a.mapping, m.step < T
  no_bool   : ∀ m ∈ a.mapping, m.isBool = false
  same_step : ∀ m ∈ a.mapping, ∀ m' ∈ a.mapping, m.var = m'.var → m.step = m'.step
  covered   : ∀ v, v < a.n → ∃ m ∈ a.mapping, m.var = v
  rows_ok   : ∀ r ∈ a.rows, r.coeffs ≠ [] ∧ ∀ q ∈ r.coeffs, q.1 < a.n

/-- no row of the asset reaches across a cut: the variables of every row sit at steps of one of the lists -/
def RowsInside (a : AssetProblem) (Is : List (List Nat)) : Prop :=
  ∀ r ∈ a.rows, ∃ I ∈ Is, ∀ q ∈ r.coeffs, q.1 ∈ a.keep I

end EAO
