import EAO.Model.Basic
import EAO.Model.Assemble
/-!
# EAO.Model.Readout — model of `Asset.dcf`, `io.extract_output` (dispatch, DCF, nodal prices,
special table)
-/
namespace EAO

def MapRow.contrib (m : MapRow) (x : Vec) : Rat := x m.var * m.factor

/-- dispatch of asset `a` at node `n`, step `t`: `disp.loc[t, col] += x[i] * r.disp_factor` over all
    mapping rows of that asset/node/type 'd' -/
def dispatchOut (M : List MapRow) (a : String) (n : String) (t : Nat) (x : Vec) : Rat :=
  ((M.filter fun m => m.asset == a && isDisp n t m).map (·.contrib x)).sum

/-- mapping rows of asset `a`, first row per variable (`~index.duplicated(keep='first')`) -/
def assetFirstRows (M : List MapRow) (a : String) : List MapRow :=
  firstRows (M.filter fun m => m.asset == a) []

/-- `Asset.dcf`: `dcf[r.time_step] += -c[i]*x[i]` over the first mapping row of each variable of the asset -/
def dcf (c : List Rat) (M : List MapRow) (a : String) (t : Nat) (x : Vec) : Rat :=
  (((assetFirstRows M a).filter fun m => m.step == t).map fun m => - (c.getD m.var 0) * x m.var).sum

/-- total over the steps `0 … T-1` -/
def dcfTotal (c : List Rat) (M : List MapRow) (a : String) (T : Nat) (x : Vec) : Rat :=
  ((List.range T).map fun t => dcf c M a t x).sum

/-- nodal prices: `duals.loc[t, 'nodal price: '+n] = -dual_N[k]` for the k-th entry of `map_nodal_restr` -/
def nodalPrices (nodal : List (Nat × String)) (dualN : List Rat) : List ((Nat × String) × Rat) :=
  nodal.zipIdx.map fun (p, k) => (p, - dualN.getD k 0)

/-- rows of the `special` table for variables whose type is neither 'd' nor 'i' -/
structure SpecialRow where
  asset : String
  kind  : String
  name  : String
  value : Rat
  costs : Rat
  deriving Repr, DecidableEq

def specialRows (c : List Rat) (M : List MapRow) (a : String) (x : Vec) : List SpecialRow :=
  (M.filter fun m => m.asset == a && (match m.kind with | .other _ => true | _ => false)).map fun m =>
    { asset := m.asset, kind := (match m.kind with | .other s => s | .d => "d" | .i => "i"),
      name := m.varName, value := x m.var, costs := x m.var * c.getD m.var 0 }

/-- order rows of the `special` table (order books): first row per variable of the asset -/
def orderRows (c : List Rat) (M : List MapRow) (a : String) (x : Vec) : List SpecialRow :=
  (assetFirstRows M a).map fun m =>
    { asset := m.asset, kind := (match m.kind with | .other s => s | .d => "d" | .i => "i"),
      name := m.varName, value := x m.var, costs := x m.var * c.getD m.var 0 }

end EAO
