import EAO.Model.SplitBuild
import EAO.Model.Storage
import EAO.Model.Split
/-!
# EAO.Model.SplitStorage — `Portfolio.setup_split_optim_problem` for portfolios WITH storages

`EAO.Model.SplitBuild` models the split set-up for contracts and transports.  This file adds the `Storage` builder
(`EAO.Model.Storage`, `freq = None`, no periodicity) to the portfolio: `SpecS` is a builder asset or a storage with
its window and its discount factors on the grid it is set up on; `buildSpecS`, `setupPortfolioS`, `setupIntervalS`,
`setupSplitS` are the literal counterparts of `buildSpec` … `setupSplit` (same loop, same skipping, same errors).

A storage couples the intervals through its level.  In an interval the real code builds the storage afresh on the
interval grid: the level rows start at `start_level` again and the last row of the interval pins `end_level`.
What the split optimisation solves is therefore the unsplit problem of a portfolio in which every storage is
replaced by its **restart form** (`restartOf`): same variables, costs, bounds and mapping, but the level rows of
every interval (`storageOn` = the storage built on the asset grid picked at the interval's steps, `liftRows` = its
rows written with the unsplit variables) instead of the cumulative level rows.  `setupRestart` is that problem; the
theorems of `EAO.Properties.C14Storage` say that the split set-up IS `setupRestart` (witness of `EAO.C14` true), and
that with start level = end level in `[0, size]` every feasible point of `setupRestart` is feasible for the unsplit
problem.
-/
namespace EAO

/-! ### portfolios of contracts, transports and storages -/

inductive SpecS
  | builder (a : AssetSpec)
  | storage (p : StorageP) (start stop : Int) (df : List Rat)
  deriving Repr, Inhabited

def SpecS.df : SpecS → List Rat
  | .builder a => a.df
  | .storage _ _ _ df => df

def SpecS.start : SpecS → Int
  | .builder a => a.start
  | .storage _ s _ _ => s

def SpecS.stop : SpecS → Int
  | .builder a => a.stop
  | .storage _ _ e _ => e

/-- the asset's restricted grid when the portfolio is set up on `grid` -/
def SpecS.grid (a : SpecS) (grid : Grid) : Grid := ({ grid with df := a.df } : Grid).restrict a.start a.stop

/-- `asset.setup_optim_problem(prices, timegrid)` -/
def buildSpecS (a : SpecS) (grid : Grid) (prices : Prices) (unitSec : Nat) : Except BuildError AssetProblem :=
  match a with
  | .builder b => buildSpec b grid prices unitSec
  | .storage p s e df => buildStorage p (({ grid with df := df } : Grid).restrict s e) grid.T prices

def buildAllS (specs : List SpecS) (grid : Grid) (prices : Prices) (unitSec : Nat) :
    Except BuildError (List AssetProblem) :=
  specs.mapM fun a => buildSpecS a grid prices unitSec

/-- `Portfolio.setup_optim_problem(prices, timegrid)` without a fixed window -/
def setupPortfolioS (specs : List SpecS) (grid : Grid) (prices : Prices) (unitSec : Nat) (skip : List String) :
    Except BuildError Problem := do
  let as ← buildAllS specs grid prices unitSec
  pure (assemble as grid.idx skip)

/-- the asset as it is seen in the interval: its discount factors at the interval's steps -/
def SpecS.onInterval (a : SpecS) (ref : Grid) (ab : Int × Int) : SpecS :=
  match a with
  | .builder b => .builder (b.onInterval ref ab)
  | .storage p s e df => .storage p s e (sel (ref.mask ab.1 ab.2) df)

/-- one pass of the loop: `none` = the interval is skipped (no step, or no variable) -/
def setupIntervalS (specs : List SpecS) (ref : Grid) (prices : Prices) (unitSec : Nat) (skip : List String)
    (ab : Int × Int) : Except BuildError (Option Problem) :=
  let J := ref.interval ab.1 ab.2
  if J.T = 0 then pure none else do
    let P ← setupPortfolioS (specs.map fun a => a.onInterval ref ab) J (intervalPrices ref ab prices) unitSec skip
    if P.n = 0 then pure none else pure (some (relabelNodal (intervalSteps ref ab) P))

/-- `Portfolio.setup_split_optim_problem` for a portfolio with storages: the interval problems -/
def setupSplitS (specs : List SpecS) (ref : Grid) (cuts : List Int) (prices : Prices) (unitSec : Nat)
    (skip : List String) : Except BuildError (List Problem) := do
  if prices.any (fun kv => kv.2.length != ref.T) then throw .lengthMismatch
  let ps ← (splitPairs cuts).mapM (setupIntervalS specs ref prices unitSec skip)
  if (ps.filterMap id).isEmpty then throw .illPosed
  pure (ps.filterMap id)

/-! ### the restart form of a storage -/

/-- positions of the asset grid `g` whose step belongs to `I` -/
def Grid.posIn (g : Grid) (I : List Nat) : List Nat :=
  (List.range g.idx.length).filter fun i => I.contains (g.idx.getD i 0)

/-- the storage built in the interval with original steps `I`: on the asset grid picked at `I` (step indices
    re-based), with the picked price arrays (the empty problem if that set-up fails) -/
def storageOn (p : StorageP) (g : Grid) (prices : Prices) (I : List Nat) : AssetProblem :=
  match buildStorage p (g.pick I) I.length (pickPrices I prices) with
  | .ok B => B
  | .error _ => default

/-- the rows of an interval problem `B` of the asset `A` written with the variables of `A`: variable `j` of `B` is
    the `j`-th variable of `A` that sits at a step of `I` -/
def liftRows (A : AssetProblem) (I : List Nat) (B : AssetProblem) : List Row :=
  B.rows.map (Row.rename fun j => (A.keep I).getD j 0)

/-- `A` with its rows replaced by the rows of its interval problems `B I`, interval after interval -/
def AssetProblem.withIntervalRows (A : AssetProblem) (Is : List (List Nat)) (B : List Nat → AssetProblem) :
    AssetProblem :=
  { A with rows := Is.flatMap fun I => liftRows A I (B I) }

/-- level row "full" of a storage that starts with `start_level` at position `a` of its grid and pins `end_level`
    at position `a + m - 1`: row `i` of the piece `[a, a+m)`, on the variables of the unsplit storage -/
def Storage.restartUpper (p : StorageP) (g : Grid) (a m i : Nat) : Row :=
  { coeffs := Storage.levelCoeffs p g.T a (a + i),
    rhs := (if i + 1 = m then p.endLevel else p.size) - p.startLevel - Storage.blockInfl p g a (a + i), kind := .U }

/-- level row "empty" of the same piece -/
def Storage.restartLower (p : StorageP) (g : Grid) (a m i : Nat) : Row :=
  { coeffs := Storage.levelCoeffs p g.T a (a + i),
    rhs := (if i + 1 = m then p.endLevel else 0) - p.startLevel - Storage.blockInfl p g a (a + i), kind := .L }

/-- what the level rows sum: the level increment of step `j` caused by the dispatch `y` (`n` steps; two-variable form:
    charge variable `j`, discharge variable `n + j`) -/
def Storage.levelInc (p : StorageP) (n : Nat) (y : Vec) (j : Nat) : Rat :=
  if Storage.sep p then -1 * p.effIn * y j + -1 * y (n + j) else -1 * y j

/-- `cost_store * dt * discount` of step `i` -/
def Storage.storeRate (p : StorageP) (g : Grid) (i : Nat) : Rat := p.costStore * Storage.dtAt g i * Storage.dfAt g i

/-- storage costs per unit of level over all steps from position `k` on -/
def Storage.storeAfter (p : StorageP) (g : Grid) (k : Nat) : Rat :=
  sumTo (Storage.storeRate p g) g.T - sumTo (Storage.storeRate p g) k

/-- first position of the asset grid that belongs to the interval (0 if none), and the position after the last -/
def Grid.segStart (g : Grid) (I : List Nat) : Nat := (g.posIn I).head?.getD 0
def Grid.segEnd (g : Grid) (I : List Nat) : Nat := g.segStart I + (g.posIn I).length

/-- **restart form**: a contract / transport is left as it is; a storage keeps variables, costs, bounds and mapping
    and gets, for every interval, the level rows of the storage built in that interval (level restarting at
    `start_level`, `end_level` pinned at the interval's last step) -/
def restartOf (Is : List (List Nat)) (a : SpecS) (ref : Grid) (prices : Prices) (A : AssetProblem) : AssetProblem :=
  match a with
  | .builder _ => A
  | .storage p s e df => A.withIntervalRows Is (storageOn p (({ ref with df := df } : Grid).restrict s e) prices)

/-- the restart forms of the unsplit asset problems, in portfolio order -/
def restartAll (Is : List (List Nat)) (specs : List SpecS) (ref : Grid) (prices : Prices) (as : List AssetProblem) :
    List AssetProblem :=
  (specs.zip as).map fun sa => restartOf Is sa.1 ref prices sa.2

/-- **the problem a split optimisation solves**, written on the unsplit grid: the unsplit portfolio with every
    storage in restart form for the intervals of `cuts` -/
def setupRestart (specs : List SpecS) (ref : Grid) (cuts : List Int) (prices : Prices) (unitSec : Nat)
    (skip : List String) : Except BuildError Problem := do
  let as ← buildAllS specs ref prices unitSec
  pure (assemble (restartAll ((splitPairs cuts).map (intervalSteps ref)) specs ref prices as) ref.idx skip)

/-! ### the decidable hypotheses of `EAO.C14S` -/

/-- LP form of a storage: no booleans (no-simultaneous option not effective, no maximum holding duration) and no
    time blocks -/
def StorageP.lp (p : StorageP) : Bool :=
  !Storage.hasNS p && p.maxStoreDuration.isNone && p.blocks.isNone

/-- the intervals, in their order, cut the positions `0 .. n-1` of the asset grid into consecutive pieces -/
def tiles (g : Grid) (Is : List (List Nat)) : Bool :=
  decide ((Is.map g.posIn).flatten = List.range g.T)

/-- what the split set-up of a storage needs to BE the restart form: LP form, no storage costs (`cost_store` makes
    the interval cost vectors differ from the unsplit one, see `EAO.C14S.storage_split_value`), the intervals
    cutting the asset grid into consecutive pieces -/
def storageStable (p : StorageP) (g : Grid) (Is : List (List Nat)) : Bool :=
  p.lp && decide (p.costStore = 0) && tiles g Is

/-- the level condition of C14: start level = end level, inside the storage -/
def StorageP.levelOK (p : StorageP) : Bool :=
  decide (p.startLevel = p.endLevel) && decide (0 ≤ p.startLevel) && decide (p.startLevel ≤ p.size)

/-- **the hypotheses of `split_is_restart_builders`**: as `splitHyps`, contracts and transports stable in every
    interval, storages stable -/
def splitHypsS (specs : List SpecS) (ref : Grid) (cuts : List Int) (prices : Prices) : Bool :=
  let Is := (splitPairs cuts).map (intervalSteps ref)
  decide (ref.idx = List.range ref.T) && decide (ref.dt.length = ref.T) && decide (ref.Dt.length = ref.T) &&
  specs.all (fun a => decide (a.df.length = ref.T)) &&
  prices.all (fun kv => decide (kv.2.length = ref.T)) &&
  isPartition Is ref.T &&
  specs.all fun a =>
    match a with
    | .builder b => Is.all fun I => specStable b (a.grid ref) I prices
    | .storage p _ _ _ => storageStable p (a.grid ref) Is

/-- every storage of the portfolio has start level = end level in `[0, size]` -/
def levelHypsS (specs : List SpecS) : Bool :=
  specs.all fun a =>
    match a with
    | .builder _ => true
    | .storage p _ _ _ => p.levelOK

end EAO
