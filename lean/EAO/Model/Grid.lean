/-!
# EAO.Model.Grid — model of `Timegrid`, `set_restricted_grid`, `values_to_grid`, `prep_date_dict`
(`eaopack/basic_classes.py`).  Import-free core Lean.

Instants are `Int` seconds (UTC).  A grid keeps, per step: the instant of its start, the index with
respect to the reference grid (`I`), the step length `dt` and cumulative time `Dt` (END of the step)
in main time units, and a discount factor.  Discount factors `(1+wacc)^(-Dt·unit/365d)` are
irrational in general: they are an input (`φ`), supplied per step; `df = []` models a grid object
without the attribute `discount_factors` (`set_wacc` not called).

Tick frequencies (fixed number of seconds: 'h', '15min', naive or UTC 'd', …) are generated here;
for calendar frequencies the list of all points (as pandas' `date_range` returns it, including the
point after the last step) is an input.  Localisation of naive datetimes is done by pandas before
instants reach the model.

Numpy idioms are modelled literally: a boolean mask over the reference points (`Grid.mask`) and
selection by mask (`sel`, i.e. `arr[mask]`).
-/
namespace EAO

structure Grid where
  pts   : List Int        -- start instant of every step
  idx   : List Nat        -- `I`
  dt    : List Rat
  Dt    : List Rat
  df    : List Rat        -- discount factors (`[]`: attribute absent)
  deriving Repr, Inhabited, DecidableEq

def Grid.T (g : Grid) : Nat := g.pts.length

inductive GridError
  | overlap        -- ValueError('Overlapping time intervals')
  | index          -- IndexError (`ref.Dt[myI]` with a reference grid whose `I` is not `0..T-1`)
  | assertion      -- failed `assert`
  | length         -- ValueError: length mismatch of an already gridded array
  deriving Repr, DecidableEq, Inhabited

def GridError.toString : GridError → String
  | .overlap => "overlap" | .index => "index"
  | .assertion => "assert" | .length => "length"

/-- `pd.date_range(start, end, freq)` for a tick frequency: `start, start+step, … ≤ stop` -/
def tickRange (start stop : Int) (step : Nat) : List Int :=
  if step = 0 ∨ stop < start then [] else
  (List.range (((stop - start) / (step : Int)).toNat + 1)).map fun (k : Nat) => start + (k : Int) * (step : Int)

/-- consecutive differences in main time units -/
def diffs (unitSec : Nat) : List Int → List Rat
  | a :: b :: rest => mkRat (b - a) unitSec :: diffs unitSec (b :: rest)
  | _ => []

def cumsum : List Rat → Rat → List Rat
  | [], _ => []
  | x :: xs, acc => (acc + x) :: cumsum xs (acc + x)

/-- top-level grid from ALL points (`timepoints[0:-1]` are the steps, the last point closes the last step) -/
def Grid.ofPoints (allPts : List Int) (unitSec : Nat) (df : List Rat) : Grid :=
  let d := diffs unitSec allPts
  { pts := allPts.dropLast, idx := List.range allPts.dropLast.length, dt := d, Dt := cumsum d 0, df := df }

def Grid.ofTicks (start stop : Int) (step unitSec : Nat) (df : List Rat) : Grid :=
  Grid.ofPoints (tickRange start stop step) unitSec df

/-- the constructor's `assert self.start < self.end` in front of the construction -/
def Grid.make (start stop : Int) (allPts : List Int) (unitSec : Nat) (df : List Rat) : Except GridError Grid :=
  if start < stop then .ok (Grid.ofPoints allPts unitSec df) else .error .assertion

/-- what the model assumes about points supplied for a calendar frequency (evaluated by the harness on
    what pandas returned; anchored offsets such as 'MS', 'W' violate `first = start`: finding F-19a) -/
def CalendarOK (allPts : List Int) (start stop : Int) : Bool :=
  decide (allPts.Pairwise (· < ·)) && (allPts.head? == some start) && allPts.all (fun p => decide (p ≤ stop))

/-- positions of a grid whose point satisfies `p` -/
def Grid.select (g : Grid) (p : Int → Bool) : List Nat :=
  (List.range g.T).filter fun i => p (g.pts.getD i 0)

/-- numpy `arr[mask]` -/
def sel {α} : List Bool → List α → List α
  | true :: m, x :: xs => x :: sel m xs
  | false :: m, _ :: xs => sel m xs
  | _, _ => []

/-- `(ref.timepoints >= s) & (ref.timepoints < e)` -/
def Grid.mask (g : Grid) (s e : Int) : List Bool := g.pts.map fun p => decide (s ≤ p) && decide (p < e)

/-- restricted grid of the same frequency: the points in `[s, e)` with their original `I`, `dt`, `Dt`, `df` -/
def Grid.restrict (g : Grid) (s e : Int) : Grid :=
  let m := g.mask s e
  { pts := sel m g.pts, idx := sel m g.idx, dt := sel m g.dt, Dt := sel m g.Dt, df := sel m g.df }

/-- coarse restricted grid.  `cuts` = `date_range(start, end, freq)`; one coarse step per consecutive
    pair of cuts THAT CONTAINS A FINE STEP of the reference (a pair without any is skipped:
    `if not I.any(): continue` - the asset's own window reaches beyond the optimisation horizon):
    `I` = smallest reference index of its minor steps, summed `dt`; `Dt`, point and
    discount factor are read from the reference arrays AT POSITION `I` (the code indexes with the index
    value; for a top-level or re-based reference grid position and value coincide). -/
structure CoarseGrid where
  grid  : Grid
  minor : List (List Nat)     -- `I_minor_in_major`: reference indices of the minor steps per coarse step
  deriving Repr, Inhabited, DecidableEq

structure CoarseCell where
  I     : Nat
  minor : List Nat
  pt    : Int
  dt    : Rat
  Dt    : Rat
  df    : Option Rat
  deriving Repr, Inhabited, DecidableEq

/-- discount factor of a coarse step: `some none` = the reference has no discount factors,
    `none` = IndexError -/
def dfAt (g : Grid) (i : Nat) : Option (Option Rat) :=
  if g.df.isEmpty then some none else (g.df[i]?).map some

/-- one pair of cuts `[a, b)`: `.ok none` = no fine step of the reference inside, the pair is skipped
    (the mask is tested through the selected indices: for a grid whose `idx` is as long as `pts`, as every
    grid made by the constructors is, `sel mask idx = []` says exactly `not I.any()`) -/
def coarseCell (g : Grid) (a b : Int) : Except GridError (Option CoarseCell) :=
  match sel (g.mask a b) g.idx with
  | [] => .ok none
  | i :: is =>
    match g.Dt[is.foldl min i]?, g.pts[is.foldl min i]?, dfAt g (is.foldl min i) with
    | some D, some p, some f =>
      .ok (some { I := is.foldl min i, minor := i :: is, pt := p, dt := (sel (g.mask a b) g.dt).sum, Dt := D, df := f })
    | _, _, _ => .error .index

def coarseCells (g : Grid) : List Int → Except GridError (List CoarseCell)
  | a :: b :: rest =>
    match coarseCell g a b with
    | .error e => .error e
    | .ok oc =>
      match coarseCells g (b :: rest) with
      | .error e => .error e
      | .ok more => .ok (match oc with | none => more | some c => c :: more)
  | _ => .ok []

def Grid.coarsen (g : Grid) (cuts : List Int) : Except GridError CoarseGrid :=
  match coarseCells g cuts with
  | .error e => .error e
  | .ok cells =>
    .ok { grid := { pts := cells.map (·.pt), idx := cells.map (·.I), dt := cells.map (·.dt),
                    Dt := cells.map (·.Dt), df := cells.filterMap (·.df) },
          minor := cells.map (·.minor) }

/-- with the guard `assert freq_a >= freq_p` (lengths of the two frequencies as `pd.Timedelta` computes
    them, any common unit) -/
def Grid.coarsenChecked (g : Grid) (freqA freqP : Nat) (cuts : List Int) : Except GridError CoarseGrid :=
  if freqA < freqP then .error .assertion else g.coarsen cuts

/-- interval data `{start, end, values}` after normalisation; `stop = none` means "for ever" -/
structure Interval where
  start : Int
  stop  : Option Int
  value : Rat
  deriving Repr, Inhabited, DecidableEq

/-- implicit ends: `end_i = start_{i+1}`, the last interval is extended generously by twice the last gap;
    a single start is valid for ever -/
def implicitEnds (starts : List Int) : List (Option Int) :=
  match starts with
  | [] => []
  | [_] => [none]
  | _ =>
    let n := starts.length
    let last := starts.getD (n - 1) 0
    let prev := starts.getD (n - 2) 0
    (starts.drop 1).map some ++ [some (last + 2 * (last - prev))]

/-- `zip(inp['start'], inp['end'], inp['values'])` (the shortest list decides).  `forever`: what the
    implementation uses as end of a single start without end (`pd.Timestamp.max` after localisation to
    the grid's zone, computed by pandas; `none` = unbounded). -/
def mkIntervals (starts : List Int) (ends : Option (List Int)) (values : List Rat) (forever : Option Int) : List Interval :=
  let es : List (Option Int) := match ends with
    | some es => es.map some
    | none => (implicitEnds starts).map fun e => match e with | some x => some x | none => forever
  ((starts.zip es).zip values).map fun q => { start := q.1.1, stop := q.1.2, value := q.2 }

/-- `prep_date_dict`: the result always has an `end` list, EMPTY when the input has none -/
def prepDateDict (starts : List Int) (ends : Option (List Int)) (values : List Rat) : List Int × Option (List Int) × List Rat :=
  (starts, some (ends.getD []), values)

def Interval.contains (iv : Interval) (p : Int) : Bool :=
  decide (iv.start ≤ p) && (match iv.stop with | none => true | some e => decide (p < e))

/-- `values_to_grid`: intervals are applied in order; touching a point that already has a value is an
    error; points in no interval stay undefined (`none` = NaN) -/
def valuesToGridAux (pts : List Int) : List Interval → List (Option Rat) → Except GridError (List (Option Rat))
  | [], acc => .ok acc
  | iv :: rest, acc =>
    if (pts.zip acc).any (fun pa => iv.contains pa.1 && pa.2.isSome) then .error .overlap
    else valuesToGridAux pts rest ((pts.zip acc).map fun pa => if iv.contains pa.1 then some iv.value else pa.2)

def valuesToGrid (pts : List Int) (ivs : List Interval) : Except GridError (List (Option Rat)) :=
  valuesToGridAux pts ivs (pts.map fun _ => none)

/-- `prices_to_grid` for an array that is already on the grid (no NaN inside): unchanged, if the length fits -/
def pricesPassThrough (T : Nat) (arr : List Rat) : Except GridError (List Rat) :=
  if arr.length = T then .ok arr else .error .length

end EAO
