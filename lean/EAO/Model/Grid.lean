import EAO.Model.Basic
/-!
# EAO.Model.Grid — model of `Timegrid`, `set_restricted_grid`, `values_to_grid`

Instants are `Int` seconds (UTC).  A grid keeps, per step: the instant of its start, the index with
respect to the reference grid (`I`), the step length `dt` and cumulative time `Dt` (END of the step)
in main time units, and a discount factor.  Discount factors `(1+wacc)^(-Dt·unit/365d)` are
irrational in general: they are an input (`φ`), supplied per step.

Tick frequencies (fixed number of seconds: 'h', '15min', naive or UTC 'd', …) are generated here;
for calendar frequencies the list of all points (as pandas' `date_range` returns it, including the
point after the last step) is an input.
-/
namespace EAO

structure Grid where
  pts   : List Int        -- start instant of every step
  idx   : List Nat        -- `I`
  dt    : List Rat
  Dt    : List Rat
  df    : List Rat        -- discount factors (1 everywhere for wacc = 0)
  deriving Repr, Inhabited

def Grid.T (g : Grid) : Nat := g.pts.length

/-- `pd.date_range(start, end, freq)` for a tick frequency: `start, start+step, … ≤ stop` (fuel-bounded) -/
def tickRange (start stop : Int) (step : Nat) : List Int :=
  if step = 0 ∨ stop < start then [] else
  (List.range (((stop - start) / (step : Int)).toNat + 1)).map fun (k : Nat) => start + (k : Int) * (step : Int)

/-- consecutive differences in main time units -/
def diffs (unitSec : Nat) : List Int → List Rat
  | a :: b :: rest => mkRat (b - a) unitSec :: diffs unitSec (b :: rest)
  | _ => []

def cumsum : List Rat → Rat → List Rat
  | [], _ => []
  | x :: xs, acc => (acc + x) :: cumsum xs (acc + x)

/-- top-level grid from ALL points (`timepoints[0:-1]` are the steps, the last point closes the last step) -/
def Grid.ofPoints (allPts : List Int) (unitSec : Nat) (df : List Rat) : Grid :=
  let d := diffs unitSec allPts
  { pts := allPts.dropLast, idx := List.range allPts.dropLast.length, dt := d, Dt := cumsum d 0, df := df }

def Grid.ofTicks (start stop : Int) (step unitSec : Nat) (df : List Rat) : Grid :=
  Grid.ofPoints (tickRange start stop step) unitSec df

/-- positions of a grid whose point satisfies `p` -/
def Grid.select (g : Grid) (p : Int → Bool) : List Nat :=
  (List.range g.T).filter fun i => p (g.pts.getD i 0)

def pick {α} [Inhabited α] (xs : List α) (is : List Nat) : List α := is.map fun i => xs.getD i default

/-- restricted grid of the same frequency: the points in `[s, e)` with their original `I`, `dt`, `Dt`, `df` -/
def Grid.restrict (g : Grid) (s e : Int) : Grid :=
  let is := g.select fun p => decide (s ≤ p) && decide (p < e)
  { pts := pick g.pts is, idx := pick g.idx is, dt := pick g.dt is, Dt := pick g.Dt is, df := pick g.df is }

/-- coarse restricted grid.  `cuts` = `date_range(start, end, freq)`; one coarse step per consecutive
    pair of cuts: first minor index, summed `dt`, `Dt`/point/discount of the FIRST minor step.  An
    empty coarse interval makes the implementation raise (`min` of an empty array): `none`. -/
structure CoarseGrid where
  grid  : Grid
  minor : List (List Nat)     -- `I_minor_in_major`: reference indices of the minor steps per coarse step
  deriving Repr, Inhabited

def coarseSteps (g : Grid) : List Int → Option (List (List Nat))
  | a :: b :: rest =>
    let is := g.select fun p => decide (a ≤ p) && decide (p < b)
    if is.isEmpty then none else
    match coarseSteps g (b :: rest) with
    | none => none
    | some more => some (is :: more)
  | _ => some []

def Grid.coarsen (g : Grid) (cuts : List Int) : Option CoarseGrid :=
  match coarseSteps g cuts with
  | none => none
  | some groups =>
    let firsts := groups.map fun is => is.headD 0
    some { grid := { pts := pick g.pts firsts, idx := pick g.idx firsts,
                     dt := groups.map fun is => (pick g.dt is).sum,
                     Dt := pick g.Dt firsts, df := pick g.df firsts },
           minor := groups.map fun is => pick g.idx is }

/-- interval data `{start, end, values}` after normalisation; `stop = none` means "for ever" -/
structure Interval where
  start : Int
  stop  : Option Int
  value : Rat
  deriving Repr, Inhabited

/-- implicit ends: `end_i = start_{i+1}`, the last interval is extended generously by twice the last gap;
    a single start is valid for ever -/
def implicitEnds (starts : List Int) : List (Option Int) :=
  match starts with
  | [] => []
  | [_] => [none]
  | _ =>
    let n := starts.length
    let last := starts.getD (n - 1) 0
    let prev := starts.getD (n - 2) 0
    (starts.drop 1).map some ++ [some (last + 2 * (last - prev))]

def Interval.contains (iv : Interval) (p : Int) : Bool :=
  decide (iv.start ≤ p) && (match iv.stop with | none => true | some e => decide (p < e))

inductive GridError | overlap
  deriving Repr, DecidableEq

/-- `values_to_grid`: intervals are applied in order; touching a point that already has a value is an
    error; points in no interval stay undefined (`none` = NaN) -/
def valuesToGridAux (pts : List Int) : List Interval → List (Option Rat) → Except GridError (List (Option Rat))
  | [], acc => .ok acc
  | iv :: rest, acc =>
    if (pts.zip acc).any (fun pa => iv.contains pa.1 && pa.2.isSome) then .error .overlap
    else valuesToGridAux pts rest ((pts.zip acc).map fun pa => if iv.contains pa.1 then some iv.value else pa.2)

def valuesToGrid (pts : List Int) (ivs : List Interval) : Except GridError (List (Option Rat)) :=
  valuesToGridAux pts ivs (pts.map fun _ => none)

end EAO
