import EAO.Model.Basic
import EAO.Model.Structured
/-!
# EAO.Model.Linked — model of `LinkedAsset.setup_optim_problem` (`eaopack/portfolio.py`)

A linked asset is a structured asset (`EAO.Model.Structured`) whose problem gets additional restrictions between a
variable `v1` of a wrapped asset 1 and a (boolean) variable `v2` of a wrapped asset 2.  After the structured set-up
the code converts the three durations `time_back`, `time_forward`, `asset2_time_already_running` from the main time
unit to grid steps (`int(ceil(value · unit / step))`, sign kept) and runs, literally:

```
for t in range(T):                                   # T = self.timegrid.restricted.T  (a COUNTER, compared with the
    I1 = labels of the mapping rows with var_name == v1__asset1, time_step == t, node == node1 (or NaN)   # absolute step)
    I1[0]                                            # IndexError when there is none
    for i in arange(-time_back, time_forward + 1):
        if i + t < -already_running:  u[I1] = 0;  continue
        if i + t < 0 or i + t >= T:   continue
        I2 = labels of the rows with var_name == v2__asset2, time_step == i + t, node == node2 (or NaN)
        I2[0]                                        # IndexError when there is none
        a = lil_matrix((1, A.shape[1]));  a[0, I1] = 1;  a[0, I2] = -u[I1]       # the UPDATED u
        A = vstack((A, a));  cType += 'U';  b = hstack((b, 0))
```

Reproduced on purpose:
* `T` is what the grid object holds when the loop starts: the restricted grid of the wrapped asset that was set up LAST
  (known finding F-09e); it is an input here.  The loop counter `t` is compared with the ABSOLUTE step of the mapping.
* only `u` is set to zero (the lower bound is not touched); rows generated after the update carry the coefficient 0.
* several labels per look-up (e.g. `disp` of a CHP asset at its fuel node: power and heat variable) follow the numpy /
  scipy assignment rules: one `I1` label is broadcast over all `I2` labels, equally many are paired, anything else is
  a `ValueError`; a later assignment to the same column overwrites the earlier one (`linkCoeffs`).
* `A is None` (structured problem without any row): `AttributeError` when the first row is to be generated.
-/
namespace EAO

inductive LinkError | index | value | attribute
  deriving DecidableEq, Repr, Inhabited

def LinkError.toString : LinkError → String
  | .index => "index" | .value => "value" | .attribute => "attribute"

/-- `convert_to_timegrid_freq` with rounding, sign kept: `int(ceil(value · unit / step))`.
    (`EAO.convertSteps` of the CHP model is `(convertInt …).toNat`.) -/
def convertInt (value : Rat) (unitSec stepSec : Nat) : Int :=
  (value * (unitSec : Rat) / (stepSec : Rat)).ceil

/-- constructor arguments of `LinkedAsset` beyond those of `StructuredAsset` -/
structure LinkP where
  asset1         : String          -- name of asset 1
  var1           : String          -- `variable1_name`
  node1          : Option String   -- name of node 1 as given (`None` for internal variables)
  asset2         : String
  var2           : String
  node2          : Option String
  timeBack       : Rat             -- in main time units, as given
  timeForward    : Rat
  alreadyRunning : Rat             -- `self.asset2_time_already_running` after the constructor's attribute look-up
  deriving Repr, Inhabited

/-- the constructor's node name: a node that is not one of the linked asset's own nodes is referred to under the
    name the structured set-up gives it -/
def linkNode (name : String) (ext : List String) : Option String → Option String
  | none => none
  | some nd => if ext.contains nd then some nd else some (name ++ "_internal_" ++ nd)

/-- what the loop works with -/
structure LinkR where
  vn1 : String          -- `variable1_name + '__' + asset1.name`
  nd1 : Option String
  vn2 : String
  nd2 : Option String
  tb  : Int             -- converted `time_back`
  tf  : Int             -- converted `time_forward`
  ar  : Int             -- converted `asset2_time_already_running`
  T   : Nat             -- `self.timegrid.restricted.T`
  deriving Repr, Inhabited, DecidableEq

def resolveLink (name : String) (ext : List String) (p : LinkP) (unitSec stepSec T : Nat) : LinkR :=
  { vn1 := p.var1 ++ "__" ++ p.asset1, nd1 := linkNode name ext p.node1,
    vn2 := p.var2 ++ "__" ++ p.asset2, nd2 := linkNode name ext p.node2,
    tb := convertInt p.timeBack unitSec stepSec, tf := convertInt p.timeForward unitSec stepSec,
    ar := convertInt p.alreadyRunning unitSec stepSec, T := T }

/-- `np.arange(a, b)` for integers -/
def intRange (a b : Int) : List Int := (List.range (b - a).toNat).map fun (k : Nat) => a + (k : Int)

/-- `np.arange(-time_back, time_forward + 1)` -/
def LinkR.offsets (r : LinkR) : List Int := intRange (- r.tb) (r.tf + 1)

/-- `op.mapping.index[(var_name == vn) & (time_step == t) & (node == nd  |  node.isnull())]` -/
def findVars (M : List MapRow) (vn : String) (nd : Option String) (t : Nat) : List Nat :=
  (M.filter fun m => m.varName == vn && m.step == t && m.node == nd).map (·.var)

/-- `u[I] = 0` -/
def zeroAt (I : List Nat) (u : List Rat) : List Rat :=
  u.zipIdx.map fun (v, j) => if I.contains j then 0 else v

/-- `a[0, j] = v` on a sparse row: a later assignment overwrites -/
def setCoeff (cs : List (Nat × Rat)) (j : Nat) (v : Rat) : List (Nat × Rat) :=
  cs.filter (fun p => p.1 != j) ++ [(j, v)]

/-- `a[0, I1] = 1; a[0, I2] = -u[I1]` with numpy's shapes: one value is broadcast, equally many are paired, anything
    else does not fit (`none`: ValueError) -/
def linkCoeffs (u : List Rat) (I1 I2 : List Nat) : Option (List (Nat × Rat)) :=
  let ones := I1.foldl (fun cs d => setCoeff cs d 1) []
  if I1.length = 1 then
    some (I2.foldl (fun cs j => setCoeff cs j (- u.getD (I1.headD 0) 0)) ones)
  else if I1.length = I2.length then
    some ((I2.zip I1).foldl (fun cs p => setCoeff cs p.1 (- u.getD p.2 0)) ones)
  else none

/-- the state of the loop: the upper bounds and the rows added so far -/
structure LinkState where
  u    : List Rat
  rows : List Row
  deriving Repr, Inhabited

/-- the body of the inner loop for one `i` (`I1` = labels of `v1` at step `t`) -/
def linkStep (M : List MapRow) (r : LinkR) (aCols : Option Nat) (t : Nat) (I1 : List Nat) (st : LinkState) (i : Int) :
    Except LinkError LinkState :=
  if i + (t : Int) < - r.ar then
    -- asset 2 has not been running long enough: `op.u[I1_t] = 0; continue`
    if I1.all (fun d => decide (d < st.u.length)) then .ok { st with u := zeroAt I1 st.u } else .error .index
  else if i + (t : Int) < 0 ∨ (r.T : Int) ≤ i + (t : Int) then .ok st
  else
    let I2 := findVars M r.vn2 r.nd2 (i + (t : Int)).toNat
    if I2.isEmpty then .error .index            -- `I2_it[0]`
    else match aCols with
      | none => .error .attribute               -- `op.A.shape` with `A is None`
      | some k =>
        if !(I1.all fun d => decide (d < k)) then .error .index                -- `a[0, I1_t] = 1`
        else if !(I1.all fun d => decide (d < st.u.length)) then .error .index -- `op.u[I1_t]`
        else match linkCoeffs st.u I1 I2 with                                  -- `a[0, I2_it] = …`: shapes first,
          | none => .error .value
          | some cs =>
            if !(I2.all fun d => decide (d < k)) then .error .index            -- then the column range
            else .ok { st with rows := st.rows ++ [{ coeffs := cs, rhs := 0, kind := .U }] }

/-- the inner loop over the offsets -/
def linkInner (M : List MapRow) (r : LinkR) (aCols : Option Nat) (t : Nat) (I1 : List Nat) :
    LinkState → List Int → Except LinkError LinkState
  | st, [] => .ok st
  | st, i :: is =>
    match linkStep M r aCols t I1 st i with
    | .ok st' => linkInner M r aCols t I1 st' is
    | .error e => .error e

/-- the outer loop over the steps -/
def linkOuter (M : List MapRow) (r : LinkR) (aCols : Option Nat) :
    LinkState → List Nat → Except LinkError LinkState
  | st, [] => .ok st
  | st, t :: ts =>
    let I1 := findVars M r.vn1 r.nd1 t
    if I1.isEmpty then .error .index             -- `I1_t[0]`
    else match linkInner M r aCols t I1 st r.offsets with
      | .ok st' => linkOuter M r aCols st' ts
      | .error e => .error e

/-- `LinkedAsset.setup_optim_problem` after the structured set-up: `S` = the structured asset's problem,
    `aCols` = number of columns of its matrix (`none`: `A is None`) -/
def buildLinked (S : AssetProblem) (r : LinkR) (aCols : Option Nat) : Except LinkError AssetProblem :=
  match linkOuter S.mapping r aCols { u := S.u, rows := [] } (List.range r.T) with
  | .ok st => .ok { S with u := st.u, rows := S.rows ++ st.rows }
  | .error e => .error e

/-- the whole linked asset: structured set-up of the wrapped problems, then the linking loop -/
def linkedAsset (name : String) (ext : List String) (inner : List AssetProblem) (gridI : List Nat) (p : LinkP)
    (unitSec stepSec T : Nat) (aCols : Option Nat) : Except LinkError AssetProblem :=
  buildLinked (structured name ext inner gridI) (resolveLink name ext p unitSec stepSec T) aCols

/-- `costs_only = True`: the cost vector of the structured problem (the linking rows carry no costs) -/
def linkedCostsOnly (S : AssetProblem) : List Rat := S.c

end EAO
