import EAO.Model.Basic
import EAO.Model.Assemble
/-!
# EAO.Model.Translate — model of the hand-off in `OptimProblem.optimize` (cvxpy branch) and of
`SplitOptimProblem.optimize`

The constraint list handed to cvxpy is `[x <= u, x >= l]` followed by one block per row type
that occurs, in the order U, L, S, N (rows selected by the type letter, in problem order);
the boolean variables are those whose first mapping row is flagged; the objective is `-c·x`
(or the epigraph variable of the robust target).
-/
namespace EAO

structure CvxBlock where
  kind : RowKind
  rows : List Row
  deriving Repr

structure CvxProblem where
  n      : Nat
  l      : List Rat
  u      : List Rat
  blocks : List CvxBlock
  bools  : List Nat
  obj    : List Rat          -- maximise `- obj · x`
  deriving Repr

def rowsOfKind (rows : List Row) (k : RowKind) : List Row := rows.filter (·.kind == k)

def translate (P : Problem) : CvxProblem :=
  { n := P.n, l := P.l, u := P.u,
    blocks := [RowKind.U, .L, .S, .N].filterMap fun k =>
      let rs := rowsOfKind P.rows k
      if rs.isEmpty then none else some ⟨k, rs⟩,
    bools := P.boolVars, obj := P.c }

/-- satisfaction of a block: every selected row holds in the sense of the block's relation -/
def CvxBlock.Sat (b : CvxBlock) (x : Vec) : Prop :=
  ∀ r ∈ b.rows, match b.kind with
    | .U => r.eval x ≤ r.rhs
    | .L => r.rhs ≤ r.eval x
    | .S => r.eval x = r.rhs
    | .N => r.eval x = r.rhs

def CvxProblem.Sat (Q : CvxProblem) (x : Vec) : Prop :=
  InBounds Q.l Q.u x ∧ (∀ b ∈ Q.blocks, b.Sat x) ∧ ∀ j ∈ Q.bools, x j = 0 ∨ x j = 1

def CvxProblem.objective (Q : CvxProblem) (x : Vec) : Rat := - costAt Q.obj 0 x

/-- robust target: maximise `t` subject to `t ≤ -c_s·x` for every cost sample (epigraph form) -/
def robustObjective (samples : List (List Rat)) (x : Vec) : Option Rat :=
  (samples.map fun cs => - costAt cs 0 x).min?

/-- a problem seen as an asset block (used for the block-diagonal sum of split optimisation) -/
def Problem.toAsset (P : Problem) : AssetProblem :=
  { name := "", nodes := [], c := P.c, l := P.l, u := P.u, rows := P.rows, mapping := P.mapping }

/-- block-diagonal sum of interval problems: what `SplitOptimProblem` optimises piecewise -/
def blockSum (ps : List Problem) : Problem := assembleFrom 0 (ps.map Problem.toAsset)

/-- concatenation of the interval solutions as `np.hstack` does -/
def concatVec : List (List Rat) → Vec
  | [], _ => 0
  | xs :: rest, j => if j < xs.length then xs.getD j 0 else concatVec rest (j - xs.length)

end EAO
