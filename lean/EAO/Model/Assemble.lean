import EAO.Model.Basic
/-!
# EAO.Model.Assemble — model of `Portfolio.setup_optim_problem`

Asset problems are concatenated (cost, bounds), their rows are embedded by shifting variable
indices with the asset's offset, their mapping rows are shifted the same way, and one nodal
row (type `N`, right-hand side 0) is generated for every (node ∉ skip, step) that has at least
one dispatch ('d') mapping row — node-major in the order of first appearance of the nodes in
the assets' node lists, step-minor in grid order.  `fixWindow` models `fix_time_window`.
-/
namespace EAO

def MapRow.shift (off : Nat) (m : MapRow) : MapRow := { m with var := off + m.var }

/-- concatenation of the asset blocks from running offset `off` (no nodal rows yet) -/
def assembleFrom : Nat → List AssetProblem → Problem
  | _, [] => ⟨[], [], [], [], [], []⟩
  | off, a :: as =>
    let P := assembleFrom (off + a.n) as
    { c := a.c ++ P.c, l := a.l ++ P.l, u := a.u ++ P.u,
      rows := a.rows.map (Row.rename (off + ·)) ++ P.rows,
      mapping := a.mapping.map (MapRow.shift off) ++ P.mapping,
      nodal := [] }

/-- is `m` a dispatch row at node `n`, step `t`? -/
def isDisp (n : String) (t : Nat) (m : MapRow) : Bool :=
  m.kind == .d && m.node == some n && m.step == t

/-- the nodal restriction of (n,t): all dispatch rows there, with their factors, sum to zero -/
def nodalRow (M : List MapRow) (n : String) (t : Nat) : Row :=
  { coeffs := (M.filter (isDisp n t)).map fun m => (m.var, m.factor), rhs := 0, kind := .N }

/-- nodes of the portfolio in order of first appearance -/
def portfolioNodes (as : List AssetProblem) : List String := (as.flatMap (·.nodes)).eraseDups

/-- (step, node) pairs that get a nodal row -/
def nodalPairs (M : List MapRow) (nodes : List String) (skip : List String) (gridI : List Nat) :
    List (Nat × String) :=
  (nodes.filter fun n => !skip.contains n).flatMap fun n =>
    (gridI.filter fun t => M.any (isDisp n t)).map fun t => (t, n)

def assemble (as : List AssetProblem) (gridI : List Nat) (skip : List String) : Problem :=
  let P := assembleFrom 0 as
  let pairs := nodalPairs P.mapping (portfolioNodes as) skip gridI
  { P with rows := P.rows ++ pairs.map (fun p => nodalRow P.mapping p.2 p.1), nodal := pairs }

/-- replace entry `j` of a list when `p j` -/
def setWhere (p : Nat → Bool) (xs : List Rat) (ys : List Rat) : List Rat :=
  xs.zipIdx.map fun (v, j) => if p j then ys.getD j 0 else v

/-- `fix_time_window`: every variable with a mapping row whose step lies in `steps` is fixed
    (`l = u = xprev`), everything else is unchanged -/
def fixedVars (P : Problem) (steps : List Nat) : List Nat :=
  (P.mapping.filter fun m => steps.contains m.step).map (·.var)

def fixWindow (P : Problem) (steps : List Nat) (xprev : List Rat) : Problem :=
  let vars := fixedVars P steps
  { P with l := setWhere (vars.contains ·) P.l xprev, u := setWhere (vars.contains ·) P.u xprev }

end EAO
