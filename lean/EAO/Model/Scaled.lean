import EAO.Model.Basic
import EAO.Model.Grid
/-!
# EAO.Model.Scaled — model of `ScaledAsset.setup_optim_problem` (`eaopack/assets.py`, tree 8409988)

The scaled asset takes the finished problem of its base asset (`c, l, u, A, b, cType, mapping`) and
adds one variable `s` (the scale) at position `n_base = len(op.l)`.  Literally, in the order of the code:

1. every base row `A x (kind) b` becomes `A x − (b/norm)·s (kind) 0`; the new column is appended
   to `A` (a base without matrix gets an empty matrix with `n_base + 1` columns);
2. `Idisp` = the distinct values of the mapping index over the rows of type 'd' and the non-boolean rows of type 'i', in order of first
   occurrence; `nD = |Idisp|`;  bounds of the variables `Idisp` are widened to
   `min(0,l)·max_scale/norm`, `max(0,u)·max_scale/norm` (other variables keep their bounds);
3. `nD` rows `U` and `nD` rows `L` are stacked below: row `k` has a 1 in column `Idisp[k]` and
   `−u[Idisp[k]]/norm` (resp. `−l`) in column `n_base`;
4. bounds `[min_scale, max_scale]` and cost `fix_costs · Σ dt(restricted grid of the scaled asset)`
   are appended; all mapping rows are re-assigned to the scaled asset; one mapping row
   (`time_step 0`, first node, type 'size', `var_name 'scale'`, `bool = False`) is appended under the
   index label `n_base`.

`scipy.sparse.vstack` raises a `ValueError` when the base's matrix does not have `n_base` columns, and
numpy an `IndexError` when a dispatch index is not a variable of the base (`buildScaledE`); neither
happens for the asset classes of eaopack.  History: before 8409988 the tie rows used `eye(nD)` and the
label `max + 1` (findings S-1 … S-3 in /verif/notes/findings_scaled.md).
-/
namespace EAO

structure ScaledP where
  name      : String
  node0     : String      -- `self.node_names[0]` (first node of the base asset)
  minScale  : Rat
  maxScale  : Rat
  normScale : Rat
  fixCosts  : Rat
  deriving Repr, Inhabited

/-- the assertions of the constructor: `min_scale <= max_scale`, `min_scale >= 0`, `norm_scale > 0` -/
def ScaledP.ctorOk (p : ScaledP) : Bool :=
  decide (p.minScale ≤ p.maxScale) && decide (0 ≤ p.minScale) && decide (0 < p.normScale)

/-- is a mapping row one of a capacity variable: type 'd', or type 'i' (dispatch at an internal node of a wrapped
    structured asset) unless flagged boolean -/
def isCapRow (m : MapRow) : Bool := m.kind == .d || (m.kind == .i && !m.isBool)

/-- `op.mapping.index[(type=='d') | ((type=='i') & ~bool)].unique()` — order of first occurrence -/
def dispVars (M : List MapRow) : List Nat := ((M.filter isCapRow).map (·.var)).eraseDups

/-- step 1: `A x − (b/norm) s (kind) 0`, scale in column `sc` -/
def scaleRow (nrm : Rat) (sc : Nat) (r : Row) : Row :=
  { coeffs := r.coeffs ++ [(sc, - r.rhs / nrm)], rhs := 0, kind := r.kind }

/-- step 3: the row tying dispatch variable `d` to the scale: `x_d − (bound/norm)·s (kind) 0` -/
def tieRow (nrm : Rat) (sc : Nat) (kind : RowKind) (d : Nat) (bound : Rat) : Row :=
  { coeffs := [(d, 1), (sc, - bound / nrm)], rhs := 0, kind := kind }

def ratMin (a b : Rat) : Rat := if a ≤ b then a else b
def ratMax (a b : Rat) : Rat := if a ≤ b then b else a

/-- step 2: `v[Idisp] = f(v[Idisp])`, other entries unchanged -/
def mapAt (I : List Nat) (f : Rat → Rat) (v : List Rat) : List Rat :=
  v.zipIdx.map fun (x, j) => if I.contains j then f x else x

/-- the mapping row of the scale variable (missing `disp_factor`, `bool` read as 1 / false) -/
def scaleMapRow (p : ScaledP) (idx : Nat) : MapRow :=
  { var := idx, asset := p.name, node := some p.node0, kind := .other "size", step := 0,
    factor := 1, isBool := false, varName := "scale" }

/-- the scaled problem for a non-empty base problem (no shape check); `nB = len(op.l)` -/
def buildScaledCore (p : ScaledP) (base : AssetProblem) (dtSum : Rat) : AssetProblem :=
  let I  := dispVars base.mapping
  let nB := base.l.length
  { name := p.name, nodes := base.nodes,
    c := base.c ++ [p.fixCosts * dtSum],
    l := mapAt I (fun v => ratMin 0 v * p.maxScale / p.normScale) base.l ++ [p.minScale],
    u := mapAt I (fun v => ratMax 0 v * p.maxScale / p.normScale) base.u ++ [p.maxScale],
    rows := base.rows.map (scaleRow p.normScale nB)
      ++ I.map (fun d => tieRow p.normScale nB .U d (base.u.getD d 0))
      ++ I.map (fun d => tieRow p.normScale nB .L d (base.l.getD d 0)),
    mapping := base.mapping.map (fun m => { m with asset := p.name }) ++ [scaleMapRow p nB] }

/-- `ScaledAsset.setup_optim_problem`: a base problem without variables (base asset not active in the
    horizon) is returned as it is -/
def buildScaled (p : ScaledP) (base : AssetProblem) (dtSum : Rat) : AssetProblem :=
  if base.l.length = 0 then base else buildScaledCore p base dtSum

/-- with the exceptions: `aCols` = number of columns of the base's `A` (`none`: `A is None`); the scaled
    base matrix has `aCols + 1` columns, the stacked tie block `n_base + 1` (`ValueError` of `vstack` when
    they differ); a dispatch index that is not a variable of the base is an `IndexError` of `op.l[Idisp]` -/
def buildScaledE (p : ScaledP) (base : AssetProblem) (dtSum : Rat) (aCols : Option Nat) :
    Except String AssetProblem :=
  if base.l.length = 0 then .ok base else
  let shapeOk := match aCols with
    | some k => decide (k = base.l.length)
    | none => true
  if !(dispVars base.mapping).all (fun d => decide (d < base.l.length)) then .error "index"
  else if !shapeOk then .error "value"
  else .ok (buildScaledCore p base dtSum)

/-- `self.timegrid.restricted.dt.sum()` -/
def activeDuration (g : Grid) : Rat := g.dt.sum

end EAO
