import EAO.Model.Basic
import EAO.Model.Grid
/-!
# EAO.Model.Scaled — model of `ScaledAsset.setup_optim_problem` (`eaopack/assets.py`)

The scaled asset takes the finished problem of its base asset (`c, l, u, A, b, cType, mapping`) and
adds one variable `s` (the scale).  Literally, in the order of the code:

1. every base row `A x (kind) b` becomes `A x − (b/norm)·s (kind) 0`; the new column is appended
   to `A`, i.e. it sits at position "number of columns of `A`";
2. `Idisp` = the distinct values of the mapping index over the rows of type 'd', in order of first
   occurrence; `nD = |Idisp|`;  bounds of the variables `Idisp` are widened to
   `min(0,l)·max_scale/norm`, `max(0,u)·max_scale/norm` (other variables keep their bounds);
3. `nD` rows `U` and `nD` rows `L` are stacked below: the block `hstack(eye(nD), −u[Idisp]/norm)` —
   the `k`-th row has its 1 in COLUMN `k` (not in column `Idisp[k]`) and the scale coefficient in
   column `nD` (not in column `n`);
4. bounds `[min_scale, max_scale]` and cost `fix_costs · Σ dt(restricted grid of the scaled asset)`
   are appended; all mapping rows are re-assigned to the scaled asset; one mapping row
   (`time_step 0`, first node, type 'size', `var_name 'scale'`) is appended under the index label
   `mapping.index.max() + 1` (not `n`).

Whenever the set-up succeeds, columns `nD` of step 3 and "number of columns of `A`" of step 1
coincide (otherwise `scipy.sparse.vstack` raises a `ValueError`: `buildScaledE`); they are the scale
VARIABLE (position `n`) only if `nD = n`.  `ScaledRegular` is the condition under which the literal
construction is the intended one; it fails for an `OrderBook` with an order outside the horizon
(a variable without mapping row) — see /verif/notes/findings_scaled.md.
-/
namespace EAO

structure ScaledP where
  name      : String
  node0     : String      -- `self.node_names[0]` (first node of the base asset)
  minScale  : Rat
  maxScale  : Rat
  normScale : Rat
  fixCosts  : Rat
  deriving Repr, Inhabited

/-- the assertions of the constructor: `min_scale <= max_scale`, `min_scale >= 0`, `norm_scale > 0` -/
def ScaledP.ctorOk (p : ScaledP) : Bool :=
  decide (p.minScale ≤ p.maxScale) && decide (0 ≤ p.minScale) && decide (0 < p.normScale)

/-- `op.mapping.index[op.mapping['type']=='d'].unique()` — order of first occurrence -/
def dispVars (M : List MapRow) : List Nat := ((M.filter (·.kind == .d)).map (·.var)).eraseDups

/-- `op.mapping.index.max()` -/
def maxIndex (M : List MapRow) : Nat := (M.map (·.var)).foldl max 0

/-- step 1: `A x − (b/norm) s (kind) 0`, scale in column `sc` -/
def scaleRow (nrm : Rat) (sc : Nat) (r : Row) : Row :=
  { coeffs := r.coeffs ++ [(sc, - r.rhs / nrm)], rhs := 0, kind := r.kind }

/-- step 3: row `k` of `hstack(eye(nD), −bound[Idisp]/norm)` -/
def tieRow (nrm : Rat) (sc : Nat) (kind : RowKind) (k : Nat) (bound : Rat) : Row :=
  { coeffs := [(k, 1), (sc, - bound / nrm)], rhs := 0, kind := kind }

def ratMin (a b : Rat) : Rat := if a ≤ b then a else b
def ratMax (a b : Rat) : Rat := if a ≤ b then b else a

/-- step 2: `v[Idisp] = f(v[Idisp])`, other entries unchanged -/
def mapAt (I : List Nat) (f : Rat → Rat) (v : List Rat) : List Rat :=
  v.zipIdx.map fun (x, j) => if I.contains j then f x else x

/-- the mapping row of the scale variable (missing `disp_factor`, `bool` read as 1 / false) -/
def scaleMapRow (p : ScaledP) (idx : Nat) : MapRow :=
  { var := idx, asset := p.name, node := some p.node0, kind := .other "size", step := 0,
    factor := 1, isBool := false, varName := "scale" }

/-- the scaled problem for a non-empty base problem (no shape check) -/
def buildScaledCore (p : ScaledP) (base : AssetProblem) (dtSum : Rat) : AssetProblem :=
  let I  := dispVars base.mapping
  let nD := I.length
  let us := I.map fun d => base.u.getD d 0
  let ls := I.map fun d => base.l.getD d 0
  { name := p.name, nodes := base.nodes,
    c := base.c ++ [p.fixCosts * dtSum],
    l := mapAt I (fun v => ratMin 0 v * p.maxScale / p.normScale) base.l ++ [p.minScale],
    u := mapAt I (fun v => ratMax 0 v * p.maxScale / p.normScale) base.u ++ [p.maxScale],
    rows := base.rows.map (scaleRow p.normScale nD)
      ++ us.zipIdx.map (fun (b, k) => tieRow p.normScale nD .U k b)
      ++ ls.zipIdx.map (fun (b, k) => tieRow p.normScale nD .L k b),
    mapping := base.mapping.map (fun m => { m with asset := p.name })
      ++ [scaleMapRow p (maxIndex base.mapping + 1)] }

/-- `ScaledAsset.setup_optim_problem`: a base problem without variables (base asset not active in the
    horizon) is returned as it is -/
def buildScaled (p : ScaledP) (base : AssetProblem) (dtSum : Rat) : AssetProblem :=
  if base.l.length = 0 then base else buildScaledCore p base dtSum

/-- with the `ValueError` of `scipy.sparse.vstack`: `aCols` = number of columns of the base's `A`
    (`none`: the base has no restriction matrix, `A is None`); the stacked block has `nD + 1` columns,
    the scaled base matrix `aCols + 1`.  A base with variables but WITHOUT any mapping row (an order
    book all of whose orders lie outside the horizon) makes `mapping.index.max()` NaN: the returned
    mapping carries the label NaN (not representable here: `"nan-index"`), and every portfolio that
    contains the asset fails with a `ValueError` when it converts the labels to integers. -/
def buildScaledE (p : ScaledP) (base : AssetProblem) (dtSum : Rat) (aCols : Option Nat) :
    Except String AssetProblem :=
  if base.l.length = 0 then .ok base else
  let shapeOk := match aCols with
    | some k => decide (k = (dispVars base.mapping).length)
    | none => true
  if !shapeOk then .error "value"
  else if base.mapping.isEmpty then .error "nan-index"
  else .ok (buildScaledCore p base dtSum)

/-- the condition under which the literal construction is the intended one: the dispatch variables
    are exactly all variables of the base, in their natural order (then `eye(nD)` addresses the
    right columns and column `nD` is the scale variable) -/
def ScaledRegular (base : AssetProblem) : Prop := dispVars base.mapping = List.range base.n

instance (base : AssetProblem) : Decidable (ScaledRegular base) := by
  unfold ScaledRegular; exact inferInstance

/-- guard of the `max index + 1` quirk: the scale's mapping row points at the scale variable iff the
    last variable of the base has a mapping row -/
def LastVarMapped (base : AssetProblem) : Prop := maxIndex base.mapping + 1 = base.n

instance (base : AssetProblem) : Decidable (LastVarMapped base) := by
  unfold LastVarMapped; exact inferInstance

/-- `self.timegrid.restricted.dt.sum()` -/
def activeDuration (g : Grid) : Rat := g.dt.sum

end EAO
