import EAO.Model.Basic
import EAO.Model.Grid
import EAO.Model.Param
import EAO.Model.Storage
import EAO.Model.Periodic
import EAO.Model.CoarseBuild
/-!
# EAO.Model.CoarseStorage — the `freq` path of `Storage`

`EAO/Model/Storage.lean` models `Storage.setup_optim_problem` on an asset grid of the portfolio's own frequency.
With an own, coarser `freq` (`Asset.set_timegrid` → `Timegrid.set_restricted_grid(start, end, freq)`) the restricted
grid is a COARSE grid (`EAO.CoarseGrid`, see `EAO/Model/CoarseBuild.lean`), and `Storage.setup_optim_problem`
(`eaopack/assets.py` 316-579) differs from the `freq=None` path in exactly two places:

* the price series is not sampled at `I` but replaced by the PLAIN mean over the minor steps of every coarse step
  (`price[myI].mean()`, lines 357-362): `coarseStoragePrice` (on `meanVector` of `CoarseBuild.lean`);
* at the end (line 573) the mapping - dispatch rows AND the rows of the boolean variables - is extended to the minor
  grid (`__extend_mapping_to_minor_grid__` = `extendMinor` of `Periodic.lean`): one row per mapping row and minor step
  with factor `dt_fine/dt_coarse`.

Everything else runs on the coarse grid as it would on a fine one: `ct`, `cp` and the inflow use the coarse `dt`
(sum of the minor steps), the discount factor is that of the FIRST minor step, `cost_store·dt·discount` is summed over
the tail of the coarse steps, the fill-level rows / the no-simultaneous rows / the holding-duration rows are those of
`buildStorage` on the coarse grid, the block starts `aa` (pandas calendar logic on the COARSE points) stay an input.
To make this sharing literal the tail of `buildStorage` behind the price look-up is restated as `storageCore`;
`EAO.CoarseStorage.buildStorage_eq_core` (lemma file) shows that `buildStorage` IS `priceVec` followed by that tail.

Also modelled: `Storage.fill_level` as it is after the repairs F-05e / F-05f (repo 2aca4b5, 4ea4772): ALL mapping
rows of a variable count, each with its `disp_factor`, and with a coarse frequency the inflow is booked in every minor
step (`fill_level[myI] += inflow*timegrid.dt[myI]`): `fillLevelCoarse`.

Not modelled: `profile` (must be `None`; anything else raises `NotImplementedError`), `costs_only`, `periodicity`
together with `freq`, calendar frequencies for which `pd.Timedelta` fails, the warning about negative prices.

The second part of the file holds the (computable) objects the theorems of `EAO/Properties/C13Storage.lean` speak
about: the fine problem a coarse storage is compared with, the position of a coarse step among the fine steps, the
share of a coarse step that has elapsed at a fine step.
-/
namespace EAO

/-! ## the builder -/

/-- `Storage.setup_optim_problem` behind the price look-up, on asset grid `g` with the price `pr i` of step `i`:
    cost, bounds, fill-level / no-simultaneous / holding-duration rows, mapping (`buildStorage` without its first
    two tests) -/
def storageCore (p : StorageP) (g : Grid) (pr : Nat → Rat) : Except BuildError AssetProblem :=
  if p.nodes.isEmpty then .error .index else
  match Storage.blocksOf p g.T with
  | .error e => .error e
  | .ok bl =>
    .ok { name := p.name, nodes := p.nodes,
          c := Storage.costVec p g g.T pr, l := Storage.lowerVec p g g.T, u := Storage.upperVec p g g.T,
          rows := Storage.upperRows p g g.T bl ++ Storage.lowerRows p g g.T bl ++ Storage.nsRows p g g.T
                    ++ Storage.holdRows p g g.T,
          mapping := Storage.mapping p g g.T }

/-- price series of a coarse storage, one entry per coarse step: zeros when no key is given; the key must exist
    (assertion) and the array must have the length of the FULL grid (ValueError); then the plain means over the
    minor steps -/
def coarseStoragePrice (p : StorageP) (minor : List (List Nat)) (prices : Prices) (fullT : Nat) :
    Except BuildError (List Rat) :=
  match p.price with
  | none => pure (minor.map fun _ => 0)
  | some k => match prices.lookup k with
    | none => throw .assertion
    | some arr => if arr.length ≠ fullT then throw .lengthMismatch else meanVector arr minor

/-- `Storage(…, freq=f).setup_optim_problem` on the coarse restricted grid `cg` of a full grid with step lengths
    `dtFine` and `fullT` steps.  No coarse step (window and horizon do not overlap): the empty problem, returned
    before anything else is looked at. -/
def buildCoarseStorage (p : StorageP) (cg : CoarseGrid) (dtFine : List Rat) (prices : Prices) (fullT : Nat) :
    Except BuildError AssetProblem :=
  if cg.grid.dt.length = 0 then
    .ok { name := p.name, nodes := p.nodes, c := [], l := [], u := [], rows := [], mapping := [] }
  else do
    let price ← coarseStoragePrice p cg.minor prices fullT
    let a ← storageCore p cg.grid (fun i => price.getD i 0)
    let M ← extendMapping a.mapping cg dtFine
    pure { a with mapping := M }

/-- constructor guards, then set-up -/
def mkCoarseStorage (p : StorageP) (cg : CoarseGrid) (dtFine : List Rat) (prices : Prices) (fullT : Nat) :
    Except BuildError AssetProblem :=
  if p.guards then buildCoarseStorage p cg dtFine prices fullT else throw .assertion

/-- from the full grid `ref` (with the asset's discount factors) and the cuts: constructor guards, the guard
    `freq_a >= freq_p` and the coarse grid of `Asset.set_timegrid` (`coarseOf`), then the set-up -/
def mkCoarseStorageG (p : StorageP) (ref : Grid) (freqA freqP : Nat) (cuts : List Int) (prices : Prices) :
    Except BuildError AssetProblem := do
  if !p.guards then throw .assertion
  let cg ← coarseOf ref freqA freqP cuts
  buildCoarseStorage p cg ref.dt prices ref.T

/-! ## `Storage.fill_level` (repaired) for a storage with a coarse frequency -/

/-- what `Storage.fill_level` adds at full-grid step `t`: for every mapping row of type 'd' of the storage booked at
    `t` the net volume `max(0,-x)·eff_in + min(0,-x)` of the row's variable times the row's `disp_factor`, plus the
    inflow of every minor step of the coarse grid that is `t` (`fill_level[myI] += inflow*timegrid.dt[myI]` per coarse
    step; the minor indices are distinct) -/
def fillIncCoarse (p : StorageP) (M : List MapRow) (cg : CoarseGrid) (dtFine : List Rat) (x : Vec) (t : Nat) : Rat :=
  ((M.filter fun m => m.asset == p.name && m.kind == .d && m.step == t).map fun m =>
      (posPart (-(x m.var)) * p.effIn + negPart (-(x m.var))) * m.factor).sum
  + ((cg.minor.flatten.filter fun s => s == t).map fun s => p.inflow * dtFine.getD s 0).sum

/-- `Storage.fill_level(op, res)` (= the column `<name>_fill_level` of `io.extract_output`): one value per step of
    the FULL grid (`T` steps), cumulated increments plus the start level -/
def fillLevelCoarse (p : StorageP) (M : List MapRow) (cg : CoarseGrid) (dtFine : List Rat) (T : Nat) (x : Vec) : List Rat :=
  (List.range T).map fun t => sumTo (fillIncCoarse p M cg dtFine x) (t + 1) + p.startLevel

/-! ## the fine problem the coarse one is compared with -/

/-- position of the first fine step of coarse step `a` among all fine steps (minor steps in order) -/
def finePos (minor : List (List Nat)) (a : Nat) : Nat := ((minor.take a).map List.length).sum

/-- the storage's parameters for the fine problem: the same, with the block starts (positions among the coarse steps)
    moved to the positions of their first fine steps -/
def fineStorageP (p : StorageP) (cg : CoarseGrid) : StorageP :=
  { p with blocks := p.blocks.map fun aa => aa.map (finePos cg.minor) }

/-- THE FINE PROBLEM a coarse storage is compared with: `Storage.setup_optim_problem` of the `freq=None` path
    (`storageCore`) on the fine steps of the coarse grid (`minorGrid`), with the price series replaced by its plain
    mean per coarse step (the same early return and price look-up in front) -/
def fineStorage (p : StorageP) (ref : Grid) (cg : CoarseGrid) (prices : Prices) (fullT : Nat) :
    Except BuildError AssetProblem :=
  if cg.grid.dt.length = 0 then
    .ok { name := p.name, nodes := p.nodes, c := [], l := [], u := [], rows := [], mapping := [] }
  else do
    let price ← coarseStoragePrice p cg.minor prices fullT
    storageCore (fineStorageP p cg) (minorGrid ref cg) (fun k => price.getD (cg.owner.getD k 0) 0)

/-- share of its coarse step that has elapsed at the END of fine step `k` (fine steps numbered in the order of the
    minor lists): the weights `dt_fine/dt_coarse` of the fine steps `≤ k` of the same coarse step, added up.  It is
    positive, at most one, and one at the last fine step of a coarse step. -/
def cumWeight (owner : List Nat) (w : List Rat) (k : Nat) : Rat :=
  (((List.range (k + 1)).filter fun s => owner.getD s 0 == owner.getD k 0).map fun s => w.getD s 0).sum

/-- `x` carries, in its two blocks of dispatch variables (`disp | -` or `disp_in | disp_out`, `Tf` = number of fine steps
    each), the expansion of the coarse point `z` (blocks of `Tc` variables): fine step `k` of coarse step `owner k` gets
    the share `w k = dt_fine/dt_coarse` of the coarse volume.  `expand … z` and `expandNS … z` are such points
    (`EAO.CoarseStorage.isExpansion_expand`, `isExpansion_expandNS`); further blocks (booleans) are not constrained. -/
def IsExpansion (ref : Grid) (cg : CoarseGrid) (z x : Vec) : Prop :=
  ∀ b, b < 2 → ∀ k, k < cg.owner.length →
    x (cg.owner.length * b + k) = z (cg.grid.T * b + cg.owner.getD k 0) * (cg.weights ref.dt).getD k 0

/-- a coarse point of a storage with the no-simultaneous option (`disp_in | disp_out | bool_1`, `Tc` variables each)
    expanded to the fine variables: the two dispatch blocks as `expand` does (share `dt_fine/dt_coarse` of the coarse
    volume), the block of booleans by copying the coarse step's value to each of its fine steps -/
def expandNS (owner : List Nat) (w : List Rat) (Tc : Nat) (z : Vec) : Vec := fun j =>
  if j / owner.length < 2 then expand owner w Tc z j
  else z (Tc * (j / owner.length) + owner.getD (j % owner.length) 0)

end EAO
