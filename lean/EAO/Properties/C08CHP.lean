import EAO.Lemmas.CHPWindow
import EAO.Lemmas.Contract
import EAO.Lemmas.CHPProfile
/-!
# C08 — horizon and windows (builder side: CHP / Plant and the min-load-cost extension)

As for contracts and transports (`C08.lean`) the builders see the horizon only through the asset's restricted
grid `g` (`g.idx` = the steps of the horizon inside `[start, end)`, `g.T` = their number).  The model of
`CHPAsset.setup_optim_problem` / `Plant` (`buildCHP`) works on top of the problem `base` of the parent class
`Contract`; the model of `CHPAsset_with_min_load_costs` (`buildMinLoad`) on top of any problem `a`.  Proved here:

* `chp_vars_only_in_window`: every mapping row of the built CHP problem — power and heat dispatch, the copies at
  the fuel node, on and start variables — sits at a step of `g.idx`, provided the parent's rows do;
* `chp_no_dispatch_outside_window`: hence the read-out of any node at a step outside `g.idx` is 0, whatever the
  solution (same shape as `C08.no_dispatch_outside_window`);
* `chp_empty_window`: on a grid without steps the CHP builder returns the parent's problem unchanged (what the
  code does: `if self.timegrid.restricted.T == 0: return op`);
* `chp_mapping_asset`: all mapping rows carry the asset's name, provided the parent's rows do;
* `minload_vars_only_in_window`, `minload_no_dispatch_outside_window`, `minload_empty_window`: the same three for
  the min-load-cost builder (its `bool_threshhold` rows sit at steps of `g.idx`; empty window: nothing added);
* `chp_profiles_vars_only_in_window`, `chp_profiles_no_dispatch_outside_window`, `chp_profiles_empty_window`: the same for
  the builder WITH start / shutdown ramp profiles (`buildCHPP`, shutdown variables in addition), and
  `chp_any_vars_only_in_window`, `chp_any_empty_window` for the dispatching builder `buildCHPAny`;
* `chp_on_contract_*`, `minload_chp_on_contract_*`: the chains Contract → CHP (→ min-load) as the classes are
  derived in the code, with the hypothesis on the parent discharged by `contract_wf'`: on a well-formed restricted
  grid all mapping rows sit inside the window, and an empty window gives a problem with no variable, no row and no
  mapping row.
-/
namespace EAO.C08CHP
open EAO EAO.CHPWindow

/-- a mapping all of whose steps are in `idx` reads out 0 at a step outside `idx` -/
private theorem readout_zero {mapping : List MapRow} {idx : List Nat} (h : ∀ m ∈ mapping, m.step ∈ idx)
    (t : Nat) (ht : t ∉ idx) (x : Vec) (n : String) :
    ((mapping.filter fun m => m.step == t && m.node == some n).map fun m => x m.var * m.factor).sum = 0 := by
  have : (mapping.filter fun m => m.step == t && m.node == some n) = [] := by
    apply List.filter_eq_nil_iff.mpr
    intro m hm
    have := h m hm
    simp only [Bool.and_eq_true, beq_iff_eq, not_and]
    intro hst
    exact absurd (hst ▸ this) ht
  rw [this]; rfl

/-! ### CHP / Plant on top of a parent's problem -/

/-- every mapping row of the built CHP / Plant problem (dispatch of power and heat, fuel rows, on and start
    variables alike) sits at a step of the asset's restricted grid, provided the parent's rows do -/
theorem chp_vars_only_in_window {p : CHPP} {base : AssetProblem} {g : Grid} {prices : Prices} {u s : Nat}
    {P : AssetProblem} (hb : ∀ m ∈ base.mapping, m.step ∈ g.idx)
    (h : buildCHP p base g prices u s = .ok P) : ∀ m ∈ P.mapping, m.step ∈ g.idx := by
  rcases buildCHP_cases h with ⟨_, rfl⟩ | ⟨r, hr, rfl⟩
  · exact hb
  · obtain ⟨hidx, hbase, _⟩ := resolveCHP_fields hr
    intro m hm
    rcases assembleCHP_step hm with h1 | ⟨m', hm', e⟩
    · exact hidx ▸ h1
    · rw [e]; exact hb m' (hbase ▸ hm')

/-- … hence zero read-out outside the window, whatever the solution (same shape as
    `C08.no_dispatch_outside_window`) -/
theorem chp_no_dispatch_outside_window {p : CHPP} {base : AssetProblem} {g : Grid} {prices : Prices} {u s : Nat}
    {P : AssetProblem} (hb : ∀ m ∈ base.mapping, m.step ∈ g.idx)
    (h : buildCHP p base g prices u s = .ok P) (t : Nat) (ht : t ∉ g.idx) (x : Vec) (n : String) :
    ((P.mapping.filter fun m => m.step == t && m.node == some n).map fun m => x m.var * m.factor).sum = 0 :=
  readout_zero (chp_vars_only_in_window hb h) t ht x n

/-- empty window: the CHP builder returns the parent's problem unchanged (what the real code returns) -/
theorem chp_empty_window {p : CHPP} {base : AssetProblem} {g : Grid} {prices : Prices} {u s : Nat}
    {P : AssetProblem} (hT : g.T = 0) (h : buildCHP p base g prices u s = .ok P) : P = base := by
  rcases buildCHP_cases h with ⟨_, rfl⟩ | ⟨r, hr, rfl⟩
  · rfl
  · exact (resolveCHP_some_of_empty hT hr).elim

/-- all mapping rows of the built CHP / Plant problem carry the asset's name, provided the parent's rows do -/
theorem chp_mapping_asset {p : CHPP} {base : AssetProblem} {g : Grid} {prices : Prices} {u s : Nat}
    {P : AssetProblem} (hb : ∀ m ∈ base.mapping, m.asset = p.name)
    (h : buildCHP p base g prices u s = .ok P) : ∀ m ∈ P.mapping, m.asset = p.name := by
  rcases buildCHP_cases h with ⟨_, rfl⟩ | ⟨r, hr, rfl⟩
  · exact hb
  · obtain ⟨_, hbase, hname, _⟩ := resolveCHP_fields hr
    intro m hm
    rcases assembleCHP_asset hm with h1 | ⟨m', hm', e⟩
    · exact hname ▸ h1
    · rw [e]; exact hb m' (hbase ▸ hm')

/-! ### min-load costs on top of any problem -/

/-- the min-load-cost builder on top of any problem `a`: every mapping row (those of `a` and the new
    `bool_threshhold` rows) sits at a step of the restricted grid, provided those of `a` do -/
theorem minload_vars_only_in_window {q : MinLoadP} {a : AssetProblem} {g : Grid} {prices : Prices}
    {P : AssetProblem} (ha : ∀ m ∈ a.mapping, m.step ∈ g.idx) (h : buildMinLoad q a g prices = .ok P) :
    ∀ m ∈ P.mapping, m.step ∈ g.idx := by
  intro m hm
  rcases buildMinLoad_mapping h m hm with h1 | h1
  · exact ha m h1
  · exact h1

/-- … hence zero read-out outside the window, whatever the solution -/
theorem minload_no_dispatch_outside_window {q : MinLoadP} {a : AssetProblem} {g : Grid} {prices : Prices}
    {P : AssetProblem} (ha : ∀ m ∈ a.mapping, m.step ∈ g.idx) (h : buildMinLoad q a g prices = .ok P)
    (t : Nat) (ht : t ∉ g.idx) (x : Vec) (n : String) :
    ((P.mapping.filter fun m => m.step == t && m.node == some n).map fun m => x m.var * m.factor).sum = 0 :=
  readout_zero (minload_vars_only_in_window ha h) t ht x n

/-- empty window: the min-load-cost builder returns the parent's problem unchanged -/
theorem minload_empty_window {q : MinLoadP} {a : AssetProblem} {g : Grid} {prices : Prices} {P : AssetProblem}
    (hT : g.T = 0) (h : buildMinLoad q a g prices = .ok P) : P = a :=
  buildMinLoad_empty hT h

/-! ### composed with the model of the parent class: Contract → CHP → min-load -/

/-- CHP / Plant on top of the problem the model of `Contract` returns on the same restricted grid: every mapping
    row sits at a step of the window -/
theorem chp_on_contract_vars_only_in_window {cp : ContractP} {fullT cu : Nat} {p : CHPP} {base : AssetProblem}
    {g : Grid} {prices : Prices} {u s : Nat} {P : AssetProblem} (hg : g.Ok)
    (hbase : buildContract cp g prices fullT cu = .ok base) (h : buildCHP p base g prices u s = .ok P) :
    ∀ m ∈ P.mapping, m.step ∈ g.idx :=
  chp_vars_only_in_window (fun m hm => ((contract_wf' hg hbase).map_ok m hm).2.2.2.1) h

/-- … so no dispatch of power, heat or fuel outside the window -/
theorem chp_on_contract_no_dispatch_outside_window {cp : ContractP} {fullT cu : Nat} {p : CHPP}
    {base : AssetProblem} {g : Grid} {prices : Prices} {u s : Nat} {P : AssetProblem} (hg : g.Ok)
    (hbase : buildContract cp g prices fullT cu = .ok base) (h : buildCHP p base g prices u s = .ok P)
    (t : Nat) (ht : t ∉ g.idx) (x : Vec) (n : String) :
    ((P.mapping.filter fun m => m.step == t && m.node == some n).map fun m => x m.var * m.factor).sum = 0 :=
  readout_zero (chp_on_contract_vars_only_in_window hg hbase h) t ht x n

/-- … and with an empty window the CHP / Plant problem has no variable, no row and no mapping row -/
theorem chp_on_contract_empty_window {cp : ContractP} {fullT cu : Nat} {p : CHPP} {base : AssetProblem}
    {g : Grid} {prices : Prices} {u s : Nat} {P : AssetProblem} (hg : g.Ok) (hT : g.T = 0)
    (hbase : buildContract cp g prices fullT cu = .ok base) (h : buildCHP p base g prices u s = .ok P) :
    P.c = [] ∧ P.l = [] ∧ P.u = [] ∧ P.rows = [] ∧ P.mapping = [] := by
  rw [chp_empty_window hT h]
  exact (contract_wf' hg hbase).empty hT

/-- the three builders chained as the classes are derived (`Contract` → `CHPAsset` → `CHPAsset_with_min_load_costs`):
    every mapping row sits at a step of the window -/
theorem minload_chp_on_contract_vars_only_in_window {cp : ContractP} {fullT cu : Nat} {p : CHPP} {q : MinLoadP}
    {base A : AssetProblem} {g : Grid} {prices : Prices} {u s : Nat} {P : AssetProblem} (hg : g.Ok)
    (hbase : buildContract cp g prices fullT cu = .ok base) (hchp : buildCHP p base g prices u s = .ok A)
    (h : buildMinLoad q A g prices = .ok P) : ∀ m ∈ P.mapping, m.step ∈ g.idx :=
  minload_vars_only_in_window (chp_on_contract_vars_only_in_window hg hbase hchp) h

/-- … so no dispatch outside the window -/
theorem minload_chp_on_contract_no_dispatch_outside_window {cp : ContractP} {fullT cu : Nat} {p : CHPP}
    {q : MinLoadP} {base A : AssetProblem} {g : Grid} {prices : Prices} {u s : Nat} {P : AssetProblem} (hg : g.Ok)
    (hbase : buildContract cp g prices fullT cu = .ok base) (hchp : buildCHP p base g prices u s = .ok A)
    (h : buildMinLoad q A g prices = .ok P) (t : Nat) (ht : t ∉ g.idx) (x : Vec) (n : String) :
    ((P.mapping.filter fun m => m.step == t && m.node == some n).map fun m => x m.var * m.factor).sum = 0 :=
  readout_zero (minload_chp_on_contract_vars_only_in_window hg hbase hchp h) t ht x n

/-- … and with an empty window the chain yields a problem with no variable, no row and no mapping row -/
theorem minload_chp_on_contract_empty_window {cp : ContractP} {fullT cu : Nat} {p : CHPP} {q : MinLoadP}
    {base A : AssetProblem} {g : Grid} {prices : Prices} {u s : Nat} {P : AssetProblem} (hg : g.Ok) (hT : g.T = 0)
    (hbase : buildContract cp g prices fullT cu = .ok base) (hchp : buildCHP p base g prices u s = .ok A)
    (h : buildMinLoad q A g prices = .ok P) :
    P.c = [] ∧ P.l = [] ∧ P.u = [] ∧ P.rows = [] ∧ P.mapping = [] := by
  rw [minload_empty_window hT h]
  exact chp_on_contract_empty_window hg hT hbase hchp

/-! ### with start / shutdown ramp profiles (`buildCHPP`: shutdown variables in addition) -/

/-- every mapping row of the CHP / Plant problem built WITH ramp profiles — dispatch, fuel rows, on, start and
    shutdown variables — sits at a step of the restricted grid, provided the parent's rows do -/
theorem chp_profiles_vars_only_in_window {p : CHPP} {q : CHPProfP} {base : AssetProblem} {g : Grid} {prices : Prices}
    {u s : Nat} {P : AssetProblem} (hb : ∀ m ∈ base.mapping, m.step ∈ g.idx)
    (h : buildCHPP p q base g prices u s = .ok P) : ∀ m ∈ P.mapping, m.step ∈ g.idx :=
  CHPProfile.buildCHPP_window hb h

/-- … hence zero read-out outside the window -/
theorem chp_profiles_no_dispatch_outside_window {p : CHPP} {q : CHPProfP} {base : AssetProblem} {g : Grid}
    {prices : Prices} {u s : Nat} {P : AssetProblem} (hb : ∀ m ∈ base.mapping, m.step ∈ g.idx)
    (h : buildCHPP p q base g prices u s = .ok P) (t : Nat) (ht : t ∉ g.idx) (x : Vec) (n : String) :
    ((P.mapping.filter fun m => m.step == t && m.node == some n).map fun m => x m.var * m.factor).sum = 0 :=
  readout_zero (chp_profiles_vars_only_in_window hb h) t ht x n

/-- empty window: the parent's problem unchanged -/
theorem chp_profiles_empty_window {p : CHPP} {q : CHPProfP} {base : AssetProblem} {g : Grid} {prices : Prices}
    {u s : Nat} {P : AssetProblem} (hT : g.T = 0) (h : buildCHPP p q base g prices u s = .ok P) : P = base :=
  CHPProfile.buildCHPP_empty hT h

/-- the builder for either case (`buildCHPAny`: with a profile `buildCHPP`, without `buildCHP`) -/
theorem chp_any_vars_only_in_window {p : CHPP} {q : CHPProfP} {base : AssetProblem} {g : Grid} {prices : Prices}
    {u s : Nat} {P : AssetProblem} (hb : ∀ m ∈ base.mapping, m.step ∈ g.idx)
    (h : buildCHPAny p q base g prices u s = .ok P) : ∀ m ∈ P.mapping, m.step ∈ g.idx := by
  unfold buildCHPAny at h
  split at h
  · exact chp_profiles_vars_only_in_window hb h
  · exact chp_vars_only_in_window hb h

theorem chp_any_empty_window {p : CHPP} {q : CHPProfP} {base : AssetProblem} {g : Grid} {prices : Prices}
    {u s : Nat} {P : AssetProblem} (hT : g.T = 0) (h : buildCHPAny p q base g prices u s = .ok P) : P = base := by
  unfold buildCHPAny at h
  split at h
  · exact chp_profiles_empty_window hT h
  · exact chp_empty_window hT h

end EAO.C08CHP

/-! ### non-vacuity: concrete instances (evaluated by the kernel) -/
namespace EAO.C08CHP.Ex
open EAO

/-- hourly horizon of six steps; the asset's window keeps steps 3 and 4 -/
def g : Grid := { pts := [10800, 14400], idx := [3, 4], dt := [1, 1], Dt := [3, 4], df := [1, 1] }
def gEmpty : Grid := { pts := [], idx := [], dt := [], Dt := [], df := [] }
def prices : Prices := [("p", [10, 20, 30, 40, 50, 60])]
/-- the parent `Contract` of a CHP with power, heat and fuel node, `min_cap = 1`, `max_cap = 3` -/
def cp : ContractP :=
  { name := "chp", nodes := ["power", "heat", "gas"], price := some "p", extraCosts := .scalar 0,
    minCap := .scalar 1, maxCap := .scalar 3, minTake := [], maxTake := [] }
/-- CHP with start costs and a minimum runtime of two hours (on and start variables) and a fuel node -/
def p : CHPP :=
  { name := "chp", nodes := ["power", "heat", "gas"], noHeat := false, minCap := .scalar 1,
    convFactor := .scalar (1/2), maxShareHeat := none, ramp := none, startCosts := .scalar 5,
    runningCosts := .scalar 0, minRuntime := 2, timeAlreadyRunning := 0, minDowntime := 0, timeAlreadyOff := 0,
    lastDispatch := 0, startFuel := .scalar 1, fuelEfficiency := .scalar (1/2), consumptionIfOn := .scalar 0,
    freqMismatch := false }
def q : MinLoadP := { threshold := some (.scalar 2), costs := some (.scalar 7) }

/-- Contract → CHP → min-load -/
def chain (g : Grid) : Except BuildError AssetProblem := do
  let base ← buildContract cp g prices 6 3600
  let A ← buildCHP p base g prices 3600 3600
  buildMinLoad q A g prices

example : g.Ok ∧ gEmpty.Ok ∧ gEmpty.T = 0 := by decide

-- the chain succeeds: 2 power + 2 heat + 2 on + 2 start rows, their 8 copies at the fuel node, 2 threshold rows,
-- 10 variables, all rows at the steps 3 and 4 of the window
example : (match chain g with
    | .ok P => P.c.length == 10 && P.mapping.length == 18 && P.mapping.all (fun m => m.step == 3 || m.step == 4)
               && P.mapping.map (fun m => (m.var, m.step)) ==
                    [(0, 3), (1, 4), (2, 3), (3, 4), (4, 3), (5, 4), (6, 3), (7, 4),
                     (0, 3), (1, 4), (2, 3), (3, 4), (4, 3), (5, 4), (6, 3), (7, 4), (8, 3), (9, 4)]
               && (P.mapping.filter fun m => m.node == some "gas").length == 8
    | .error _ => false) = true := by decide +kernel

-- empty window: the chain succeeds with an empty problem
example : (match chain gEmpty with
    | .ok P => P.c.isEmpty && P.l.isEmpty && P.u.isEmpty && P.rows.isEmpty && P.mapping.isEmpty
    | .error _ => false) = true := by decide +kernel

end EAO.C08CHP.Ex

/-
`#print axioms` (scratch file importing the built module):
'EAO.C08CHP.chp_vars_only_in_window' depends on axioms: [propext, Classical.choice, Quot.sound]
'EAO.C08CHP.chp_no_dispatch_outside_window' depends on axioms: [propext, Classical.choice, Quot.sound]
'EAO.C08CHP.chp_empty_window' depends on axioms: [propext, Classical.choice, Quot.sound]
'EAO.C08CHP.chp_mapping_asset' depends on axioms: [propext, Classical.choice, Quot.sound]
'EAO.C08CHP.minload_vars_only_in_window' depends on axioms: [propext, Classical.choice, Quot.sound]
'EAO.C08CHP.minload_no_dispatch_outside_window' depends on axioms: [propext, Classical.choice, Quot.sound]
'EAO.C08CHP.minload_empty_window' depends on axioms: [propext, Classical.choice, Quot.sound]
'EAO.C08CHP.chp_on_contract_vars_only_in_window' depends on axioms: [propext, Classical.choice, Quot.sound]
'EAO.C08CHP.chp_on_contract_no_dispatch_outside_window' depends on axioms: [propext, Classical.choice, Quot.sound]
'EAO.C08CHP.chp_on_contract_empty_window' depends on axioms: [propext, Classical.choice, Quot.sound]
'EAO.C08CHP.minload_chp_on_contract_vars_only_in_window' depends on axioms: [propext, Classical.choice, Quot.sound]
'EAO.C08CHP.minload_chp_on_contract_no_dispatch_outside_window' depends on axioms: [propext, Classical.choice, Quot.sound]
'EAO.C08CHP.minload_chp_on_contract_empty_window' depends on axioms: [propext, Classical.choice, Quot.sound]
-/
