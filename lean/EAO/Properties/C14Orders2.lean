import EAO.Model.ObSplit
import EAO.Lemmas.ObSplit2
import EAO.Properties.C14
import EAO.Properties.C14Orders
/-!
# C14 — order books in a split optimisation WITHOUT a certificate (asset level)

`EAO.C14O.split_equals_unsplit_orderbooks` needs the per-instance witness `splitWitnessModInert`.  The missing link was
`EAO.C14B.split_witness_of_banded` for asset problems whose variables belong to one INTERVAL (an order covers several
steps of one interval and is a boolean variable under full execution).  This file has

* `split_witness_of_interval_banded` — the general theorem: asset problems that are `IntervalBanded` for the step lists
  `Is` (every variable mapped, all mapping rows of a variable in the same step lists, one boolean flag per variable;
  booleans ALLOWED), no row across a cut, `Is` a partition of the steps: the unsplit problem IS the block sum of the
  interval problems (`intervalProblem`: every asset restricted to the variables of the interval) up to the explicit
  matching `splitPerm` — cost, bounds, rows as sets, boolean index sets;
* `builders_interval_banded`, `orderbook_interval_banded` — the five builders (through `EAO.C14B.builders_banded`) and the
  order book whose orders cover a step and lie inside one interval are `IntervalBanded`;
* `split_witness_orderbooks_builders`, `split_equals_unsplit_orderbooks_builders` — for every portfolio of the five
  builders plus order books under the decidable `obHyps` (= `splitHyps` ∧ `ordersInsideAll` ∧ `ordersLiveAll`): the
  witness is TRUE, with no certificate, and interval optima (integrality included) concatenate to an optimum of the
  unsplit problem.

The interval problems here are `intervalProblem as skip I`: the assets restricted to the variables at the steps of `I`.
For a contract / transport that IS what the split set-up builds (`EAO.C14B`, `buildSpec_pick`); for an order book it is
the interval's order book WITHOUT the orders that cover no step of the interval (`EAO.C14O.orderbook_interval`:
`AI.subVars (A.keep I) = A.restrictTo I`, the other orders are inert variables of `AI`).

THE LITERAL SPLIT SET-UP (`setupSplitOB`, every order present in every interval, the orders without a step there as
inert variables):

* `assembly_without_inert` — dropping the inert variables of an ASSEMBLED problem (`Problem.dropInert`) IS assembling the
  asset problems without their unmapped variables (`livePart` = `AssetProblem.subVars` on the mapped variables):
  equality of problems (cost, bounds, rows in order, mapping, nodal record), for asset problems whose unmapped
  variables are inert (`InertOK`);
* `orderbook_interval_live`, `builder_interval_live` — the order book built on the interval grid is `InertOK` and its live
  part is the restriction of the unsplit order book; a restricted builder problem has no unmapped variable;
* `split_witness_orderbooks_literal` — for the LITERAL output `ps` of `setupSplitOB` under `obHyps` (and one discount
  factor per step for every book, `booksDfOk`): `splitWitnessModInert U ps (splitPermLive U Is) = true`, no certificate;
  `split_setup_orderbooks_succeeds` — the split set-up succeeds when the unsplit problem has a variable;
* `split_equals_unsplit_orderbooks_literal` (LP), `split_equals_unsplit_orderbooks_literal_bool` (full execution) —
  `EAO.C14O.split_equals_unsplit_orderbooks` WITHOUT a witness hypothesis: optima of the literal interval problems
  (inert variables included, as the optimiser sees them), stripped of the inert entries, concatenated and transported
  along `splitPermLive`, are a feasible and OPTIMAL point of the unsplit problem; the unsplit optimum is the sum of
  the interval optima.

Still excluded by hypothesis (`ordersLiveAll` in `obHyps`): an order that covers no step of the WHOLE grid (an inert
variable of the unsplit problem itself).
-/
namespace EAO.C14O2
open EAO EAO.ObSplit2 EAO.SplitBuild

/-- **The general theorem, variables belonging to one interval.**  Asset problems `as` on the grid `0 .. T-1`, step lists
    `Is` that divide the steps into pieces; every asset problem is `IntervalBanded` (bounds per variable, every
    variable has a mapping row, the mapping rows of a variable all lie in the same step lists and carry the same
    boolean flag) and none of its rows reaches across a cut.  Then the unsplit problem is, up to the matching
    `splitPerm`, the block sum of the interval problems: the witness of `EAO.C14` holds — boolean variables included. -/
theorem split_witness_of_interval_banded (as : List AssetProblem) (T : Nat) (Is : List (List Nat)) (skip : List String)
    (hB : ∀ a ∈ as, IntervalBanded a T Is) (hP : isPartition Is T = true) (hR : ∀ a ∈ as, RowsInside a Is) :
    splitWitness (assemble as (List.range T) skip) (Is.map (intervalProblem as skip))
      (splitPerm (assemble as (List.range T) skip) Is) = true :=
  witness_of_interval_banded as T Is skip hB hP hR

/-- a banded asset problem (one step per variable, no booleans) is interval-banded for any step lists -/
theorem banded_is_interval_banded (a : AssetProblem) (T : Nat) (Is : List (List Nat)) (h : Banded a T) :
    IntervalBanded a T Is :=
  intervalBanded_of_banded h Is

/-- **whatever one of the five builders returns is interval-banded** (for any step lists) -/
theorem builders_interval_banded (a : AssetSpec) (ref : Grid) (prices : Prices) (unitSec : Nat) (A : AssetProblem)
    (Is : List (List Nat)) (hidx : ref.idx = List.range ref.T) (hdt : ref.dt.length = ref.T)
    (hdf : a.df.length = ref.T) (hA : buildSpec a ref prices unitSec = .ok A) : IntervalBanded A ref.T Is :=
  intervalBanded_of_banded (buildSpec_banded a ref prices unitSec A hidx hdt hdf hA) Is

/-- **the order book is interval-banded** (full execution or not) when every order covers a step of the grid and no
    order reaches across a cut; it has no rows at all -/
theorem orderbook_interval_banded (name node : String) (orders : List Order) (fe : Bool) (g : Grid) (T : Nat)
    (Is : List (List Nat)) (hidx : g.idx = List.range g.T) (hT : g.T ≤ T)
    (hlive : ∀ o ∈ orders, coverPos g o ≠ [])
    (hin : ∀ o ∈ orders, ∀ I ∈ Is, orderInside g I o = true) :
    IntervalBanded (orderBookProblem name node orders fe g) T Is ∧
      RowsInside (orderBookProblem name node orders fe g) Is :=
  ⟨orderBook_intervalBanded name node orders fe g T Is hidx hT hlive hin, orderBook_rowsInside name node orders fe g Is⟩

/-- **The witness holds for every portfolio of the five builders plus order books** (no certificate): under `obHyps`
    the unsplit problem `U` of `setupPortfolioOB` is the assembly of asset problems `as`, and it IS — up to `splitPerm` —
    the block sum of the interval problems of `as`. -/
theorem split_witness_orderbooks_builders (specs : List OSpec) (ref : Grid) (cuts : List Int) (prices : Prices)
    (u : Nat) (skip : List String) (U : Problem) (hH : obHyps specs ref cuts prices = true)
    (hU : setupPortfolioOB specs ref prices u skip = .ok U) :
    ∃ as, buildAllOB specs ref prices u = .ok as ∧ U = assemble as (List.range ref.T) skip ∧
      splitWitness U (((splitPairs cuts).map (intervalSteps ref)).map (intervalProblem as skip))
        (splitPerm U ((splitPairs cuts).map (intervalSteps ref))) = true := by
  obtain ⟨as, has, rfl⟩ := setupPortfolioOB_ok hU
  have hH' := hH
  unfold obHyps at hH'
  simp only [Bool.and_eq_true] at hH'
  obtain ⟨hidx, _, _, _, hpart, _⟩ := splitHyps_spec _ ref cuts prices hH'.1.1
  have hAll : ∀ A ∈ as, IntervalBanded A ref.T ((splitPairs cuts).map (intervalSteps ref)) ∧
      RowsInside A ((splitPairs cuts).map (intervalSteps ref)) := by
    intro A hA
    obtain ⟨s, hs, hb⟩ := mapM_mem _ specs as has A hA
    exact buildOSpec_intervalBanded specs ref cuts prices u hH s hs A hb
  rw [hidx]
  exact ⟨as, has, rfl, witness_of_interval_banded as ref.T _ skip (fun A hA => (hAll A hA).1) hpart
    (fun A hA => (hAll A hA).2)⟩

/-- **Split optimum = unsplit optimum for portfolios of the five builders plus order books, no witness hypothesis**
    (full execution included): interval solutions that are feasible and optimal for the interval problems — integrality
    conditions included — concatenated and transported along `splitPerm`, are a feasible and OPTIMAL point of the unsplit
    problem; the unsplit optimal value is the sum of the interval optima. -/
theorem split_equals_unsplit_orderbooks_builders (specs : List OSpec) (ref : Grid) (cuts : List Int) (prices : Prices)
    (u : Nat) (skip : List String) (U : Problem) (hH : obHyps specs ref cuts prices = true)
    (hU : setupPortfolioOB specs ref prices u skip = .ok U) :
    ∃ as, buildAllOB specs ref prices u = .ok as ∧ U = assemble as (List.range ref.T) skip ∧
      ∀ ps, ps = ((splitPairs cuts).map (intervalSteps ref)).map (intervalProblem as skip) →
      ∀ (xs : List (List Rat)), xs.length = ps.length →
        (∀ i, (h : i < ps.length) → (xs.getD i []).length = (ps[i]).n) →
        (∀ i, (h : i < ps.length) → (ps[i]).Feasible (C14.vecOfList (xs.getD i []))) →
        (∀ i, (h : i < ps.length) → ∀ z, (ps[i]).Feasible z →
            (ps[i]).value z ≤ (ps[i]).value (C14.vecOfList (xs.getD i []))) →
        let w := transportAlong (splitPerm U ((splitPairs cuts).map (intervalSteps ref))) (concatVec xs)
        U.Feasible w ∧ (∀ y, U.Feasible y → U.value y ≤ U.value w) ∧
        U.value w = ((List.range ps.length).map fun i => (ps.getD i default).value (C14.vecOfList (xs.getD i []))).sum := by
  obtain ⟨as, has, hUe, hw⟩ := split_witness_orderbooks_builders specs ref cuts prices u skip U hH hU
  refine ⟨as, has, hUe, ?_⟩
  intro ps hps xs hlen hn hfeas hopt
  subst hps
  exact C14.split_equals_unsplit_bool U _ _ hw xs hlen hn hfeas hopt

/-! ## the literal split set-up: inert variables of an assembled problem -/

/-- **Dropping the inert variables of an assembled problem = assembling the asset problems without their unmapped
    variables.**  Asset problems `bs` whose unmapped variables are inert (`InertOK`: bounds per variable, mapping rows
    and rows only over mapped variables, an unmapped variable has zero cost and a non-empty box): the live variables
    of the assembly are the mapped variables of the assets, and the assembly without its inert variables
    (`Problem.dropInert`) EQUALS the assembly of the live parts — cost, bounds, rows (asset rows and nodal rows, in
    order), mapping and nodal record. -/
theorem assembly_without_inert (bs : List AssetProblem) (hB : ∀ b ∈ bs, InertOK b) (gridI : List Nat)
    (skip : List String) :
    (assemble bs gridI skip).live = liveFrom 0 bs ∧
    (assemble bs gridI skip).dropInert = assemble (bs.map livePart) gridI skip :=
  ⟨assemble_live bs hB gridI skip, assemble_dropInert bs hB gridI skip⟩

/-- **the order book of an interval, without its unmapped orders, is the restriction of the unsplit order book**
    (`g` the book's grid, `I` the interval's original steps, no order across the cut), and its unmapped orders are
    inert -/
theorem orderbook_interval_live (name node : String) (orders : List Order) (fe : Bool) (g : Grid) (I : List Nat)
    (hg : g.Ok) (hin : ∀ o ∈ orders, orderInside g I o = true) :
    InertOK (orderBookProblem name node orders fe (g.pick I)) ∧
      livePart (orderBookProblem name node orders fe (g.pick I)) =
        (orderBookProblem name node orders fe g).restrictTo I :=
  orderBook_live name node orders fe g I hg hin

/-- a restricted interval-banded asset problem (what a builder returns in an interval) has no unmapped variable -/
theorem builder_interval_live (a : AssetProblem) (T : Nat) (Is : List (List Nat)) (I : List Nat)
    (h : IntervalBanded a T Is) : InertOK (a.restrictTo I) ∧ livePart (a.restrictTo I) = a.restrictTo I :=
  restrictTo_live h.wb I

/-- **The witness modulo inert variables holds for the LITERAL split set-up, no certificate.**  Every portfolio of
    the five builders plus order books under `obHyps` with one discount factor per step for every book: for the
    unsplit problem `U` of `setupPortfolioOB` and the interval problems `ps` of `setupSplitOB` (every order a variable
    of every interval), the unsplit problem without its inert variables IS the block sum of the interval problems
    without theirs, up to `splitPermLive`. -/
theorem split_witness_orderbooks_literal (specs : List OSpec) (ref : Grid) (cuts : List Int) (prices : Prices)
    (u : Nat) (skip : List String) (U : Problem) (ps : List Problem)
    (hH : obHyps specs ref cuts prices = true) (hdf : booksDfOk specs ref = true)
    (hU : setupPortfolioOB specs ref prices u skip = .ok U)
    (hS : setupSplitOB specs ref cuts prices u skip = .ok ps) :
    splitWitnessModInert U ps (splitPermLive U ((splitPairs cuts).map (intervalSteps ref))) = true :=
  setupSplitOB_witness specs ref cuts prices u skip U ps hH hdf hU hS

/-- the split set-up succeeds when the unsplit set-up does, with at least one variable -/
theorem split_setup_orderbooks_succeeds (specs : List OSpec) (ref : Grid) (cuts : List Int) (prices : Prices)
    (u : Nat) (skip : List String) (U : Problem)
    (hH : obHyps specs ref cuts prices = true) (hdf : booksDfOk specs ref = true)
    (hU : setupPortfolioOB specs ref prices u skip = .ok U) (hpos : 0 < U.n) :
    ∃ ps, setupSplitOB specs ref cuts prices u skip = .ok ps ∧
      splitWitnessModInert U ps (splitPermLive U ((splitPairs cuts).map (intervalSteps ref))) = true := by
  obtain ⟨ps, hS⟩ := setupSplitOB_succeeds specs ref cuts prices u skip U hH hdf hU hpos
  exact ⟨ps, hS, setupSplitOB_witness specs ref cuts prices u skip U ps hH hdf hU hS⟩

/-- **Split optimum = unsplit optimum for the LITERAL split set-up with order books (LP), no witness hypothesis.**
    `ps` the interval problems `setupSplitOB` returns (inert order variables included, as the optimiser sees them): if
    every `xs[i]` is feasible and optimal for `ps[i]`, the interval solutions stripped of the inert entries,
    concatenated, transported along `splitPermLive` and extended by the lower bounds of the inert unsplit variables
    are a feasible and OPTIMAL point of the unsplit problem; the unsplit optimum is the sum of the interval optima. -/
theorem split_equals_unsplit_orderbooks_literal (specs : List OSpec) (ref : Grid) (cuts : List Int) (prices : Prices)
    (u : Nat) (skip : List String) (U : Problem) (ps : List Problem)
    (hH : obHyps specs ref cuts prices = true) (hdf : booksDfOk specs ref = true)
    (hU : setupPortfolioOB specs ref prices u skip = .ok U)
    (hS : setupSplitOB specs ref cuts prices u skip = .ok ps)
    (xs : List (List Rat)) (hlen : xs.length = ps.length)
    (hfeas : ∀ i, (h : i < ps.length) → (ps[i]).FeasibleRelaxed (C14.vecOfList (xs.getD i [])))
    (hopt : ∀ i, (h : i < ps.length) → ∀ z, (ps[i]).FeasibleRelaxed z →
        (ps[i]).value z ≤ (ps[i]).value (C14.vecOfList (xs.getD i []))) :
    let w := extendInert U (transportAlong (splitPermLive U ((splitPairs cuts).map (intervalSteps ref)))
      (concatVec (List.zipWith C14O.stripInert ps xs)))
    U.FeasibleRelaxed w ∧ (∀ y, U.FeasibleRelaxed y → U.value y ≤ U.value w) ∧
    U.value w = ((List.range ps.length).map fun i => (ps.getD i default).value (C14.vecOfList (xs.getD i []))).sum :=
  C14O.split_equals_unsplit_orderbooks U ps _
    (setupSplitOB_witness specs ref cuts prices u skip U ps hH hdf hU hS) xs hlen hfeas hopt

/-- **The same with full execution** (boolean order variables): interval solutions feasible and optimal INCLUDING the
    integrality conditions give a feasible and optimal point of the unsplit problem including its integrality
    conditions. -/
theorem split_equals_unsplit_orderbooks_literal_bool (specs : List OSpec) (ref : Grid) (cuts : List Int)
    (prices : Prices) (u : Nat) (skip : List String) (U : Problem) (ps : List Problem)
    (hH : obHyps specs ref cuts prices = true) (hdf : booksDfOk specs ref = true)
    (hU : setupPortfolioOB specs ref prices u skip = .ok U)
    (hS : setupSplitOB specs ref cuts prices u skip = .ok ps)
    (xs : List (List Rat)) (hlen : xs.length = ps.length)
    (hfeas : ∀ i, (h : i < ps.length) → (ps[i]).Feasible (C14.vecOfList (xs.getD i [])))
    (hopt : ∀ i, (h : i < ps.length) → ∀ z, (ps[i]).Feasible z →
        (ps[i]).value z ≤ (ps[i]).value (C14.vecOfList (xs.getD i []))) :
    let w := extendInert U (transportAlong (splitPermLive U ((splitPairs cuts).map (intervalSteps ref)))
      (concatVec (List.zipWith C14O.stripInert ps xs)))
    U.Feasible w ∧ (∀ y, U.Feasible y → U.value y ≤ U.value w) ∧
    U.value w = ((List.range ps.length).map fun i => (ps.getD i default).value (C14.vecOfList (xs.getD i []))).sum :=
  C14O.split_equals_unsplit_orderbooks_bool U ps _
    (setupSplitOB_witness specs ref cuts prices u skip U ps hH hdf hU hS) xs hlen hfeas hopt

/-! ## non-vacuity

Two hourly steps, cut in the middle.  Node `n`: an order book with one FULL-EXECUTION order per hour and a contract
`sink` (capacities from the price data). -/
section Example
private def exRef : Grid :=
  { pts := [0, 3600], idx := [0, 1], dt := [1, 1], Dt := [1, 2], df := [1, 1] }
private def exCuts : List Int := [0, 3600, 7200]
private def exPrices : Prices := [("p", [3, 3]), ("lo", [-1, -1/2]), ("hi", [0, 0])]
private def exSink : ContractP :=
  { name := "sink", nodes := ["n"], price := some "p", extraCosts := .scalar 0, minCap := .key "lo",
    maxCap := .key "hi", minTake := [], maxTake := [] }
private def exOrders : List Order := [⟨0, 3600, 1, 1⟩, ⟨3600, 7200, 1/2, 1⟩]
private def exSpecs : List OSpec :=
  [.book "ob" "n" exOrders true [1, 1],
   .asset { spec := .simple exSink, start := -1000000, stop := 1000000, df := [1, 1] }]
private def exIs : List (List Nat) := (splitPairs exCuts).map (intervalSteps exRef)
private def exAs : List AssetProblem :=
  match buildAllOB exSpecs exRef exPrices 3600 with | .ok as => as | .error _ => []
private def exU : Problem :=
  match setupPortfolioOB exSpecs exRef exPrices 3600 [] with | .ok U => U | .error _ => default

/-- the hypotheses hold; the unsplit problem has 4 variables, two of them boolean (the orders); the order book is one
    asset problem with 2 variables and a mapping row per covered step -/
example : obHyps exSpecs exRef exCuts exPrices = true ∧ exIs = [[0], [1]] ∧
    exU.n = 4 ∧ exU.boolVars = [0, 1] ∧ exAs.map (·.n) = [2, 2] := by decide +kernel

/-- the theorem's conclusion evaluated: the witness is true, the interval problems have 2 variables each (one order,
    one contract variable), one boolean each, and the matching is not the identity -/
example : splitWitness exU (exIs.map (intervalProblem exAs [])) (splitPerm exU exIs) = true ∧
    (exIs.map (intervalProblem exAs [])).map (·.n) = [2, 2] ∧
    (exIs.map (intervalProblem exAs [])).map (·.boolVars) = [[0], [0]] ∧
    splitPerm exU exIs = [0, 2, 1, 3] := by decide +kernel

/-- an order over BOTH hours is not inside one interval: `obHyps` is false -/
example : obHyps [.book "ob" "n" [⟨0, 7200, 1, 1⟩] true [1, 1],
    .asset { spec := .simple exSink, start := -1000000, stop := 1000000, df := [1, 1] }] exRef exCuts exPrices = false := by
  decide +kernel

/-- `IntervalBanded` is strictly weaker than `Banded`: an order over two steps of ONE interval (cuts at 0 h and 2 h only)
    has two mapping rows at different steps -/
example : ((orderBookProblem "ob" "n" [⟨0, 7200, 1, 1⟩] true exRef).mapping.map fun m => (m.var, m.step, m.isBool)) =
    [(0, 0, true), (0, 1, true)] ∧ orderInside exRef [0, 1] ⟨0, 7200, 1, 1⟩ = true := by decide +kernel
/-- the LITERAL split set-up of the example: it succeeds with two interval problems of THREE variables each (both
    orders + the contract variable; one order inert in each), the hypotheses of `split_witness_orderbooks_literal` hold
    and its conclusion evaluates to true; without the inert variables the interval problems have the cost vectors and
    boolean variables of `intervalProblem` -/
private def exPs : List Problem :=
  match setupSplitOB exSpecs exRef exCuts exPrices 3600 [] with | .ok ps => ps | .error _ => []

example : obHyps exSpecs exRef exCuts exPrices = true ∧ booksDfOk exSpecs exRef = true ∧
    exPs.map (·.n) = [3, 3] ∧ exPs.map Problem.live = [[0, 2], [1, 2]] ∧
    splitWitnessModInert exU exPs (splitPermLive exU exIs) = true ∧
    (exPs.map Problem.dropInert).map (·.c) = (exIs.map (intervalProblem exAs [])).map (·.c) ∧
    (exPs.map Problem.dropInert).map (·.boolVars) = [[0], [0]] ∧ exU.live = [0, 1, 2, 3] := by decide +kernel

/-- `assembly_without_inert` at work on the first interval: the order book of the interval has both orders, its live
    part only the first -/
example : mappedVars (orderBookProblem "ob" "n" exOrders true (exRef.pick [0])) = [0] ∧
    (livePart (orderBookProblem "ob" "n" exOrders true (exRef.pick [0]))).c = [1] ∧
    ((orderBookProblem "ob" "n" exOrders true exRef).restrictTo [0]).c = [1] ∧
    (orderBookProblem "ob" "n" exOrders true (exRef.pick [0])).c = [1, 0] := by decide +kernel
end Example

end EAO.C14O2
