import EAO.Model.ObSplit
import EAO.Lemmas.ObSplit2
import EAO.Properties.C14
import EAO.Properties.C14Orders
/-!
# C14 — order books in a split optimisation WITHOUT a certificate (asset level)

`EAO.C14O.split_equals_unsplit_orderbooks` needs the per-instance witness `splitWitnessModInert`.  The missing link was
`EAO.C14B.split_witness_of_banded` for asset problems whose variables belong to one INTERVAL (an order covers several
steps of one interval and is a boolean variable under full execution).  This file has

* `split_witness_of_interval_banded` — the general theorem: asset problems that are `IntervalBanded` for the step lists
  `Is` (every variable mapped, all mapping rows of a variable in the same step lists, one boolean flag per variable;
  booleans ALLOWED), no row across a cut, `Is` a partition of the steps: the unsplit problem IS the block sum of the
  interval problems (`intervalProblem`: every asset restricted to the variables of the interval) up to the explicit
  matching `splitPerm` — cost, bounds, rows as sets, boolean index sets;
* `builders_interval_banded`, `orderbook_interval_banded` — the five builders (through `EAO.C14B.builders_banded`) and the
  order book whose orders cover a step and lie inside one interval are `IntervalBanded`;
* `split_witness_orderbooks_builders`, `split_equals_unsplit_orderbooks_builders` — for every portfolio of the five
  builders plus order books under the decidable `obHyps` (= `splitHyps` ∧ `ordersInsideAll` ∧ `ordersLiveAll`): the
  witness is TRUE, with no certificate, and interval optima (integrality included) concatenate to an optimum of the
  unsplit problem.

The interval problems here are `intervalProblem as skip I`: the assets restricted to the variables at the steps of `I`.
For a contract / transport that IS what the split set-up builds (`EAO.C14B`, `buildSpec_pick`); for an order book it is
the interval's order book WITHOUT the orders that cover no step of the interval (`EAO.C14O.orderbook_interval`:
`AI.subVars (A.keep I) = A.restrictTo I`, the other orders are inert variables of `AI`).

NOT proved here (TARGET, remaining gap to `splitWitnessModInert U ps (splitPermLive U Is) = true` for the literal
`setupSplitOB`): dropping the inert variables of an ASSEMBLED interval problem (`Problem.dropInert`) equals assembling the
asset problems without their inert variables (`(assemble asI idx skip).dropInert = assemble (asI.map live-part) idx skip`),
and the same for the unsplit problem when an order covers no step at all (`ordersLiveAll` excludes that here).
-/
namespace EAO.C14O2
open EAO EAO.ObSplit2 EAO.SplitBuild

/-- **The general theorem, variables belonging to one interval.**  Asset problems `as` on the grid `0 .. T-1`, step lists
    `Is` that divide the steps into pieces; every asset problem is `IntervalBanded` (bounds per variable, every
    variable has a mapping row, the mapping rows of a variable all lie in the same step lists and carry the same
    boolean flag) and none of its rows reaches across a cut.  Then the unsplit problem is, up to the matching
    `splitPerm`, the block sum of the interval problems: the witness of `EAO.C14` holds — boolean variables included. -/
theorem split_witness_of_interval_banded (as : List AssetProblem) (T : Nat) (Is : List (List Nat)) (skip : List String)
    (hB : ∀ a ∈ as, IntervalBanded a T Is) (hP : isPartition Is T = true) (hR : ∀ a ∈ as, RowsInside a Is) :
    splitWitness (assemble as (List.range T) skip) (Is.map (intervalProblem as skip))
      (splitPerm (assemble as (List.range T) skip) Is) = true :=
  witness_of_interval_banded as T Is skip hB hP hR

/-- a banded asset problem (one step per variable, no booleans) is interval-banded for any step lists -/
theorem banded_is_interval_banded (a : AssetProblem) (T : Nat) (Is : List (List Nat)) (h : Banded a T) :
    IntervalBanded a T Is :=
  intervalBanded_of_banded h Is

/-- **whatever one of the five builders returns is interval-banded** (for any step lists) -/
theorem builders_interval_banded (a : AssetSpec) (ref : Grid) (prices : Prices) (unitSec : Nat) (A : AssetProblem)
    (Is : List (List Nat)) (hidx : ref.idx = List.range ref.T) (hdt : ref.dt.length = ref.T)
    (hdf : a.df.length = ref.T) (hA : buildSpec a ref prices unitSec = .ok A) : IntervalBanded A ref.T Is :=
  intervalBanded_of_banded (buildSpec_banded a ref prices unitSec A hidx hdt hdf hA) Is

/-- **the order book is interval-banded** (full execution or not) when every order covers a step of the grid and no
    order reaches across a cut; it has no rows at all -/
theorem orderbook_interval_banded (name node : String) (orders : List Order) (fe : Bool) (g : Grid) (T : Nat)
    (Is : List (List Nat)) (hidx : g.idx = List.range g.T) (hT : g.T ≤ T)
    (hlive : ∀ o ∈ orders, coverPos g o ≠ [])
    (hin : ∀ o ∈ orders, ∀ I ∈ Is, orderInside g I o = true) :
    IntervalBanded (orderBookProblem name node orders fe g) T Is ∧
      RowsInside (orderBookProblem name node orders fe g) Is :=
  ⟨orderBook_intervalBanded name node orders fe g T Is hidx hT hlive hin, orderBook_rowsInside name node orders fe g Is⟩

/-- **The witness holds for every portfolio of the five builders plus order books** (no certificate): under `obHyps`
    the unsplit problem `U` of `setupPortfolioOB` is the assembly of asset problems `as`, and it IS — up to `splitPerm` —
    the block sum of the interval problems of `as`. -/
theorem split_witness_orderbooks_builders (specs : List OSpec) (ref : Grid) (cuts : List Int) (prices : Prices)
    (u : Nat) (skip : List String) (U : Problem) (hH : obHyps specs ref cuts prices = true)
    (hU : setupPortfolioOB specs ref prices u skip = .ok U) :
    ∃ as, buildAllOB specs ref prices u = .ok as ∧ U = assemble as (List.range ref.T) skip ∧
      splitWitness U (((splitPairs cuts).map (intervalSteps ref)).map (intervalProblem as skip))
        (splitPerm U ((splitPairs cuts).map (intervalSteps ref))) = true := by
  obtain ⟨as, has, rfl⟩ := setupPortfolioOB_ok hU
  have hH' := hH
  unfold obHyps at hH'
  simp only [Bool.and_eq_true] at hH'
  obtain ⟨hidx, _, _, _, hpart, _⟩ := splitHyps_spec _ ref cuts prices hH'.1.1
  have hAll : ∀ A ∈ as, IntervalBanded A ref.T ((splitPairs cuts).map (intervalSteps ref)) ∧
      RowsInside A ((splitPairs cuts).map (intervalSteps ref)) := by
    intro A hA
    obtain ⟨s, hs, hb⟩ := mapM_mem _ specs as has A hA
    exact buildOSpec_intervalBanded specs ref cuts prices u hH s hs A hb
  rw [hidx]
  exact ⟨as, has, rfl, witness_of_interval_banded as ref.T _ skip (fun A hA => (hAll A hA).1) hpart
    (fun A hA => (hAll A hA).2)⟩

/-- **Split optimum = unsplit optimum for portfolios of the five builders plus order books, no witness hypothesis**
    (full execution included): interval solutions that are feasible and optimal for the interval problems — integrality
    conditions included — concatenated and transported along `splitPerm`, are a feasible and OPTIMAL point of the unsplit
    problem; the unsplit optimal value is the sum of the interval optima. -/
theorem split_equals_unsplit_orderbooks_builders (specs : List OSpec) (ref : Grid) (cuts : List Int) (prices : Prices)
    (u : Nat) (skip : List String) (U : Problem) (hH : obHyps specs ref cuts prices = true)
    (hU : setupPortfolioOB specs ref prices u skip = .ok U) :
    ∃ as, buildAllOB specs ref prices u = .ok as ∧ U = assemble as (List.range ref.T) skip ∧
      ∀ ps, ps = ((splitPairs cuts).map (intervalSteps ref)).map (intervalProblem as skip) →
      ∀ (xs : List (List Rat)), xs.length = ps.length →
        (∀ i, (h : i < ps.length) → (xs.getD i []).length = (ps[i]).n) →
        (∀ i, (h : i < ps.length) → (ps[i]).Feasible (C14.vecOfList (xs.getD i []))) →
        (∀ i, (h : i < ps.length) → ∀ z, (ps[i]).Feasible z →
            (ps[i]).value z ≤ (ps[i]).value (C14.vecOfList (xs.getD i []))) →
        let w := transportAlong (splitPerm U ((splitPairs cuts).map (intervalSteps ref))) (concatVec xs)
        U.Feasible w ∧ (∀ y, U.Feasible y → U.value y ≤ U.value w) ∧
        U.value w = ((List.range ps.length).map fun i => (ps.getD i default).value (C14.vecOfList (xs.getD i []))).sum := by
  obtain ⟨as, has, hUe, hw⟩ := split_witness_orderbooks_builders specs ref cuts prices u skip U hH hU
  refine ⟨as, has, hUe, ?_⟩
  intro ps hps xs hlen hn hfeas hopt
  subst hps
  exact C14.split_equals_unsplit_bool U _ _ hw xs hlen hn hfeas hopt

/-! ## non-vacuity

Two hourly steps, cut in the middle.  Node `n`: an order book with one FULL-EXECUTION order per hour and a contract
`sink` (capacities from the price data). -/
section Example
private def exRef : Grid :=
  { pts := [0, 3600], idx := [0, 1], dt := [1, 1], Dt := [1, 2], df := [1, 1] }
private def exCuts : List Int := [0, 3600, 7200]
private def exPrices : Prices := [("p", [3, 3]), ("lo", [-1, -1/2]), ("hi", [0, 0])]
private def exSink : ContractP :=
  { name := "sink", nodes := ["n"], price := some "p", extraCosts := .scalar 0, minCap := .key "lo",
    maxCap := .key "hi", minTake := [], maxTake := [] }
private def exOrders : List Order := [⟨0, 3600, 1, 1⟩, ⟨3600, 7200, 1/2, 1⟩]
private def exSpecs : List OSpec :=
  [.book "ob" "n" exOrders true [1, 1],
   .asset { spec := .simple exSink, start := -1000000, stop := 1000000, df := [1, 1] }]
private def exIs : List (List Nat) := (splitPairs exCuts).map (intervalSteps exRef)
private def exAs : List AssetProblem :=
  match buildAllOB exSpecs exRef exPrices 3600 with | .ok as => as | .error _ => []
private def exU : Problem :=
  match setupPortfolioOB exSpecs exRef exPrices 3600 [] with | .ok U => U | .error _ => default

/-- the hypotheses hold; the unsplit problem has 4 variables, two of them boolean (the orders); the order book is one
    asset problem with 2 variables and a mapping row per covered step -/
example : obHyps exSpecs exRef exCuts exPrices = true ∧ exIs = [[0], [1]] ∧
    exU.n = 4 ∧ exU.boolVars = [0, 1] ∧ exAs.map (·.n) = [2, 2] := by decide +kernel

/-- the theorem's conclusion evaluated: the witness is true, the interval problems have 2 variables each (one order,
    one contract variable), one boolean each, and the matching is not the identity -/
example : splitWitness exU (exIs.map (intervalProblem exAs [])) (splitPerm exU exIs) = true ∧
    (exIs.map (intervalProblem exAs [])).map (·.n) = [2, 2] ∧
    (exIs.map (intervalProblem exAs [])).map (·.boolVars) = [[0], [0]] ∧
    splitPerm exU exIs = [0, 2, 1, 3] := by decide +kernel

/-- an order over BOTH hours is not inside one interval: `obHyps` is false -/
example : obHyps [.book "ob" "n" [⟨0, 7200, 1, 1⟩] true [1, 1],
    .asset { spec := .simple exSink, start := -1000000, stop := 1000000, df := [1, 1] }] exRef exCuts exPrices = false := by
  decide +kernel

/-- `IntervalBanded` is strictly weaker than `Banded`: an order over two steps of ONE interval (cuts at 0 h and 2 h only)
    has two mapping rows at different steps -/
example : ((orderBookProblem "ob" "n" [⟨0, 7200, 1, 1⟩] true exRef).mapping.map fun m => (m.var, m.step, m.isBool)) =
    [(0, 0, true), (0, 1, true)] ∧ orderInside exRef [0, 1] ⟨0, 7200, 1, 1⟩ = true := by decide +kernel
end Example

end EAO.C14O2
