import EAO.Model.CHPProfile
import EAO.Spec.UnitCommit
import EAO.Lemmas.UC
import EAO.Lemmas.CHPCommit
import EAO.Lemmas.CHPProfile
import EAO.Lemmas.CHPProfCommit
/-!
# C06 with start / shutdown ramp profiles — what `EAO/Properties/C06.lean` section (7) left as TARGET

Theorems about `assembleCHPP` (`buildCHPP p q … = .ok a` with a non-empty window means `a = assembleCHPP r` for the
resolved inputs `r : CHPRP`: `CHPProfile.buildCHPP_cases`), the model of `CHPAsset.setup_optim_problem` / `Plant` WITH
`start_ramp_*` / `shutdown_ramp_*` (hence with shutdown variables), and about `convertRamp`, the model of
`CHPAsset._convert_ramp`.

Reading of an assignment `x : Vec`: on `x (r.core.layout.on t)`, start flag `x (r.core.layout.start t)`, shutdown flag
`x (r.shut t)`, heat `x (r.core.layout.heat i)`; `S = r.prof.S`, `Q = r.prof.Q` lengths of the profiles on the grid;
`r.core.R` = minimum runtime in steps INCLUDING `S + Q` (`resolved_wf`).

(a) flags and on/off patterns: `first_step_flags`, `flags_all_steps`, `flags_exact`, `flag_rows_iff`,
    `both_flags_at_last_step_now_rejected`, `commit_rows_iff_spec_prof`, `commit_rows_iff_automaton_prof`,
    `feasible_pattern_respects_spec`, `resolved_wf`.
(b) heat profile rows: `heat_profile_rows`, `heat_start_profile_bounds`, `heat_shutdown_profile_bounds`,
    `heat_outside_ramps`, `heat_profile_needs_shutdown_heat`, `start_heat_profile_ignored`.
(c) `convertRamp`: `convert_ramp_identity`, `ramp_freq_none_is_not_identity`, `convert_ramp_coarse`,
    `convert_ramp_coarse_int`, `convert_ramp_coarse_volume`, `convert_ramp_coarse_volume_preserved`,
    `convert_ramp_fine`, `convert_ramp_fine_first`, `convert_ramp_fine_linear`, `convert_ramp_fine_last`,
    `convert_ramp_fine_volume_not_preserved`, `profile_on_grid_identity`, `convert_ramp_monotone`,
    `profiles_ordered_on_grid`.
(d) ramp rows with any number of flags: `ramp_rows_general`, `ramp_first_lower_general`.
-/
namespace EAO.C06P
open EAO EAO.UC EAO.CHPCommit EAO.CHPProfCommit

/-! ## (a) start / shutdown flags are transition indicators; admissible on/off patterns -/

/-- whatever `resolveCHPP` returns (full set-up): the minimum runtime in steps is the converted `min_runtime` PLUS the
    lengths of the two profiles on the grid, downtime and the initial state are the converted arguments, and — with a
    profile — the result is well formed in the sense the theorems below need (`CommitWFP`) -/
theorem resolved_wf {p : CHPP} {q : CHPProfP} {base : AssetProblem} {g : Grid} {prices : Prices} {u s : Nat} {r : CHPRP}
    (h : resolveCHPP p q base g prices u s false = .ok (some r)) :
    r.core.R = convertSteps p.minRuntime u s + (r.prof.S + r.prof.Q) ∧
    r.core.D = convertSteps p.minDowntime u s ∧
    r.core.tar = convertSteps p.timeAlreadyRunning u s ∧ r.core.tao = convertSteps p.timeAlreadyOff u s ∧
    ((0 < r.prof.S ∨ 0 < r.prof.Q) → CommitWFP r) :=
  resolveCHPP_wf h

/-- the same from a decidable check (for literals) -/
theorem wf_of_ok (r : CHPRP) (h : commitOKP r = true) : CommitWFP r := commitWFP_of_ok r h

/-- STEP 0, every feasible point (no 0/1 hypothesis): after being off (`time_already_running = 0`) `start_0 = on_0` and
    `shut_0 = 0`; after running `start_0 = 0` and `shut_0 = 1 − on_0` — both flags are exact at the first step -/
theorem first_step_flags (r : CHPRP) (hwf : CommitWFP r) (x : Vec) (hx : (assembleCHPP r).FeasibleRelaxed x) :
    (r.core.tar = 0 → x (r.core.layout.start 0) = x (r.core.layout.on 0) ∧ x (r.shut 0) = 0) ∧
    (r.core.tar ≠ 0 → x (r.core.layout.start 0) = 0 ∧ x (r.shut 0) = 1 - x (r.core.layout.on 0)) :=
  CHPProfCommit.first_step_flags r hwf x hx

/-- ALL steps (first and last included), feasible points with 0/1 on / start / shutdown values: both flags are exact
    transition indicators (`FlagExactAt`): the start flag is 1 exactly when the unit switches on at `t` (`StartsAt`:
    off → on; at step 0 "was off and is on"), the shutdown flag exactly when it switches off (`StopsAt`).  (Before the
    repair e7aae05 of /repo the last step admitted "both flags 1, nothing switches".) -/
theorem flags_all_steps (r : CHPRP) (hwf : CommitWFP r) (x : Vec) (hx : (assembleCHPP r).FeasibleRelaxed x)
    (hb : Binary r x) (t : Nat) (ht : t < r.core.T) : FlagExactAt r x t :=
  flags_of_feasible r hwf x hx hb t ht

/-- … the same spelled out, for EVERY step `t < T` -/
theorem flags_exact (r : CHPRP) (hwf : CommitWFP r) (x : Vec) (hx : (assembleCHPP r).FeasibleRelaxed x)
    (hb : Binary r x) (t : Nat) (ht : t < r.core.T) :
    (x (r.core.layout.start t) = 1 ↔ StartsAt r x t) ∧ (x (r.shut t) = 1 ↔ StopsAt r x t) :=
  flags_of_feasible r hwf x hx hb t ht

/-- EXACTLY: on a 0/1 point the start / shutdown definition rows, the exclusion rows and the bounds of the flag variables
    hold iff at every step both flags are exact transition indicators -/
theorem flag_rows_iff (r : CHPRP) (hwf : CommitWFP r) (x : Vec) (hb : Binary r x) :
    ((∀ row ∈ r.startShutRows, row.Sat x) ∧
     (∀ t, t < r.core.T → r.lower.getD (r.core.layout.start t) 0 ≤ x (r.core.layout.start t) ∧
        x (r.core.layout.start t) ≤ r.upper.getD (r.core.layout.start t) 0) ∧
     (∀ t, t < r.core.T → r.lower.getD (r.shut t) 0 ≤ x (r.shut t) ∧ x (r.shut t) ≤ r.upper.getD (r.shut t) 0)) ↔
    ∀ t, t < r.core.T → FlagExactAt r x t :=
  CHPProfCommit.flag_rows_iff r hwf x hb

/-- the former witness of finding 1 of notes/findings_c06prof.md (observation P-2 of notes/findings_chp.md; repaired in
    /repo by commit e7aae05) — `Plant(min 3, max 10, start ramp [1]…[2])` on two steps, on `11`, start `11`, shutdown `01`,
    both flags set at the last step although nothing switches — is now REJECTED by the generated problem, and a 0/1 point
    with both flags set at a step cannot be feasible at all -/
theorem both_flags_at_last_step_now_rejected :
    ¬ (assembleCHPP CHPProfile.witnessLast).FeasibleRelaxed (fun j => [1, 1, 1, 1, 1, 1, 0, 1].getD j 0) ∧
    ∀ (r : CHPRP) (x : Vec), (assembleCHPP r).FeasibleRelaxed x → ∀ t, t < r.core.T →
      ¬ (x (r.core.layout.start t) = 1 ∧ x (r.shut t) = 1) := by
  refine ⟨CHPProfile.last_step_witness_now_rejected.1, ?_⟩
  intro r x hx t ht ⟨h1, h2⟩
  have h := CHPProfile.no_overlap r x hx t ht
  rw [h1, h2] at h
  exact absurd h (by decide +kernel)

/-- (1a) WITH shutdown variables, unbounded in `T`, `R`, `D`, the profile lengths and the initial state: a pattern `on`
    (as 0/1 values of the on variables) extends to a 0/1 assignment of the start and shutdown variables satisfying the
    generated start / shutdown definition rows, exclusion rows, min-runtime and min-downtime rows and the bounds of the
    on, start and shutdown variables iff it satisfies the run-length specification with the minimum runtime
    `r.core.R` = converted `min_runtime` + `S + Q` (`resolved_wf`) -/
theorem commit_rows_iff_spec_prof (r : CHPRP) (hwf : CommitWFP r) (on : List Bool) (hlen : on.length = r.core.T) :
    CommitFeasibleP r on ↔ MinUpDown (ucp r.core) on :=
  CHPProfCommit.commit_rows_iff_spec_prof r hwf on hlen

/-- … and, under the guard in steps, iff the automaton accepts the pattern -/
theorem commit_rows_iff_automaton_prof (r : CHPRP) (hwf : CommitWFP r) (hg : GuardOK (ucp r.core)) (on : List Bool)
    (hlen : on.length = r.core.T) : CommitFeasibleP r on ↔ accepts (ucp r.core) on = true :=
  (commit_rows_iff_spec_prof r hwf on hlen).trans (UC.spec_iff_automaton (ucp r.core) on hg)

/-- every feasible point of the whole generated problem with 0/1 on / start / shutdown values has an on/off pattern that
    respects the (increased) minimum runtime, the minimum downtime and the declared initial state -/
theorem feasible_pattern_respects_spec (r : CHPRP) (hwf : CommitWFP r) (x : Vec)
    (hx : (assembleCHPP r).FeasibleRelaxed x) (hb : Binary r x) (on : List Bool) (hlen : on.length = r.core.T)
    (hon : ∀ t, t < r.core.T → x (r.core.layout.on t) = b2r (on.getD t false)) :
    MinUpDown (ucp r.core) on :=
  feasible_imp_spec r hwf x hx hb on hlen hon

/-! ### non-vacuity of (a): `Plant(min 3, max 10, start ramp [1]…[2], shutdown ramp [1/2]…[1])`, five steps, was off
(`CHPProfile.witnessShut`: `S = Q = 1`, `min_runtime 0`, hence `R = 2`) -/

example : commitOKP CHPProfile.witnessShut = true := by decide +kernel

/-- `11100` is accepted, a run of one step (`01000`) is not: the ramps alone need two steps -/
example : CommitFeasibleP CHPProfile.witnessShut [true, true, true, false, false] ∧
    ¬ CommitFeasibleP CHPProfile.witnessShut [false, true, false, false, false] := by
  have hwf := wf_of_ok CHPProfile.witnessShut (by decide +kernel)
  constructor
  · exact (commit_rows_iff_spec_prof _ hwf _ rfl).mpr (by decide)
  · intro h
    exact absurd ((commit_rows_iff_spec_prof _ hwf _ rfl).mp h) (by decide)

/-- the feasible point `xShut` (on `11100`, dispatch `1, 5, 1, 0, 0`) is 0/1, its pattern satisfies the specification,
    and its flags are exact at every step: start only at 0, shutdown only at 3 -/
example : Binary CHPProfile.witnessShut CHPProfile.xShut ∧
    MinUpDown (ucp CHPProfile.witnessShut.core) [true, true, true, false, false] ∧
    (CHPProfile.xShut (CHPProfile.witnessShut.shut 3) = 1 ↔ StopsAt CHPProfile.witnessShut CHPProfile.xShut 3) := by
  have hwf := wf_of_ok CHPProfile.witnessShut (by decide +kernel)
  have hb : Binary CHPProfile.witnessShut CHPProfile.xShut := by
    intro t ht
    have ht' : t < 5 := ht
    have : t = 0 ∨ t = 1 ∨ t = 2 ∨ t = 3 ∨ t = 4 := by omega
    rcases this with rfl | rfl | rfl | rfl | rfl <;> decide +kernel
  refine ⟨hb, ?_, ?_⟩
  · refine feasible_pattern_respects_spec _ hwf _ CHPProfile.witnessShut_feasible hb _ rfl ?_
    intro t ht
    have ht' : t < 5 := ht
    have : t = 0 ∨ t = 1 ∨ t = 2 ∨ t = 3 ∨ t = 4 := by omega
    rcases this with rfl | rfl | rfl | rfl | rfl <;> decide +kernel
  · exact (flags_exact _ hwf _ CHPProfile.witnessShut_feasible hb 3 (by decide)).2

/-- non-vacuity of `both_flags_at_last_step_now_rejected`: the same plant with exact flags at the last step (start `10`,
    shutdown `00`) and at least `min_cap` there is feasible -/
example : (assembleCHPP CHPProfile.witnessLast).FeasibleRelaxed (fun j => [1, 3, 1, 1, 1, 0, 0, 0].getD j 0) :=
  CHPProfile.last_step_witness_now_rejected.2

/-! ## (b) the heat-profile rows (`heatProfRows`: `start/shutdown_ramp_*_bounds_heat`)

`slh = (r.prof.slh).getD []`, `suh`, `quh` likewise, `qlh` the given shutdown heat lower profile; `m = max_cap_i / conv_i`;
`CHPProfile.tsum l x = Σ coefficient · value` over a coefficient list; `r.startTerms i f` lists `f j` at `start_{i−j}`
(`j < S`, `j ≤ i`), `r.shutTerms i f` lists `f j` at `shut_{i+j+1}` (`j < Q`, `i+j+1 < T`). -/

/-- reading of the two heat rows of a step `i ≥ firstCap`, every feasible point:
    `heat_i ≥ Σ slh_j·start_{i−j} + Σ qlh_j·shut_{i+j+1}` and
    `heat_i − m·on_i + Σ (m − suh_j)·start_{i−j} + Σ (m − quh_j)·shut_{i+j+1} ≤ 0` -/
theorem heat_profile_rows (r : CHPRP) (x : Vec) (hx : (assembleCHPP r).FeasibleRelaxed x) (hh : r.core.heat = true)
    {qlh : List Rat} (hq : r.prof.qlh = some qlh) (i : Nat) (hi : i < r.core.n) (hf : r.firstCap ≤ i) :
    CHPProfile.tsum (r.startTerms i (fun j => (r.prof.slh.getD []).getD j 0)) x +
        CHPProfile.tsum (r.shutTerms i (fun j => qlh.getD j 0)) x ≤ x (r.core.layout.heat i) ∧
    x (r.core.layout.heat i) - r.core.maxCap i / r.core.cv i * x (r.core.layout.on (r.core.stepOff i)) +
        CHPProfile.tsum (r.startTerms i (fun j => r.core.maxCap i / r.core.cv i - (r.prof.suh.getD []).getD j 0)) x +
        CHPProfile.tsum (r.shutTerms i (fun j => r.core.maxCap i / r.core.cv i - (r.prof.quh.getD []).getD j 0)) x ≤ 0 :=
  ⟨(heatProfLower_sat r _ _ x i).mp (CHPProfile.sat_of_memP hx (heatProfLower_mem r hh hq hi hf)),
   (heatProfUpper_sat r _ _ x i).mp (CHPProfile.sat_of_memP hx (heatProfUpper_mem r hh hq hi hf))⟩

/-- in the `k`-th step after a start (exactly that start flag set among those the rows see, no shutdown flag, unit on) the
    HEAT lies within the `k`-th entries of the start heat profile -/
theorem heat_start_profile_bounds (r : CHPRP) (x : Vec) (hx : (assembleCHPP r).FeasibleRelaxed x) (hh : r.core.heat = true)
    {qlh : List Rat} (hq : r.prof.qlh = some qlh) (i : Nat) (hi : i < r.core.n) (hf : r.firstCap ≤ i)
    (k : Nat) (hk : k < r.prof.S) (hki : k ≤ i)
    (hon1 : x (r.core.layout.on (r.core.stepOff i)) = 1) (hs : x (r.core.layout.start (i - k)) = 1)
    (hs0 : ∀ j, j < r.prof.S → j ≤ i → j ≠ k → x (r.core.layout.start (i - j)) = 0)
    (hq0 : ∀ j, j < r.prof.Q → i + j + 1 < r.core.T → x (r.shut (i + j + 1)) = 0) :
    (r.prof.slh.getD []).getD k 0 ≤ x (r.core.layout.heat i) ∧ x (r.core.layout.heat i) ≤ (r.prof.suh.getD []).getD k 0 :=
  CHPProfCommit.heat_start_profile_bounds r x hx hh hq i hi hf k hk hki hon1 hs hs0 hq0

/-- `k + 1` steps before a shutdown the HEAT lies within the `k`-th entries of the shutdown heat profile -/
theorem heat_shutdown_profile_bounds (r : CHPRP) (x : Vec) (hx : (assembleCHPP r).FeasibleRelaxed x)
    (hh : r.core.heat = true) {qlh : List Rat} (hq : r.prof.qlh = some qlh) (i : Nat) (hi : i < r.core.n)
    (hf : r.firstCap ≤ i) (k : Nat) (hk : k < r.prof.Q) (hkT : i + k + 1 < r.core.T)
    (hon1 : x (r.core.layout.on (r.core.stepOff i)) = 1) (hqk : x (r.shut (i + k + 1)) = 1)
    (hq0 : ∀ j, j < r.prof.Q → i + j + 1 < r.core.T → j ≠ k → x (r.shut (i + j + 1)) = 0)
    (hs0 : ∀ j, j < r.prof.S → j ≤ i → x (r.core.layout.start (i - j)) = 0) :
    qlh.getD k 0 ≤ x (r.core.layout.heat i) ∧ x (r.core.layout.heat i) ≤ (r.prof.quh.getD []).getD k 0 :=
  CHPProfCommit.heat_shutdown_profile_bounds r x hx hh hq i hi hf k hk hkT hon1 hqk hq0 hs0

/-- outside the ramps (no flag the rows see is set): `0 ≤ heat_i ≤ (max_cap_i / conv_i)·on_i` -/
theorem heat_outside_ramps (r : CHPRP) (x : Vec) (hx : (assembleCHPP r).FeasibleRelaxed x) (hh : r.core.heat = true)
    {qlh : List Rat} (hq : r.prof.qlh = some qlh) (i : Nat) (hi : i < r.core.n) (hf : r.firstCap ≤ i)
    (hs0 : ∀ j, j < r.prof.S → j ≤ i → x (r.core.layout.start (i - j)) = 0)
    (hq0 : ∀ j, j < r.prof.Q → i + j + 1 < r.core.T → x (r.shut (i + j + 1)) = 0) :
    0 ≤ x (r.core.layout.heat i) ∧
      x (r.core.layout.heat i) ≤ r.core.maxCap i / r.core.cv i * x (r.core.layout.on (r.core.stepOff i)) :=
  CHPProfCommit.heat_outside_ramps r x hx hh hq i hi hf hs0 hq0

/-- heat-profile rows exist ONLY with a heat node and a SHUTDOWN heat lower profile … -/
theorem heat_profile_needs_shutdown_heat (r : CHPRP) (h : r.core.heat = false ∨ r.prof.qlh = none) :
    r.heatProfRows = [] :=
  heatProfRows_nil r h

/-- … so that without it the generated problem does not depend on the start heat profile at all (observation P-1 of
    notes/findings_chp.md: `start_ramp_*_bounds_heat` alone is silently ignored) -/
theorem start_heat_profile_ignored (r : CHPRP) (hq : r.core.heat = false ∨ r.prof.qlh = none) (a b : Option (List Rat)) :
    assembleCHPP { r with prof := { r.prof with slh := a, suh := b } } = assembleCHPP r :=
  assemble_ignores_start_heat r hq a b

/-! ### non-vacuity of (b): `witnessHeat` (CHP with heat node, power and heat profiles, three steps), point `xHeat`:
on `110`, start at 0 with power 1 / heat 1/2, shutdown flagged at 2 with power 1 / heat 1/4 in step 1 -/

/-- step 0 is the step `k = 0` after the start: heat within `[1/2, 1]` -/
example : (1/2 : Rat) ≤ xHeat (witnessHeat.core.layout.heat 0) ∧ xHeat (witnessHeat.core.layout.heat 0) ≤ 1 := by
  refine heat_start_profile_bounds witnessHeat xHeat witnessHeat_feasible rfl (qlh := [1/4]) rfl 0 (by decide) (by decide)
    0 (by decide) (by decide) (by decide +kernel) (by decide +kernel) ?_ ?_
  · intro j h1 _ h3
    have h1' : j < 1 := h1
    omega
  · intro j h1 _
    have h1' : j < 1 := h1
    have : j = 0 := by omega
    subst this
    decide +kernel

/-- step 1 is the last step before the shutdown (`k = 0`): heat within `[1/4, 1/2]` -/
example : (1/4 : Rat) ≤ xHeat (witnessHeat.core.layout.heat 1) ∧ xHeat (witnessHeat.core.layout.heat 1) ≤ 1/2 := by
  refine heat_shutdown_profile_bounds witnessHeat xHeat witnessHeat_feasible rfl (qlh := [1/4]) rfl 1 (by decide) (by decide)
    0 (by decide) (by decide) (by decide +kernel) (by decide +kernel) ?_ ?_
  · intro j h1 _ h3
    have h1' : j < 1 := h1
    omega
  · intro j h1 _
    have h1' : j < 1 := h1
    have : j = 0 := by omega
    subst this
    decide +kernel

/-- the rows bind: heat 3/2 in step 0 (above `suh_0 = 1`) is infeasible -/
example : ¬ (assembleCHPP witnessHeat).FeasibleRelaxed
    (fun j => [1/2, 1, 0, 3/2, 1/4, 0, 1, 1, 0, 1, 0, 0, 0, 0, 1].getD j 0) := by
  unfold AssetProblem.FeasibleRelaxed InBounds
  decide +kernel

/-! ## (c) `convertRamp` = `CHPAsset._convert_ramp` (profile given in `ramp_freq`, `rampSec` seconds; grid step `stepSec`)

`ramp_freq = None` means the grid's MAIN TIME UNIT (`mkProf` is called with `rampFreqSec = unitSec`), and the code
compares frequency STRINGS first (`sameFreq`). -/

/-- identity: equal frequency strings, or equal lengths of `ramp_freq` and the grid step (so also for `ramp_freq = None`
    on a grid whose step IS the main time unit) -/
theorem convert_ramp_identity (ramp : List Rat) (stepSec rampSec : Nat) (same : Bool)
    (h : same = true ∨ (0 < stepSec ∧ rampSec = stepSec)) : convertRamp ramp stepSec rampSec same = ramp := by
  rcases h with h | ⟨h1, h2⟩
  · subst h; rfl
  · subst h2
    cases same
    · exact convertRamp_equal_seconds ramp rampSec h1
    · rfl

/-- `ramp_freq = None` is NOT the identity in general: on a half-hourly grid with main time unit hour the profile `[2, 4]`
    (per hour) becomes `[2, 2, 3, 4]` (checked against the real `_convert_ramp`; this is what the docstring announces) -/
theorem ramp_freq_none_is_not_identity : convertRamp [2, 4] 1800 3600 false = [2, 2, 3, 4] := by decide +kernel

/-- the grid is COARSER than `ramp_freq`, any ratio `ct = stepSec / rampSec ≥ 1`: `⌈n / ct⌉` entries; entry `i` is the
    time-weighted mean over `[i·ct, (i+1)·ct)` of the given values (padded with the last one): the whole given steps
    `⌈i·ct⌉ … ⌊(i+1)·ct⌋ − 1` count fully, the two cut ones with their covered share, divided by `ct` -/
theorem convert_ramp_coarse (ramp : List Rat) (s rs : Nat) (hrs : 0 < rs) (hct : rs ≤ s) :
    convertRamp ramp s rs false =
      (List.range (((ramp.length : Nat) : Rat) * (rs : Rat) / (s : Rat)).ceil.toNat).map fun i =>
        ((((ramp ++ List.replicate ((s : Rat) / (rs : Rat)).ceil.toNat (ramp.getLastD 0)).drop
              (((i : Nat) : Rat) * ((s : Rat) / (rs : Rat))).ceil.toNat).take
            ((((i + 1 : Nat) : Rat) * ((s : Rat) / (rs : Rat))).floor.toNat -
              (((i : Nat) : Rat) * ((s : Rat) / (rs : Rat))).ceil.toNat)).sum +
          ((((((i : Nat) : Rat) * ((s : Rat) / (rs : Rat))).ceil.toNat : Nat) : Rat) - ((i : Nat) : Rat) * ((s : Rat) / (rs : Rat))) *
            (ramp ++ List.replicate ((s : Rat) / (rs : Rat)).ceil.toNat (ramp.getLastD 0)).getD
              ((((i : Nat) : Rat) * ((s : Rat) / (rs : Rat))).ceil.toNat - 1) 0 +
          (((i + 1 : Nat) : Rat) * ((s : Rat) / (rs : Rat)) -
              ((((((i + 1 : Nat) : Rat) * ((s : Rat) / (rs : Rat))).floor.toNat : Nat)) : Rat)) *
            (ramp ++ List.replicate ((s : Rat) / (rs : Rat)).ceil.toNat (ramp.getLastD 0)).getD
              ((((i + 1 : Nat) : Rat) * ((s : Rat) / (rs : Rat))).floor.toNat) 0) /
        ((s : Rat) / (rs : Rat)) :=
  convertRamp_coarse_general ramp s rs hrs hct

/-- … it IS a weighted mean: with `a = i·ct` the two cut shares `⌈a⌉ − a` and `(a+ct) − ⌊a+ct⌋` lie in `[0, 1)`, there are
    `⌊a+ct⌋ − ⌈a⌉ ≥ 0` whole steps in between, and all weights together are `ct` -/
theorem convert_ramp_coarse_weights (a ct : Rat) (ha : 0 ≤ a) (hct : 1 ≤ ct) :
    0 ≤ ((a.ceil.toNat : Nat) : Rat) - a ∧ ((a.ceil.toNat : Nat) : Rat) - a < 1 ∧
    0 ≤ (a + ct) - (((a + ct).floor.toNat : Nat) : Rat) ∧ (a + ct) - (((a + ct).floor.toNat : Nat) : Rat) < 1 ∧
    a.ceil.toNat ≤ (a + ct).floor.toNat ∧
    (((a.ceil.toNat : Nat) : Rat) - a) + ((((a + ct).floor.toNat - a.ceil.toNat : Nat)) : Rat) +
      ((a + ct) - (((a + ct).floor.toNat : Nat) : Rat)) = ct :=
  coarse_weights a ct ha hct

/-- the grid step is `m` given steps (`m ≥ 1` whole): `⌈n/m⌉` entries, entry `i` the plain average of the given values
    `i·m … i·m + m − 1`, the tail padded with the last given value -/
theorem convert_ramp_coarse_int (ramp : List Rat) (m rs : Nat) (hm : 0 < m) (hrs : 0 < rs) :
    convertRamp ramp (m * rs) rs false =
      (List.range ((ramp.length + m - 1) / m)).map fun i =>
        (((ramp ++ List.replicate m (ramp.getLastD 0)).drop (i * m)).take m).sum / (m : Rat) :=
  CHPProfCommit.convertRamp_coarse_int ramp m rs hm hrs

/-- total volume (entries × `m` given steps each): the volume of the given profile PLUS the padding — the last value held
    for the `⌈n/m⌉·m − n` missing given steps of the last grid step -/
theorem convert_ramp_coarse_volume (ramp : List Rat) (m rs : Nat) (hm : 0 < m) (hrs : 0 < rs) :
    (convertRamp ramp (m * rs) rs false).sum * (m : Rat) =
      ramp.sum + (((ramp.length + m - 1) / m * m - ramp.length : Nat) : Rat) * ramp.getLastD 0 :=
  convertRamp_coarse_int_sum ramp m rs hm hrs

/-- … hence the total volume is PRESERVED when the profile fills whole grid steps (`m ∣ n`) -/
theorem convert_ramp_coarse_volume_preserved (ramp : List Rat) (m rs k : Nat) (hm : 0 < m) (hrs : 0 < rs)
    (hk : ramp.length = k * m) : (convertRamp ramp (m * rs) rs false).sum * (m : Rat) = ramp.sum :=
  convertRamp_coarse_int_sum_dvd ramp m rs k hm hrs hk

/-- the padding is real: `[2, 4, 6]` hourly on a two-hourly grid gives `[3, 6]` — volume `18` instead of `12` given hours -/
example : convertRamp [2, 4, 6] 7200 3600 false = [3, 6] ∧
    (convertRamp [2, 4, 6] 7200 3600 false).sum * 2 = ([2, 4, 6] : List Rat).sum + 1 * 6 := by decide +kernel

/-- a ratio that is not whole: `[2, 4, 5]` hourly on a 90-minute grid gives `[(2 + 4/2)/(3/2), (4/2 + 5)/(3/2)]` -/
example : convertRamp [2, 4, 5] 5400 3600 false = [8 / 3, 14 / 3] := by decide +kernel

/-- the grid is FINER than `ramp_freq` by a whole factor `m ≥ 2`: `n·m` entries, entry `k` is `np.interp` at `k + 1`
    through the nodes `(j+1)·m ↦ ramp_j` (the given value is attained at the END of the given step) -/
theorem convert_ramp_fine (ramp : List Rat) (m ss : Nat) (hm : 2 ≤ m) (hss : 0 < ss) :
    convertRamp ramp ss (m * ss) false =
      (List.range (ramp.length * m)).map fun k => interp (fineNodes ramp.length m) ramp ((k + 1 : Nat) : Rat) :=
  convertRamp_fine_int ramp m ss hm hss

/-- … the first `m` fine steps hold the FIRST given value (constant continuation, no rise from zero) -/
theorem convert_ramp_fine_first (ramp : List Rat) (m ss : Nat) (hm : 2 ≤ m) (hss : 0 < ss) (k : Nat) (hk : k < m)
    (hn : 0 < ramp.length) : (convertRamp ramp ss (m * ss) false).getD k 0 = ramp.getD 0 0 :=
  fine_entry_first ramp m ss hm hss k hk hn

/-- … `d < m` fine steps after the end of the `j`-th given step the entry lies on the straight line from the `j`-th to the
    `(j+1)`-th given value; `d = 0`: the `j`-th given value itself -/
theorem convert_ramp_fine_linear (ramp : List Rat) (m ss : Nat) (hm : 2 ≤ m) (hss : 0 < ss) (j d : Nat)
    (hj : j + 1 < ramp.length) (hd : d < m) :
    (convertRamp ramp ss (m * ss) false).getD ((j + 1) * m + d - 1) 0 =
      ramp.getD j 0 + (d : Rat) * ((ramp.getD (j + 1) 0 - ramp.getD j 0) / (m : Rat)) :=
  fine_entry_linear ramp m ss hm hss j d hj hd

/-- … and the last fine step carries the last given value -/
theorem convert_ramp_fine_last (ramp : List Rat) (m ss : Nat) (hm : 2 ≤ m) (hss : 0 < ss) (hn : 0 < ramp.length) :
    (convertRamp ramp ss (m * ss) false).getD (ramp.length * m - 1) 0 = ramp.getD (ramp.length - 1) 0 :=
  fine_entry_last ramp m ss hm hss hn

/-- interpolation does NOT preserve the total volume: `[2, 4]` hourly (volume 6) on a half-hourly grid becomes
    `[2, 2, 3, 4]` per hour, i.e. volume `11/2` -/
theorem convert_ramp_fine_volume_not_preserved :
    (convertRamp [2, 4] 1800 3600 false).sum * (1 / 2) = 11 / 2 ∧ ([2, 4] : List Rat).sum = 6 := by decide +kernel

/-- non-vacuity of the three reading theorems of the fine branch on `[2, 4, 8]` hourly → 15 minutes (`m = 4`) -/
example : (convertRamp [2, 4, 8] 900 3600 false).getD 2 0 = 2 ∧
    (convertRamp [2, 4, 8] 900 3600 false).getD 4 0 = 2 + 1 * ((4 - 2) / 4) ∧
    (convertRamp [2, 4, 8] 900 3600 false).getD 11 0 = 8 :=
  ⟨convert_ramp_fine_first [2, 4, 8] 4 900 (by decide) (by decide) 2 (by decide) (by decide),
   convert_ramp_fine_linear [2, 4, 8] 4 900 (by decide) (by decide) 0 1 (by decide) (by decide),
   convert_ramp_fine_last [2, 4, 8] 4 900 (by decide) (by decide) (by decide)⟩

/-- the profiles on the grid (`mkProf`) when no conversion takes place: the given bounds times step / unit -/
theorem profile_on_grid_identity (q : CHPProfP) (s d : List Rat × List Rat) (stepSec unitSec : Nat)
    (h : q.sameFreq = true ∨ (0 < stepSec ∧ q.rampFreqSec = stepSec)) :
    (mkProf q s d stepSec unitSec).sl = (if s.1.isEmpty then [] else s.1.map (· * ((stepSec : Rat) / (unitSec : Rat)))) ∧
    (mkProf q s d stepSec unitSec).su = (if s.1.isEmpty then [] else s.2.map (· * ((stepSec : Rat) / (unitSec : Rat)))) ∧
    (mkProf q s d stepSec unitSec).ql = (if d.1.isEmpty then [] else d.1.map (· * ((stepSec : Rat) / (unitSec : Rat)))) ∧
    (mkProf q s d stepSec unitSec).qu = (if d.1.isEmpty then [] else d.2.map (· * ((stepSec : Rat) / (unitSec : Rat)))) := by
  simp [mkProf, convert_ramp_identity _ stepSec q.rampFreqSec q.sameFreq h]

/-- `_convert_ramp` is MONOTONE (all three branches, any ratio of the two frequencies): a pointwise smaller profile of the
    same length converts to a pointwise smaller profile of the same length (`LeL` = entry-wise `≤` of equally long lists) -/
theorem convert_ramp_monotone (lo up : List Rat) (h : LeL lo up) (stepSec rampSec : Nat) (hr : 0 < rampSec) (same : Bool) :
    LeL (convertRamp lo stepSec rampSec same) (convertRamp up stepSec rampSec same) :=
  convertRamp_mono lo up h stepSec rampSec hr same

/-- … hence whatever `resolveCHPP` returns has profiles on the grid with `lower ≤ upper` entry by entry and equal lengths,
    for the start and for the shutdown profile — the order the constructor asserts on the given values survives
    interpolation / averaging and the factor step / unit -/
theorem profiles_ordered_on_grid {p : CHPP} {q : CHPProfP} {base : AssetProblem} {g : Grid} {prices : Prices} {u s : Nat}
    {costsOnly : Bool} {r : CHPRP} (h : resolveCHPP p q base g prices u s costsOnly = .ok (some r))
    (hr : 0 < q.rampFreqSec) :
    r.prof.sl.length = r.prof.su.length ∧ (∀ k, r.prof.sl.getD k 0 ≤ r.prof.su.getD k 0) ∧
    r.prof.ql.length = r.prof.qu.length ∧ (∀ k, r.prof.ql.getD k 0 ≤ r.prof.qu.getD k 0) := by
  obtain ⟨sd, hsd, hp⟩ := resolveCHPP_prof h
  obtain ⟨h1, h2⟩ := mkProf_ordered q hsd hr s u
  rw [hp]
  exact ⟨h1.length_eq, h1.getD, h2.length_eq, h2.getD⟩

example : LeL [1, 2] [2, 2] ∧ convertRamp [1, 2] 1800 3600 false = [1, 1, 3 / 2, 2] ∧
    convertRamp [2, 2] 1800 3600 false = [2, 2, 2, 2] :=
  ⟨.cons (by decide +kernel) (.cons (by decide +kernel) .nil), by decide +kernel, by decide +kernel⟩

/-! ## (d) the ramp rows with ANY number of flags in their window (C06.lean (7) has the cases "no flag" and "exactly
one flag": `ramp_steps_outside_ramps`, `CHPProfile.ramp_upper_in_start_ramp`, `ramp_lower_in_shutdown_ramp`) -/

/-- steps `t ≥ 1`: every start flag the upper row sees (`startsSeen = Σ_{i<S, i≤t} start_{t−i}`) relaxes it by
    `max_cap_t − ramp`, every shutdown flag the lower row sees (`shutsSeen = Σ_{i<Q, t+i<T} shut_{t+i}`) by
    `max_cap_{t−1} − ramp` -/
theorem ramp_rows_general (r : CHPRP) (x : Vec) (hx : (assembleCHPP r).FeasibleRelaxed x) (hon : r.core.incOn = true)
    (ρ : Rat) (hρ : r.core.ramp = some ρ) (t : Nat) (h1 : 1 ≤ t) (ht : t < r.core.T) :
    r.core.vd x t ≤ r.core.vd x (t - 1) + ρ * x (r.core.layout.on t) + (r.core.maxCap t - ρ) * startsSeen r x t ∧
    r.core.vd x (t - 1) - ρ * x (r.core.layout.on (t - 1)) - (r.core.maxCap (t - 1) - ρ) * shutsSeen r x t ≤
      r.core.vd x t :=
  CHPProfCommit.ramp_rows_general r x hx hon ρ hρ t h1 ht

/-- first step, lower side: every shutdown flag among the first `Q` steps lifts the comparison with `last_dispatch`
    (observation P-3: `v_0 ≥ last − ramp − (last − ramp)·Σ_{i<Q} shut_i` when already running) -/
theorem ramp_first_lower_general (r : CHPRP) (x : Vec) (hx : (assembleCHPP r).FeasibleRelaxed x)
    (ρ : Rat) (hρ : r.core.ramp = some ρ) :
    (if r.core.tar = 0 then r.core.last else r.core.last - ρ) -
        (r.core.last - ρ) * ((List.range r.prof.Q).map fun i => x (r.shut i)).sum ≤ r.core.vd x 0 :=
  CHPProfCommit.ramp_first_lower_general r x hx ρ hρ

/-- non-vacuity: `Plant(min 3, max 10, ramp 1, start ramp [1/2,1]…[1,2])` started at step 0 with dispatch `1, 2, 3` is
    feasible (`1, 2, 5` is not); at step 1 the upper row sees the start flag of step 0 -/
example : witnessRamp.core.vd xRamp 1 ≤ witnessRamp.core.vd xRamp 0 + 1 * xRamp (witnessRamp.core.layout.on 1) +
      (witnessRamp.core.maxCap 1 - 1) * startsSeen witnessRamp xRamp 1 ∧ startsSeen witnessRamp xRamp 1 = 1 ∧
    ¬ (assembleCHPP witnessRamp).FeasibleRelaxed (fun j => [1, 2, 5, 1, 1, 1, 1, 0, 0, 0, 0, 0].getD j 0) :=
  ⟨(ramp_rows_general witnessRamp xRamp witnessRamp_feasible rfl 1 rfl 1 (by decide) (by decide)).1,
   by decide +kernel, witnessRamp_binds⟩

end EAO.C06P
