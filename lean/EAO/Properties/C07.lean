import EAO.Model.Assemble
import EAO.Model.Readout
import EAO.Model.Lagrange
import EAO.Lemmas.Nodal
import EAO.Lemmas.Wf
/-!
# C07 — the variable mapping is a faithful description of the assembled problem

Property theorems only; helper lemmas go to `EAO/Lemmas/Wf.lean`.
-/
namespace EAO.C07

/-- what every asset problem satisfies (proved for modelled builders, evaluated by the harness on
    every captured real asset problem) -/
structure AssetWF (gridI : List Nat) (a : AssetProblem) : Prop where
  len_l : a.l.length = a.n
  len_u : a.u.length = a.n
  cols  : ∀ r ∈ a.rows, ∀ p ∈ r.coeffs, p.1 < a.n
  map   : ∀ m ∈ a.mapping, m.asset = a.name ∧ m.var < a.n
  disp  : ∀ m ∈ a.mapping, ∀ n, m.kind = .d → m.node = some n → n ∈ a.nodes ∧ m.step ∈ gridI
  noN   : ∀ r ∈ a.rows, r.kind ≠ .N

def offset (as : List AssetProblem) (i : Nat) : Nat := ((as.take i).map (·.n)).sum

/-- one entry per variable in cost and bounds; `n = Σ a.n` -/
theorem assemble_sizes (as : List AssetProblem) (gridI : List Nat) (skip : List String)
    (hwf : ∀ a ∈ as, AssetWF gridI a) :
    (assemble as gridI skip).n = (as.map (·.n)).sum ∧
    (assemble as gridI skip).l.length = (assemble as gridI skip).n ∧
    (assemble as gridI skip).u.length = (assemble as gridI skip).n := by
  refine ⟨assembleFrom_n as 0, ?_, ?_⟩
  · rw [assemble_l, assemble_n, assembleFrom_n]
    exact assembleFrom_l_length as 0 (fun a ha => (hwf a ha).len_l)
  · rw [assemble_u, assemble_n, assembleFrom_n]
    exact assembleFrom_u_length as 0 (fun a ha => (hwf a ha).len_u)

/-- every column index of every row (asset rows and nodal rows) is an existing variable -/
theorem assemble_cols (as : List AssetProblem) (gridI : List Nat) (skip : List String)
    (hwf : ∀ a ∈ as, AssetWF gridI a) : (assemble as gridI skip).WFCols := by
  obtain ⟨hn, hl, hu⟩ := assemble_sizes as gridI skip hwf
  refine ⟨hl, hu, ?_⟩
  intro r hr p hp
  rw [hn]
  rw [assemble_rows, List.mem_append] at hr
  rcases hr with hr | hr
  · have := assembleFrom_cols as 0 (fun a ha => (hwf a ha).cols) r hr p hp
    omega
  · obtain ⟨q, _, rfl⟩ := List.mem_map.mp hr
    obtain ⟨m, hm, _, rfl⟩ := mem_nodalRow_coeffs _ _ _ p hp
    obtain ⟨i, hi, _, _, h3, _⟩ :=
      assembleFrom_mapping_block as 0 (fun a ha => (hwf a ha).map) m hm
    have := offset_add_le as i hi
    show m.var < _
    omega

/-- variable `offset i + j` has exactly asset `i`'s cost and bounds for its variable `j` -/
theorem assemble_block (as : List AssetProblem) (gridI : List Nat) (skip : List String)
    (hwf : ∀ a ∈ as, AssetWF gridI a) (i : Nat) (hi : i < as.length) (j : Nat) (hj : j < (as[i]).n) :
    (assemble as gridI skip).c.getD (offset as i + j) 0 = (as[i]).c.getD j 0 ∧
    (assemble as gridI skip).l.getD (offset as i + j) 0 = (as[i]).l.getD j 0 ∧
    (assemble as gridI skip).u.getD (offset as i + j) 0 = (as[i]).u.getD j 0 := by
  unfold offset
  refine ⟨assembleFrom_c_block as 0 i hi j hj, ?_, ?_⟩
  · exact assembleFrom_l_block as 0 (fun a ha => (hwf a ha).len_l) i hi j hj
  · exact assembleFrom_u_block as 0 (fun a ha => (hwf a ha).len_u) i hi j hj

/-- every mapping row of the assembled problem is the shifted mapping row of exactly the asset it
    names, and points into that asset's block of variables -/
theorem assemble_mapping_faithful (as : List AssetProblem) (gridI : List Nat) (skip : List String)
    (hwf : ∀ a ∈ as, AssetWF gridI a) (m : MapRow) (hm : m ∈ (assemble as gridI skip).mapping) :
    ∃ i, ∃ h : i < as.length, m.asset = (as[i]).name ∧ offset as i ≤ m.var ∧
      m.var < offset as i + (as[i]).n ∧ m.var < (assemble as gridI skip).n ∧
      ∃ m' ∈ (as[i]).mapping, m = m'.shift (offset as i) := by
  rw [assemble_mapping] at hm
  obtain ⟨i, hi, h1, h2, h3, m', hm', h4⟩ :=
    assembleFrom_mapping_block as 0 (fun a ha => (hwf a ha).map) m hm
  have hle := offset_add_le as i hi
  rw [Nat.zero_add] at h2 h3 h4
  refine ⟨i, hi, h1, h2, h3, ?_, m', hm', h4⟩
  rw [assemble_n, assembleFrom_n]
  omega

/-- a variable without any mapping row occurs in no nodal row -/
theorem rowless_not_in_nodal (as : List AssetProblem) (gridI : List Nat) (skip : List String)
    (r : Row) (hr : r ∈ (assemble as gridI skip).rows) (hk : r.kind = .N)
    (hnoN : ∀ a ∈ as, ∀ r ∈ a.rows, r.kind ≠ .N) (p : Nat × Rat) (hp : p ∈ r.coeffs) :
    ∃ m ∈ (assemble as gridI skip).mapping, m.var = p.1 ∧ m.kind = .d := by
  rw [assemble_rows, List.mem_append] at hr
  rcases hr with hr | hr
  · exact absurd hk (assembleFrom_rows_noN as 0 hnoN r hr)
  · obtain ⟨q, _, rfl⟩ := List.mem_map.mp hr
    obtain ⟨m, hm, hd, rfl⟩ := mem_nodalRow_coeffs _ _ _ p hp
    exact ⟨m, hm, rfl, ((isDisp_iff _ _ _).mp hd).1⟩

/-- exactly one nodal row per (node ∉ skip, step) that has dispatch, none otherwise: the nodal
    record has no duplicates, characterises those pairs, and lists the N rows in order -/
theorem nodal_rows_exact (as : List AssetProblem) (gridI : List Nat) (skip : List String)
    (hg : gridI.Nodup) (hwf : ∀ a ∈ as, AssetWF gridI a) :
    (assemble as gridI skip).nodal.Nodup ∧
    (∀ t n, (t, n) ∈ (assemble as gridI skip).nodal ↔
        (n ∉ skip ∧ ∃ m ∈ (assemble as gridI skip).mapping, isDisp n t m = true)) ∧
    ((assemble as gridI skip).rows.filter (·.kind == .N)) =
      (assemble as gridI skip).nodal.map (fun p => nodalRow (assemble as gridI skip).mapping p.2 p.1) := by
  refine ⟨?_, ?_, ?_⟩
  · rw [assemble_nodal]
    exact nodup_nodalPairs _ _ _ _ (nodup_portfolioNodes as) hg
  · intro t n
    rw [assemble_nodal, assemble_mapping, mem_nodalPairs_iff]
    constructor
    · rintro ⟨_, hs, _, hany⟩
      exact ⟨hs, List.any_eq_true.mp hany⟩
    · rintro ⟨hs, m, hm, hd⟩
      have hany : (assembleFrom 0 as).mapping.any (isDisp n t) = true :=
        List.any_eq_true.mpr ⟨m, hm, hd⟩
      obtain ⟨a, ha, m', hm', o, rfl⟩ := mem_assembleFrom_mapping as 0 m hm
      rw [isDisp_shift] at hd
      obtain ⟨hk, hnode, hstep⟩ := (isDisp_iff _ _ _).mp hd
      obtain ⟨hn, ht⟩ := (hwf a ha).disp m' hm' n hk hnode
      rw [hstep] at ht
      exact ⟨mem_portfolioNodes as a ha n hn, hs, ht, hany⟩
  · exact assemble_filter_N as gridI skip (fun a ha => (hwf a ha).noN)

end EAO.C07
