import EAO.Model.Assemble
import EAO.Model.Readout
import EAO.Model.Lagrange
import EAO.Lemmas.Nodal
import EAO.Lemmas.Wf
/-!
# C07 — the variable mapping is a faithful description of the assembled problem

Property theorems only; helper lemmas go to `EAO/Lemmas/Wf.lean`.
-/
namespace EAO.C07

/-- what every asset problem satisfies (proved for modelled builders, evaluated by the harness on
    every captured real asset problem) -/
structure AssetWF (gridI : List Nat) (a : AssetProblem) : Prop where
  len_l : a.l.length = a.n
  len_u : a.u.length = a.n
  cols  : ∀ r ∈ a.rows, ∀ p ∈ r.coeffs, p.1 < a.n
  map   : ∀ m ∈ a.mapping, m.asset = a.name ∧ m.var < a.n
  disp  : ∀ m ∈ a.mapping, ∀ n, m.kind = .d → m.node = some n → n ∈ a.nodes ∧ m.step ∈ gridI
  noN   : ∀ r ∈ a.rows, r.kind ≠ .N

def offset (as : List AssetProblem) (i : Nat) : Nat := ((as.take i).map (·.n)).sum

/-- one entry per variable in cost and bounds; `n = Σ a.n` -/
theorem assemble_sizes (as : List AssetProblem) (gridI : List Nat) (skip : List String)
    (hwf : ∀ a ∈ as, AssetWF gridI a) :
    (assemble as gridI skip).n = (as.map (·.n)).sum ∧
    (assemble as gridI skip).l.length = (assemble as gridI skip).n ∧
    (assemble as gridI skip).u.length = (assemble as gridI skip).n := by
  refine ⟨wf_assembleFrom_n as 0, ?_, ?_⟩
  · rw [assemble_l, assemble_n, wf_assembleFrom_n]
    exact assembleFrom_l_length as 0 (fun a ha => (hwf a ha).len_l)
  · rw [assemble_u, assemble_n, wf_assembleFrom_n]
    exact assembleFrom_u_length as 0 (fun a ha => (hwf a ha).len_u)

/-- every column index of every row (asset rows and nodal rows) is an existing variable -/
theorem assemble_cols (as : List AssetProblem) (gridI : List Nat) (skip : List String)
    (hwf : ∀ a ∈ as, AssetWF gridI a) : (assemble as gridI skip).WFCols := by
  obtain ⟨hn, hl, hu⟩ := assemble_sizes as gridI skip hwf
  refine ⟨hl, hu, ?_⟩
  intro r hr p hp
  rw [hn]
  rw [assemble_rows, List.mem_append] at hr
  rcases hr with hr | hr
  · have := assembleFrom_cols as 0 (fun a ha => (hwf a ha).cols) r hr p hp
    omega
  · obtain ⟨q, _, rfl⟩ := List.mem_map.mp hr
    obtain ⟨m, hm, _, rfl⟩ := mem_nodalRow_coeffs _ _ _ p hp
    obtain ⟨i, hi, _, _, h3, _⟩ :=
      assembleFrom_mapping_block as 0 (fun a ha => (hwf a ha).map) m hm
    have := offset_add_le as i hi
    show m.var < _
    omega

/-- variable `offset i + j` has exactly asset `i`'s cost and bounds for its variable `j` -/
theorem assemble_block (as : List AssetProblem) (gridI : List Nat) (skip : List String)
    (hwf : ∀ a ∈ as, AssetWF gridI a) (i : Nat) (hi : i < as.length) (j : Nat) (hj : j < (as[i]).n) :
    (assemble as gridI skip).c.getD (offset as i + j) 0 = (as[i]).c.getD j 0 ∧
    (assemble as gridI skip).l.getD (offset as i + j) 0 = (as[i]).l.getD j 0 ∧
    (assemble as gridI skip).u.getD (offset as i + j) 0 = (as[i]).u.getD j 0 := by
  unfold offset
  refine ⟨assembleFrom_c_block as 0 i hi j hj, ?_, ?_⟩
  · exact assembleFrom_l_block as 0 (fun a ha => (hwf a ha).len_l) i hi j hj
  · exact assembleFrom_u_block as 0 (fun a ha => (hwf a ha).len_u) i hi j hj

/-- every mapping row of the assembled problem is the shifted mapping row of exactly the asset it
    names, and points into that asset's block of variables -/
theorem assemble_mapping_faithful (as : List AssetProblem) (gridI : List Nat) (skip : List String)
    (hwf : ∀ a ∈ as, AssetWF gridI a) (m : MapRow) (hm : m ∈ (assemble as gridI skip).mapping) :
    ∃ i, ∃ h : i < as.length, m.asset = (as[i]).name ∧ offset as i ≤ m.var ∧
      m.var < offset as i + (as[i]).n ∧ m.var < (assemble as gridI skip).n ∧
      ∃ m' ∈ (as[i]).mapping, m = m'.shift (offset as i) := by
  rw [assemble_mapping] at hm
  obtain ⟨i, hi, h1, h2, h3, m', hm', h4⟩ :=
    assembleFrom_mapping_block as 0 (fun a ha => (hwf a ha).map) m hm
  have hle := offset_add_le as i hi
  rw [Nat.zero_add] at h2 h3 h4
  refine ⟨i, hi, h1, h2, h3, ?_, m', hm', h4⟩
  rw [assemble_n, wf_assembleFrom_n]
  omega

/-- a variable without any mapping row occurs in no nodal row -/
theorem rowless_not_in_nodal (as : List AssetProblem) (gridI : List Nat) (skip : List String)
    (r : Row) (hr : r ∈ (assemble as gridI skip).rows) (hk : r.kind = .N)
    (hnoN : ∀ a ∈ as, ∀ r ∈ a.rows, r.kind ≠ .N) (p : Nat × Rat) (hp : p ∈ r.coeffs) :
    ∃ m ∈ (assemble as gridI skip).mapping, m.var = p.1 ∧ m.kind = .d := by
  rw [assemble_rows, List.mem_append] at hr
  rcases hr with hr | hr
  · exact absurd hk (assembleFrom_rows_noN as 0 hnoN r hr)
  · obtain ⟨q, _, rfl⟩ := List.mem_map.mp hr
    obtain ⟨m, hm, hd, rfl⟩ := mem_nodalRow_coeffs _ _ _ p hp
    exact ⟨m, hm, rfl, ((isDisp_iff _ _ _).mp hd).1⟩

/-- exactly one nodal row per (node ∉ skip, step) that has dispatch, none otherwise: the nodal
    record has no duplicates, characterises those pairs, and lists the N rows in order -/
theorem nodal_rows_exact (as : List AssetProblem) (gridI : List Nat) (skip : List String)
    (hg : gridI.Nodup) (hwf : ∀ a ∈ as, AssetWF gridI a) :
    (assemble as gridI skip).nodal.Nodup ∧
    (∀ t n, (t, n) ∈ (assemble as gridI skip).nodal ↔
        (n ∉ skip ∧ ∃ m ∈ (assemble as gridI skip).mapping, isDisp n t m = true)) ∧
    ((assemble as gridI skip).rows.filter (·.kind == .N)) =
      (assemble as gridI skip).nodal.map (fun p => nodalRow (assemble as gridI skip).mapping p.2 p.1) := by
  refine ⟨?_, ?_, ?_⟩
  · rw [assemble_nodal]
    exact nodup_nodalPairs _ _ _ _ (nodup_portfolioNodes as) hg
  · intro t n
    rw [assemble_nodal, assemble_mapping, mem_nodalPairs_iff]
    constructor
    · rintro ⟨_, hs, _, hany⟩
      exact ⟨hs, List.any_eq_true.mp hany⟩
    · rintro ⟨hs, m, hm, hd⟩
      have hany : (assembleFrom 0 as).mapping.any (isDisp n t) = true :=
        List.any_eq_true.mpr ⟨m, hm, hd⟩
      obtain ⟨a, ha, m', hm', o, rfl⟩ := mem_assembleFrom_mapping as 0 m hm
      rw [isDisp_shift] at hd
      obtain ⟨hk, hnode, hstep⟩ := (isDisp_iff _ _ _).mp hd
      obtain ⟨hn, ht⟩ := (hwf a ha).disp m' hm' n hk hnode
      rw [hstep] at ht
      exact ⟨mem_portfolioNodes as a ha n hn, hs, ht, hany⟩
  · exact assemble_filter_N as gridI skip (fun a ha => (hwf a ha).noN)

/-! ### non-vacuity

Two assets at three nodes on the grid `[0,1,2]`: `exA` (a transport-like asset) has two mapping rows
per variable (one at each of its nodes, with different factors) and one asset row; `exB` has a
dispatch variable at `n2`, a dispatch variable at the skipped node `n3` and a variable without any
mapping row.  Step 2 carries no dispatch, `n3` is in the skip list. -/
def exA : AssetProblem :=
  { name := "a", nodes := ["n1", "n2"], c := [1, 2], l := [0, 0], u := [4, 4],
    rows := [⟨[(0, 1), (1, 1)], 5, .U⟩],
    mapping := [⟨0, "a", some "n1", .d, 0, -1, false, "disp"⟩, ⟨0, "a", some "n2", .d, 0, 9/10, false, "disp"⟩,
                ⟨1, "a", some "n1", .d, 1, -1, false, "disp"⟩, ⟨1, "a", some "n2", .d, 1, 9/10, false, "disp"⟩] }
def exB : AssetProblem :=
  { name := "b", nodes := ["n2", "n3"], c := [3, 0, 7], l := [-1, 0, 0], u := [1, 2, 1],
    rows := [⟨[(2, 1), (0, -1)], 0, .L⟩],
    mapping := [⟨0, "b", some "n2", .d, 1, 2, false, "disp"⟩, ⟨1, "b", some "n3", .d, 0, 1, false, "disp"⟩] }

theorem exWF : ∀ a ∈ [exA, exB], AssetWF [0, 1, 2] a := by
  intro a ha
  simp only [List.mem_cons, List.not_mem_nil, or_false] at ha
  rcases ha with rfl | rfl
  · refine ⟨by decide, by decide, by decide +kernel, by decide +kernel, ?_, by decide⟩
    intro m hm n hk hn
    simp only [exA, List.mem_cons, List.not_mem_nil, or_false] at hm
    rcases hm with rfl | rfl | rfl | rfl <;> simp at hn <;> subst hn <;> simp [exA]
  · refine ⟨by decide, by decide, by decide +kernel, by decide +kernel, ?_, by decide⟩
    intro m hm n hk hn
    simp only [exB, List.mem_cons, List.not_mem_nil, or_false] at hm
    rcases hm with rfl | rfl <;> simp at hn <;> subst hn <;> simp [exB]

/-- the nodal record of the example: node-major, step-minor, nothing for step 2 and for `n3` -/
example : (assemble [exA, exB] [0, 1, 2] ["n3"]).nodal = [(0, "n1"), (1, "n1"), (0, "n2"), (1, "n2")] := by
  decide +kernel

/-- sizes, offsets and the nodal rows of the example (variable 3 = `exB`'s variable 1 sits at the
    skipped node, variable 4 has no mapping row: neither occurs in a nodal row) -/
example : (assemble [exA, exB] [0, 1, 2] ["n3"]).n = 5 ∧ offset [exA, exB] 1 = 2 ∧
    ((assemble [exA, exB] [0, 1, 2] ["n3"]).rows.filter (·.kind == .N)).map (·.coeffs) =
      [[(0, -1)], [(1, -1)], [(0, 9/10)], [(1, 9/10), (2, 2)]] := by
  decide +kernel

/-- the theorems instantiated at the example -/
example := assemble_sizes [exA, exB] [0, 1, 2] ["n3"] exWF
example := assemble_cols [exA, exB] [0, 1, 2] ["n3"] exWF
example := assemble_block [exA, exB] [0, 1, 2] ["n3"] exWF 1 (by decide) 2 (by decide)
example := nodal_rows_exact [exA, exB] [0, 1, 2] ["n3"] (by decide) exWF
example := assemble_mapping_faithful [exA, exB] [0, 1, 2] ["n3"] exWF
  ⟨2, "b", some "n2", .d, 1, 2, false, "disp"⟩ (by decide +kernel)
example := rowless_not_in_nodal [exA, exB] [0, 1, 2] ["n3"]
  (nodalRow (assembleFrom 0 [exA, exB]).mapping "n2" 1)
  (by rw [assemble_rows]
      exact List.mem_append_right _ (List.mem_map.mpr ⟨(1, "n2"), by decide +kernel, rfl⟩))
  rfl (fun a ha => (exWF a ha).noN) (2, 2) (by decide +kernel)

end EAO.C07
