import EAO.Model.Assemble
import EAO.Model.Readout
import EAO.Model.Lagrange
import EAO.Lemmas.Nodal
/-!
# C07 — the variable mapping is a faithful description of the assembled problem

Property theorems only; helper lemmas go to `EAO/Lemmas/Wf.lean`.
-/
namespace EAO.C07

/-- what every asset problem satisfies (proved for modelled builders, evaluated by the harness on
    every captured real asset problem) -/
structure AssetWF (gridI : List Nat) (a : AssetProblem) : Prop where
  len_l : a.l.length = a.n
  len_u : a.u.length = a.n
  cols  : ∀ r ∈ a.rows, ∀ p ∈ r.coeffs, p.1 < a.n
  map   : ∀ m ∈ a.mapping, m.asset = a.name ∧ m.var < a.n
  disp  : ∀ m ∈ a.mapping, ∀ n, m.kind = .d → m.node = some n → n ∈ a.nodes ∧ m.step ∈ gridI
  noN   : ∀ r ∈ a.rows, r.kind ≠ .N

def offset (as : List AssetProblem) (i : Nat) : Nat := ((as.take i).map (·.n)).sum

/-- one entry per variable in cost and bounds; `n = Σ a.n` -/
theorem assemble_sizes (as : List AssetProblem) (gridI : List Nat) (skip : List String)
    (hwf : ∀ a ∈ as, AssetWF gridI a) :
    (assemble as gridI skip).n = (as.map (·.n)).sum ∧
    (assemble as gridI skip).l.length = (assemble as gridI skip).n ∧
    (assemble as gridI skip).u.length = (assemble as gridI skip).n := by
  sorry

/-- every column index of every row (asset rows and nodal rows) is an existing variable -/
theorem assemble_cols (as : List AssetProblem) (gridI : List Nat) (skip : List String)
    (hwf : ∀ a ∈ as, AssetWF gridI a) : (assemble as gridI skip).WFCols := by
  sorry

/-- variable `offset i + j` has exactly asset `i`'s cost and bounds for its variable `j` -/
theorem assemble_block (as : List AssetProblem) (gridI : List Nat) (skip : List String)
    (hwf : ∀ a ∈ as, AssetWF gridI a) (i : Nat) (hi : i < as.length) (j : Nat) (hj : j < (as[i]).n) :
    (assemble as gridI skip).c.getD (offset as i + j) 0 = (as[i]).c.getD j 0 ∧
    (assemble as gridI skip).l.getD (offset as i + j) 0 = (as[i]).l.getD j 0 ∧
    (assemble as gridI skip).u.getD (offset as i + j) 0 = (as[i]).u.getD j 0 := by
  sorry

/-- every mapping row of the assembled problem is the shifted mapping row of exactly the asset it
    names, and points into that asset's block of variables -/
theorem assemble_mapping_faithful (as : List AssetProblem) (gridI : List Nat) (skip : List String)
    (hwf : ∀ a ∈ as, AssetWF gridI a) (m : MapRow) (hm : m ∈ (assemble as gridI skip).mapping) :
    ∃ i, ∃ h : i < as.length, m.asset = (as[i]).name ∧ offset as i ≤ m.var ∧
      m.var < offset as i + (as[i]).n ∧ m.var < (assemble as gridI skip).n ∧
      ∃ m' ∈ (as[i]).mapping, m = m'.shift (offset as i) := by
  sorry

/-- a variable without any mapping row occurs in no nodal row -/
theorem rowless_not_in_nodal (as : List AssetProblem) (gridI : List Nat) (skip : List String)
    (r : Row) (hr : r ∈ (assemble as gridI skip).rows) (hk : r.kind = .N)
    (hnoN : ∀ a ∈ as, ∀ r ∈ a.rows, r.kind ≠ .N) (p : Nat × Rat) (hp : p ∈ r.coeffs) :
    ∃ m ∈ (assemble as gridI skip).mapping, m.var = p.1 ∧ m.kind = .d := by
  sorry

/-- exactly one nodal row per (node ∉ skip, step) that has dispatch, none otherwise: the nodal
    record has no duplicates, characterises those pairs, and lists the N rows in order -/
theorem nodal_rows_exact (as : List AssetProblem) (gridI : List Nat) (skip : List String)
    (hg : gridI.Nodup) (hwf : ∀ a ∈ as, AssetWF gridI a) :
    (assemble as gridI skip).nodal.Nodup ∧
    (∀ t n, (t, n) ∈ (assemble as gridI skip).nodal ↔
        (n ∉ skip ∧ ∃ m ∈ (assemble as gridI skip).mapping, isDisp n t m = true)) ∧
    ((assemble as gridI skip).rows.filter (·.kind == .N)) =
      (assemble as gridI skip).nodal.map (fun p => nodalRow (assemble as gridI skip).mapping p.2 p.1) := by
  sorry

end EAO.C07
