import EAO.Model.Assemble
import EAO.Model.Readout
import EAO.Model.Translate
import EAO.Model.Structured
import EAO.Lemmas.Nodal
import EAO.Lemmas.Structured
/-!
# C01 — nodal balance

Property theorems only; helper lemmas are in `EAO/Lemmas/Nodal.lean`.
`assemble` models `Portfolio.setup_optim_problem`, `dispatchOut` the dispatch loop of
`io.extract_output`.
-/
namespace EAO.C01

/-- Well-formed asset problem: every mapping row carries the asset's own name, and every dispatch
    row sits at one of the asset's nodes and at a step of the grid.  (Proved for the modelled
    builders; evaluated by the harness on every captured real asset problem.) -/
def WF (gridI : List Nat) (a : AssetProblem) : Prop :=
  ∀ m ∈ a.mapping, m.asset = a.name ∧
    ∀ n, m.kind = .d → m.node = some n → n ∈ a.nodes ∧ m.step ∈ gridI

/-- **C01 (monolithic).**  For every list of well-formed asset problems with distinct names, every
    skip list, and every point `x` satisfying the rows of the assembled problem: at every node outside
    the skip list and every step, the dispatches reported for all assets sum to zero — with whatever
    factors (transport efficiency, commodity factors, coarse-frequency weights, fuel factors, order
    capacities) the mapping carries.  Unbounded in the number of assets, nodes, steps and rows per
    variable. -/
theorem nodal_balance (as : List AssetProblem) (gridI : List Nat) (skip : List String)
    (hnd : (as.map (·.name)).Nodup) (hwf : ∀ a ∈ as, WF gridI a)
    (x : Vec) (hx : ∀ r ∈ (assemble as gridI skip).rows, r.Sat x)
    (n : String) (hn : n ∉ skip) (t : Nat) :
    ((as.map (·.name)).map fun a => dispatchOut (assemble as gridI skip).mapping a n t x).sum = 0 := by
  have hcov : ∀ r ∈ (assembleFrom 0 as).mapping, r.asset ∈ as.map (·.name) := by
    intro r hr
    obtain ⟨a, ha, m', hm', o, rfl⟩ := mem_assembleFrom_mapping as 0 r hr
    rw [shift_asset, (hwf a ha m' hm').1]
    exact List.mem_map.mpr ⟨a, ha, rfl⟩
  rw [assemble_mapping, dispatch_sum_eq_nodal _ hnd _ hcov]
  by_cases hany : (assembleFrom 0 as).mapping.any (isDisp n t) = true
  · obtain ⟨m, hm, hd⟩ := List.any_eq_true.mp hany
    obtain ⟨a, ha, m', hm', o, rfl⟩ := mem_assembleFrom_mapping as 0 m hm
    rw [isDisp_shift] at hd
    have hd' : m'.kind = .d ∧ m'.node = some n ∧ m'.step = t := by
      simpa [isDisp, and_assoc] using hd
    obtain ⟨hnode, hstep⟩ := (hwf a ha m' hm').2 n hd'.1 hd'.2.1
    rw [hd'.2.2] at hstep
    have hp := mem_nodalPairs (assembleFrom 0 as).mapping (portfolioNodes as) skip gridI n t
      (mem_portfolioNodes as a ha n hnode) hn hstep hany
    have hrow : nodalRow (assembleFrom 0 as).mapping n t ∈ (assemble as gridI skip).rows := by
      unfold assemble
      simp only [List.mem_append, List.mem_map]
      exact Or.inr ⟨(t, n), hp, rfl⟩
    have hsat := hx _ hrow
    rw [← nodalRow_eval]
    simpa [Row.Sat, nodalRow] using hsat
  · have : (assembleFrom 0 as).mapping.filter (isDisp n t) = [] := by
      apply List.filter_eq_nil_iff.mpr
      intro m hm hd
      exact hany (List.any_eq_true.mpr ⟨m, hm, hd⟩)
    simp [this]

/-- **C01 (split).**  A split problem is a list of interval problems, each assembled from the asset
    problems of its interval, with mapping steps already written back to ORIGINAL grid indices
    (`stepsBack`).  For the concatenation of interval solutions the reported dispatch at an
    original step `t` of node `n` is the sum over intervals; each interval's contribution is zero
    by `nodal_balance`, so the total is zero. -/
theorem nodal_balance_split (intervals : List (List AssetProblem × List Nat)) (skip : List String)
    (hnd : ∀ iv ∈ intervals, (iv.1.map (·.name)).Nodup) (hwf : ∀ iv ∈ intervals, ∀ a ∈ iv.1, WF iv.2 a)
    (xs : List Vec) (hlen : xs.length = intervals.length)
    (hx : ∀ p ∈ intervals.zip xs, ∀ r ∈ (assemble p.1.1 p.1.2 skip).rows, r.Sat p.2)
    (n : String) (hn : n ∉ skip) (t : Nat) :
    ((intervals.zip xs).map fun p =>
      ((p.1.1.map (·.name)).map fun a => dispatchOut (assemble p.1.1 p.1.2 skip).mapping a n t p.2).sum).sum = 0 := by
  have : ∀ p ∈ intervals.zip xs,
      ((p.1.1.map (·.name)).map fun a => dispatchOut (assemble p.1.1 p.1.2 skip).mapping a n t p.2).sum = 0 := by
    intro p hp
    have hmem : p.1 ∈ intervals := (List.of_mem_zip hp).1
    exact nodal_balance p.1.1 p.1.2 skip (hnd _ hmem) (hwf _ hmem) p.2 (hx p hp) n hn t
  rw [List.map_congr_left this]
  exact sum_map_zero _

/-- **C01 (structured).**  The wrapped problem is a well-formed asset problem of the outer portfolio
    (its dispatch rows sit at external nodes only), so `nodal_balance` applies to the outer portfolio
    at the external nodes; and every point satisfying its rows balances the inner portfolio at every
    inner (non-external) node, by `nodal_balance` for the inner assembly. -/
theorem nodal_balance_structured (name : String) (ext : List String) (inner : List AssetProblem)
    (gridI : List Nat) (hwf : ∀ a ∈ inner, WF gridI a) (hnd : (inner.map (·.name)).Nodup) :
    WF gridI (structured name ext inner gridI) ∧
    ∀ x, (∀ r ∈ (structured name ext inner gridI).rows, r.Sat x) → ∀ n, n ∉ ext → ∀ t,
      ((inner.map (·.name)).map fun a => dispatchOut (assemble inner gridI ext).mapping a n t x).sum = 0 := by
  constructor
  · intro m hm
    simp only [structured, List.mem_map] at hm
    obtain ⟨m0, hm0, rfl⟩ := hm
    rw [assemble_mapping] at hm0
    obtain ⟨a, ha, m', hm', o, rfl⟩ := mem_assembleFrom_mapping inner 0 m0 hm0
    have hw := (hwf a ha m' hm').2
    refine ⟨EAO.Structured.structuredMapRow_asset name ext _, ?_⟩
    intro n hk hn
    obtain ⟨hk', hn', hext⟩ := EAO.Structured.structuredMapRow_disp name ext _ n hk hn
    rw [shift_kind] at hk'
    rw [shift_node] at hn'
    show n ∈ ext ∧ _
    rw [EAO.Structured.structuredMapRow_step, shift_step]
    exact ⟨hext, (hw n hk' hn').2⟩
  · intro x hx n hn t
    have hx' : ∀ r ∈ (assemble inner gridI ext).rows, r.Sat x :=
      (EAO.Structured.rows_nToS_sat _ x).mp hx
    exact nodal_balance inner gridI ext hnd hwf x hx' n hn t

/-- non-vacuity: two assets at one node with factors ≠ ±1, a point satisfying the rows, well-formedness -/
def exA : AssetProblem := { name := "a", nodes := ["n"], c := [1], l := [0], u := [4], rows := [], mapping := [⟨0, "a", some "n", .d, 0, 1/2, false, "disp"⟩] }
def exB : AssetProblem := { name := "b", nodes := ["n"], c := [0], l := [-4], u := [0], rows := [], mapping := [⟨0, "b", some "n", .d, 0, 2, false, "disp"⟩] }
def exX : Vec := fun j => if j = 0 then 4 else -1

example : (∀ r ∈ (assemble [exA, exB] [0] []).rows, r.Sat exX) ∧ ([exA, exB].map (·.name)).Nodup := by
  decide +kernel

example : WF [0] exA ∧ WF [0] exB := by
  constructor <;> intro m hm <;> simp [exA, exB] at hm <;> subst hm <;> simp [exA, exB]

end EAO.C01
