import EAO.Lemmas.Linked
/-!
# Linked — `LinkedAsset.setup_optim_problem` (`eaopack/portfolio.py`), model `EAO.Model.Linked`

The linked asset takes the finished problem `S` of its structured set-up and adds, for a variable `v1` of a wrapped asset 1
and a (boolean) variable `v2` of a wrapped asset 2, the restrictions the docstring states as

    v1_t <= u1_t * v2_{t+i}     for all i = -time_back, ..., time_forward  and all steps t,

and sets the upper bound of `v1_t` to zero where asset 2 has not been running long enough (`t + i < -already_running`).
`buildLinked S r aCols` is the literal loop (`r` = names, node names, the three durations converted to steps, `T`;
`aCols` = width of the matrix of `S`).

* `linked_wf`          shape: everything of `S` is kept except upper bounds; new rows are `U` rows with right-hand side 0 over
                       existing columns that belong to variable 1 / variable 2 at steps `< T`.
* `linked_meaning`     what the result says, as an equivalence (unique look-ups `a_t`, `b_s`; `a_t ≠ b_s`; `0 ≤ l(a_t)`, `0 ≤ u(a_t)`;
                       `x(b_s) ∈ {0,1}`): feasible for the linked problem  iff  feasible for `S`, `x(a_t) = 0` where some offset has
                       `t + i < -already_running`, and `x(a_t) > 0 → x(b_{t+i}) = 1` for every offset inside the horizon.
* `linked_forces`      the direction used in practice with fewer hypotheses (nothing on the bounds of `S`).
* `linked_ok`          unique look-ups inside the column range: the set-up succeeds.
* `linked_unit_change` C12: the durations enter only through `ceil(duration · unit / step)` — the conversion of the CHP model.
* `linked_window`      C08: bounds and new rows touch only variables that have a mapping row of `S` at a step `< T` (hence inside
                       any window `W` holding all mapping steps of `S`); the mapping — dispatch rows included — is that of `S`, so
                       the window theorems of the structured asset (`EAO.C08Scaled.structured_*`) apply to the linked asset verbatim.
* `linked_costs_only`  `costs_only` gives the cost vector of `S`, which is the cost vector of the linked problem.

Quirks of the code that the hypotheses exclude, each with a machine-checked witness below: a variable linked to itself
(`a_t = b_t`: the second assignment overwrites the coefficient 1, no restriction results — finding L-1 of pkg-linked, witness `Ex.self_link_no_restriction`); several
labels per look-up (ValueError or a broadcast row); a linked asset whose variables start after step 0 (the loop counter is compared
with absolute steps: IndexError); a structured problem without matrix (AttributeError).
-/
namespace EAO.Linked
open EAO

/-- (1) shape of the linked problem -/
theorem linked_wf {S L : AssetProblem} {r : LinkR} {aCols : Option Nat} (h : buildLinked S r aCols = .ok L) :
    L.name = S.name ∧ L.nodes = S.nodes ∧ L.c = S.c ∧ L.n = S.n ∧ L.l = S.l ∧ L.mapping = S.mapping ∧
      L.u.length = S.u.length ∧
      ∃ N, L.rows = S.rows ++ N ∧ ∀ row ∈ N, row.kind = .U ∧ row.rhs = 0 ∧ ∀ p ∈ row.coeffs,
        (∃ k, aCols = some k ∧ p.1 < k) ∧
        ∃ m ∈ S.mapping, m.var = p.1 ∧ m.step < r.T ∧
          ((m.varName = r.vn1 ∧ m.node = r.nd1) ∨ (m.varName = r.vn2 ∧ m.node = r.nd2)) := by
  have hcols := newRows_cols h
  obtain ⟨rfl, _⟩ := buildLinked_ok h
  refine ⟨rfl, rfl, rfl, rfl, rfl, rfl, by simp [foldl_uStep_length], _, rfl, ?_⟩
  intro row hrow
  obtain ⟨pre, t, post, he, hr⟩ := (mem_newRows _ _).1 hrow
  have ht : t < r.T := List.mem_range.1 (by rw [he]; simp)
  obtain ⟨i, hi, hz, hw, cs, hcs, rfl⟩ := mem_rowsOf.1 hr
  simp only [inWindow, Bool.and_eq_true, decide_eq_true_eq] at hw
  refine ⟨rfl, rfl, ?_⟩
  intro p hp
  refine ⟨hcols _ hrow p hp, ?_⟩
  rcases linkCoeffs_idx hcs p hp with h1 | h2
  · obtain ⟨m, hm, e1, e2, e3, e4⟩ := mem_findVars.1 h1
    exact ⟨m, hm, e1, by omega, Or.inl ⟨e2, e4⟩⟩
  · obtain ⟨m, hm, e1, e2, e3, e4⟩ := mem_findVars.1 h2
    exact ⟨m, hm, e1, by omega, Or.inr ⟨e2, e4⟩⟩

/-- … in particular, when the matrix has one column per variable, every new row mentions existing variables only -/
theorem linked_rows_lt_n {S L : AssetProblem} {r : LinkR} (h : buildLinked S r (some S.n) = .ok L) :
    ∀ row ∈ L.rows.drop S.rows.length, ∀ p ∈ row.coeffs, p.1 < L.n := by
  obtain ⟨_, _, _, hn, _, _, _, N, hN, hrows⟩ := linked_wf h
  intro row hrow p hp
  rw [hN, List.drop_left] at hrow
  obtain ⟨k, hk, hlt⟩ := (hrows row hrow).2.2 p hp |>.1
  cases hk
  rw [hn]; exact hlt

/-- (2) what the linked problem says: for unique look-ups `a_t` (variable 1) and `b_s` (variable 2) that are different
    variables, a non-negative variable 1 (`0 ≤ l`, `0 ≤ u` at `a_t`) and `x(b_s) ∈ {0, 1}`, a point is feasible for the linked
    problem iff it is feasible for the structured problem, vanishes at `a_t` wherever some offset reaches before
    `-already_running`, and has `x(a_t) > 0 → x(b_{t+i}) = 1` for every offset `i ∈ [-time_back, time_forward]` that points
    inside the horizon -/
theorem linked_meaning {S L : AssetProblem} {r : LinkR} {aCols : Option Nat} (h : buildLinked S r aCols = .ok L)
    (a b : Nat → Nat)
    (ha : ∀ t < r.T, findVars S.mapping r.vn1 r.nd1 t = [a t])
    (hb : ∀ s < r.T, findVars S.mapping r.vn2 r.nd2 s = [b s])
    (hab : ∀ t < r.T, ∀ s < r.T, a t ≠ b s)
    (hn : ∀ t < r.T, a t < S.l.length) (hl : ∀ t < r.T, 0 ≤ S.l.getD (a t) 0) (hu : ∀ t < r.T, 0 ≤ S.u.getD (a t) 0)
    (x : Vec) (hbin : ∀ s < r.T, x (b s) = 0 ∨ x (b s) = 1) :
    L.FeasibleRelaxed x ↔
      S.FeasibleRelaxed x ∧ ∀ t < r.T, ∀ i ∈ r.offsets,
        (i + (t : Int) < - r.ar → x (a t) = 0) ∧
        (¬ (i + (t : Int) < - r.ar) → 0 ≤ i + (t : Int) → i + (t : Int) < (r.T : Int) →
          0 < x (a t) → x (b (i + (t : Int)).toNat) = 1) := by
  obtain ⟨rfl, _⟩ := buildLinked_ok h
  unfold AssetProblem.FeasibleRelaxed
  simp only
  rw [show (List.range r.T).foldl (uStep S.mapping r) S.u = finalU S r from rfl, bounds_iff ha hn hl hu x]
  constructor
  · rintro ⟨⟨hx, h0⟩, hrows⟩
    refine ⟨⟨hx, fun row hr => hrows row (List.mem_append_left _ hr)⟩, ?_⟩
    intro t ht i hi
    exact ⟨fun hz => h0 t ht ((zeroT_iff r t).2 ⟨i, hi, hz⟩),
      rows_forward ha hb hab x hbin (fun row hr => hrows row (List.mem_append_right _ hr)) t ht i hi⟩
  · rintro ⟨⟨hx, hS⟩, hc⟩
    have h0 : ∀ t < r.T, zeroT r t = true → x (a t) = 0 := by
      intro t ht hz
      obtain ⟨i, hi, hlt⟩ := (zeroT_iff r t).1 hz
      exact (hc t ht i hi).1 hlt
    refine ⟨⟨hx, h0⟩, ?_⟩
    intro row hrow
    rcases List.mem_append.1 hrow with h1 | h2
    · exact hS row h1
    · exact rows_backward ha hb hab hn hl hu x hbin hx h0 (fun t ht i hi => (hc t ht i hi).2) row h2

/-- the forcing direction without any hypothesis on the bounds of the structured problem: a feasible point of the linked
    problem with `x(b_s) ∈ {0,1}` and `x(a_t) ≥ 0` has `x(a_t) = 0` where asset 2 has not been running long enough and
    `x(a_t) > 0 → x(b_{t+i}) = 1` inside the horizon -/
theorem linked_forces {S L : AssetProblem} {r : LinkR} {aCols : Option Nat} (h : buildLinked S r aCols = .ok L)
    (a b : Nat → Nat)
    (ha : ∀ t < r.T, findVars S.mapping r.vn1 r.nd1 t = [a t])
    (hb : ∀ s < r.T, findVars S.mapping r.vn2 r.nd2 s = [b s])
    (hab : ∀ t < r.T, ∀ s < r.T, a t ≠ b s) (hn : ∀ t < r.T, a t < S.l.length)
    (x : Vec) (hbin : ∀ s < r.T, x (b s) = 0 ∨ x (b s) = 1) (hx0 : ∀ t < r.T, 0 ≤ x (a t))
    (hf : L.FeasibleRelaxed x) :
    ∀ t < r.T, ∀ i ∈ r.offsets,
      (i + (t : Int) < - r.ar → x (a t) = 0) ∧
      (¬ (i + (t : Int) < - r.ar) → 0 ≤ i + (t : Int) → i + (t : Int) < (r.T : Int) →
        0 < x (a t) → x (b (i + (t : Int)).toNat) = 1) := by
  obtain ⟨rfl, _⟩ := buildLinked_ok h
  obtain ⟨hbd, hrows⟩ := hf
  simp only at hbd hrows
  intro t ht i hi
  refine ⟨fun hz => ?_, rows_forward ha hb hab x hbin (fun row hr => hrows row (List.mem_append_right _ hr)) t ht i hi⟩
  have hb1 := (hbd (a t) (hn t ht)).2
  rw [show (List.range r.T).foldl (uStep S.mapping r) S.u = finalU S r from rfl, finalU_getD,
    if_pos (zeroed_of_zeroT ha ht ((zeroT_iff r t).2 ⟨i, hi, hz⟩))] at hb1
  have := hx0 t ht
  grind

/-- unique look-ups inside the column range (and the bound vector): the set-up raises no error -/
theorem linked_ok {S : AssetProblem} {r : LinkR} {k : Nat}
    (ha : ∀ t < r.T, ∃ a, findVars S.mapping r.vn1 r.nd1 t = [a] ∧ a < k ∧ a < S.u.length)
    (hb : ∀ s < r.T, ∃ b, findVars S.mapping r.vn2 r.nd2 s = [b] ∧ b < k) :
    ∃ L, buildLinked S r (some k) = .ok L := by
  obtain ⟨st, hst⟩ := outer_succeeds ha hb (List.range r.T) (fun t ht => List.mem_range.1 ht) { u := S.u, rows := [] } rfl
  exact ⟨_, by unfold buildLinked; rw [hst]⟩

/-- (3) change of the main time unit (C12): the three durations enter only through `ceil(duration · unit / step)`; re-expressed in
    a unit of which `k` make one old unit (durations times `k`, `u' · k = u` seconds) the resolved link is the same, hence the
    linked asset gives the same problem or the same error.  The conversion is that of the CHP model (`convertSteps`), sign kept. -/
theorem linked_unit_change {k : Rat} {u u' : Nat} (hu : (u' : Rat) * k = (u : Rat)) (name : String) (ext : List String)
    (inner : List AssetProblem) (gridI : List Nat) (p : LinkP) (s T : Nat) (aCols : Option Nat) :
    resolveLink name ext (rescaleLink k p) u' s T = resolveLink name ext p u s T ∧
      linkedAsset name ext inner gridI (rescaleLink k p) u' s T aCols = linkedAsset name ext inner gridI p u s T aCols ∧
      (∀ v : Rat, convertSteps v u s = (convertInt v u s).toNat) ∧
      (∀ v : Rat, convertSteps (v * k) u' s = convertSteps v u s) := by
  refine ⟨resolveLink_rescale hu name ext p s T, ?_, fun _ => rfl, fun v => ?_⟩
  · unfold linkedAsset; rw [resolveLink_rescale hu]
  · rw [convertSteps_eq, convertSteps_eq, convertInt_rescale hu]

/-- (4) window statement (C08): the mapping is the structured one; an upper bound that changed belongs to a variable with a
    mapping row (variable 1) at a step `< T`, every column of a new row to a variable with a mapping row at a step `< T` — both
    inside any step set `W` that holds all mapping steps of the structured problem; a variable without a mapping row at a step
    `< T` keeps its bound and occurs in no new row -/
theorem linked_window {S L : AssetProblem} {r : LinkR} {aCols : Option Nat} (h : buildLinked S r aCols = .ok L)
    (W : List Nat) (hW : ∀ m ∈ S.mapping, m.step ∈ W) :
    L.mapping = S.mapping ∧
      (∀ j, L.u.getD j 0 ≠ S.u.getD j 0 →
        ∃ m ∈ S.mapping, m.var = j ∧ m.step ∈ W ∧ m.step < r.T ∧ m.varName = r.vn1 ∧ m.node = r.nd1) ∧
      (∀ row ∈ L.rows.drop S.rows.length, ∀ p ∈ row.coeffs, ∃ m ∈ S.mapping, m.var = p.1 ∧ m.step ∈ W ∧ m.step < r.T) ∧
      (∀ j, (∀ m ∈ S.mapping, m.var = j → r.T ≤ m.step) →
        L.u.getD j 0 = S.u.getD j 0 ∧ ∀ row ∈ L.rows.drop S.rows.length, ∀ p ∈ row.coeffs, p.1 ≠ j) := by
  obtain ⟨_, _, _, _, _, hmap, _, N, hN, hrows⟩ := linked_wf h
  have hbound : ∀ j, L.u.getD j 0 ≠ S.u.getD j 0 →
      ∃ m ∈ S.mapping, m.var = j ∧ m.step ∈ W ∧ m.step < r.T ∧ m.varName = r.vn1 ∧ m.node = r.nd1 := by
    obtain ⟨rfl, _⟩ := buildLinked_ok h
    intro j hj
    simp only at hj
    rw [foldl_uStep_getD] at hj
    by_cases hz : zeroedIn S.mapping r (List.range r.T) j = true
    · obtain ⟨t, ht, _, hmem⟩ := (zeroedIn_iff _ _ _ _).1 hz
      obtain ⟨m, hm, e1, e2, e3, e4⟩ := mem_findVars.1 hmem
      have := List.mem_range.1 ht
      exact ⟨m, hm, e1, hW m hm, by omega, e2, e4⟩
    · rw [if_neg hz] at hj; exact absurd rfl hj
  have hrow : ∀ row ∈ L.rows.drop S.rows.length, ∀ p ∈ row.coeffs,
      ∃ m ∈ S.mapping, m.var = p.1 ∧ m.step ∈ W ∧ m.step < r.T := by
    intro row hr p hp
    rw [hN, List.drop_left] at hr
    obtain ⟨m, hm, e1, e2, _⟩ := ((hrows row hr).2.2 p hp).2
    exact ⟨m, hm, e1, hW m hm, e2⟩
  refine ⟨hmap, hbound, hrow, ?_⟩
  intro j hj
  constructor
  · apply Classical.byContradiction
    intro hne
    obtain ⟨m, hm, e1, _, e2, _⟩ := hbound j hne
    have := hj m hm e1
    omega
  · intro row hr p hp e
    obtain ⟨m, hm, e1, _, e2⟩ := hrow row hr p hp
    have := hj m hm (e1.trans e)
    omega

/-- `costs_only = True`: the cost vector of the structured problem — also the cost vector of the linked problem (the linking rows
    and the zeroed bounds carry no costs) -/
theorem linked_costs_only (S : AssetProblem) (r : LinkR) (aCols : Option Nat) :
    linkedCostsOnly S = S.c ∧ ∀ L, buildLinked S r aCols = .ok L → L.c = linkedCostsOnly S :=
  ⟨rfl, fun _ h => (linked_wf h).2.2.1⟩

end EAO.Linked

/-! ### non-vacuity and witnesses, kernel-evaluated -/
namespace EAO.Linked.Ex
open EAO EAO.Linked

def mrow (v : Nat) (nd : Option String) (k : VarKind) (t : Nat) (b : Bool) (vn : String) : MapRow :=
  { var := v, asset := "lk", node := nd, kind := k, step := t, factor := 1, isBool := b, varName := vn }

/-- three steps: `disp` of asset b (variables 0..2, at most 3 per step) and `bool_on` of asset a (variables 3..5) -/
def S : AssetProblem :=
  { name := "lk", nodes := ["N1"], c := [1, 1, 1, 0, 0, 0], l := [0, 0, 0, 0, 0, 0], u := [3, 3, 3, 1, 1, 1], rows := [],
    mapping := [mrow 0 (some "N1") .d 0 false "disp__b", mrow 1 (some "N1") .d 1 false "disp__b", mrow 2 (some "N1") .d 2 false "disp__b",
                mrow 3 none .i 0 true "bool_on__a", mrow 4 none .i 1 true "bool_on__a", mrow 5 none .i 2 true "bool_on__a"] }

/-- `time_back = 1` step, `time_forward = 0`, asset a has not been running before the horizon -/
def r : LinkR := { vn1 := "disp__b", nd1 := some "N1", vn2 := "bool_on__a", nd2 := none, tb := 1, tf := 0, ar := 0, T := 3 }

-- the loop: step 0 zeroes the bound (offset -1 reaches before the horizon) and still writes the row of offset 0 with the
-- UPDATED bound 0; steps 1, 2 write two rows each
example : (match buildLinked S r (some 6) with
    | .ok L => L.u == [0, 3, 3, 1, 1, 1] && L.l == S.l && L.c == S.c &&
               L.rows.map (·.coeffs) == [[(0, 1), (3, -0)], [(1, 1), (3, -3)], [(1, 1), (4, -3)], [(2, 1), (4, -3)], [(2, 1), (5, -3)]] &&
               L.rows.all (fun w => w.rhs == 0 && w.kind == .U)
    | .error _ => false) = true := by decide +kernel

-- the hypotheses of `linked_meaning` / `linked_forces` / `linked_ok` hold with a_t = t, b_s = 3 + s
example : (∀ t < r.T, findVars S.mapping r.vn1 r.nd1 t = [t]) ∧ (∀ s < r.T, findVars S.mapping r.vn2 r.nd2 s = [3 + s]) ∧
    (∀ t < r.T, ∀ s < r.T, t ≠ 3 + s) ∧ (∀ t < r.T, t < S.l.length) ∧ (∀ t < r.T, 0 ≤ S.l.getD t 0) ∧
    (∀ t < r.T, 0 ≤ S.u.getD t 0) := by decide +kernel

example : (∀ t < r.T, ∃ a, findVars S.mapping r.vn1 r.nd1 t = [a] ∧ a < 6 ∧ a < S.u.length) ∧
    (∀ s < r.T, ∃ b, findVars S.mapping r.vn2 r.nd2 s = [b] ∧ b < 6) :=
  ⟨fun t ht => ⟨t, by revert t; decide +kernel⟩, fun s hs => ⟨3 + s, by revert s; decide +kernel⟩⟩

-- a point that satisfies the right-hand side of `linked_meaning`: asset a on at steps 0..2, b dispatches from step 1 on;
-- it satisfies every row of the linked problem (and b dispatching at step 0 violates the zeroed bound)
def x : Vec := fun j => [0, 2, 3, 1, 1, 1].getD j 0
example : (match buildLinked S r (some 6) with
    | .ok L => L.rows.all (fun w => decide (w.Sat x)) && (List.range 6).all (fun j => decide (L.l.getD j 0 ≤ x j ∧ x j ≤ L.u.getD j 0))
    | .error _ => false) = true := by decide +kernel
example : (match buildLinked S r (some 6) with
    | .ok L => decide ((fun j => [1, 2, 3, 1, 1, 1].getD j 0) 0 ≤ L.u.getD 0 0)
    | .error _ => true) = false := by decide +kernel
-- b dispatching at step 2 while a was off at step 1 violates a row
example : (match buildLinked S r (some 6) with
    | .ok L => L.rows.all (fun w => decide (w.Sat (fun j => [0, 0, 3, 1, 0, 1].getD j 0)))
    | .error _ => true) = false := by decide +kernel

-- unit change: 1 h back on a 15-minute grid = 60 min back = 4 steps; 0.3 h = 18 min = 2 steps (ceil)
example : convertInt 1 3600 900 = 4 ∧ convertInt 60 60 900 = 4 ∧ convertInt (3/10) 3600 900 = 2 ∧ convertInt 18 60 900 = 2 ∧
    convertInt (-1/2) 3600 3600 = 0 ∧ convertInt (-3/2) 3600 3600 = -1 ∧ ((60 : Nat) : Rat) * 60 = ((3600 : Nat) : Rat) := by
  decide +kernel

/-! witnesses for the quirks the hypotheses exclude -/

/-- the error class of a set-up, `none` when it succeeds -/
def errOf (e : Except LinkError AssetProblem) : Option LinkError := match e with | .ok _ => none | .error c => some c

/-- L-1: a variable linked to itself (`a_t = b_t`): the assignment `a[0, I2] = -u` overwrites `a[0, I1] = 1`; the row is
    `-u · x ≤ 0`, no restriction for `u ≥ 0` — the docstring's `v1_t <= u1_t * v2_t` would force `x = 0` for `u < 1` -/
theorem self_link_no_restriction :
    (match buildLinked { name := "lk", nodes := ["N1"], c := [0], l := [0], u := [1/2], rows := [],
                         mapping := [mrow 0 (some "N1") .d 0 false "x__A"] }
        { vn1 := "x__A", nd1 := some "N1", vn2 := "x__A", nd2 := some "N1", tb := 0, tf := 0, ar := 0, T := 1 } (some 1) with
      | .ok L => L.rows.map (·.coeffs) == [[(0, -1/2)]] && L.rows.all (fun w => decide (w.Sat (fun _ => 1/2))) &&
                 !decide ((1/2 : Rat) ≤ 1/2 * (1/2))
      | .error _ => false) = true := by decide +kernel

/-- the loop counter is compared with ABSOLUTE steps: variables living at steps 1, 2 (a linked asset that starts one step after
    the grid) with `T = 2` are not found at `t = 0`: IndexError -/
theorem late_start_index_error :
    errOf (buildLinked { S with mapping := [mrow 0 (some "N1") .d 1 false "disp__b", mrow 1 (some "N1") .d 2 false "disp__b",
                                            mrow 3 none .i 1 true "bool_on__a", mrow 4 none .i 2 true "bool_on__a"] }
      { r with T := 2 } (some 6)) = some .index := by decide +kernel

/-- two labels for variable 1, one for variable 2 (a CHP asset's `disp` at its fuel node): ValueError; one label for variable 1,
    two for variable 2: the coefficient is broadcast -/
theorem several_labels :
    errOf (buildLinked { S with mapping := S.mapping ++ [mrow 4 (some "N1") .d 0 false "disp__b"] } r (some 6)) = some .value ∧
      (match buildLinked { S with mapping := S.mapping ++ [mrow 2 none .i 1 true "bool_on__a"] } r (some 6) with
        | .ok L => (L.rows.map (·.coeffs)).take 3 == [[(0, 1), (3, -0)], [(1, 1), (3, -3)], [(1, 1), (4, -3), (2, -3)]]
        | .error _ => false) = true := by decide +kernel

/-- a structured problem without matrix: AttributeError as soon as a row is due; none is due when `T = 0` -/
theorem no_matrix :
    errOf (buildLinked S r none) = some .attribute ∧
      (match buildLinked S { r with T := 0 } none with | .ok L => L.u == S.u && L.rows.isEmpty | .error _ => false) = true := by
  decide +kernel

end EAO.Linked.Ex
