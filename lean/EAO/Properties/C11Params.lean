import EAO.Model.Params
import EAO.Lemmas.Params
import EAO.Properties.C11
/-!
# C11 (parameters) — `io.get_params_tree` / `get_param` / `set_param`

The parameter tree of an object is the JSON tree `enc v` of the codec model (`EAO.Model.Schema`); the model
of the three functions is `EAO.Model.Params` (`keysOf` = the nested key list of `make_dict`, literally;
`getPath` = the inner `get`; `setPath` = the inner `sett`; `getParam` / `setParam` = the functions on an
object).

1. get / set laws on ARBITRARY trees (no well-formedness needed; negative list indices, characters of
   strings, new dictionary keys included): `get_set_same`, `get_set_new_key`, `get_set_other`, `set_get_id`,
   `set_ok_iff_no_string_step`, `set_error_is_get_error`.
2. the key list: `keys_flat` (the two-levels-per-call recursion with its `[k] + l_myk + l_ttk` shapes lists
   exactly the paths of the one-level recursion `leafPaths` — no depth is missed), `keys_shape`,
   `keys_none_iff_scalar`, `keys_are_valid`, `keys_complete`, `keys_nodup`, and the exact exception to "every
   parameter is listed": `containers_not_listed` / `empty_container_witness` (an empty list or dictionary —
   e.g. the `assets` of an empty portfolio — is readable and settable but never listed).
3. with the schema theorems of `EAO.Properties.C11`: `set_param_same_is_roundtrip`
   (`set_param obj p (get_param obj p) = load_from_json (to_json obj) = obj`).
-/
namespace EAO.C11P
open EAO.Schema EAO.Params

/-! ## 1. get / set -/

/-- **read-back**: after a successful assignment on a path that was readable, the path reads the value written -/
theorem get_set_same (t t' v w : JVal) (p : List Key)
    (hvalid : getPath t p = .ok w) (hset : setPath t p v = .ok t') :
    getPath t' p = .ok v :=
  getPath_setPath_back p t t' v hset (Or.inl ⟨w, hvalid⟩)

/-- a NEW key of a dictionary: the assignment succeeds (the parent `q` being a dictionary) and the key reads back -/
theorem get_set_new_key (t v : JVal) (q : List Key) (s : String) (kvs : List (String × JVal))
    (hparent : (q = [] ∧ t = .obj kvs) ∨ getPath t q = .ok (.obj kvs)) :
    ∃ t', setPath t (q ++ [.name s]) v = .ok t' ∧ getPath t' (q ++ [.name s]) = .ok v := by
  have hok : ∃ t', setPath t (q ++ [.name s]) v = .ok t' := by
    rcases hparent with ⟨hq, ht⟩ | hg
    · subst hq; subst ht
      exact ⟨_, rfl⟩
    · have hq : q ≠ [] := by
        intro e; subst e; simp [getPath] at hg
      cases hs : setPath t (q ++ [.name s]) v with
      | ok t' => exact ⟨t', rfl⟩
      | error e =>
        rcases (setPath_error_iff q t (.name s) v e hq).mp hs with h | ⟨d, hd, hse⟩
        · rw [hg] at h; cases h
        · rw [hg] at hd
          cases hd
          simp [setStep] at hse
  obtain ⟨t', ht'⟩ := hok
  exact ⟨t', ht', getPath_setPath_back _ t t' v ht' (Or.inr ⟨s, by simp⟩)⟩

/-- **nothing else changes**: every other path — readable or not — gives the same result (value or exception
class) as before, provided neither path is a prefix of the other; list positions counted from the front
(`p = [-1]` and `q = [2]` address the same element of a list of three) -/
theorem get_set_other (t t' v w : JVal) (p q : List Key)
    (hvalid : getPath t p = .ok w) (hset : setPath t p v = .ok t')
    (hp : nonNegPath p = true) (hq : nonNegPath q = true)
    (hpq : ¬ p <+: q) (hqp : ¬ q <+: p) :
    getPath t' q = getPath t q :=
  getPath_setPath_other p q t t' w v hvalid hset hp hq hpq hqp

/-- **writing the value read changes nothing** (no step into a string: see `set_ok_iff_no_string_step`) -/
theorem set_get_id (t v : JVal) (p : List Key)
    (hvalid : getPath t p = .ok v) (hns : strStep t p = false) :
    setPath t p v = .ok t := by
  obtain ⟨t', ht'⟩ := (setPath_ok_iff p t v v hvalid).mpr hns
  rw [ht', setPath_getPath_id p t t' v hvalid ht']

/-- the same without the side condition: IF the assignment of the value read succeeds, the tree is unchanged -/
theorem set_get_id_of_ok (t t' v : JVal) (p : List Key)
    (hvalid : getPath t p = .ok v) (hset : setPath t p v = .ok t') : t' = t :=
  setPath_getPath_id p t t' v hvalid hset

/-- `get` reads characters of strings (`get(o, ['name', 0])`), item assignment on a string is a `TypeError`:
on a readable path the assignment succeeds exactly when no step indexes into a string -/
theorem set_ok_iff_no_string_step (t w v : JVal) (p : List Key) (hvalid : getPath t p = .ok w) :
    (∃ t', setPath t p v = .ok t') ↔ strStep t p = false :=
  setPath_ok_iff p t w v hvalid

/-- which exception `sett` raises on the path `q ++ [k]`: the exception of reading the parent path `q`, or — the
parent `d` being readable — the exception of the assignment `d[k] = v` -/
theorem set_error_is_get_error (t v : JVal) (q : List Key) (k : Key) (e : PathError) (hq : q ≠ []) :
    setPath t (q ++ [k]) v = .error e ↔
      (getPath t q = .error e ∨ ∃ d, getPath t q = .ok d ∧ setStep d k v = .error e) :=
  setPath_error_iff q t k v e hq

/-! ## 2. the key list -/

/-- **the literal recursion misses no level**: the nested key list of `make_dict` is the list of ALL paths from
the root to a scalar (`leafPaths`: one level per recursion), each written as the bare key when it has one
element and as a list otherwise; read as paths the two lists are equal -/
theorem keys_flat (t : JVal) (ks : List KeyEntry) (h : keysOf t = some ks) :
    ks = (leafPaths t).map entryOf ∧ ks.map KeyEntry.toPath = leafPaths t := by
  unfold keysOf at h
  split at h
  · cases h
    refine ⟨keys1_eq t, ?_⟩
    rw [keys1_eq t, List.map_map]
    conv => rhs; rw [← List.map_id (leafPaths t)]
    apply List.map_congr_left
    intro p _
    exact toPath_entryOf p
  · cases h

/-- a bare key stands for a path of one element (a scalar child of the root), a list entry has at least two -/
theorem keys_shape (t : JVal) (ks : List KeyEntry) (h : keysOf t = some ks) :
    (∀ k, .bare k ∈ ks ↔ [k] ∈ leafPaths t) ∧
    (∀ p, .path p ∈ ks ↔ (p ∈ leafPaths t ∧ 2 ≤ p.length)) := by
  obtain ⟨hks, _⟩ := keys_flat t ks h
  subst hks
  constructor
  · intro k
    simp only [List.mem_map]
    constructor
    · rintro ⟨p, hp, e⟩
      match p, hp, e with
      | [], _, e => simp [entryOf] at e
      | [a], hp, e => simp only [entryOf, KeyEntry.bare.injEq] at e; subst e; exact hp
      | _ :: _ :: _, _, e => simp [entryOf] at e
    · intro hk; exact ⟨[k], hk, rfl⟩
  · intro p
    simp only [List.mem_map]
    constructor
    · rintro ⟨q, hq, e⟩
      match q, hq, e with
      | [], hq, _ => exact absurd hq (nil_not_mem_leafPaths t)
      | [a], _, e => simp [entryOf] at e
      | a :: b :: r, hq, e =>
        simp only [entryOf, KeyEntry.path.injEq] at e
        subst e
        exact ⟨hq, by simp⟩
    · rintro ⟨hp, hl⟩
      refine ⟨p, hp, ?_⟩
      match p, hl with
      | a :: b :: r, _ => rfl

/-- `get_params_tree` answers `(None, None)` exactly for a scalar root; otherwise the tree comes back unchanged -/
theorem keys_none_iff_scalar (t : JVal) :
    (keysOf t = none ↔ isContainer t = false) ∧
    (isContainer t = true → treeOf t = t) ∧ (isContainer t = false → treeOf t = .null) := by
  unfold keysOf treeOf
  cases h : isContainer t <;> simp

/-- **every listed entry is a valid path to a scalar** (dictionaries with distinct keys: what Python has);
it counts list positions from the front and never indexes into a string -/
theorem keys_are_valid (t : JVal) (ks : List KeyEntry) (h : keysOf t = some ks) (hnd : nodupKeys t = true)
    (e : KeyEntry) (he : e ∈ ks) :
    ∃ v, getPath t e.toPath = .ok v ∧ isContainer v = false ∧
      nonNegPath e.toPath = true ∧ strStep t e.toPath = false := by
  obtain ⟨_, hpaths⟩ := keys_flat t ks h
  have : e.toPath ∈ leafPaths t := by
    rw [← hpaths]; exact List.mem_map_of_mem he
  exact leafPaths_valid e.toPath t hnd this

/-- **every scalar is listed**: a path (positions from the front, no step into a string) on which `get` reaches
a scalar is in the key list — at every depth -/
theorem keys_complete (t v : JVal) (p : List Key) (hg : getPath t p = .ok v) (hv : isContainer v = false)
    (hnn : nonNegPath p = true) (hss : strStep t p = false) :
    ∃ ks, keysOf t = some ks ∧ entryOf p ∈ ks := by
  have hm := leafPaths_complete p t v hg hv hnn hss
  have hc : isContainer t = true := by
    cases t <;> first | rfl | (simp [leafPaths] at hm)
  refine ⟨keys1 t, by simp [keysOf, hc], ?_⟩
  rw [keys1_eq]
  exact List.mem_map_of_mem hm

/-- **the exception**: what `get` reaches is a list or a dictionary — in particular an EMPTY one, which has no
scalar below it — then the path is not in the key list -/
theorem containers_not_listed (t v : JVal) (ks : List KeyEntry) (p : List Key)
    (h : keysOf t = some ks) (hnd : nodupKeys t = true)
    (hg : getPath t p = .ok v) (hv : isContainer v = true) :
    ∀ e ∈ ks, e.toPath ≠ p := by
  intro e he hp
  obtain ⟨w, hw, hsc, _, _⟩ := keys_are_valid t ks h hnd e he
  rw [hp, hg] at hw
  cases hw
  rw [hv] at hsc
  cases hsc

/-- the tree of an empty portfolio, reduced to two keys -/
def emptyPortfolioTree : JVal := .obj [("assets", .arr []), ("name", .str "p")]

/-- machine-checked instance of the exception: `assets` is readable and settable, and not listed -/
theorem empty_container_witness :
    keysOf emptyPortfolioTree = some [.bare (.name "name")] ∧
    getPath emptyPortfolioTree [.name "assets"] = .ok (.arr []) ∧
    setPath emptyPortfolioTree [.name "assets"] (.arr [.int 1]) =
      .ok (.obj [("assets", .arr [.int 1]), ("name", .str "p")]) := by
  refine ⟨by decide +kernel, rfl, rfl⟩

/-- no entry is listed twice -/
theorem keys_nodup (t : JVal) (ks : List KeyEntry) (h : keysOf t = some ks) (hnd : nodupKeys t = true) :
    ks.Nodup ∧ (ks.map KeyEntry.toPath).Nodup := by
  obtain ⟨hks, hpaths⟩ := keys_flat t ks h
  have hn := leafPaths_nodup t hnd
  refine ⟨?_, by rw [hpaths]; exact hn⟩
  rw [hks]
  unfold List.Nodup at hn ⊢
  rw [List.pairwise_map]
  exact hn.imp (fun hne e => hne (entryOf_injective e))

/-- writing a scalar over a scalar leaves the key list as it is -/
theorem keys_after_set_scalar (t t' w v : JVal) (p : List Key)
    (hg : getPath t p = .ok w) (hw : isContainer w = false) (hv : isContainer v = false)
    (hset : setPath t p v = .ok t') :
    keysOf t' = keysOf t := by
  obtain ⟨h1, h2, h3⟩ := leaves_after_set_scalar p t t' w v hg hw hv hset
  simp [keysOf, h2, h3, keys1_eq, h1]

/-! ## 3. the functions on objects -/

/-- for EVERY object: `set_param` with the value `get_param` returned hands the loader the JSON of the object
itself (`o` after `sett` = `json.loads (to_json obj)`) -/
theorem set_param_same_tree (S : List ClassSchema) (tc : TimeCodec) (v : PyVal) (p : List Key) (x : JVal)
    (hg : getParam S tc v p = .ok x) (hns : strStep (enc S tc v) p = false) :
    setPath (treeOf (enc S tc v)) p x = .ok (enc S tc v) := by
  have ht := treeOf_of_getParam hg
  unfold getParam at hg
  rw [ht] at hg ⊢
  exact set_get_id _ x p hg hns

/-- `set_param` = the loader after `sett`; the exceptions of the walk pass unchanged, a rejected tree gives the
exception of the `except` branch -/
theorem set_param_is_load_of_set_tree (S : List ClassSchema) (tc : TimeCodec) (v : PyVal) (p : List Key) (x : JVal) :
    (∀ e, setPath (treeOf (enc S tc v)) p x = .error e → setParam S tc v p x = .error (.walk e)) ∧
    (∀ t w, setPath (treeOf (enc S tc v)) p x = .ok t → dec S tc t = some w → setParam S tc v p x = .ok w) ∧
    (∀ t, setPath (treeOf (enc S tc v)) p x = .ok t → dec S tc t = none →
        setParam S tc v p x = .error (loadFailure t)) := by
  refine ⟨?_, ?_, ?_⟩
  · intro e h; simp [setParam, h]
  · intro t w h hd; simp [setParam, h, hd]
  · intro t h hd; simp [setParam, h, hd]

/-- **`set_param` with the value read is the JSON round trip**: for every valid object tree over classes
satisfying `RoundTripOK` (theorem `EAO.C11.roundtrip_of_schema`) and every readable path,
`set_param obj p (get_param obj p) = load_from_json (to_json obj) = obj` -/
theorem set_param_same_is_roundtrip (S : List ClassSchema) (tc : TimeCodec) (hl : tc.Lawful)
    (v : PyVal) (hv : Valid S v) (p : List Key) (x : JVal)
    (hg : getParam S tc v p = .ok x) (hns : strStep (enc S tc v) p = false) :
    setParam S tc v p x = .ok v := by
  unfold setParam
  rw [set_param_same_tree S tc v p x hg hns]
  simp only []
  rw [EAO.C11.roundtrip_of_schema S tc hl v hv]

/-- the same for every entry of the key list (no side condition on the path is left) -/
theorem set_param_listed_is_roundtrip (S : List ClassSchema) (tc : TimeCodec) (hl : tc.Lawful)
    (v : PyVal) (hv : Valid S v) (hnd : nodupKeys (enc S tc v) = true)
    (ks : List KeyEntry) (hk : (paramsTree S tc v).1 = some ks) (e : KeyEntry) (he : e ∈ ks) :
    ∃ x, getParam S tc v e.toPath = .ok x ∧ isContainer x = false ∧ setParam S tc v e.toPath x = .ok v := by
  simp only [paramsTree] at hk
  obtain ⟨x, hx, hsc, _, hss⟩ := keys_are_valid (enc S tc v) ks hk hnd e he
  have hc : isContainer (enc S tc v) = true := by
    unfold keysOf at hk
    split at hk
    · assumption
    · cases hk
  have hg : getParam S tc v e.toPath = .ok x := by
    simp [getParam, treeOf, hc, hx]
  exact ⟨x, hg, hsc, set_param_same_is_roundtrip S tc hl v hv e.toPath x hg hss⟩

/-- over the regenerated class table -/
theorem set_param_same_is_roundtrip_generated (tc : TimeCodec) (hl : tc.Lawful)
    (v : PyVal) (hv : Valid classes v) (p : List Key) (x : JVal)
    (hg : getParam classes tc v p = .ok x) (hns : strStep (enc classes tc v) p = false) :
    setParam classes tc v p x = .ok v :=
  set_param_same_is_roundtrip classes tc hl v hv p x hg hns

/-! ## quirks, machine-checked -/

/-- `sett` with an INTEGER key on a dictionary succeeds (Python adds the key `3`); `json.dumps` writes it as
the string key "3" — readable afterwards under the string, not under the integer -/
theorem int_key_on_dict_witness :
    setPath (.obj [("a", .int 1)]) [.idx 3] .null = .ok (.obj [("a", .int 1), ("3", .null)]) ∧
    getPath (.obj [("a", .int 1), ("3", .null)]) [.idx 3] = .error .key ∧
    getPath (.obj [("a", .int 1), ("3", .null)]) [.name "3"] = .ok .null := by
  refine ⟨?_, rfl, rfl⟩
  simp only [setPath, setStep, Key.toStr, assocSet]
  rfl

/-- the `except` branch of `set_param` raises `TypeError` instead of the announced `ValueError` when the `name`
of the rejected tree is no string (`'…' + n`), or when the root is a list containing the string 'name' -/
theorem name_type_error_witness :
    loadFailure (.obj [("name", .int 5)]) = .nameType ∧
    loadFailure (.arr [.str "name"]) = .nameType ∧
    loadFailure (.obj [("name", .str "a")]) = .value ∧ loadFailure (.obj []) = .value := by
  decide +kernel

/-! ## non-vacuity -/

/-- a small tree with every kind of node: three levels of lists inside dictionaries, an empty list, a string -/
def sampleTree : JVal :=
  .obj [("name", .str "pf"),
        ("assets", .arr [.obj [("name", .str "a1"), ("nodes", .arr [.obj [("name", .str "N1")]]), ("extra", .arr [])],
                         .obj [("name", .str "a2"), ("cap", .flt 5)]])]

/-- the key list of the sample: bare key at the root, lists below, down to depth five; `extra` missing -/
example : keysOf sampleTree =
    some [.bare (.name "name"),
          .path [.name "assets", .idx 0, .name "name"],
          .path [.name "assets", .idx 0, .name "nodes", .idx 0, .name "name"],
          .path [.name "assets", .idx 1, .name "name"],
          .path [.name "assets", .idx 1, .name "cap"]] := by decide +kernel

example : nodupKeys sampleTree = true := by decide +kernel

/-- `get_set_same` / `get_set_other` / `set_get_id`: hypotheses hold on the sample (negative index included) -/
example : getPath sampleTree [.name "assets", .idx (-1), .name "cap"] = .ok (.flt 5) := rfl
example : ∃ t', setPath sampleTree [.name "assets", .idx (-1), .name "cap"] (.int 7) = .ok t' := ⟨_, rfl⟩
example : strStep sampleTree [.name "assets", .idx 1, .name "cap"] = false := by decide +kernel
example : nonNegPath [.name "assets", .idx 1, .name "cap"] = true := by decide +kernel
example : ¬ ([Key.name "assets", .idx 1, .name "cap"] <+: [Key.name "name"]) := by decide
/-- a step into a string: readable (a character), not settable -/
example : getPath sampleTree [.name "name", .idx 0] = .ok (.str "p") := rfl
example : strStep sampleTree [.name "name", .idx 0] = true := by decide +kernel
example : setPath sampleTree [.name "name", .idx 0] (.str "q") = .error .type := rfl
/-- `set_error_is_get_error`: the parent path fails with `KeyError` -/
example : setPath sampleTree ([.name "nope"] ++ [.name "x"]) .null = .error .key := rfl
/-- `keys_none_iff_scalar` -/
example : keysOf (.int 5) = none := rfl
/-- why `get_set_other` counts list positions from the front: `[-1]` and `[2]` are no prefixes of each other and
address the same element -/
example : setPath (.arr [.int 1, .int 2, .int 3]) [.idx (-1)] (.int 9) = .ok (.arr [.int 1, .int 2, .int 9]) ∧
    getPath (.arr [.int 1, .int 2, .int 9]) [.idx 2] = .ok (.int 9) ∧
    getPath (.arr [.int 1, .int 2, .int 3]) [.idx 2] = .ok (.int 3) := ⟨rfl, rfl, rfl⟩
/-- why `keys_are_valid` asks for distinct keys (no Python dictionary is like this): the second `a` is listed,
the look-up finds the first -/
example : keysOf (.obj [("a", .int 1), ("a", .arr [.int 2])]) = some [.bare (.name "a"), .path [.name "a", .idx 0]] ∧
    getPath (.obj [("a", .int 1), ("a", .arr [.int 2])]) [.name "a", .idx 0] = .error .type :=
  ⟨by decide +kernel, rfl⟩
/-- `set_param_same_is_roundtrip`: a valid object (the node of `EAO.C11`'s non-vacuity example), a readable path
without string step — all hypotheses hold, so `set_param` with the value read gives the node back -/
def nodeObj : PyVal := .obj "Node" (build c_Node [("name", .str "N1"), ("commodity", .none)])

example : setParam classes EAO.C11.unaryCodec nodeObj [.name "name"] (.str "N1") = .ok nodeObj := by
  have hv : Valid classes nodeObj := by
    simp only [nodeObj, Valid]
    refine ⟨⟨c_Node, by decide +kernel, rfl, by decide +kernel, by decide +kernel, by decide +kernel,
      [("name", .str "N1"), ("commodity", .none)], rfl, ?_, ?_⟩, ?_⟩
    · intro kv hkv
      simp only [List.mem_cons, List.not_mem_nil, or_false] at hkv
      rcases hkv with h | h <;> subst h <;> decide +kernel
    · intro p hp hr
      simp only [c_Node, List.mem_cons, List.not_mem_nil, or_false] at hp
      rcases hp with h | h | h <;> subst h
      · decide +kernel
      · simp at hr
      · simp at hr
    · simp [build, stateAttrs, setterAttrs, c_Node, attrVal, lookup, ValidFields, Valid]
  have hg : getParam classes EAO.C11.unaryCodec nodeObj [.name "name"] = .ok (.str "N1") := rfl
  have hns : strStep (enc classes EAO.C11.unaryCodec nodeObj) [.name "name"] = false := rfl
  exact set_param_same_is_roundtrip_generated _ EAO.C11.unaryCodec_lawful nodeObj hv _ _ hg hns

end EAO.C11P
