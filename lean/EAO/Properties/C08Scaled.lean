import EAO.Lemmas.Scaled
import EAO.Model.Readout
/-!
# C08 — horizon and windows: the wrappers (`ScaledAsset`, `StructuredAsset`)

The wrappers do not look at the horizon themselves: they take the finished problems of the assets they wrap.
Proved here, for the models `buildScaled` and `structured`:

* `scaled_mapping`, `scaled_dispatch_rows`: the mapping of the scaled problem is the base mapping with the asset
  name replaced, plus ONE row, the row of the scale (type 'size', step 0, not a dispatch row); so its dispatch
  rows are exactly the base's dispatch rows (same variable, node, step, factor);
* `scaled_vars_only_in_window`, `scaled_no_dispatch_outside_window`: if the base has no dispatch row (no mapping
  row) outside a step set `W`, neither has the scaled asset (apart from the scale row at step 0), and its
  reported dispatch at a step outside `W` is 0 whatever the solution;
* `scaled_empty_window_inert`: a base that is not active in the horizon (empty problem) makes the scaled asset
  inert too (the problem is handed on unchanged — no scale variable, no fixed costs);
* `structured_d_rows`, `structured_dispatch_rows_at`, `structured_dispatch_row_iff`: the dispatch rows of the
  structured problem are exactly the inner assets' dispatch rows at external nodes (variable shifted by the
  inner offset; node, step, factor unchanged);
* `structured_vars_only_in_window`, `structured_dispatch_only_in_window`,
  `structured_no_dispatch_outside_window`: no mapping row, hence no external dispatch, at a step outside the
  union of the inner assets' step sets; `structured_empty_window_inert`: all inner assets inactive ⇒ inert.

The window of a structured asset itself is applied by the code to the inner assets BEFORE their problems are
built (their own windows clipped, restored afterwards): that is part of the inner builders' inputs (C08 for the
builders, C10 for the restoration) and not of `structured`.
-/
namespace EAO.C08Scaled
open EAO EAO.Scaled EAO.Structured

/-! ## scaled asset -/

/-- **mapping of the scaled problem** (non-empty base): the base mapping with the asset name replaced, followed
    by the row of the scale -/
theorem scaled_mapping (p : ScaledP) (base : AssetProblem) (dtSum : Rat) (hne : base.l.length ≠ 0) :
    (buildScaled p base dtSum).mapping =
      base.mapping.map (fun m => { m with asset := p.name }) ++ [scaleMapRow p base.l.length] := by
  unfold buildScaled
  rw [if_neg hne]
  rfl

/-- the scale row is not a dispatch row, it sits at step 0 and carries type 'size' -/
theorem scale_row_not_dispatch (p : ScaledP) (k : Nat) :
    (scaleMapRow p k).kind = .other "size" ∧ (scaleMapRow p k).step = 0 ∧
    ∀ n t, isDisp n t (scaleMapRow p k) = false := by
  refine ⟨rfl, rfl, fun n t => ?_⟩
  simp [isDisp, scaleMapRow]

/-- **dispatch rows of the scaled problem = dispatch rows of the base** (asset name replaced; variable, node,
    step, factor, flags unchanged), as lists — for every base, empty or not -/
theorem scaled_dispatch_rows (p : ScaledP) (base : AssetProblem) (dtSum : Rat) :
    ((buildScaled p base dtSum).mapping.filter (·.kind == .d)).map (fun m => { m with asset := p.name }) =
      (base.mapping.filter (·.kind == .d)).map (fun m => { m with asset := p.name }) := by
  by_cases hne : base.l.length = 0
  · unfold buildScaled; rw [if_pos hne]
  · rw [scaled_mapping p base dtSum hne, List.filter_append, List.filter_map]
    have h1 : [scaleMapRow p base.l.length].filter (·.kind == .d) = [] := by
      simp [scaleMapRow]
    rw [h1, List.append_nil, List.map_map]
    congr 1

/-- every dispatch row of the scaled problem is a dispatch row of the base with (at most) the asset name
    replaced -/
theorem scaled_dispatch_row_of_base (p : ScaledP) (base : AssetProblem) (dtSum : Rat) (m : MapRow)
    (hm : m ∈ (buildScaled p base dtSum).mapping) (hk : m.kind = .d) :
    ∃ m' ∈ base.mapping, m'.kind = .d ∧ (m = m' ∨ m = { m' with asset := p.name }) := by
  by_cases hne : base.l.length = 0
  · unfold buildScaled at hm; rw [if_pos hne] at hm
    exact ⟨m, hm, hk, Or.inl rfl⟩
  · rw [scaled_mapping p base dtSum hne, List.mem_append, List.mem_map, List.mem_singleton] at hm
    rcases hm with ⟨m', hm', rfl⟩ | rfl
    · exact ⟨m', hm', hk, Or.inr rfl⟩
    · simp [scaleMapRow] at hk

/-- **steps of the scaled problem.**  If every mapping row of the base sits at a step satisfying `W` (for a
    builder: the steps of its restricted grid, `vars_only_in_window`), every mapping row of the scaled problem
    does — except the scale row, which sits at step 0 by construction. -/
theorem scaled_vars_only_in_window (p : ScaledP) (base : AssetProblem) (dtSum : Rat) (W : Nat → Prop)
    (hW : ∀ m ∈ base.mapping, W m.step) :
    ∀ m ∈ (buildScaled p base dtSum).mapping, W m.step ∨ m = scaleMapRow p base.l.length := by
  intro m hm
  by_cases hne : base.l.length = 0
  · unfold buildScaled at hm; rw [if_pos hne] at hm
    exact Or.inl (hW m hm)
  · rw [scaled_mapping p base dtSum hne, List.mem_append, List.mem_map, List.mem_singleton] at hm
    rcases hm with ⟨m', hm', rfl⟩ | rfl
    · exact Or.inl (hW m' hm')
    · exact Or.inr rfl

/-- … for the dispatch rows no exception: if the base has no dispatch row outside `W`, neither has the scaled
    asset -/
theorem scaled_dispatch_only_in_window (p : ScaledP) (base : AssetProblem) (dtSum : Rat) (W : Nat → Prop)
    (hW : ∀ m ∈ base.mapping, m.kind = .d → W m.step) :
    ∀ m ∈ (buildScaled p base dtSum).mapping, m.kind = .d → W m.step := by
  intro m hm hk
  obtain ⟨m', hm', hk', h | h⟩ := scaled_dispatch_row_of_base p base dtSum m hm hk
  · rw [h]; exact hW m' hm' hk'
  · rw [h]; exact hW m' hm' hk'

/-- **no dispatch outside the window.**  At a step `t` where the base has no dispatch row, the dispatch
    reported for the scaled asset (under any asset name `a`, at any node) is 0 whatever the solution — also
    at step 0, where the scale row sits -/
theorem scaled_no_dispatch_outside_window (p : ScaledP) (base : AssetProblem) (dtSum : Rat) (W : Nat → Prop)
    (hW : ∀ m ∈ base.mapping, m.kind = .d → W m.step) (t : Nat) (ht : ¬ W t) (a n : String) (x : Vec) :
    dispatchOut (buildScaled p base dtSum).mapping a n t x = 0 := by
  unfold dispatchOut
  have : ((buildScaled p base dtSum).mapping.filter fun m => m.asset == a && isDisp n t m) = [] := by
    apply List.filter_eq_nil_iff.mpr
    intro m hm hd
    simp only [Bool.and_eq_true] at hd
    obtain ⟨hk, _, hs⟩ := (isDisp_iff n t m).mp hd.2
    exact ht (hs ▸ scaled_dispatch_only_in_window p base dtSum W hW m hm hk)
  rw [this]; rfl

/-- **empty window.**  A base problem without variables, rows and mapping rows (base asset not active in the
    horizon: `empty_window_inert` of the builders) is handed on as it is: the scaled asset has no variable
    either (no scale, no fixed costs), no row, no mapping row -/
theorem scaled_empty_window_inert (p : ScaledP) (base : AssetProblem) (dtSum : Rat)
    (hc : base.c = []) (hl : base.l = []) (hu : base.u = []) (hr : base.rows = []) (hm : base.mapping = []) :
    (buildScaled p base dtSum).c = [] ∧ (buildScaled p base dtSum).l = [] ∧ (buildScaled p base dtSum).u = [] ∧
    (buildScaled p base dtSum).rows = [] ∧ (buildScaled p base dtSum).mapping = [] := by
  have : buildScaled p base dtSum = base := by
    unfold buildScaled; rw [if_pos (by rw [hl]; rfl)]
  rw [this]
  exact ⟨hc, hl, hu, hr, hm⟩

/-! ## structured asset -/

/-- every mapping row of an inner asset occurs, shifted by that asset's offset, in the concatenation -/
theorem mem_assembleFrom_mapping_of_mem (as : List AssetProblem) (off : Nat) (a : AssetProblem) (ha : a ∈ as)
    (m : MapRow) (hm : m ∈ a.mapping) : ∃ o, m.shift o ∈ (assembleFrom off as).mapping := by
  induction as generalizing off with
  | nil => cases ha
  | cons b bs ih =>
    rw [assembleFrom_cons_mapping]
    rcases List.mem_cons.mp ha with rfl | ha'
    · exact ⟨off, List.mem_append.mpr (Or.inl (List.mem_map.mpr ⟨m, hm, rfl⟩))⟩
    · obtain ⟨o, ho⟩ := ih (off + b.n) ha'
      exact ⟨o, List.mem_append.mpr (Or.inr ho)⟩

/-- **rows of type 'd' of the structured problem**, as a list: the rows of type 'd' of the inner portfolio's
    mapping that are not at a non-external node, in their order, re-assigned to the wrapper (`structuredMapRow`
    changes only asset and variable name of such a row).  (A row of type 'd' WITHOUT node — none of the asset
    classes produces one — keeps its type; it is a dispatch row at no node: `structured_dispatch_rows_at`.) -/
theorem structured_d_rows (name : String) (ext : List String) (inner : List AssetProblem) (gridI : List Nat) :
    (structured name ext inner gridI).mapping.filter (·.kind == .d) =
      ((assembleFrom 0 inner).mapping.filter fun m => m.kind == .d && (match m.node with
        | some n => ext.contains n | none => true)).map (structuredMapRow name ext) := by
  show ((assemble inner gridI ext).mapping.map (structuredMapRow name ext)).filter _ = _
  rw [assemble_mapping, List.filter_map]
  congr 1
  apply List.filter_congr
  intro m _
  simp only [Function.comp]
  cases hn : m.node with
  | none =>
    have : (structuredMapRow name ext m).kind = m.kind := by
      unfold structuredMapRow
      by_cases hv : (m.varName == "nan") = true <;> simp [hv, hn]
    rw [this]; simp
  | some nd =>
    by_cases he : nd ∈ ext
    · rw [(structuredMapRow_of_ext name ext m nd hn he).1]
      simp [he]
    · rw [structuredMapRow_of_inner_ne_d name ext m nd hn he]
      simp [he]

/-- what wrapping does to "is a dispatch row at node `n`, step `t`": nothing at an external node, and there is
    no dispatch row at any other node -/
theorem isDisp_structuredMapRow (name : String) (ext : List String) (m : MapRow) (n : String) (t : Nat) :
    isDisp n t (structuredMapRow name ext m) = (isDisp n t m && ext.contains n) := by
  by_cases he : n ∈ ext
  · rw [isDisp_smr name ext m n t (fun _ _ => he)]
    simp [he]
  · have h1 : isDisp n t (structuredMapRow name ext m) = false := by
      rw [Bool.eq_false_iff]
      intro hd
      obtain ⟨hk, hnode, _⟩ := (isDisp_iff n t _).mp hd
      exact he (structuredMapRow_disp name ext m n hk hnode).2.2
    rw [h1]; simp [he]

/-- **dispatch rows of the structured problem at node `n`, step `t`**, as a list: for an external node exactly
    the inner portfolio's dispatch rows at `(n, t)`, re-assigned to the wrapper (variable, node, step, factor
    unchanged: `structuredMapRow_var`, `_step`, `_factor`); for any other node none -/
theorem structured_dispatch_rows_at (name : String) (ext : List String) (inner : List AssetProblem)
    (gridI : List Nat) (n : String) (t : Nat) :
    (structured name ext inner gridI).mapping.filter (isDisp n t) =
      if n ∈ ext then ((assembleFrom 0 inner).mapping.filter (isDisp n t)).map (structuredMapRow name ext)
      else [] := by
  show ((assemble inner gridI ext).mapping.map (structuredMapRow name ext)).filter _ = _
  rw [assemble_mapping, List.filter_map]
  by_cases he : n ∈ ext
  · rw [if_pos he]
    congr 1
    apply List.filter_congr
    intro m _
    simp only [Function.comp, isDisp_structuredMapRow]
    simp [he]
  · rw [if_neg he]
    rw [List.map_eq_nil_iff]
    apply List.filter_eq_nil_iff.mpr
    intro m _
    simp only [Function.comp, isDisp_structuredMapRow]
    simp [he]

/-- **a dispatch row of the structured problem is a dispatch row of an inner asset at an external node, and
    vice versa**: `(n, t)` carries a dispatch row of the wrapper with variable `v` and factor `f` iff `n` is
    external and some inner asset has a dispatch row at `(n, t)` with factor `f` whose variable, shifted by an
    offset, is `v` -/
theorem structured_dispatch_row_iff (name : String) (ext : List String) (inner : List AssetProblem)
    (gridI : List Nat) (n : String) (t : Nat) :
    (∃ m ∈ (structured name ext inner gridI).mapping, isDisp n t m = true) ↔
      n ∈ ext ∧ ∃ a ∈ inner, ∃ m' ∈ a.mapping, isDisp n t m' = true := by
  constructor
  · rintro ⟨m, hm, hd⟩
    have hmem : m ∈ (structured name ext inner gridI).mapping.filter (isDisp n t) :=
      List.mem_filter.mpr ⟨hm, hd⟩
    rw [structured_dispatch_rows_at] at hmem
    by_cases he : n ∈ ext
    · rw [if_pos he] at hmem
      obtain ⟨m0, hm0, rfl⟩ := List.mem_map.mp hmem
      obtain ⟨hm0', hd0⟩ := List.mem_filter.mp hm0
      obtain ⟨a, ha, m', hm', o, rfl⟩ := mem_assembleFrom_mapping inner 0 m0 hm0'
      exact ⟨he, a, ha, m', hm', by rwa [isDisp_shift] at hd0⟩
    · rw [if_neg he] at hmem; cases hmem
  · rintro ⟨he, a, ha, m', hm', hd⟩
    obtain ⟨o, ho⟩ := mem_assembleFrom_mapping_of_mem inner 0 a ha m' hm'
    refine ⟨structuredMapRow name ext (m'.shift o), ?_, ?_⟩
    · show _ ∈ (assemble inner gridI ext).mapping.map (structuredMapRow name ext)
      rw [assemble_mapping]
      exact List.mem_map.mpr ⟨_, ho, rfl⟩
    · rw [isDisp_structuredMapRow, isDisp_shift, hd]
      simp [he]

/-- **steps of the structured problem.**  If every mapping row of every inner asset sits at a step satisfying
    `W` (the union of the inner assets' windows clipped to the horizon), so does every mapping row of the
    structured problem — wrapping never changes a step -/
theorem structured_vars_only_in_window (name : String) (ext : List String) (inner : List AssetProblem)
    (gridI : List Nat) (W : Nat → Prop) (hW : ∀ a ∈ inner, ∀ m ∈ a.mapping, W m.step) :
    ∀ m ∈ (structured name ext inner gridI).mapping, W m.step := by
  intro m hm
  have hm' : m ∈ (assemble inner gridI ext).mapping.map (structuredMapRow name ext) := hm
  rw [assemble_mapping] at hm'
  obtain ⟨m0, hm0, rfl⟩ := List.mem_map.mp hm'
  obtain ⟨a, ha, m', hm'', o, rfl⟩ := mem_assembleFrom_mapping inner 0 m0 hm0
  rw [structuredMapRow_step, shift_step]
  exact hW a ha m' hm''

/-- … and with a hypothesis on the inner DISPATCH rows only: no dispatch row of the wrapper outside `W` -/
theorem structured_dispatch_only_in_window (name : String) (ext : List String) (inner : List AssetProblem)
    (gridI : List Nat) (W : Nat → Prop) (hW : ∀ a ∈ inner, ∀ m ∈ a.mapping, m.kind = .d → W m.step)
    (n : String) (t : Nat) (h : ∃ m ∈ (structured name ext inner gridI).mapping, isDisp n t m = true) : W t := by
  obtain ⟨_, a, ha, m', hm', hd⟩ := (structured_dispatch_row_iff name ext inner gridI n t).mp h
  obtain ⟨hk, _, hs⟩ := (isDisp_iff n t m').mp hd
  exact hs ▸ hW a ha m' hm' hk

/-- **no external dispatch outside the union of the inner windows**: at a step `t` where no inner asset has a
    dispatch row, the dispatch reported for the structured asset is 0 at every node, whatever the solution; and
    at a node that is not external it is 0 at every step -/
theorem structured_no_dispatch_outside_window (name : String) (ext : List String) (inner : List AssetProblem)
    (gridI : List Nat) (W : Nat → Prop) (hW : ∀ a ∈ inner, ∀ m ∈ a.mapping, m.kind = .d → W m.step)
    (a n : String) (t : Nat) (ht : ¬ W t ∨ n ∉ ext) (x : Vec) :
    dispatchOut (structured name ext inner gridI).mapping a n t x = 0 := by
  unfold dispatchOut
  have : ((structured name ext inner gridI).mapping.filter fun m => m.asset == a && isDisp n t m) = [] := by
    apply List.filter_eq_nil_iff.mpr
    intro m hm hd
    simp only [Bool.and_eq_true] at hd
    rcases ht with ht | hn
    · exact ht (structured_dispatch_only_in_window name ext inner gridI W hW n t ⟨m, hm, hd.2⟩)
    · exact hn ((structured_dispatch_row_iff name ext inner gridI n t).mp ⟨m, hm, hd.2⟩).1
  rw [this]; rfl

/-- a structured asset all of whose inner assets are inactive (empty problems) is inert: no variable, no row,
    no mapping row -/
theorem structured_empty_window_inert (name : String) (ext : List String) (inner : List AssetProblem)
    (gridI : List Nat)
    (h : ∀ a ∈ inner, a.c = [] ∧ a.l = [] ∧ a.u = [] ∧ a.rows = [] ∧ a.mapping = []) :
    (structured name ext inner gridI).c = [] ∧ (structured name ext inner gridI).l = [] ∧
    (structured name ext inner gridI).u = [] ∧ (structured name ext inner gridI).rows = [] ∧
    (structured name ext inner gridI).mapping = [] := by
  have hA : ∀ off, (assembleFrom off inner).c = [] ∧ (assembleFrom off inner).l = [] ∧ (assembleFrom off inner).u = [] ∧
      (assembleFrom off inner).rows = [] ∧ (assembleFrom off inner).mapping = [] := by
    induction inner with
    | nil => intro off; exact ⟨rfl, rfl, rfl, rfl, rfl⟩
    | cons a as ih =>
      intro off
      obtain ⟨h1, h2, h3, h4, h5⟩ := h a (by simp)
      obtain ⟨i1, i2, i3, i4, i5⟩ := ih (fun b hb => h b (by simp [hb])) (off + a.n)
      rw [assembleFrom_cons_c, assembleFrom_cons_l, assembleFrom_cons_u, assembleFrom_cons_rows,
        assembleFrom_cons_mapping, h1, h2, h3, h4, h5, i1, i2, i3, i4, i5]
      exact ⟨rfl, rfl, rfl, rfl, rfl⟩
  obtain ⟨h1, h2, h3, h4, h5⟩ := hA 0
  have hpairs : nodalPairs (assembleFrom 0 inner).mapping (portfolioNodes inner) ext gridI = [] := by
    unfold nodalPairs
    rw [h5]
    simp
  refine ⟨h1, h2, h3, ?_, ?_⟩
  · show ((assemble inner gridI ext).rows).map Row.nToS = []
    rw [assemble_rows, h4, hpairs]; rfl
  · show ((assemble inner gridI ext).mapping).map (structuredMapRow name ext) = []
    rw [assemble_mapping, h5]; rfl

/-! ## non-vacuity (kernel-evaluated) -/
namespace Ex

/-- a base contract whose window covers steps 2 and 3 of a longer horizon -/
def base : AssetProblem :=
  { name := "b", nodes := ["n"], c := [1, 2], l := [0, 0], u := [4, 4], rows := [],
    mapping := [⟨0, "b", some "n", .d, 2, 1, false, "disp"⟩, ⟨1, "b", some "n", .d, 3, 1, false, "disp"⟩] }
def p : ScaledP := { name := "s", node0 := "n", minScale := 0, maxScale := 2, normScale := 1, fixCosts := 3 }
def x : Vec := fun j => if j = 0 then 1 else if j = 1 then 2 else 3/2
def inactive : AssetProblem := { name := "b", nodes := ["n"], c := [], l := [], u := [], rows := [], mapping := [] }

/-- the hypothesis of the window theorems holds with `W = {2, 3}`; the scaled mapping is the renamed base mapping
    plus the scale row at step 0; the reported dispatch is `x` at steps 2, 3 and 0 at steps 0 (where the scale
    row sits, with scale 3/2) and 4; an inactive base stays empty -/
example : (∀ m ∈ base.mapping, m.kind = .d → m.step ∈ [2, 3]) ∧
    (buildScaled p base 5).mapping = [⟨0, "s", some "n", .d, 2, 1, false, "disp"⟩, ⟨1, "s", some "n", .d, 3, 1, false, "disp"⟩,
      ⟨2, "s", some "n", .other "size", 0, 1, false, "scale"⟩] ∧
    dispatchOut (buildScaled p base 5).mapping "s" "n" 2 x = 1 ∧ dispatchOut (buildScaled p base 5).mapping "s" "n" 3 x = 2 ∧
    dispatchOut (buildScaled p base 5).mapping "s" "n" 0 x = 0 ∧ dispatchOut (buildScaled p base 5).mapping "s" "n" 4 x = 0 ∧
    (buildScaled p inactive 5).c = [] ∧ (buildScaled p inactive 5).mapping = [] := by
  decide +kernel

/-- inside the wrapper: a supply at the inner node `i` (steps 1, 2) and a transport `i → N` (steps 1, 2, 3,
    efficiency 1/2: one variable per step with two mapping rows) -/
def sup : AssetProblem :=
  { name := "sup", nodes := ["i"], c := [1, 1], l := [0, 0], u := [4, 4], rows := [],
    mapping := [⟨0, "sup", some "i", .d, 1, 1, false, "disp"⟩, ⟨1, "sup", some "i", .d, 2, 1, false, "disp"⟩] }
def tr : AssetProblem :=
  { name := "tr", nodes := ["i", "N"], c := [0, 0, 0], l := [0, 0, 0], u := [5, 5, 5], rows := [],
    mapping := [⟨0, "tr", some "i", .d, 1, -1, false, "disp"⟩, ⟨1, "tr", some "i", .d, 2, -1, false, "disp"⟩,
                ⟨2, "tr", some "i", .d, 3, -1, false, "disp"⟩, ⟨0, "tr", some "N", .d, 1, 1/2, false, "disp"⟩,
                ⟨1, "tr", some "N", .d, 2, 1/2, false, "disp"⟩, ⟨2, "tr", some "N", .d, 3, 1/2, false, "disp"⟩] }
def y : Vec := fun j => if j = 0 then 2 else if j = 1 then 4 else if j = 2 then 2 else if j = 3 then 4 else 0

/-- the hypothesis holds with `W = {1, 2, 3}` (union of the inner windows); the rows of type 'd' of the wrapper
    are the transport's rows at the external node `N` (variables shifted by the supply's two variables); the
    reported dispatch at `N` is half the transported quantity at steps 1, 2 and 0 at step 0 and 4 and at the
    inner node `i` at every step -/
example : (∀ a ∈ [sup, tr], ∀ m ∈ a.mapping, m.kind = .d → m.step ∈ [1, 2, 3]) ∧
    (structured "sa" ["N"] [sup, tr] [0, 1, 2, 3, 4]).mapping.filter (·.kind == .d) =
      [⟨2, "sa", some "N", .d, 1, 1/2, false, "disp__tr"⟩, ⟨3, "sa", some "N", .d, 2, 1/2, false, "disp__tr"⟩,
       ⟨4, "sa", some "N", .d, 3, 1/2, false, "disp__tr"⟩] ∧
    dispatchOut (structured "sa" ["N"] [sup, tr] [0, 1, 2, 3, 4]).mapping "sa" "N" 1 y = 1 ∧
    dispatchOut (structured "sa" ["N"] [sup, tr] [0, 1, 2, 3, 4]).mapping "sa" "N" 2 y = 2 ∧
    dispatchOut (structured "sa" ["N"] [sup, tr] [0, 1, 2, 3, 4]).mapping "sa" "N" 0 y = 0 ∧
    dispatchOut (structured "sa" ["N"] [sup, tr] [0, 1, 2, 3, 4]).mapping "sa" "N" 4 y = 0 ∧
    dispatchOut (structured "sa" ["N"] [sup, tr] [0, 1, 2, 3, 4]).mapping "sa" "i" 1 y = 0 ∧
    dispatchOut (structured "sa" ["N"] [sup, tr] [0, 1, 2, 3, 4]).mapping "sa" "sa_internal_i" 1 y = 0 ∧
    (structured "sa" ["N"] [inactive, inactive] [0, 1]).mapping = [] ∧ (structured "sa" ["N"] [inactive, inactive] [0, 1]).c = [] := by
  decide +kernel

end Ex

end EAO.C08Scaled
