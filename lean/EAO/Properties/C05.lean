import EAO.Model.Storage
import EAO.Lemmas.Storage
/-!
# C05 — storage physics

Property theorems about `buildStorage` (model of `Storage.setup_optim_problem`) and the read-out
models `fillLevel`, `chargeOut`, `dischargeOut`.  Helper lemmas: `EAO/Lemmas/Storage.lean`.

Variables of a storage problem on a window of `n` steps: two-variable form `x_in,t = x t ≤ 0`
(charge), `x_out,t = x (n+t) ≥ 0` (discharge); one-variable form `x t` (negative = charge).
-/
namespace EAO.C05
open EAO EAO.Storage

/-- physical fill level at the end of step `t` of the window (two-variable form):
    `start + Σ_{i≤t} (eff·(−x_in,i) − x_out,i) + Σ_{i≤t} inflow·dt_i` -/
def physLevel2 (p : StorageP) (g : Grid) (n : Nat) (x : Vec) (t : Nat) : Rat :=
  p.startLevel + sumTo (fun i => p.effIn * (-(x i)) - x (n + i)) (t + 1)
    + sumTo (fun i => p.inflow * g.dt.getD i 0) (t + 1)

/-- physical fill level, one-variable form (efficiency is 1 there): `start + Σ_{i≤t} (−x_i) + Σ inflow·dt_i` -/
def physLevel1 (p : StorageP) (g : Grid) (x : Vec) (t : Nat) : Rat :=
  p.startLevel + sumTo (fun i => -(x i)) (t + 1) + sumTo (fun i => p.inflow * g.dt.getD i 0) (t + 1)

def physLevel (p : StorageP) (g : Grid) (n : Nat) (x : Vec) (t : Nat) : Rat :=
  if sep p then physLevel2 p g n x t else physLevel1 p g x t

theorem physLevel_eq_lev (p : StorageP) (g : Grid) (n : Nat) (x : Vec) (t : Nat) :
    physLevel p g n x t = lev p g n x (t + 1) := by
  unfold physLevel physLevel2 physLevel1 lev cumInfl
  have hi : sumTo (fun i => p.inflow * g.dt.getD i 0) (t + 1) = sumTo (infl p g) (t + 1) := rfl
  by_cases hs : sep p = true
  · simp only [hs, if_true, hi]
    congr 2
    apply sumTo_congr; intro j _; simp [flow, hs]
  · simp only [hs, Bool.false_eq_true, if_false, hi]
    congr 2
    apply sumTo_congr; intro j _; simp [flow, hs]

/-- rate limits implied by the bounds: two-variable form `−cap_in·dt ≤ x_in ≤ 0 ≤ x_out ≤ cap_out·dt`,
    one-variable form `−cap_in·dt ≤ x ≤ cap_out·dt` -/
def RatesOK (p : StorageP) (g : Grid) (n : Nat) (x : Vec) (t : Nat) : Prop :=
  if sep p then
    -(p.capIn * g.dt.getD t 0) ≤ x t ∧ x t ≤ 0 ∧ 0 ≤ x (n + t) ∧ x (n + t) ≤ p.capOut * g.dt.getD t 0
  else -(p.capIn * g.dt.getD t 0) ≤ x t ∧ x t ≤ p.capOut * g.dt.getD t 0

/-- rate limits hold for every `x` within the bounds of the problem (all options) -/
theorem storage_rates (p : StorageP) (g : Grid) (T : Nat) (prices : Prices) (a : AssetProblem) (x : Vec)
    (hb : buildStorage p g T prices = .ok a) (hlen : g.dt.length = g.T)
    (hx : InBounds a.l a.u x) : ∀ t, t < g.T → RatesOK p g g.T x t := by
  intro t ht
  have hne : g.dt.length ≠ 0 := by omega
  obtain ⟨pr, bl, _, _, rfl⟩ := buildStorage_ok p g T prices a hb hne
  simp only [InBounds, lowerVec_length] at hx
  have hnv := nd_le_nVars p g.T
  unfold RatesOK
  by_cases hs : sep p = true
  · simp only [hs, if_true]
    have hnd : nd p g.T = 2 * g.T := by simp [nd, hs]
    obtain ⟨b1, b2, b3, b4⟩ := bounds_two p g g.T t hs ht
    have h1 := hx t (by omega)
    have h2 := hx (g.T + t) (by omega)
    rw [b1, b2] at h1
    rw [b3, b4] at h2
    exact ⟨h1.1, h1.2, h2.1, h2.2⟩
  · have hs' : sep p = false := by simpa using hs
    simp only [hs', Bool.false_eq_true, if_false]
    have hnd : nd p g.T = g.T := by simp [nd, hs']
    obtain ⟨b1, b2⟩ := bounds_one p g g.T t hs' ht
    have h1 := hx t (by omega)
    rw [b1, b2] at h1
    exact h1

/-- the holding-duration indicators are within `[0,1]` by their bounds -/
theorem indOK_of_bounds (p : StorageP) (g : Grid) (n : Nat) (x : Vec)
    (hx : InBounds (lowerVec p g n) (upperVec p g n) x) (hs : p.maxStoreDuration.isSome = true) : IndOK p n x := by
  intro i hi
  simp only [InBounds, lowerVec_length] at hx
  have hv : nVars p n = mHold p n + n := by simp [nVars, hs]
  have hm : nd p n ≤ mHold p n := by unfold mHold; omega
  obtain ⟨b1, b2⟩ := bounds_bool p g n (mHold p n + i) (by omega) (by omega)
  have := hx (mHold p n + i) (by omega)
  rw [b1, b2] at this
  exact this

/-- core of the level theorems: the chain of blocks of a successful set-up and what the rows say on it
    (with or without the holding-duration option) -/
theorem levels_core (p : StorageP) (g : Grid) (T : Nat) (prices : Prices) (a : AssetProblem) (x : Vec)
    (hend : 0 ≤ p.endLevel ∧ p.endLevel ≤ p.size)
    (hb : buildStorage p g T prices = .ok a) (hlen : g.dt.length = g.T) (hpos : 0 < g.T)
    (hf : a.FeasibleRelaxed x) :
    (∀ t, t < g.T → 0 ≤ lev p g g.T x (t + 1) ∧ lev p g g.T x (t + 1) ≤ p.size) ∧
    lev p g g.T x g.T = p.endLevel ∧
    (∀ aa, p.blocks = some aa → ∀ e ∈ aa, 0 < e → lev p g g.T x e = p.endLevel) ∧
    (∀ d, p.maxStoreDuration = some d → ∀ t, t < g.T → x (mHold p g.T + t) = 0 → lev p g g.T x (t + 1) ≤ 0) := by
  have hne : g.dt.length ≠ 0 := by omega
  obtain ⟨pr, bl, hbl, _, rfl⟩ := buildStorage_ok p g T prices a hb hne
  obtain ⟨l, rfl, hinc, hlast, hl, haa⟩ := blocksOf_ok p g.T bl hbl hpos
  have hrows := hf.2
  simp only [List.mem_append] at hrows
  have hU : ∀ r ∈ upperRows p g g.T (blockPairs (0 :: l)), r.Sat x := fun r hr => hrows r (Or.inl (Or.inl (Or.inl hr)))
  have hbnd : ∀ ae ∈ blockPairs (0 :: l), ae.2 ≤ g.T := by
    intro ae hae
    have := blockPairs_bounds l 0 hinc ae hae
    rw [hlast] at this; exact this.2.2
  have hI := levelIneq_of_rows p g g.T x (blockPairs (0 :: l)) hend (indOK_of_bounds p g g.T x hf.1) hbnd
    hU (fun r hr => hrows r (Or.inl (Or.inl (Or.inr hr))))
  have h0 : lev p g g.T x 0 = blockStart p 0 := by
    simp [lev, blockStart, cumInfl, sumTo]; grind
  obtain ⟨c1, c2, c3⟩ := chain_levels p g g.T x hend l 0 hinc h0 hI
  rw [hlast] at c1
  refine ⟨fun t ht => c1 t (by omega) ht, ?_, ?_, ?_⟩
  · have := lastOf_mem l 0 hl
    rw [hlast] at this
    exact c2 _ this
  · intro aa h e he hpos'
    rcases haa aa h e he with h' | h'
    · omega
    · exact c2 e h'
  · intro d hmh t ht hind
    obtain ⟨ae, hae, h1, h2⟩ := blockPairs_cover l 0 t (by omega) (by rw [hlast]; exact ht)
    exact hold_zero p g g.T x ae.1 ae.2 t d hmh h1 (c3 ae hae)
      (hU _ (mem_upperRows p g g.T _ ae hae t h1 h2)) hind

/-- **Level bounds, with or without time blocks, with or without the holding-duration option.**  For every storage
    accepted by the constructor guards whose end level lies in `[0, size]`, every restricted grid and
    block list, every `x` within the bounds and satisfying the rows of `buildStorage`: the physical
    level is in `[0, size]` at every step of the window, equals the end level at the last step of the
    window and at the last step of every block (the level is carried over block boundaries), and the
    rate limits hold.
    (The constructor does not check the end level; with `end_level ∉ [0, size]` the two claims
    "level ≤ size at every step" and "level = end level at the last step" contradict each other.) -/
theorem storage_blocks (p : StorageP) (g : Grid) (T : Nat) (prices : Prices) (a : AssetProblem) (x : Vec)
    (_hg : p.guards = true) (hend : 0 ≤ p.endLevel ∧ p.endLevel ≤ p.size)
    (hb : buildStorage p g T prices = .ok a) (hlen : g.dt.length = g.T)
    (hf : a.FeasibleRelaxed x) :
    (∀ t, t < g.T → 0 ≤ physLevel p g g.T x t ∧ physLevel p g g.T x t ≤ p.size) ∧
    (0 < g.T → physLevel p g g.T x (g.T - 1) = p.endLevel) ∧
    (∀ aa, p.blocks = some aa → ∀ e ∈ aa, 0 < e → e ≤ g.T → physLevel p g g.T x (e - 1) = p.endLevel) ∧
    (∀ t, t < g.T → RatesOK p g g.T x t) := by
  refine ⟨?_, ?_, ?_, storage_rates p g T prices a x hb hlen hf.1⟩
  · intro t ht
    rw [physLevel_eq_lev]
    exact (levels_core p g T prices a x hend hb hlen (by omega) hf).1 t ht
  · intro hpos
    rw [physLevel_eq_lev]
    have : g.T - 1 + 1 = g.T := by omega
    rw [this]
    exact (levels_core p g T prices a x hend hb hlen hpos hf).2.1
  · intro aa haa e he hpos hle
    rw [physLevel_eq_lev]
    have : e - 1 + 1 = e := by omega
    rw [this]
    exact (levels_core p g T prices a x hend hb hlen (by omega) hf).2.2.1 aa haa e he hpos

/-- **Level bounds** (`storage_level_bounds`, no time blocks; any MIP options):
    `0 ≤ physLevel t ≤ size` at every active step, `physLevel` at the last step `= end_level`,
    `−cap_in·dt_t ≤ x_in,t ≤ 0 ≤ x_out,t ≤ cap_out·dt_t` (two-variable form; `−cap_in·dt_t ≤ x_t ≤ cap_out·dt_t`
    in the one-variable form). -/
theorem storage_level_bounds (p : StorageP) (g : Grid) (T : Nat) (prices : Prices) (a : AssetProblem) (x : Vec)
    (hg : p.guards = true) (hend : 0 ≤ p.endLevel ∧ p.endLevel ≤ p.size)
    (_hnb : p.blocks = none)
    (hb : buildStorage p g T prices = .ok a) (hlen : g.dt.length = g.T)
    (hf : a.FeasibleRelaxed x) :
    (∀ t, t < g.T → 0 ≤ physLevel p g g.T x t ∧ physLevel p g g.T x t ≤ p.size) ∧
    (0 < g.T → physLevel p g g.T x (g.T - 1) = p.endLevel) ∧
    (∀ t, t < g.T → RatesOK p g g.T x t) := by
  obtain ⟨h1, h2, _, h4⟩ := storage_blocks p g T prices a x hg hend hb hlen hf
  exact ⟨h1, h2, h4⟩

/-- **No simultaneous charge and discharge.**  With the option (two-variable form) and the variables
    flagged boolean in the mapping taking values in `{0, 1}`: at every step `x_in,t = 0 ∨ x_out,t = 0`. -/
theorem no_simult (p : StorageP) (g : Grid) (T : Nat) (prices : Prices) (a : AssetProblem) (x : Vec)
    (hns : p.noSimult = true) (hs : sep p = true)
    (hb : buildStorage p g T prices = .ok a) (hlen : g.dt.length = g.T)
    (hf : a.FeasibleRelaxed x)
    (hbool : ∀ m ∈ a.mapping, m.isBool = true → x m.var = 0 ∨ x m.var = 1) :
    ∀ t, t < g.T → x t = 0 ∨ x (g.T + t) = 0 := by
  intro t ht
  have hne : g.dt.length ≠ 0 := by omega
  have hr := storage_rates p g T prices a x hb hlen hf.1 t ht
  simp only [RatesOK, hs, if_true] at hr
  obtain ⟨pr, bl, _, _, rfl⟩ := buildStorage_ok p g T prices a hb hne
  have hNS : hasNS p = true := by simp [hasNS, hns, hs]
  have hrows := hf.2
  simp only [List.mem_append] at hrows
  have hin : (nsInRow p g g.T t).Sat x := by
    apply hrows _ (Or.inl (Or.inr _))
    simp only [nsRows, hNS, if_true, List.mem_append, List.mem_map, List.mem_range]
    exact Or.inl ⟨t, ht, rfl⟩
  have hout : (nsOutRow p g g.T t).Sat x := by
    apply hrows _ (Or.inl (Or.inr _))
    simp only [nsRows, hNS, if_true, List.mem_append, List.mem_map, List.mem_range]
    exact Or.inr ⟨t, ht, rfl⟩
  have hb01 : x (2 * g.T + t) = 0 ∨ x (2 * g.T + t) = 1 := by
    apply hbool { var := 2 * g.T + t, asset := p.name, node := none, kind := .i, step := idxAt g t,
                  factor := 1, isBool := true, varName := "bool_1" } _ rfl
    simp only [Storage.mapping, hNS, if_true, List.mem_append, boolMap, List.mem_map, List.mem_range]
    exact Or.inl (Or.inr ⟨t, ht, rfl⟩)
  simp only [Row.Sat, nsInRow, nsOutRow, Row.eval, List.map_cons, List.map_nil, List.sum_cons, List.sum_nil] at hin hout
  rcases hb01 with h0 | h1
  · right; rw [h0] at hout; grind
  · left; rw [h1] at hin; grind

/-- the level the code reports at position `t` of the window, for ANY `x`:
    `start + Σ_{i≤t} (max(0,−x)·eff + min(0,−x) over the step's variables) + Σ_{i≤t} inflow·dt_i` -/
def reportedLevel (p : StorageP) (g : Grid) (n : Nat) (x : Vec) (t : Nat) : Rat :=
  p.startLevel + sumTo (fun k => repFlow p n x k + p.inflow * g.dt.getD k 0) (t + 1)

/-- **Reported fill level, for all `x`.**  The model of `Storage.fill_level` (= `<name>_fill_level`),
    applied to the storage's own mapping, gives at the full-grid step of window position `t` the level
    computed from `max(0,−x)·eff + min(0,−x)` per variable plus inflow — provided the step indices of the
    restricted grid are strictly increasing (they are: `I` is a sub-sequence of `0…T−1`). -/
theorem fill_level_reported (p : StorageP) (g : Grid) (T Tfull : Nat) (prices : Prices) (a : AssetProblem) (x : Vec)
    (hb : buildStorage p g T prices = .ok a) (hlen : g.dt.length = g.T) (hlen' : g.idx.length = g.T)
    (hinc : IdxInc g g.T) (t : Nat) (ht : t < g.T) (htT : idxAt g t < Tfull) :
    (fillLevel p a.mapping g Tfull x).getD (idxAt g t) 0 = reportedLevel p g g.T x t := by
  have hne : g.dt.length ≠ 0 := by omega
  obtain ⟨pr, bl, _, _, rfl⟩ := buildStorage_ok p g T prices a hb hne
  unfold fillLevel reportedLevel
  rw [List.getD_eq_getElem?_getD, List.getElem?_map, List.getElem?_range htT]
  simp only [Option.map_some, Option.getD_some]
  rw [sumTo_fillInc p g g.T x hlen' hinc t ht]
  have : (fun k => repFlow p g.T x k + infl p g k) = fun k => repFlow p g.T x k + p.inflow * g.dt.getD k 0 := rfl
  rw [this]; grind

/-- **The reported fill level is the physical level** (`fill_level_true`).  Two-variable form: for every
    `x` with `x_in ≤ 0 ≤ x_out` (which the bounds enforce); one-variable form: for every `x`. -/
theorem fill_level_true (p : StorageP) (g : Grid) (T Tfull : Nat) (prices : Prices) (a : AssetProblem) (x : Vec)
    (hb : buildStorage p g T prices = .ok a) (hlen : g.dt.length = g.T) (hlen' : g.idx.length = g.T)
    (hinc : IdxInc g g.T)
    (hsign : sep p = true → ∀ k, k < g.T → x k ≤ 0 ∧ 0 ≤ x (g.T + k))
    (t : Nat) (ht : t < g.T) (htT : idxAt g t < Tfull) :
    (fillLevel p a.mapping g Tfull x).getD (idxAt g t) 0 = physLevel p g g.T x t := by
  rw [fill_level_reported p g T Tfull prices a x hb hlen hlen' hinc t ht htT, physLevel_eq_lev]
  unfold reportedLevel lev cumInfl
  have h1 : sumTo (fun k => repFlow p g.T x k + p.inflow * g.dt.getD k 0) (t + 1)
      = sumTo (fun k => flow p g.T x k + infl p g k) (t + 1) := by
    apply sumTo_congr
    intro k hk
    congr 1
    unfold repFlow flow
    by_cases hs : sep p = true
    · obtain ⟨h1, h2⟩ := hsign hs k (by omega)
      have e1 : posPart (-(x k)) = -(x k) := by unfold posPart; split <;> grind
      have e2 : negPart (-(x k)) = 0 := by unfold negPart; split <;> grind
      have e3 : posPart (-(x (g.T + k))) = 0 := by unfold posPart; split <;> grind
      have e4 : negPart (-(x (g.T + k))) = -(x (g.T + k)) := by unfold negPart; split <;> grind
      simp only [hs, if_true, e1, e2, e3, e4]; grind
    · have he : p.effIn = 1 := by
        unfold sep at hs
        simp only [Bool.or_eq_true, decide_eq_true_eq, not_or, Decidable.not_not] at hs
        exact hs.1.1.1
      simp only [hs, Bool.false_eq_true, if_false, he]
      unfold posPart negPart
      split <;> split <;> grind
  rw [h1, sumTo_add]; grind

/-- in the two-variable form the sign condition of `fill_level_true` follows from the bounds -/
theorem fill_level_true_feasible (p : StorageP) (g : Grid) (T Tfull : Nat) (prices : Prices) (a : AssetProblem) (x : Vec)
    (hb : buildStorage p g T prices = .ok a) (hlen : g.dt.length = g.T) (hlen' : g.idx.length = g.T)
    (hinc : IdxInc g g.T) (hx : InBounds a.l a.u x)
    (t : Nat) (ht : t < g.T) (htT : idxAt g t < Tfull) :
    (fillLevel p a.mapping g Tfull x).getD (idxAt g t) 0 = physLevel p g g.T x t := by
  apply fill_level_true p g T Tfull prices a x hb hlen hlen' hinc _ t ht htT
  intro hs k hk
  have := storage_rates p g T prices a x hb hlen hx k hk
  simp only [RatesOK, hs, if_true] at this
  exact ⟨this.2.1, this.2.2.1⟩

/-- well-formedness of an asset problem — the same fields as `EAO.C07.AssetWF` (restated here so that this
    file does not depend on C07; `⟨h.len_l, h.len_u, h.cols, h.map, h.disp, h.noN⟩` converts) -/
structure AssetWF (gridI : List Nat) (a : AssetProblem) : Prop where
  len_l : a.l.length = a.n
  len_u : a.u.length = a.n
  cols  : ∀ r ∈ a.rows, ∀ q ∈ r.coeffs, q.1 < a.n
  map   : ∀ m ∈ a.mapping, m.asset = a.name ∧ m.var < a.n
  disp  : ∀ m ∈ a.mapping, ∀ n, m.kind = .d → m.node = some n → n ∈ a.nodes ∧ m.step ∈ gridI
  noN   : ∀ r ∈ a.rows, r.kind ≠ .N

/-- **Well-formedness** (`storage_wf`): whatever `buildStorage` returns (all options, empty window
    included) has one bound pair per variable, rows over existing variables only and none of kind `N`,
    mapping rows that name the storage and existing variables, dispatch rows at the storage's own nodes
    and at steps of the restricted grid (which are steps of the portfolio grid `gridI`). -/
theorem storage_wf (p : StorageP) (g : Grid) (T : Nat) (prices : Prices) (a : AssetProblem) (gridI : List Nat)
    (hb : buildStorage p g T prices = .ok a) (hlen : g.dt.length = g.T)
    (hI : ∀ k, k < g.T → idxAt g k ∈ gridI) :
    AssetWF gridI a ∧ a.name = p.name ∧ a.nodes = p.nodes ∧ a.n = (if g.T = 0 then 0 else nVars p g.T) := by
  by_cases hne : g.dt.length = 0
  · have hT : g.T = 0 := by omega
    unfold buildStorage at hb
    rw [if_pos hne] at hb
    cases hb
    refine ⟨⟨rfl, rfl, ?_, ?_, ?_, ?_⟩, rfl, rfl, ?_⟩
    · intro r hr; simp at hr
    · intro r hr; simp at hr
    · intro r hr; simp at hr
    · intro r hr; simp at hr
    · rw [if_pos hT]; rfl
  · have hpos : 0 < g.T := by omega
    have hT : ¬ g.T = 0 := by omega
    obtain ⟨pr, bl, hbl, _, rfl⟩ := buildStorage_ok p g T prices a hb hne
    obtain ⟨l, rfl, hinc, hlast, _, _⟩ := blocksOf_ok p g.T bl hbl hpos
    have hc := costVec_length p g g.T pr
    rw [if_neg hT]
    refine ⟨⟨?_, ?_, ?_, ?_, ?_, ?_⟩, rfl, rfl, hc⟩
    · show _ = (costVec p g g.T pr).length
      rw [hc]; exact lowerVec_length p g g.T
    · show _ = (costVec p g g.T pr).length
      rw [hc]; exact upperVec_length p g g.T
    · intro r hr q hq
      show q.1 < (costVec p g g.T pr).length
      rw [hc]; exact storage_cols p g g.T l hinc hlast r hr q hq
    · intro m hm
      show _ ∧ m.var < (costVec p g g.T pr).length
      rw [hc]
      have := storage_mapping_wf p g g.T m hm
      exact ⟨this.1, this.2.1⟩
    · intro m hm nn hk hnode
      obtain ⟨h1, k, hk', hstep⟩ := (storage_mapping_wf p g g.T m hm).2.2 nn hk hnode
      exact ⟨h1, hstep ▸ hI k hk'⟩
    · exact storage_rows_noN p g g.T _

/-! ### maximum holding duration (rows after the repair of F-05d: `level_t ≤ level_max_t·ind_t`) -/

/-- **Indicator 0 means empty.**  With `max_store_duration = some d`: at every step of the window whose
    indicator `ind_t = x (mHold + t)` is 0 the physical level is 0 (`≤ 0` from the repaired "full" row,
    `≥ 0` from the level bounds; at a block or window end this forces `end_level = 0`). -/
theorem max_hold_indicator (p : StorageP) (g : Grid) (T : Nat) (prices : Prices) (a : AssetProblem) (x : Vec) (d : Rat)
    (hend : 0 ≤ p.endLevel ∧ p.endLevel ≤ p.size) (hmh : p.maxStoreDuration = some d)
    (hb : buildStorage p g T prices = .ok a) (hlen : g.dt.length = g.T)
    (hf : a.FeasibleRelaxed x) :
    ∀ t, t < g.T → x (mHold p g.T + t) = 0 → physLevel p g g.T x t = 0 := by
  intro t ht hind
  have hc := levels_core p g T prices a x hend hb hlen (by omega) hf
  rw [physLevel_eq_lev]
  have h1 := (hc.1 t ht).1
  have h2 := hc.2.2.2 d hmh t ht hind
  grind

/-- **Holding duration** (`max_hold`).  With `max_store_duration = some d` and the variables flagged boolean
    in the mapping in `{0,1}`: for every start step `i` whose window — the steps from `i` on whose cumulated
    length is within `d`, plus the first step beyond (`holdWindow … = some sel`, relative positions) —
    reaches beyond the limit, the level is 0 at some step of the window; so the level is not `> 0` at all
    steps of any stretch longer than the limit.  With or without time blocks. -/
theorem max_hold (p : StorageP) (g : Grid) (T : Nat) (prices : Prices) (a : AssetProblem) (x : Vec) (d : Rat)
    (hend : 0 ≤ p.endLevel ∧ p.endLevel ≤ p.size) (hmh : p.maxStoreDuration = some d)
    (hb : buildStorage p g T prices = .ok a) (hlen : g.dt.length = g.T)
    (hf : a.FeasibleRelaxed x)
    (hbool : ∀ m ∈ a.mapping, m.isBool = true → x m.var = 0 ∨ x m.var = 1) :
    ∀ i sel, i < g.T → holdWindow g g.T d i = some sel →
      (∃ k0 ∈ sel, d < cumDtFrom g i k0) ∧
      (∃ k ∈ sel, physLevel p g g.T x (i + k) = 0) ∧
      ¬ (∀ k ∈ sel, 0 < physLevel p g g.T x (i + k)) := by
  intro i sel hi hw
  have hzero := max_hold_indicator p g T prices a x d hend hmh hb hlen hf
  have hne : g.dt.length ≠ 0 := by omega
  obtain ⟨pr, bl, hbl, _, rfl⟩ := buildStorage_ok p g T prices a hb hne
  have hrows := hf.2
  simp only [List.mem_append] at hrows
  have hsel := holdWindow_lt g g.T d i sel hw
  -- the window row
  have hr : ({ coeffs := sel.map fun k => (mHold p g.T + i + k, (1 : Rat)), rhs := (sel.length : Rat) - 1, kind := .U } : Row).Sat x := by
    apply hrows _ (Or.inr _)
    unfold holdRows
    rw [hmh]
    simp only
    apply List.mem_filterMap.mpr
    refine ⟨i, List.mem_range.mpr hi, ?_⟩
    unfold holdRow
    rw [hw]
    rfl
  simp only [Row.Sat, Row.eval, List.map_map] at hr
  have e0 : ((fun (q : Nat × Rat) => q.2 * x q.1) ∘ fun k => (mHold p g.T + i + k, (1 : Rat)))
      = fun k => 1 * x (mHold p g.T + i + k) := rfl
  rw [e0] at hr
  have e : (sel.map fun k => 1 * x (mHold p g.T + i + k)) = sel.map fun k => x (mHold p g.T + i + k) := by
    apply List.map_congr_left; intro k _; grind
  rw [e] at hr
  -- the indicators are 0/1
  have h01 : ∀ k ∈ sel, x (mHold p g.T + i + k) = 0 ∨ x (mHold p g.T + i + k) = 1 := by
    intro k hk
    have hk' := hsel k hk
    have hmem : ({ var := mHold p g.T + (i + k), asset := p.name, node := none, kind := .i, step := idxAt g (i + k),
                   factor := 1, isBool := true, varName := "bool_2" } : MapRow) ∈ Storage.mapping p g g.T := by
      simp only [Storage.mapping, hmh, Option.isSome_some, if_true, List.mem_append, boolMap, List.mem_map, List.mem_range]
      exact Or.inr ⟨i + k, by omega, rfl⟩
    have := hbool _ hmem rfl
    simp only [← Nat.add_assoc] at this
    exact this
  obtain ⟨k, hk, hk0⟩ := exists_zero_of_sum sel (fun k => x (mHold p g.T + i + k)) h01 hr
  have hlev : physLevel p g g.T x (i + k) = 0 := by
    apply hzero (i + k) (by have := hsel k hk; omega)
    rw [← Nat.add_assoc]; exact hk0
  refine ⟨holdWindow_exceeds g g.T d i sel hw, ⟨k, hk, hlev⟩, ?_⟩
  intro hall
  have := hall k hk
  rw [hlev] at this
  exact absurd this (by decide)

/-
TARGET (not proved here; covered by the `storage_readout` correspondence and the oracle `storage.reported`):
  `charge_discharge_true` — for the storage's mapping embedded at any offset in a portfolio mapping,
  `chargeOut p M x (idx t) = −x_in,t` and `dischargeOut p M x (idx t) = −x_out,t` for `x_in ≤ 0 ≤ x_out`
  (one-variable form: `max(0,−x_t)` and `min(0,−x_t)`), and `fill_level_true` for the embedded mapping
  (the proofs above are for the storage's own mapping, i.e. offset 0).
HISTORY (finding F-05d, repaired in /repo by e156f4e): before the repair the "full" rows with the option
  read `rel_t − b_t·ind_t ≤ 0` with `b_t = size − start − inflow_t` (last row: `end − start − inflow`), so
  `ind_t = 0` only gave `physLevel t ≤ start + inflow_t`, and neither the size bound nor the end level was
  enforced when `b_t < 0`.  Witness then: size 2, start 2, end 0, limit 1, two steps of length 1, `x = 0`,
  `ind = 0` was feasible (level 2, 2).  `old_witness_now_rejected` below checks that the repaired rows
  reject that point.
-/

/-! ### non-vacuity: concrete instances satisfying the hypotheses, and the F-05d witness -/

instance (l u : List Rat) (x : Vec) : Decidable (InBounds l u x) := by
  unfold InBounds; exact inferInstance

/-- executable feasibility check of a set-up result -/
def feasibleB (r : Except BuildError AssetProblem) (x : Vec) : Bool :=
  match r with
  | .ok a => decide (InBounds a.l a.u x) && a.rows.all fun r => decide (r.Sat x)
  | .error _ => false

theorem feasibleB_ok (a : AssetProblem) (x : Vec) (h : feasibleB (.ok a) x = true) : a.FeasibleRelaxed x := by
  simp only [feasibleB, Bool.and_eq_true, decide_eq_true_eq, List.all_eq_true] at h
  exact ⟨h.1, h.2⟩

def vecOf (xs : List Rat) : Vec := fun j => xs.getD j 0

/-- four steps of length 1 -/
def exG : Grid := { pts := [0, 3600, 7200, 10800], idx := [2, 3, 4, 5], dt := [1, 1, 1, 1], Dt := [1, 2, 3, 4], df := [1, 1, 1, 1] }

/-- two-variable storage (efficiency 1/2) with inflow, start = end = 1, two time blocks `[0,2)`, `[2,4)` -/
def exP : StorageP :=
  { name := "s", nodes := ["a"], size := 4, capIn := 2, capOut := 2, startLevel := 1, endLevel := 1,
    costIn := 0, costOut := 0, costStore := 0, effIn := 1/2, inflow := 1/4, price := none,
    noSimult := false, maxStoreDuration := none, blocks := some [0, 2] }

/-- charge 1 in steps 0 and 2, discharge 1 in steps 1 and 3 -/
def exX : Vec := vecOf [-1, 0, -1, 0, 0, 1, 0, 1]

/-- the hypotheses of `storage_blocks` / `storage_level_bounds` are satisfiable (guards, end level in range,
    set-up succeeds, a feasible point that moves volume) -/
example : exP.guards = true ∧ (0 ≤ exP.endLevel ∧ exP.endLevel ≤ exP.size) ∧
    feasibleB (buildStorage exP exG 8 []) exX = true := by decide +kernel

/-- … and the conclusion evaluates as expected on it: levels 7/4, 1, 7/4, 1 -/
example : (List.range 4).map (physLevel exP exG 4 exX) = [7/4, 1, 7/4, 1] := by decide +kernel

/-- the model of the reported level gives the same numbers at the full-grid steps 2…5 (and the start level before) -/
example : (match buildStorage exP exG 8 [] with
    | .ok a => fillLevel exP a.mapping exG 8 exX
    | .error _ => []) = [1, 1, 7/4, 1, 7/4, 1, 1, 1] := by decide +kernel

/-- no-simultaneous option: a feasible point with booleans in `{0,1}` (mode in, out, in, out) -/
example : feasibleB (buildStorage { exP with noSimult := true, blocks := none } exG 8 [])
    (vecOf [-1, 0, -1, 0, 0, 1, 0, 1, 0, 1, 0, 1]) = true := by decide +kernel

/-- one-variable storage, size 2, start level 2, end level 0, `max_store_duration = 1`, two steps of length 1 -/
def exHoldP : StorageP :=
  { name := "s", nodes := ["a"], size := 2, capIn := 2, capOut := 2, startLevel := 2, endLevel := 0,
    costIn := 0, costOut := 0, costStore := 0, effIn := 1, inflow := 0, price := none,
    noSimult := false, maxStoreDuration := some 1, blocks := none }

def exHoldG : Grid := { pts := [0, 3600], idx := [0, 1], dt := [1, 1], Dt := [1, 2], df := [1, 1] }

/-- the hypotheses of `max_hold` are satisfiable: emptying the storage in the first step (indicators 0, 0)
    is feasible, the window of start step 0 is `[0, 1]` (2 time units > limit 1), levels 0, 0 -/
example : feasibleB (buildStorage exHoldP exHoldG 2 []) (vecOf [2, 0, 0, 0]) = true ∧
    holdWindow exHoldG 2 1 0 = some [0, 1] ∧
    (List.range 2).map (physLevel exHoldP exHoldG 2 (vecOf [2, 0, 0, 0])) = [0, 0] := by decide +kernel

/-- the point that witnessed F-05d on the old rows (do nothing, indicators 0: level stays 2 for 2 time units,
    ends at 2 instead of 0) is rejected by the repaired rows; so is doing nothing with indicators 1, 1 -/
theorem old_witness_now_rejected :
    feasibleB (buildStorage exHoldP exHoldG 2 []) (vecOf [0, 0, 0, 0]) = false ∧
    feasibleB (buildStorage exHoldP exHoldG 2 []) (vecOf [0, 0, 1, 1]) = false := by decide +kernel

end EAO.C05
