import EAO.Model.CHP
import EAO.Spec.UnitCommit
import EAO.Lemmas.UC
import EAO.Lemmas.CHPRows
import EAO.Lemmas.CHPCommit
import EAO.Lemmas.CHPFuel
import EAO.Lemmas.CHPMinLoad
import EAO.Lemmas.CHPProfile
/-!
# C06 — Plant / CHP unit commitment: runtime, downtime, ramps, starts, heat and fuel

Theorems about `assembleCHP` (the generation part of the model `buildCHP` of
`CHPAsset.setup_optim_problem` / `Plant`; `buildCHP p … = .ok a` with a non-empty window means
`a = assembleCHP r` for the resolved inputs `r`) — sections (1)–(5), the PROFILE-FREE case —, about the model
`buildMinLoad` of `CHPAsset_with_min_load_costs` — section (6) — and about `assembleCHPP`, the model WITH start /
shutdown ramp profiles (`start_ramp_*`, `shutdown_ramp_*`, `_convert_ramp`, shutdown variables) — section (7).
The statements section (7) left open — (1a) `commit_rows_iff_spec` for the rows WITH shutdown variables and the increased
minimum runtime, the flags at the first and last step, the reading of the HEAT profile rows (`heatProfRows`), the relaxed
ramp rows when several flags are set at once, and `convertRamp` (interpolation / averaging of a profile given in
`ramp_freq`) — are proved in `EAO/Properties/C06Profile.lean` (namespace `EAO.C06P`).

Reading of the variables of an assignment `x : Vec`: power `x (L.power j)`, heat `x (L.heat j)`,
on `x (L.on j)`, start `x (L.start j)` with `L = r.layout`; virtual dispatch `r.vd x j = power + conv_j·heat`.

State of the tree: F-06a (first-step upper ramp), F-06e (conversion factor in ramp rows) and F-06f (bound slices
spilling into the start variables) are repaired in /repo and the model follows the repaired code; F-06b
(spurious start flags), F-06c (first-step lower ramp with `time_already_running = 0`) and F-06d (guard on raw
values) remain and are visible below as `spurious_start_feasible`, the `tar = 0` branch of `ramp_first_step`, and
the hypothesis `GuardOK` of `spec_iff_automaton`.
-/
namespace EAO.C06
open EAO EAO.UC EAO.CHPRows EAO.CHPCommit

/-! ## (1) on/off patterns -/

/-- (1a), Boolean form, unbounded in `T`, `R`, `D` and the initial state: a pattern extends to start flags
    satisfying the Boolean reading `RowsF` of the start-definition, min-runtime and min-downtime rows and of
    the initial-state bounds iff it satisfies the run-length specification. -/
theorem commit_rows_iff_spec_bool (p : UCP) (on : List Bool) :
    (∃ start : Nat → Bool, RowsF p on.length (fn on) start) ↔ MinUpDown p on :=
  UC.commit_rows_iff_spec_bool p on

/-- (1a) about the rows `buildCHP` GENERATES, unbounded in `T`, `R`, `D` (steps) and the initial state:
    a pattern `on` (as 0/1 values of the on variables) extends to a 0/1 assignment of the start variables
    satisfying the generated start-definition, min-runtime and min-downtime rows and the bounds of the on and
    start variables (which carry the initial state) iff it satisfies the run-length specification. -/
theorem commit_rows_iff_spec (r : CHPR) (hwf : CommitWF r) (on : List Bool) (hlen : on.length = r.T) :
    CommitFeasible r on ↔ MinUpDown (ucp r) on :=
  CHPCommit.commit_rows_iff_spec r hwf on hlen

/-- (1a)+(1b): under the guard in steps the admissible patterns are exactly those the automaton accepts -/
theorem commit_rows_iff_automaton (r : CHPR) (hwf : CommitWF r) (hg : GuardOK (ucp r)) (on : List Bool)
    (hlen : on.length = r.T) : CommitFeasible r on ↔ accepts (ucp r) on = true :=
  (commit_rows_iff_spec r hwf on hlen).trans (UC.spec_iff_automaton (ucp r) on hg)

/-- (1b) the run-length specification holds iff the automaton accepts, under the constructor's guard read
    on the values in steps. -/
theorem spec_iff_automaton (p : UCP) (on : List Bool) (hg : GuardOK p) :
    MinUpDown p on ↔ accepts p on = true :=
  UC.spec_iff_automaton p on hg

/-- the guard is needed: with no declared history and a minimum downtime of two steps the specification
    (and the rows of the code) treat step 0 as a fresh stop, the automaton as "off long enough"
    (reachable in the code when `min_downtime ≤ 1` main time unit spans several grid steps: finding F-06d) -/
example : ¬ GuardOK ⟨0, 2, 0, 0⟩ ∧ ¬ MinUpDown ⟨0, 2, 0, 0⟩ [false, true] ∧ accepts ⟨0, 2, 0, 0⟩ [false, true] = true := by
  decide

example : GuardOK ⟨2, 3, 0, 1⟩ ∧ MinUpDown ⟨2, 3, 0, 1⟩ [false, false, true, true, false] ∧
    accepts ⟨2, 3, 0, 1⟩ [false, false, true, true, false] = true := by decide

/-! ## (2) capacity -/

/-- with on-variables: off ⇒ virtual dispatch 0 (given non-negative dispatch), on ⇒ between min and max capacity -/
theorem capacity_on_off (r : CHPR) (x : Vec) (hx : (assembleCHP r).FeasibleRelaxed x) (hon : r.incOn = true)
    (i : Nat) (hi : i < r.n) :
    (x (r.layout.on (r.stepOff i)) = 0 → r.vd x i = 0) ∧
    (x (r.layout.on (r.stepOff i)) = 1 → r.minCap i ≤ r.vd x i ∧ r.vd x i ≤ r.maxCap i) := by
  have hL := (capLower_sat r x i).mp (sat_of_mem hx (capLower_mem r hi))
  have hU := (capUpper_sat r x i).mp (sat_of_mem hx (capUpper_mem r hi))
  simp only [hon, if_true] at hL hU
  constructor
  · intro h0; rw [h0] at hL hU; grind
  · intro h1; rw [h1] at hL hU; grind

/-- without on-variables: `0 ≤ v ≤ max_cap` -/
theorem capacity_without_on (r : CHPR) (x : Vec) (hx : (assembleCHP r).FeasibleRelaxed x) (hon : r.incOn = false)
    (i : Nat) (hi : i < r.n) : 0 ≤ r.vd x i ∧ r.vd x i ≤ r.maxCap i := by
  have hL := (capLower_sat r x i).mp (sat_of_mem hx (capLower_mem r hi))
  have hU := (capUpper_sat r x i).mp (sat_of_mem hx (capUpper_mem r hi))
  simp [hon] at hL hU
  exact ⟨hL, hU⟩

/-! ## (3) ramps -/

/-- steps `t ≥ 1`: `v_t` within `ramp` of the virtual dispatch of step `t−1`; with on-variables the allowance
    downwards is `ramp·on_{t−1}` (a shutdown needs `v_{t−1} ≤ ramp`), upwards `ramp·on_t` (a start is bounded by `ramp`) -/
theorem ramp_steps (r : CHPR) (x : Vec) (hx : (assembleCHP r).FeasibleRelaxed x) (ρ : Rat) (hρ : r.ramp = some ρ)
    (t : Nat) (h1 : 1 ≤ t) (ht : t < r.T) :
    r.vd x (t - 1) - (if r.incOn then ρ * x (r.layout.on (t - 1)) else ρ) ≤ r.vd x t ∧
    r.vd x t ≤ r.vd x (t - 1) + (if r.incOn then ρ * x (r.layout.on t) else ρ) :=
  ⟨(rampLower_sat r x ρ t).mp (sat_of_mem hx (rampLower_mem r hρ h1 ht)),
   (rampUpper_sat r x ρ t).mp (sat_of_mem hx (rampUpper_mem r hρ h1 ht))⟩

/-- on at both steps (or no on-variables): `|v_t − v_{t−1}| ≤ ramp` -/
theorem ramp_steps_on (r : CHPR) (x : Vec) (hx : (assembleCHP r).FeasibleRelaxed x) (ρ : Rat) (hρ : r.ramp = some ρ)
    (t : Nat) (h1 : 1 ≤ t) (ht : t < r.T)
    (hon : r.incOn = true → x (r.layout.on (t - 1)) = 1 ∧ x (r.layout.on t) = 1) :
    r.vd x (t - 1) - ρ ≤ r.vd x t ∧ r.vd x t ≤ r.vd x (t - 1) + ρ := by
  have h := ramp_steps r x hx ρ hρ t h1 ht
  cases ho : r.incOn
  · simpa [ho] using h
  · obtain ⟨ha, hb⟩ := hon ho
    simp only [ho, if_true, ha, hb] at h
    constructor <;> grind

/-- start from off at `t ≥ 1` (`on_{t−1} = 0`, hence `v_{t−1} = 0` by `capacity_on_off`): `v_t ≤ v_{t−1} + ramp·on_t`;
    shutdown at `t` (`on_t = 0`): `v_{t−1} ≤ v_t + ramp·on_{t−1}` — both are `ramp_steps` read at 0/1 values. -/
theorem ramp_steps_shutdown (r : CHPR) (x : Vec) (hx : (assembleCHP r).FeasibleRelaxed x) (ρ : Rat) (hρ : r.ramp = some ρ)
    (t : Nat) (h1 : 1 ≤ t) (ht : t < r.T) (hon : r.incOn = true) (hprev : x (r.layout.on (t - 1)) = 1)
    (hoff : r.vd x t = 0) : r.vd x (t - 1) ≤ ρ := by
  have h := (ramp_steps r x hx ρ hρ t h1 ht).1
  simp only [hon, if_true, hprev, hoff] at h
  grind

/-- first step relative to `last_dispatch`: upper side in the property's form (`v_0 ≤ last + ramp` when on, and
    `v_0 ≤ last + ramp·on_0` in general); lower side as the code has it: the allowance `ramp` is granted only when
    `time_already_running > 0` (finding F-06c: with `time_already_running = 0` the row is `v_0 ≥ last_dispatch`) -/
theorem ramp_first_step (r : CHPR) (x : Vec) (hx : (assembleCHP r).FeasibleRelaxed x) (ρ : Rat) (hρ : r.ramp = some ρ) :
    (if r.tar = 0 then r.last else r.last - ρ) ≤ r.vd x 0 ∧
    r.vd x 0 ≤ r.last + (if r.incOn then ρ * x (r.layout.on 0) else ρ) :=
  ⟨(rampFirstLower_sat r x ρ).mp (sat_of_mem hx (rampFirstLower_mem r hρ)),
   (rampFirstUpper_sat r x ρ).mp (sat_of_mem hx (rampFirstUpper_mem r hρ))⟩

/-- already running (`time_already_running > 0`), and on at step 0 or no on-variables: `|v_0 − last| ≤ ramp` -/
theorem ramp_first_step_running (r : CHPR) (x : Vec) (hx : (assembleCHP r).FeasibleRelaxed x) (ρ : Rat)
    (hρ : r.ramp = some ρ) (htar : 0 < r.tar) (hon : r.incOn = true → x (r.layout.on 0) = 1) :
    r.last - ρ ≤ r.vd x 0 ∧ r.vd x 0 ≤ r.last + ρ := by
  have h := ramp_first_step r x hx ρ hρ
  have ht : ¬ r.tar = 0 := by omega
  cases ho : r.incOn
  · simpa [ho, ht] using h
  · have h1 := hon ho
    simp only [ho, ht, if_true, if_false, h1] at h
    constructor <;> grind

/-- the former witness of F-06a (`Plant(min 1, max 10, ramp 1, time_already_running 5, last_dispatch 8,
    min_runtime 7)`, two steps, `v_0 = 10`) is now REJECTED by the generated problem -/
def witnessF06a : CHPR :=
  { name := "p", nodes := ["el"], T := 2, idx := [0, 1],
    base := { name := "p", nodes := ["el"], c := [0, 0], l := [1, 1], u := [10, 10], rows := [],
              mapping := [⟨0, "p", some "el", .d, 0, 1, false, "disp"⟩, ⟨1, "p", some "el", .d, 1, 1, false, "disp"⟩] },
    heat := false, fuel := none, conv := [1, 1], share := none, ramp := some 1, last := 8,
    startCosts := [0, 0], runningCosts := [0, 0], R := 7, D := 0, tar := 5, tao := 0, incOn := true, incStart := true,
    fuelEff := [], consIfOn := [], startFuel := [] }

theorem first_step_up_ramp_enforced_on_old_witness :
    ¬ (assembleCHP witnessF06a).FeasibleRelaxed (fun j => [10, 10, 1, 1, 0, 0].getD j 0) ∧
    (assembleCHP witnessF06a).FeasibleRelaxed (fun j => [9, 10, 1, 1, 0, 0].getD j 0) := by
  unfold AssetProblem.FeasibleRelaxed InBounds
  decide +kernel

/-! ## (4) start flags -/

/-- every feasible point flags at least the off→on transitions: `start_{t+1} ≥ on_{t+1} − on_t` -/
theorem start_flag (r : CHPR) (x : Vec) (hx : (assembleCHP r).FeasibleRelaxed x) (hs : r.incStart = true)
    (t : Nat) (ht : t + 1 < r.T) :
    x (r.layout.on (t + 1)) - x (r.layout.on t) ≤ x (r.layout.start (t + 1)) :=
  (startDefRow_sat r x t).mp (sat_of_mem hx (startDefRow_mem r hs ht))

/-- at step 0 after being off (`time_already_running = 0`) the flag equals the on variable -/
theorem start_flag_first (r : CHPR) (x : Vec) (hx : (assembleCHP r).FeasibleRelaxed x) (hs : r.incStart = true)
    (h0 : r.tar = 0) : x (r.layout.start 0) = x (r.layout.on 0) :=
  (startFirstRow_sat r x).mp (sat_of_mem hx (startFirstRow_mem r hs h0))

/-- witness for F-06b (`Plant(min 1, max 3, min_runtime 2)`, five steps): on `11111` with start flags `10100`
    is feasible — a start is flagged at step 2 without an off→on transition.  (TARGET not reached: "a start is
    flagged exactly at off→on transitions"; only `≥` holds without shutdown variables.) -/
def witnessF06b : CHPR :=
  { name := "p", nodes := ["el"], T := 5, idx := [0, 1, 2, 3, 4],
    base := { name := "p", nodes := ["el"], c := [0, 0, 0, 0, 0], l := [1, 1, 1, 1, 1], u := [3, 3, 3, 3, 3], rows := [],
              mapping := (List.range 5).map fun j => ⟨j, "p", some "el", .d, j, 1, false, "disp"⟩ },
    heat := false, fuel := none, conv := [1, 1, 1, 1, 1], share := none, ramp := none, last := 0,
    startCosts := [0, 0, 0, 0, 0], runningCosts := [0, 0, 0, 0, 0], R := 2, D := 0, tar := 0, tao := 0,
    incOn := true, incStart := true, fuelEff := [], consIfOn := [], startFuel := [] }

theorem spurious_start_feasible :
    ∃ x : Vec, (assembleCHP witnessF06b).FeasibleRelaxed x ∧
      x (witnessF06b.layout.on 1) = 1 ∧ x (witnessF06b.layout.on 2) = 1 ∧ x (witnessF06b.layout.start 2) = 1 := by
  refine ⟨fun j => [1, 1, 1, 1, 1, 1, 1, 1, 1, 1, 1, 0, 1, 0, 0].getD j 0, ?_, by decide +kernel, by decide +kernel, by decide +kernel⟩
  unfold AssetProblem.FeasibleRelaxed InBounds
  decide +kernel

/-! ## (5) heat share and fuel -/

theorem heat_share (r : CHPR) (x : Vec) (hx : (assembleCHP r).FeasibleRelaxed x) (hh : r.heat = true)
    (s : List Rat) (hs : r.share = some s) (i : Nat) (hi : i < r.n) :
    x (r.layout.heat i) ≤ s.getD i 0 * x (r.layout.power i) :=
  (heatRow_sat r x s i).mp (sat_of_mem hx (heatRow_mem r hh hs hi))

theorem mem_withFactors {rows : List MapRow} {fs : List Rat} {f : String} {m : MapRow}
    (h : m ∈ withFactors rows fs f) : m.node = some f ∧ m.kind = VarKind.d := by
  simp only [withFactors, List.mem_map] at h
  obtain ⟨q, _, rfl⟩ := h
  exact ⟨rfl, rfl⟩

/-- structure of the fuel part of the mapping (no hypotheses): with a fuel node the mapping is the core mapping
    followed by the fuel rows, and every fuel row is a dispatch row at the fuel node.  The dispatch formula itself
    is `fuel_rows` below. -/
theorem fuel_rows_partial (r : CHPR) (f : String) (hf : r.fuel = some f) :
    (assembleCHP r).mapping = r.mappingCore ++ r.fuelRows f ∧
    ∀ m ∈ r.fuelRows f, m.node = some f ∧ m.kind = VarKind.d := by
  refine ⟨by simp [assembleCHP, CHPR.mapping, hf], ?_⟩
  intro m hm
  simp only [CHPR.fuelRows, List.mem_append] at hm
  rcases hm with ((hm | hm) | hm) | hm
  · exact mem_withFactors hm
  · split at hm
    · exact mem_withFactors hm
    · simp at hm
  · split at hm
    · exact mem_withFactors hm
    · simp at hm
  · split at hm
    · exact mem_withFactors hm
    · simp at hm

/-- `fuel_rows`: the dispatch the read-out reports for the asset at its fuel node, at the step of grid position
    `k`, is `−(power_k + conv_k·heat_k)/η_k − consumption_if_on_k·dt_k·on_k − start_fuel_k·start_k` (the on/start
    terms present iff those variables exist; `consIfOn` is already multiplied by `dt`).  Hypotheses: the base
    mapping is the one a one-variable `Contract` produces, the steps are distinct, the parameter vectors have
    length `T`, and the fuel node differs from the power and heat nodes — all of them decidable and evaluated by the
    driver on every request (`CHPR.fuelOK`, see `fuel_rows_of_ok`). -/
theorem fuel_rows (r : CHPR) (f : String) (hf : r.fuel = some f)
    (hbase : r.base.mapping = r.canonicalBaseMapping) (hidx : r.idx.length = r.T) (hnd : r.idx.Nodup)
    (hfe : r.fuelEff.length = r.T) (hci : r.consIfOn.length = r.T) (hsf : r.startFuel.length = r.T)
    (hp : f ≠ r.nodes.getD 0 "")
    (hh : r.heat = true → f ≠ r.nodes.getD 1 "" ∧ r.nodes.getD 0 "" ≠ r.nodes.getD 1 "" ∧ 2 ≤ r.nodes.length)
    (x : Vec) (k : Nat) (hk : k < r.T) :
    dispatchOut (assembleCHP r).mapping r.name f (r.idx.getD k 0) x =
      - (r.vd x k) / r.fuelEff.getD k 0
      - (if r.incOn then r.consIfOn.getD k 0 * x (r.layout.on k) else 0)
      - (if r.incOn ∧ r.incStart then r.startFuel.getD k 0 * x (r.layout.start k) else 0) :=
  CHPFuel.fuel_dispatch r f hf hbase hidx hnd hfe hci hsf hp hh x k hk

/-- the same from the decidable check the driver evaluates -/
theorem fuel_rows_of_ok (r : CHPR) (f : String) (hf : r.fuel = some f) (hok : r.fuelOK = true)
    (x : Vec) (k : Nat) (hk : k < r.T) :
    dispatchOut (assembleCHP r).mapping r.name f (r.idx.getD k 0) x =
      - (r.vd x k) / r.fuelEff.getD k 0
      - (if r.incOn then r.consIfOn.getD k 0 * x (r.layout.on k) else 0)
      - (if r.incOn ∧ r.incStart then r.startFuel.getD k 0 * x (r.layout.start k) else 0) := by
  simp only [CHPR.fuelOK, hf, Bool.and_eq_true, decide_eq_true_eq, Bool.or_eq_true, Bool.not_eq_true'] at hok
  obtain ⟨⟨⟨⟨⟨⟨⟨h1, h2⟩, h3⟩, h4⟩, h5⟩, h6⟩, h7⟩, h8⟩ := hok
  refine fuel_rows r f hf h1 h2 h3 h4 h5 h6 h7 ?_ x k hk
  intro hheat
  rcases h8 with h8 | h8
  · rw [hheat] at h8; exact absurd h8 (by decide)
  · exact ⟨h8.1.1, h8.1.2, h8.2⟩

/-! ## (6) minimum-load costs (`CHPAsset_with_min_load_costs`, model `buildMinLoad` on top of the CHP problem)

Variables are identified as the code does it, through the mapping: for a power-dispatch mapping row `m`
(`node = power node`, `var_name = 'disp'`) of step `t`, `d`, `b`, `o` are the FIRST dispatch / `bool_threshhold` /
`bool_on` mapping rows of step `t` (`firstAt`), `th = min_load_threshhold_t·dt_t`.  The dispatch is the POWER
dispatch, not the virtual dispatch `power + conv·heat`. -/

open EAO.CHPMinLoad in
/-- every feasible point of the built problem satisfies, per step, `th·(on − b) ≤ power` (with on-variables) resp.
    `th·(1 − b) ≤ power` (without) -/
theorem min_load_rows {a P : AssetProblem} {g : Grid} {thr costs : List Rat}
    (h : addMinLoad a g thr costs = .ok P) {x : Vec} (hx : P.FeasibleRelaxed x) {m : MapRow}
    (hm : m ∈ mapDisp a g) :
    ∃ d b, firstAt (mapDisp a g) m.step = some d ∧ firstAt (mapBool a g) m.step = some b ∧
      let th := thr.getD (g.idx.idxOf m.step) 0
      ((mapOn a g = [] ∧ th * (1 - x b.var) ≤ x d.var) ∨
       (∃ o, firstAt (mapOn a g) m.step = some o ∧ th * (x o.var - x b.var) ≤ x d.var)) :=
  CHPMinLoad.min_load_flag h hx hm

open EAO.CHPMinLoad in
/-- at a step where the unit is on (or there are no on-variables) and the power dispatch is below the threshold, the
    0/1 boolean is 1 — so its cost `min_load_costs·dt` is charged -/
theorem min_load_flag_forced {a P : AssetProblem} {g : Grid} {thr costs : List Rat}
    (h : addMinLoad a g thr costs = .ok P) {x : Vec} (hx : P.FeasibleRelaxed x) {m : MapRow}
    (hm : m ∈ mapDisp a g) :
    ∃ d b, firstAt (mapDisp a g) m.step = some d ∧ firstAt (mapBool a g) m.step = some b ∧
      ((mapOn a g = [] ∧ (x d.var < thr.getD (g.idx.idxOf m.step) 0 → (x b.var = 0 ∨ x b.var = 1) → x b.var = 1)) ∨
       (∃ o, firstAt (mapOn a g) m.step = some o ∧
          (x o.var = 1 → x d.var < thr.getD (g.idx.idxOf m.step) 0 → (x b.var = 0 ∨ x b.var = 1) → x b.var = 1))) := by
  obtain ⟨d, b, hd, hb, hc⟩ := CHPMinLoad.min_load_flag h hx hm
  refine ⟨d, b, hd, hb, ?_⟩
  rcases hc with ⟨he, hr⟩ | ⟨o, ho, hr⟩
  · refine Or.inl ⟨he, ?_⟩
    intro hlow h01
    rcases h01 with h0 | h1
    · rw [h0] at hr; grind
    · exact h1
  · refine Or.inr ⟨o, ho, ?_⟩
    intro hon hlow h01
    rcases h01 with h0 | h1
    · rw [h0, hon] at hr; grind
    · exact h1

/-- the boolean MAY be 0 when the unit is off or at / above the threshold … -/
theorem min_load_flag_free {d b o : MapRow} {th : Rat} {x : Vec} (hb : x b.var = 0) (hth : 0 ≤ th)
    (ho : x o.var = 0 ∨ x o.var = 1) (hd : 0 ≤ x d.var) (h : x o.var = 0 ∨ th ≤ x d.var) :
    (minLoadRow d b (some o) th).Sat x := by
  rcases h with h | h
  · exact CHPMinLoad.flag_free_when_off hb h hd
  · exact CHPMinLoad.flag_free_above_on hb hth (by rcases ho with ho | ho <;> rw [ho] <;> decide +kernel) h

/-- … and what the rows do NOT enforce: the boolean may be 1 although the unit is off or above the threshold (the row
    is satisfied for every non-negative dispatch); this only costs money, so an optimum with positive
    `min_load_costs` never does it, but a zero or negative cost leaves the flag arbitrary -/
theorem min_load_flag_not_exact {d b o : MapRow} {th : Rat} {x : Vec} (hb : x b.var = 1) (hth : 0 ≤ th)
    (ho : x o.var ≤ 1) (hd : 0 ≤ x d.var) : (minLoadRow d b (some o) th).Sat x :=
  CHPMinLoad.flag_one_always_ok_on hb hth ho hd

/-- nothing is added: empty window, `min_load_costs = None` (the default), `min_load_threshhold = None`, or every
    threshold / every cost negative -/
theorem min_load_nothing_added {q : MinLoadP} {a : AssetProblem} {g : Grid} {prices : Prices} {P : AssetProblem}
    (h : buildMinLoad q a g prices = .ok P) (hn : g.T = 0 ∨ q.costs = none ∨ q.threshold = none) : P = a := by
  rcases hn with hn | hn | hn
  · exact CHPMinLoad.buildMinLoad_empty_window hn h
  · exact CHPMinLoad.buildMinLoad_no_costs hn h
  · exact CHPMinLoad.buildMinLoad_no_threshold hn h

/-- otherwise the result is the parent's problem with one `[0,1]` boolean per step of the own grid, costing
    `min_load_costs·dt`, and the rows above -/
theorem min_load_shape {q : MinLoadP} {a : AssetProblem} {g : Grid} {prices : Prices} {P : AssetProblem}
    (h : buildMinLoad q a g prices = .ok P) :
    P = a ∨ ∃ thr costs, g.T ≠ 0 ∧ addMinLoad a g thr costs = .ok P ∧ P.c = a.c ++ costs ∧
      P.l = a.l ++ List.replicate g.T 0 ∧ P.u = a.u ++ List.replicate g.T 1 := by
  rcases CHPMinLoad.buildMinLoad_cases h with h1 | ⟨t, c, hT, h2⟩
  · exact Or.inl h1
  · have := CHPMinLoad.addMinLoad_ok h2
    exact Or.inr ⟨t, c, hT, h2, this.2.2.1, this.2.2.2.1, this.2.2.2.2.1⟩

/-- kernel-evaluated instance (two steps, threshold 4, cost 7): below the threshold while on the flag 0 is infeasible,
    flag 1 feasible; flag 1 above the threshold is feasible too (not exact); off with flag 0 is feasible -/
example : addMinLoad CHPMinLoad.exA CHPMinLoad.exG [4, 4] [7, 7] = .ok CHPMinLoad.exP ∧
    ¬ CHPMinLoad.exP.FeasibleRelaxed (CHPMinLoad.pt [2, 6, 1, 1, 0, 0]) ∧
    CHPMinLoad.exP.FeasibleRelaxed (CHPMinLoad.pt [2, 6, 1, 1, 1, 0]) ∧
    CHPMinLoad.exP.FeasibleRelaxed (CHPMinLoad.pt [2, 6, 1, 1, 1, 1]) ∧
    CHPMinLoad.exP.FeasibleRelaxed (CHPMinLoad.pt [0, 6, 0, 1, 0, 0]) :=
  ⟨CHPMinLoad.ex_build, CHPMinLoad.ex_low_noflag_infeasible, CHPMinLoad.ex_low_flag_feasible,
   CHPMinLoad.ex_high_flag_feasible, CHPMinLoad.ex_off_noflag_feasible⟩

/-! ## (7) start / shutdown ramp profiles (model `buildCHPP` / `assembleCHPP`, `EAO/Model/CHPProfile.lean`)

`r : CHPRP` = the profile-free resolved inputs `r.core` (minimum runtime increased by `S + Q`, on/start variables
present) and the profiles on the grid `r.prof` (`sl`, `su`: start lower / upper, `S` entries; `ql`, `qu`: shutdown,
`Q` entries; after `_convert_ramp` = `convertRamp` and the factor step / unit).  Shutdown flag of step `j`:
`x (r.shut j)`.  A capacity row of step `i` "sees" the start flags `start_{i−j}` (`j < S`, `j ≤ i`) and the shutdown
flags `shut_{i+j+1}` (`j < Q`, `i+j+1 < T`).  Steps `i < r.firstCap = S − tar` of a unit already running are handled
by `init_ramp_bounds`. -/

/-- PRECEDENCE of the start profile: in the `k`-th step after a start (exactly that start flag set among those the
    row sees, no shutdown flag, unit on) the virtual dispatch lies within the `k`-th start-profile bounds, whatever
    `min_cap` / `max_cap` are -/
theorem start_profile_bounds (r : CHPRP) (x : Vec) (hx : (assembleCHPP r).FeasibleRelaxed x) (hon : r.core.incOn = true)
    (i : Nat) (hi : i < r.core.n) (hf : r.firstCap ≤ i) (k : Nat) (hk : k < r.prof.S) (hki : k ≤ i)
    (hon1 : x (r.core.layout.on (r.core.stepOff i)) = 1) (hs : x (r.core.layout.start (i - k)) = 1)
    (hs0 : ∀ j, j < r.prof.S → j ≤ i → j ≠ k → x (r.core.layout.start (i - j)) = 0)
    (hq0 : ∀ j, j < r.prof.Q → i + j + 1 < r.core.T → x (r.shut (i + j + 1)) = 0) :
    r.prof.sl.getD k 0 ≤ r.core.vd x i ∧ r.core.vd x i ≤ r.prof.su.getD k 0 :=
  CHPProfile.start_profile_bounds r x hx hon i hi hf k hk hki hon1 hs hs0 hq0

/-- PRECEDENCE of the shutdown profile: `k + 1` steps before a shutdown the virtual dispatch lies within the `k`-th
    shutdown-profile bounds -/
theorem shutdown_profile_bounds (r : CHPRP) (x : Vec) (hx : (assembleCHPP r).FeasibleRelaxed x) (hon : r.core.incOn = true)
    (i : Nat) (hi : i < r.core.n) (hf : r.firstCap ≤ i) (k : Nat) (hk : k < r.prof.Q) (hkT : i + k + 1 < r.core.T)
    (hon1 : x (r.core.layout.on (r.core.stepOff i)) = 1) (hq : x (r.shut (i + k + 1)) = 1)
    (hq0 : ∀ j, j < r.prof.Q → i + j + 1 < r.core.T → j ≠ k → x (r.shut (i + j + 1)) = 0)
    (hs0 : ∀ j, j < r.prof.S → j ≤ i → x (r.core.layout.start (i - j)) = 0) :
    r.prof.ql.getD k 0 ≤ r.core.vd x i ∧ r.core.vd x i ≤ r.prof.qu.getD k 0 :=
  CHPProfile.shutdown_profile_bounds r x hx hon i hi hf k hk hkT hon1 hq hq0 hs0

/-- outside the ramps (no flag the row sees is set) capacity is as in the profile-free case: on ⇒ between min and max
    capacity, off ⇒ 0 -/
theorem capacity_outside_ramps (r : CHPRP) (x : Vec) (hx : (assembleCHPP r).FeasibleRelaxed x) (hon : r.core.incOn = true)
    (i : Nat) (hi : i < r.core.n) (hf : r.firstCap ≤ i)
    (hs0 : ∀ j, j < r.prof.S → j ≤ i → x (r.core.layout.start (i - j)) = 0)
    (hq0 : ∀ j, j < r.prof.Q → i + j + 1 < r.core.T → x (r.shut (i + j + 1)) = 0) :
    (x (r.core.layout.on (r.core.stepOff i)) = 1 → r.core.minCap i ≤ r.core.vd x i ∧ r.core.vd x i ≤ r.core.maxCap i) ∧
    (x (r.core.layout.on (r.core.stepOff i)) = 0 → r.core.vd x i = 0) :=
  CHPProfile.capacity_outside_ramps r x hx hon i hi hf hs0 hq0

/-- a unit in its start ramp at the beginning of the horizon (`0 < tar < S`) follows the profile from position `tar` -/
theorem init_ramp_bounds (r : CHPRP) (x : Vec) (hx : (assembleCHPP r).FeasibleRelaxed x)
    (h1 : 0 < r.core.tar) (h2 : r.core.tar < r.prof.S) (i : Nat) (hi : i < r.prof.S - r.core.tar) :
    r.prof.sl.getD (r.core.tar + i) 0 ≤ r.core.vd x i ∧ r.core.vd x i ≤ r.prof.su.getD (r.core.tar + i) 0 :=
  CHPProfile.init_ramp_bounds r x hx h1 h2 i hi

/-- with shutdown variables the flags are defined by EQUALITIES: `on_{t+1} − on_t = start_{t+1} − shut_{t+1}` -/
theorem start_shut_flag (r : CHPRP) (x : Vec) (hx : (assembleCHPP r).FeasibleRelaxed x) (t : Nat) (ht : t + 1 < r.core.T) :
    x (r.core.layout.on (t + 1)) - x (r.core.layout.on t) = x (r.core.layout.start (t + 1)) - x (r.shut (t + 1)) :=
  CHPProfile.start_shut_flag r x hx t ht

/-- … so that (0/1 values) a start is flagged EXACTLY at off→on transitions — at every step `t + 1 < T`, the last one
    included: since the repair of /repo (commit e7aae05) every step has an exclusion row `start + shut ≤ 1`
    (see `last_step_witness_now_rejected`; step 0 and the iff form for all steps: `EAO.C06P.flags_exact`, `flag_rows_iff`) -/
theorem start_exact (r : CHPRP) (x : Vec) (hx : (assembleCHPP r).FeasibleRelaxed x) (t : Nat) (ht : t + 1 < r.core.T)
    (ho : x (r.core.layout.on t) = 0 ∨ x (r.core.layout.on t) = 1)
    (ho' : x (r.core.layout.on (t + 1)) = 0 ∨ x (r.core.layout.on (t + 1)) = 1)
    (hs : x (r.core.layout.start (t + 1)) = 0 ∨ x (r.core.layout.start (t + 1)) = 1)
    (hq : x (r.shut (t + 1)) = 0 ∨ x (r.shut (t + 1)) = 1) :
    x (r.core.layout.start (t + 1)) = 1 ↔ (x (r.core.layout.on t) = 0 ∧ x (r.core.layout.on (t + 1)) = 1) :=
  CHPProfile.start_exact r x hx t ht ho ho' hs hq

/-- … and a shutdown exactly at on→off transitions -/
theorem shutdown_exact (r : CHPRP) (x : Vec) (hx : (assembleCHPP r).FeasibleRelaxed x) (t : Nat) (ht : t + 1 < r.core.T)
    (ho : x (r.core.layout.on t) = 0 ∨ x (r.core.layout.on t) = 1)
    (ho' : x (r.core.layout.on (t + 1)) = 0 ∨ x (r.core.layout.on (t + 1)) = 1)
    (hs : x (r.core.layout.start (t + 1)) = 0 ∨ x (r.core.layout.start (t + 1)) = 1)
    (hq : x (r.shut (t + 1)) = 0 ∨ x (r.shut (t + 1)) = 1) :
    x (r.shut (t + 1)) = 1 ↔ (x (r.core.layout.on t) = 1 ∧ x (r.core.layout.on (t + 1)) = 0) :=
  CHPProfile.shutdown_exact r x hx t ht ho ho' hs hq

/-- start and shutdown flag exclude each other at EVERY step, the last one included -/
theorem flags_exclusive (r : CHPRP) (x : Vec) (hx : (assembleCHPP r).FeasibleRelaxed x) (t : Nat) (ht : t < r.core.T) :
    x (r.core.layout.start t) + x (r.shut t) ≤ 1 :=
  CHPProfile.no_overlap r x hx t ht

/-- the former witness of observation P-2 (notes/findings_chp.md; finding 1 of notes/findings_c06prof.md, repaired in
    /repo by commit e7aae05: the exclusion rows stopped one step early, so at the LAST step a start and a shutdown could
    both be flagged while the unit stayed on, the step then being bounded by the start profile) is now REJECTED by the
    generated problem; with exact flags and at least `min_cap` in the last step the point is feasible -/
theorem last_step_witness_now_rejected :
    ¬ (assembleCHPP CHPProfile.witnessLast).FeasibleRelaxed (fun j => [1, 1, 1, 1, 1, 1, 0, 1].getD j 0) ∧
    (assembleCHPP CHPProfile.witnessLast).FeasibleRelaxed (fun j => [1, 3, 1, 1, 1, 0, 0, 0].getD j 0) :=
  CHPProfile.last_step_witness_now_rejected

/-- ramp rows outside the ramps (no start flag in the window of the upper row, no shutdown flag in the window of the
    lower row): the profile-free reading `v_{t−1} − ramp·on_{t−1} ≤ v_t ≤ v_{t−1} + ramp·on_t` -/
theorem ramp_steps_outside_ramps (r : CHPRP) (x : Vec) (hx : (assembleCHPP r).FeasibleRelaxed x) (ρ : Rat)
    (hρ : r.core.ramp = some ρ) (t : Nat) (h1 : 1 ≤ t) (ht : t < r.core.T)
    (hs0 : ∀ i, i < r.prof.S → i ≤ t → x (r.core.layout.start (t - i)) = 0)
    (hq0 : ∀ i, i < r.prof.Q → t + i < r.core.T → x (r.shut (t + i)) = 0) :
    r.core.vd x (t - 1) - (if r.core.incOn then ρ * x (r.core.layout.on (t - 1)) else ρ) ≤ r.core.vd x t ∧
    r.core.vd x t ≤ r.core.vd x (t - 1) + (if r.core.incOn then ρ * x (r.core.layout.on t) else ρ) :=
  ⟨CHPProfile.ramp_lower_outside r x hx ρ hρ t h1 ht hq0, CHPProfile.ramp_upper_outside r x hx ρ hρ t h1 ht hs0⟩

/-- kernel-evaluated precedence: `Plant(min 3, max 10, start ramp [1/2, 1] … [1, 2])` started at step 0 with dispatch
    `1, 2, 5` is feasible although `1, 2 < min_cap`; `3, 2, 5` is not (`3 > su_0 = 1`) -/
theorem profile_precedence_witness :
    (assembleCHPP CHPProfile.witnessProf).FeasibleRelaxed (fun j => [1, 2, 5, 1, 1, 1, 1, 0, 0, 0, 0, 0].getD j 0) ∧
    ¬ (assembleCHPP CHPProfile.witnessProf).FeasibleRelaxed (fun j => [3, 2, 5, 1, 1, 1, 1, 0, 0, 0, 0, 0].getD j 0) :=
  CHPProfile.profile_precedence_witness

/-! ## link to `buildCHP` -/

/-- whatever `buildCHP` returns is the base problem (empty window) or `assembleCHP` of the resolved inputs -/
theorem buildCHP_ok (p : CHPP) (base : AssetProblem) (g : Grid) (prices : Prices) (u s : Nat) (a : AssetProblem)
    (h : buildCHP p base g prices u s = .ok a) :
    (resolveCHP p base g prices u s = .ok none ∧ a = base) ∨
    ∃ r, resolveCHP p base g prices u s = .ok (some r) ∧ a = assembleCHP r := by
  unfold buildCHP at h
  cases hr : resolveCHP p base g prices u s with
  | error e => simp [hr, bind, Except.bind] at h
  | ok o =>
    cases o with
    | none =>
      simp [hr, bind, Except.bind, pure, Except.pure] at h
      exact Or.inl ⟨rfl, h.symm⟩
    | some r =>
      simp [hr, bind, Except.bind, pure, Except.pure] at h
      exact Or.inr ⟨r, rfl, h.symm⟩

/-- the decidable check `CHPR.commitOK` (evaluated by the driver on every resolved request; it restates the
    guards of `resolveCHP`) gives the well-formedness hypothesis of `commit_rows_iff_spec` -/
theorem commitWF_of_ok (r : CHPR) (h : r.commitOK = true) : CommitWF r := by
  simp only [CHPR.commitOK, Bool.and_eq_true, decide_eq_true_eq, Bool.or_eq_true, Bool.not_eq_true', List.all_eq_true,
    beq_iff_eq, decide_eq_false_iff_not] at h
  obtain ⟨⟨⟨⟨⟨⟨⟨⟨h1, h2⟩, h3⟩, h4⟩, h5⟩, h6⟩, h7⟩, h8⟩, h9⟩ := h
  refine ⟨h1, h2, h3, h4, h5, ?_, ?_, ?_, ?_⟩
  · intro hh m hm
    rcases h6 with h6 | h6
    · rw [hh] at h6; exact absurd h6 (by decide)
    · exact h6 m hm
  · intro hR; rcases h7 with h7 | h7
    · exact absurd hR h7
    · exact h7
  · intro hD; rcases h8 with h8 | h8
    · exact absurd hD h8
    · exact h8
  · intro hs; rcases h9 with h9 | h9
    · rw [hs] at h9; exact absurd h9 (by decide)
    · exact h9

example : witnessF06b.commitOK = true := by decide +kernel

/-- non-vacuity of (1a): for `Plant(min 1, max 3, min_runtime 2)` on five steps the pattern `01100` is admitted
    by the generated rows, `01000` (a run of one step) is not -/
example : CommitFeasible witnessF06b [false, true, true, false, false] ∧
    ¬ CommitFeasible witnessF06b [false, true, false, false, false] := by
  have hwf := commitWF_of_ok witnessF06b (by decide +kernel)
  constructor
  · exact (commit_rows_iff_spec witnessF06b hwf _ rfl).mpr (by decide)
  · intro h
    exact absurd ((commit_rows_iff_spec witnessF06b hwf _ rfl).mp h) (by decide)

end EAO.C06
