import EAO.Model.SplitBuild
import EAO.Lemmas.SplitBuild
import EAO.Properties.C14
/-!
# C14 for the builders — split optimisation equals the unsplit problem WITHOUT a per-instance certificate

`EAO.C14` proves what a true witness `splitWitness U ps perm` means (same feasible set, same objective, interval
optima concatenate to an unsplit optimum).  There the witness is evaluated per instance.  This file PROVES it for the
asset classes without rows across time steps:

* `split_witness_of_banded` — the general theorem.  Asset problems whose variables each belong to one step of the grid
  (`Banded`) and whose rows do not reach across a cut (`RowsInside`), restricted to the step lists of a partition
  (`AssetProblem.restrictTo`) and assembled per list, are — as a block sum — the unsplit problem renamed along the
  explicit matching `splitPerm`: the witness is true.
* `simple_contract_commutes`, `contract_commutes`, `multi_commutes`, `transport_commutes`, `ext_transport_commutes` —
  the builders of `EAO.Model.Contract` commute with restricting the asset grid to the steps of an interval
  (`Grid.pick`): `build p (interval grid) = restriction of (build p g)`, literally (variables, costs, bounds, rows,
  mapping with re-based steps).  Hypotheses: parameters that do not depend on the grid length (`gridFree`), the same
  data-dependent form on the interval (`sameForm`: one or two variables per step, sign conditions of the spread —
  the documented limit of C14), take periods that do not reach across a cut (`takeInside`), positive step lengths
  for transports.
* `builders_banded` — whatever a builder returns is `Banded`.
* `interval_grid_is_pick`, `interval_prices_are_picked` — the interval grid of `setup_split_optim_problem` (reference
  grid restricted, step indices re-based, cumulative time and discount factors kept) restricted to an asset's window
  is `Grid.pick` of the asset's grid; the interval's price data are the picked arrays.
* `cuts_partition` — increasing cuts that cover the horizon divide the steps into pieces.
* `split_witness_builders` — hence for a portfolio of such assets: under the decidable hypotheses `splitHyps` the
  split set-up `setupSplit` succeeds whenever the unsplit set-up does, and its interval problems ARE the unsplit
  problem (`splitWitness … = true` for the explicit matching).
* `split_equals_unsplit_builders`, `split_upper_bounds_builders` — with `EAO.C14.split_equals_unsplit`: the interval
  optima, concatenated and transported, are an optimum of the unsplit problem, value = sum of the interval optima.

The model of the split set-up (`setupSplit`) is tied to `Portfolio.setup_split_optim_problem` by the correspondence
`harness/comp/splitbuild.py`, which also evaluates `splitHyps` and the witness on every generated case.
-/
namespace EAO.C14B
open EAO EAO.SplitBuild

/-! ## (1) the general theorem -/

/-- **Banded asset problems: the split set-up is the unsplit problem.**  For asset problems whose variables each
    belong to one step of `0 .. T-1`, step lists `Is` that cut `0 .. T-1` into pieces, and no asset row reaching
    across a cut: the interval problems (every asset restricted to the steps of the list, assembled on the re-based
    grid) are, as a block sum, the unsplit problem renamed along `splitPerm` — the witness of `EAO.C14` is TRUE. -/
theorem split_witness_of_banded (as : List AssetProblem) (T : Nat) (Is : List (List Nat)) (skip : List String)
    (hB : ∀ a ∈ as, Banded a T) (hP : isPartition Is T = true) (hR : ∀ a ∈ as, RowsInside a Is) :
    splitWitness (assemble as (List.range T) skip) (Is.map (intervalProblem as skip))
      (splitPerm (assemble as (List.range T) skip) Is) = true :=
  witness_of_banded as T Is skip hB hP hR

/-- the matching is a permutation of the variables of the unsplit problem -/
theorem splitPerm_is_permutation (as : List AssetProblem) (T : Nat) (Is : List (List Nat)) (skip : List String)
    (hB : ∀ a ∈ as, Banded a T) (hP : isPartition Is T = true) :
    isPermOf (splitPerm (assemble as (List.range T) skip) Is) (assemble as (List.range T) skip).n = true := by
  rw [splitPerm_assemble, assemble_n]
  exact splitPerm_isPerm as T hB Is hP

/-- interval problems without variables may be dropped (`if op_tmp.c.shape[0] == 0: continue`) -/
theorem split_witness_of_banded_skip (as : List AssetProblem) (T : Nat) (Is : List (List Nat)) (skip : List String)
    (hB : ∀ a ∈ as, Banded a T) (hP : isPartition Is T = true) (hR : ∀ a ∈ as, RowsInside a Is) :
    splitWitness (assemble as (List.range T) skip) ((Is.map (intervalProblem as skip)).filter fun P => P.n != 0)
      (splitPerm (assemble as (List.range T) skip) Is) = true :=
  splitWitness_filter _ _ _ (by
    intro P hP'
    obtain ⟨I, _, rfl⟩ := List.mem_map.mp hP'
    exact intervalProblem_rows_ne as T hB skip I) (witness_of_banded as T Is skip hB hP hR)

/-! ## (2) the builders commute with restricting the grid -/

/-- **SimpleContract**: on the asset grid restricted to the steps `I` (step indices re-based, prices picked) the
    builder returns the restriction of what it returns on the whole grid — provided the parameters do not depend on
    the grid length and the contract takes the same data-dependent form (or has no step in `I`). -/
theorem simple_contract_commutes (p : ContractP) (g : Grid) (prices : Prices) (fullT : Nat) (A : AssetProblem)
    (I : List Nat) (hg : g.Ok) (hp : p.gridFree = true)
    (hform : (g.pick I).T = 0 ∨ sameForm p g (g.pick I) prices (pickPrices I prices) = true)
    (hA : buildSimpleContract p g prices fullT = .ok A) :
    buildSimpleContract p (g.pick I) (pickPrices I prices) I.length = .ok (A.restrictTo I) :=
  simple_pick p g prices fullT A I hg hp hform hA

/-- **Contract**: the same, with take periods none of which reaches across the cut. -/
theorem contract_commutes (p : ContractP) (g : Grid) (prices : Prices) (fullT unitSec : Nat) (A : AssetProblem)
    (I : List Nat) (hg : g.Ok) (hp : p.gridFree = true)
    (hform : (g.pick I).T = 0 ∨ sameForm p g (g.pick I) prices (pickPrices I prices) = true)
    (htk : ∀ tk ∈ p.minTake ++ p.maxTake, takeInside g I tk = true)
    (hA : buildContract p g prices fullT unitSec = .ok A) :
    buildContract p (g.pick I) (pickPrices I prices) I.length unitSec = .ok (A.restrictTo I) :=
  contract_pick p g prices fullT unitSec A I _ hg (idx_bound g) hp hform htk hA

/-- **MultiCommodityContract**: the same. -/
theorem multi_commutes (p : ContractP) (factors : List Rat) (g : Grid) (prices : Prices) (fullT unitSec : Nat)
    (A : AssetProblem) (I : List Nat) (hg : g.Ok) (hp : p.gridFree = true)
    (hform : (g.pick I).T = 0 ∨ sameForm p g (g.pick I) prices (pickPrices I prices) = true)
    (htk : ∀ tk ∈ p.minTake ++ p.maxTake, takeInside g I tk = true)
    (hA : buildMulti p factors g prices fullT unitSec = .ok A) :
    buildMulti p factors (g.pick I) (pickPrices I prices) I.length unitSec = .ok (A.restrictTo I) :=
  multi_pick p factors g prices fullT unitSec A I _ hg (idx_bound g) hp hform htk hA

/-- **Transport**: the same; the only data-dependent decision (all capacities ≤ 0: costs negated) is the same on every
    non-empty sub-grid when the step lengths are positive. -/
theorem transport_commutes (p : TransportP) (g : Grid) (prices : Prices) (fullT : Nat) (A : AssetProblem)
    (I : List Nat) (hg : g.Ok) (hpos : (g.dt.all fun d => decide (0 < d)) = true)
    (hA : buildTransport p g prices fullT = .ok A) :
    buildTransport p (g.pick I) (pickPrices I prices) I.length = .ok (A.restrictTo I) :=
  transport_pick p g prices fullT A I hg (trNeg_pick p g I hg hpos) hA

/-- **ExtendedTransport**: the same, with take periods none of which reaches across the cut. -/
theorem ext_transport_commutes (p : TransportP) (g : Grid) (prices : Prices) (fullT unitSec : Nat) (A : AssetProblem)
    (I : List Nat) (hg : g.Ok) (hpos : (g.dt.all fun d => decide (0 < d)) = true)
    (htk : ∀ tk ∈ p.minTake ++ p.maxTake, takeInside g I tk = true)
    (hA : buildExtTransport p g prices fullT unitSec = .ok A) :
    buildExtTransport p (g.pick I) (pickPrices I prices) I.length unitSec = .ok (A.restrictTo I) :=
  extTransport_pick p g prices fullT unitSec A I _ hg (idx_bound g) (trNeg_pick p g I hg hpos) htk hA

/-- **whatever a builder returns is banded**: one bound pair per variable, every mapping row at a step of the grid
    `0 .. T-1`, all mapping rows of a variable at the same step, every variable mapped, no boolean variable, every
    row non-empty and over the asset's own variables -/
theorem builders_banded (a : AssetSpec) (ref : Grid) (prices : Prices) (unitSec : Nat) (A : AssetProblem)
    (hidx : ref.idx = List.range ref.T) (hdt : ref.dt.length = ref.T) (hdf : a.df.length = ref.T)
    (hA : buildSpec a ref prices unitSec = .ok A) : Banded A ref.T :=
  buildSpec_banded a ref prices unitSec A hidx hdt hdf hA

/-! ## (3) the interval grid of `setup_split_optim_problem` -/

/-- **the asset's grid in an interval** — `Timegrid(start_tmp, end_tmp, freq, ref_timegrid = timegrid)` with
    `I = range(T)`, the asset's discount factors at the kept cumulative times, then
    `set_restricted_grid(asset.start, asset.end)` — **is the asset's grid on the full horizon restricted to the
    interval's original steps `tmp_I`**, step indices re-based: `dt`, `Dt` and discount factors are those of the
    full grid (this is why the interval costs are the unsplit costs: `split_discount`). -/
theorem interval_grid_is_pick (ref : Grid) (df : List Rat) (ab : Int × Int) (s e : Int)
    (hidx : ref.idx = List.range ref.T) :
    ({ (ref.interval ab.1 ab.2) with df := sel (ref.mask ab.1 ab.2) df } : Grid).restrict s e =
      (({ ref with df := df } : Grid).restrict s e).pick (intervalSteps ref ab) :=
  interval_restrict_eq_pick ref df ab s e hidx

/-- the price rows of the interval are the price arrays at the interval's original steps -/
theorem interval_prices_are_picked (ref : Grid) (ab : Int × Int) (prices : Prices) (hidx : ref.idx = List.range ref.T)
    (hp : ∀ kv ∈ prices, kv.2.length = ref.T) :
    intervalPrices ref ab prices = pickPrices (intervalSteps ref ab) prices :=
  intervalPrices_eq_pick ref ab prices hidx hp

/-- the interval's original steps are the steps of the reference grid whose point lies in the interval -/
theorem interval_steps (ref : Grid) (ab : Int × Int) (hidx : ref.idx = List.range ref.T) (t : Nat) :
    t ∈ intervalSteps ref ab ↔ t < ref.T ∧ ab.1 ≤ ref.pts.getD t 0 ∧ ref.pts.getD t 0 < ab.2 := by
  rw [mem_intervalSteps ref ab hidx]
  simp [win]

/-- **cuts in increasing order, the first not after any grid point, the last after every grid point, divide the steps
    of the grid into pieces** (every step in exactly one interval — also for a partial last interval and a horizon that
    is not aligned with the interval size) -/
theorem cuts_partition (ref : Grid) (cuts : List Int) (hidx : ref.idx = List.range ref.T)
    (hs : cuts.Pairwise (· ≤ ·))
    (hlo : ∀ p ∈ ref.pts, ∃ a, cuts.head? = some a ∧ a ≤ p)
    (hhi : ∀ p ∈ ref.pts, ∃ b, cuts.getLast? = some b ∧ p < b) :
    isPartition ((splitPairs cuts).map (intervalSteps ref)) ref.T = true :=
  cuts_isPartition ref cuts hidx hs hlo hhi

/-! ## (4) portfolios of contracts and transports -/

/-- **The split set-up of a portfolio of contracts and transports IS the unsplit problem.**  Under the decidable
    hypotheses `splitHyps` (top-level reference grid, price arrays on the grid, cuts dividing the steps into pieces,
    every asset stable in every interval: grid-free parameters, the same data-dependent form, no take period across a
    cut, positive step lengths for transports): if the unsplit set-up succeeds with at least one variable, so does the
    split set-up, and the interval problems it returns are — as a block sum — the unsplit problem renamed along the
    explicit matching: the witness of `EAO.C14` is TRUE, no certificate needed. -/
theorem split_witness_builders (specs : List AssetSpec) (ref : Grid) (cuts : List Int) (prices : Prices)
    (unitSec : Nat) (skip : List String) (U : Problem) (hH : splitHyps specs ref cuts prices = true)
    (hU : setupPortfolio specs ref prices unitSec skip = .ok U) (hpos : 0 < U.n) :
    ∃ ps, setupSplit specs ref cuts prices unitSec skip = .ok ps ∧
      splitWitness U ps (splitPerm U ((splitPairs cuts).map (intervalSteps ref))) = true :=
  builders_witness specs ref cuts prices unitSec skip U hH hU hpos

/-- the interval problems are those of the general theorem: every unsplit asset problem restricted to the interval's
    original steps, assembled on the re-based grid; intervals without variables dropped -/
theorem split_setup_is_restriction (specs : List AssetSpec) (ref : Grid) (cuts : List Int) (prices : Prices)
    (unitSec : Nat) (skip : List String) (U : Problem) (hH : splitHyps specs ref cuts prices = true)
    (hU : setupPortfolio specs ref prices unitSec skip = .ok U) (hpos : 0 < U.n) :
    ∃ as, buildAll specs ref prices unitSec = .ok as ∧ U = assemble as (List.range ref.T) skip ∧
      setupSplit specs ref cuts prices unitSec skip =
        .ok ((((splitPairs cuts).map (intervalSteps ref)).map (intervalProblem as skip)).filter fun P => P.n != 0) := by
  obtain ⟨as, h1, h2, h3, _⟩ := builders_split specs ref cuts prices unitSec skip U hH hU hpos
  exact ⟨as, h1, h2, h3⟩

/-- **Split optimum = unsplit optimum for portfolios of contracts and transports (value and dispatch).**  Under
    `splitHyps`: if every interval solution `xs[i]` is feasible and optimal for the `i`-th interval problem of the
    split set-up, the concatenation (`np.hstack`), transported along the explicit matching, is a feasible and OPTIMAL
    point of the unsplit problem, and the unsplit optimal value is the sum of the interval optima. -/
theorem split_equals_unsplit_builders (specs : List AssetSpec) (ref : Grid) (cuts : List Int) (prices : Prices)
    (unitSec : Nat) (skip : List String) (U : Problem) (ps : List Problem)
    (hH : splitHyps specs ref cuts prices = true)
    (hU : setupPortfolio specs ref prices unitSec skip = .ok U) (hpos : 0 < U.n)
    (hS : setupSplit specs ref cuts prices unitSec skip = .ok ps)
    (xs : List (List Rat)) (hlen : xs.length = ps.length)
    (hn : ∀ i, (h : i < ps.length) → (xs.getD i []).length = (ps[i]).n)
    (hfeas : ∀ i, (h : i < ps.length) → (ps[i]).FeasibleRelaxed (C14.vecOfList (xs.getD i [])))
    (hopt : ∀ i, (h : i < ps.length) → ∀ z, (ps[i]).FeasibleRelaxed z →
        (ps[i]).value z ≤ (ps[i]).value (C14.vecOfList (xs.getD i []))) :
    let perm := splitPerm U ((splitPairs cuts).map (intervalSteps ref))
    U.FeasibleRelaxed (transportAlong perm (concatVec xs)) ∧
    (∀ y, U.FeasibleRelaxed y → U.value y ≤ U.value (transportAlong perm (concatVec xs))) ∧
    U.value (transportAlong perm (concatVec xs)) =
      ((List.range ps.length).map fun i => (ps.getD i default).value (C14.vecOfList (xs.getD i []))).sum := by
  obtain ⟨ps', hps', hw⟩ := builders_witness specs ref cuts prices unitSec skip U hH hU hpos
  rw [hS] at hps'
  injection hps' with hps'
  subst hps'
  exact C14.split_equals_unsplit U ps _ hw xs hlen hn hfeas hopt

/-- **Same optimal value** (no existence of optima assumed): a number bounds the values of the unsplit problem iff it
    bounds the values of the block sum of the interval problems of the split set-up. -/
theorem split_upper_bounds_builders (specs : List AssetSpec) (ref : Grid) (cuts : List Int) (prices : Prices)
    (unitSec : Nat) (skip : List String) (U : Problem) (ps : List Problem)
    (hH : splitHyps specs ref cuts prices = true)
    (hU : setupPortfolio specs ref prices unitSec skip = .ok U) (hpos : 0 < U.n)
    (hS : setupSplit specs ref cuts prices unitSec skip = .ok ps) (B : Rat) :
    (∀ y, U.Feasible y → U.value y ≤ B) ↔ (∀ x, (blockSum ps).Feasible x → (blockSum ps).value x ≤ B) := by
  obtain ⟨ps', hps', hw⟩ := builders_witness specs ref cuts prices unitSec skip U hH hU hpos
  rw [hS] at hps'
  injection hps' with hps'
  subst hps'
  exact C14.split_upper_bounds U ps _ hw B

/-! ## non-vacuity: a concrete portfolio

Four hourly steps, cut into two intervals of two steps (`cuts = 0 h, 2 h, 4 h`; the main time unit is the hour).
Node `n`: a contract `buy` (price `p`, spread 1/2, capacities −5 … 5: TWO variables per step, at most 6 in the first
two hours — a take period inside the first interval).  Node `m`: a contract `sink` that only takes (−3 … 0, one
variable per step) and starts at the second step.  A transport `pipe` from `n` to `m` (0 … 2, costs 1/4).
The unsplit problem has 15 variables ordered asset-major (`buy` in 0-3, `buy` out 4-7, `sink` 8-10, `pipe` 11-14); the
split set-up returns two interval problems with 7 and 8 variables. -/
section Example
private def exRef : Grid :=
  { pts := [0, 3600, 7200, 10800], idx := [0, 1, 2, 3], dt := [1, 1, 1, 1], Dt := [1, 2, 3, 4], df := [1, 1, 1, 1] }
private def exCuts : List Int := [0, 7200, 14400]
private def exPrices : Prices := [("p", [3, 4, 1, 2])]
private def exBuy (maxTake : List Take) : ContractP :=
  { name := "buy", nodes := ["n"], price := some "p", extraCosts := .scalar (1/2), minCap := .scalar (-5),
    maxCap := .scalar 5, minTake := [], maxTake := maxTake }
private def exSink : ContractP :=
  { name := "sink", nodes := ["m"], price := none, extraCosts := .scalar 0, minCap := .scalar (-3),
    maxCap := .scalar 0, minTake := [], maxTake := [] }
private def exPipe : TransportP :=
  { name := "pipe", nodes := ["n", "m"], costsConst := 1/4, costsKey := none, minCap := 0, maxCap := 2,
    efficiency := 1, minTake := [], maxTake := [] }
private def exSpecs (buy : ContractP) : List AssetSpec :=
  [{ spec := .contract buy, start := -1000000, stop := 1000000, df := [1, 1, 1, 1] },
   { spec := .simple exSink, start := 3600, stop := 1000000, df := [1, 1, 1, 1] },
   { spec := .transport exPipe, start := -1000000, stop := 1000000, df := [1, 1, 1, 1] }]

/-- the take period lies inside the first interval -/
private def exIn : List AssetSpec := exSpecs (exBuy [(0, 7200, 6)])

private def exIs : List (List Nat) := (splitPairs exCuts).map (intervalSteps exRef)

/-- unsplit problem of a portfolio of the example (the empty problem when the set-up fails) -/
private def unsplitOf (specs : List AssetSpec) (prices : Prices) : Problem :=
  match setupPortfolio specs exRef prices 3600 [] with | .ok U => U | .error _ => default

private def exU : Problem := unsplitOf exIn exPrices

private theorem exU_ok : setupPortfolio exIn exRef exPrices 3600 [] = .ok exU := by
  have h : (match setupPortfolio exIn exRef exPrices 3600 [] with | .ok _ => true | .error _ => false) = true := by
    decide +kernel
  unfold exU unsplitOf
  cases hh : setupPortfolio exIn exRef exPrices 3600 [] with
  | ok U => rfl
  | error e => rw [hh] at h; cases h

/-- the interval grid: points, `dt`, cumulative time and discount factors of the reference, steps re-based; `tmp_I` -/
example : exRef.interval 7200 14400 =
      { pts := [7200, 10800], idx := [0, 1], dt := [1, 1], Dt := [3, 4], df := [1, 1] } ∧
    exIs = [[0, 1], [2, 3]] ∧ isPartition exIs 4 = true := by decide +kernel

/-- the cuts divide the steps (by the theorem, not by evaluation) -/
example : isPartition exIs exRef.T = true :=
  cuts_partition exRef exCuts rfl (by decide) (by decide) (by decide)

/-- the asset grid of `sink` (window from the second step on) in the first interval: one step, re-based index 1 -/
example : (exRef.restrict 3600 1000000).pick [0, 1] =
    { pts := [3600], idx := [1], dt := [1], Dt := [2], df := [1] } := by decide +kernel

example : splitHyps exIn exRef exCuts exPrices = true := by decide +kernel
example : exU.n = 15 ∧ exU.c = [5/2, 7/2, 1/2, 3/2, 7/2, 9/2, 3/2, 5/2, 0, 0, 0, 1/4, 1/4, 1/4, 1/4] ∧
    exU.rows.length = 9 := by decide +kernel

/-- the matching: interval after interval, the unsplit variables at the interval's steps -/
example : splitPerm exU exIs = [0, 1, 4, 5, 8, 11, 12, 2, 3, 6, 7, 9, 10, 13, 14] := by decide +kernel

/-- **the theorem at work**: the split set-up succeeds and IS the unsplit problem -/
example : ∃ ps, setupSplit exIn exRef exCuts exPrices 3600 [] = .ok ps ∧ splitWitness exU ps (splitPerm exU exIs) = true :=
  split_witness_builders exIn exRef exCuts exPrices 3600 [] exU (by decide +kernel) exU_ok (by decide +kernel)

/-- what the split set-up returns: two interval problems with 7 and 8 variables (the take row is in the first), the
    nodal record re-labelled with the original steps -/
example : (match setupSplit exIn exRef exCuts exPrices 3600 [] with
    | .ok ps => ps.map fun P => (P.n, P.rows.length, P.nodal.map (·.1))
    | .error _ => []) =
    [(7, 5, [0, 1, 0, 1]), (8, 4, [2, 3, 2, 3])] := by decide +kernel

/-- witness of a portfolio of the example, evaluated (true when a set-up fails) -/
private def witnessOf (specs : List AssetSpec) (prices : Prices) : Bool :=
  match setupPortfolio specs exRef prices 3600 [], setupSplit specs exRef exCuts prices 3600 [] with
  | .ok U, .ok ps => splitWitness U ps (splitPerm U exIs)
  | _, _ => true

example : witnessOf exIn exPrices = true := by decide +kernel

/-- **a take period across the cut** (at most 6 in all four hours): the hypothesis fails, and so does the witness — the
    unsplit row couples the intervals, the split set-up prorates the volume per interval -/
example : splitHyps (exSpecs (exBuy [(0, 14400, 6)])) exRef exCuts exPrices = false ∧
    witnessOf (exSpecs (exBuy [(0, 14400, 6)])) exPrices = false := by decide +kernel

/-- **another form in an interval**: capacities from the price data — the contract can only buy in the first interval
    (`max_cap = 0` there) and trade both ways in the second.  Unsplit it needs two variables per step, the first
    interval gets by with one: `sameForm` fails, the variable sets differ, the witness is false -/
private def exFormPrices : Prices := [("p", [3, 4, 1, 2]), ("lo", [-5, -5, -5, -5]), ("hi", [0, 0, 5, 5])]
private def exForm : List AssetSpec :=
  exSpecs { exBuy [] with minCap := .key "lo", maxCap := .key "hi" }
example : splitHyps exForm exRef exCuts exFormPrices = false ∧ witnessOf exForm exFormPrices = false ∧
    (match setupSplit exForm exRef exCuts exFormPrices 3600 [] with
      | .ok ps => ps.map (·.n) | .error _ => []) = [5, 8] ∧ (unsplitOf exForm exFormPrices).n = 15 := by
  decide +kernel

/-- the same data with capacities that trade both ways in BOTH intervals: the hypotheses hold again -/
example : splitHyps exForm exRef exCuts [("p", [3, 4, 1, 2]), ("lo", [-5, -5, -5, -5]), ("hi", [1, 0, 5, 5])] = true ∧
    witnessOf exForm [("p", [3, 4, 1, 2]), ("lo", [-5, -5, -5, -5]), ("hi", [1, 0, 5, 5])] = true := by
  decide +kernel

/-- **a capacity given as an array of the grid's length** fits the full grid only: the unsplit set-up succeeds, the split
    set-up raises (`gridFree` fails) -/
private def exArr : List AssetSpec := exSpecs { exBuy [] with maxCap := .array [5, 5, 5, 5] }
example : splitHyps exArr exRef exCuts exPrices = false ∧ (unsplitOf exArr exPrices).n = 15 ∧
    (match setupSplit exArr exRef exCuts exPrices 3600 [] with
      | .ok _ => "ok" | .error e => e.toString) = "length" := by decide +kernel

/-- the builders commute with the restriction, evaluated for `buy` on the second interval: the two-variable problem
    restricted to the steps 2, 3 is what the builder returns on the picked grid -/
example : (match buildContract (exBuy [(0, 7200, 6)]) exRef exPrices 4 3600 with
      | .ok A => (A.keep [2, 3], (A.restrictTo [2, 3]).c, (A.restrictTo [2, 3]).rows.length)
      | .error _ => ([], [], 0)) = ([2, 3, 6, 7], [1/2, 3/2, 3/2, 5/2], 0) ∧
    (match buildContract (exBuy [(0, 7200, 6)]) (exRef.pick [2, 3]) (pickPrices [2, 3] exPrices) 2 3600 with
      | .ok A => (A.c, A.rows.length)
      | .error _ => ([], 1)) = ([1/2, 3/2, 3/2, 5/2], 0) := by decide +kernel
end Example

end EAO.C14B
