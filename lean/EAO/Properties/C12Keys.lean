import EAO.Lemmas.UnitKeys
import EAO.Properties.C12
import EAO.Properties.C12Storage
import EAO.Properties.C12CHP
/-!
# C12 — change of the main time unit when parameters are given as KEYS into the price data

`EAO.C12.unit_change*` (contracts, transports, storage, CHP) say: every step length times `k > 0`, every rate per time times
`1/k`, every duration times `k`, the unit's length in seconds `u'·k = u` — the builder returns the SAME problem.  They keep the
price data fixed and therefore exclude rates given as a key (a key refers to data the rescaling of the PARAMETERS does not
touch); DESIGN §16 left that case to the harness' metamorphic oracles.  Here it is a theorem: the price data change with the
unit as well.  A second table `prices'` goes with the new unit when (`EAO/Lemmas/UnitKeys.lean`)

* every series the asset uses as a RATE (`make_vector(..., convert=True)`: `min_cap`, `max_cap` of the contracts;
  `running_costs`, `consumption_if_on` of the CHP classes; `min_load_threshhold`, `min_load_costs`) is the old series times
  `1/k` (`RateSeries`), present iff it was present;
* every series the asset uses per volume, per start or as a pure number (`price`, `extra_costs`, `costs_time_series` of the
  transports, the storage's `price`, `start_costs`, `conversion_factor_power_heat`, `max_share_heat`, `start_fuel`,
  `fuel_efficiency`) is the same (`SameSeries`);
* all other series are arbitrary.  Take VOLUMES are volumes and stay.

Then the builder on (`rescale k` of the parameters, `g.scaleDt k`, `prices'`, unit `u'`) returns literally what it returns on
(parameters, `g`, `prices`, unit `u`): equal problems in every field, or the same error.  Transports and the storage have no
rate series (their capacities, `inflow`, `cost_store` are numbers): for them the statement is `unit_change*` plus "only the one
per-volume series is read".

The table exists whenever no series serves both as a rate and per volume (`unit_table_exists`: `rescaleTable`, what the harness
builds), and does NOT exist otherwise unless `k = 1` or the series vanishes (`shared_key_has_no_table`).  Each hypothesis on the
table is needed: kernel-checked witnesses in `EAO.C12K.Ex` (`rate_series_needed`, `price_series_must_stay`).
The `_keys` theorems contain the key-free ones: `unit_change_is_special_case`.
-/
namespace EAO.C12K
open EAO EAO.UnitKeys EAO.CHPUnit

/-! ### contracts -/

/-- **SimpleContract**, rates in any form: the rescaled contract on the rescaled grid with the price data of the new unit is
    built to the same problem -/
theorem unit_change_keys {k : Rat} (hk : 0 < k) (p : ContractP) (g : Grid) (prices prices' : Prices)
    (hp : UnitPrices k p prices prices') (fullT : Nat) :
    buildSimpleContract (p.rescale k) (g.scaleDt k) prices' fullT = buildSimpleContract p g prices fullT :=
  simple_unit_change_keys hk p g prices prices' hp fullT

/-- **Contract**: take volumes are volumes (untouched), the length of the unit in seconds follows (`u'·k = u`) -/
theorem unit_change_keys_contract {k : Rat} (hk : 0 < k) {u u' : Nat} (hu : (u' : Rat) * k = (u : Rat))
    (p : ContractP) (g : Grid) (prices prices' : Prices) (hp : UnitPrices k p prices prices') (fullT : Nat) :
    buildContract (p.rescale k) (g.scaleDt k) prices' fullT u' = buildContract p g prices fullT u :=
  contract_unit_change_keys hk hu p g prices prices' hp fullT

/-- **MultiCommodityContract** (factors per node are pure numbers) -/
theorem unit_change_keys_multi {k : Rat} (hk : 0 < k) {u u' : Nat} (hu : (u' : Rat) * k = (u : Rat))
    (p : ContractP) (factors : List Rat) (g : Grid) (prices prices' : Prices) (hp : UnitPrices k p prices prices')
    (fullT : Nat) :
    buildMulti (p.rescale k) factors (g.scaleDt k) prices' fullT u' = buildMulti p factors g prices fullT u :=
  multi_unit_change_keys hk hu p factors g prices prices' hp fullT

/-- the key-free theorems of `EAO.C12` are the special case "same table" -/
theorem unit_change_is_special_case {k : Rat} (hk : 0 < k) {u u' : Nat} (hu : (u' : Rat) * k = (u : Rat))
    (p : ContractP) (hmin : p.minCap.isKey = false) (hmax : p.maxCap.isKey = false) (g : Grid) (prices : Prices)
    (fullT : Nat) :
    buildContract (p.rescale k) (g.scaleDt k) prices fullT u' = buildContract p g prices fullT u :=
  unit_change_keys_contract hk hu p g prices prices (unitPrices_self k p hmin hmax prices) fullT

/-! ### the table -/

/-- the table of the new unit exists when no capacity series is also the price or extra-cost series: divide exactly the
    capacity series by `k` (`rescaleTable`, what the harness does) -/
theorem unit_table_exists (k : Rat) (p : ContractP) (prices : Prices)
    (hd : ∀ s ∈ contractSameKeys p, s ∉ contractRateKeys p) :
    UnitPrices k p prices (rescaleTable k (contractRateKeys p) prices) :=
  unitPrices_rescaleTable k p prices hd

/-- … so for such a contract the unit change can always be carried out -/
theorem unit_change_keys_contract_table {k : Rat} (hk : 0 < k) {u u' : Nat} (hu : (u' : Rat) * k = (u : Rat))
    (p : ContractP) (hd : ∀ s ∈ contractSameKeys p, s ∉ contractRateKeys p) (g : Grid) (prices : Prices) (fullT : Nat) :
    buildContract (p.rescale k) (g.scaleDt k) (rescaleTable k (contractRateKeys p) prices) fullT u'
      = buildContract p g prices fullT u :=
  unit_change_keys_contract hk hu p g prices _ (unit_table_exists k p prices hd) fullT

/-- a non-zero series used both as a rate and per volume has NO table in a different unit -/
theorem shared_key_has_no_table {k : Rat} (hk : 0 < k) (hk1 : k ≠ 1) (prices prices' : Prices) (key : String)
    (arr : List Rat) (harr : prices.lookup key = some arr) (hnz : ∃ v ∈ arr, v ≠ 0) :
    ¬ (RateSeries k prices prices' key ∧ SameSeries prices prices' key) :=
  fun h => no_table_for_shared_key hk hk1 prices prices' key arr harr hnz h.1 h.2

/-- in particular: a contract whose capacity series is its price series cannot be re-expressed by changing tables -/
theorem shared_key_contract {k : Rat} (hk : 0 < k) (hk1 : k ≠ 1) (p : ContractP) (prices prices' : Prices)
    (key : String) (hcap : p.maxCap = .key key ∨ p.minCap = .key key) (hprice : p.price = some key ∨ p.extraCosts = .key key)
    (arr : List Rat) (harr : prices.lookup key = some arr) (hnz : ∃ v ∈ arr, v ≠ 0) :
    ¬ UnitPrices k p prices prices' :=
  fun h => no_table_for_shared_key hk hk1 prices prices' key arr harr hnz (h.rate key hcap.symm) (h.same key hprice)

/-! ### transports -/

/-- **Transport**: capacities are numbers; `costs_time_series` is per volume and is the only series read -/
theorem unit_change_keys_transport {k : Rat} (hk : 0 < k) (p : TransportP) (g : Grid) (prices prices' : Prices)
    (hp : UnitPricesTransport p prices prices') (fullT : Nat) :
    buildTransport (p.rescale k) (g.scaleDt k) prices' fullT = buildTransport p g prices fullT :=
  transport_unit_change_keys hk p g prices prices' hp fullT

/-- **ExtendedTransport** -/
theorem unit_change_keys_ext_transport {k : Rat} (hk : 0 < k) {u u' : Nat} (hu : (u' : Rat) * k = (u : Rat))
    (p : TransportP) (g : Grid) (prices prices' : Prices) (hp : UnitPricesTransport p prices prices') (fullT : Nat) :
    buildExtTransport (p.rescale k) (g.scaleDt k) prices' fullT u' = buildExtTransport p g prices fullT u :=
  extTransport_unit_change_keys hk hu p g prices prices' hp fullT

/-! ### storage -/

/-- **Storage**: `cap_in`, `cap_out`, `inflow`, `cost_store` (rates per time, numbers) times `1/k`, `max_store_duration`
    times `k`; the `price` series is per volume and is the only series read -/
theorem unit_change_keys_storage {k : Rat} (hk : 0 < k) (p : StorageP) (g : Grid) (prices prices' : Prices)
    (hp : UnitPricesStorage p prices prices') (fullT : Nat) :
    buildStorage (p.rescale k) (g.scaleDt k) fullT prices' = buildStorage p g fullT prices :=
  storage_unit_change_keys hk p g fullT prices prices' hp

/-- … with the constructor guards -/
theorem unit_change_keys_mk_storage {k : Rat} (hk : 0 < k) (p : StorageP) (g : Grid) (prices prices' : Prices)
    (hp : UnitPricesStorage p prices prices') (fullT : Nat) :
    mkStorage (p.rescale k) (g.scaleDt k) fullT prices' = mkStorage p g fullT prices := by
  unfold mkStorage
  rw [EAO.C12.guards_rescale hk, unit_change_keys_storage hk p g prices prices' hp]

/-! ### CHP -/

/-- **CHPAsset / Plant** without ramp profiles, `running_costs` and `consumption_if_on` in any form -/
theorem unit_change_keys_chp {k : Rat} (hk : 0 < k) {u u' : Nat} (hu : (u' : Rat) * k = (u : Rat)) (p : CHPP)
    (hg : GuardStable k p) (base : AssetProblem) (g : Grid) (prices prices' : Prices)
    (hp : UnitPricesCHP k p prices prices') (s : Nat) :
    buildCHP (CHPP.rescale k p) base (g.scaleDt k) prices' u' s = buildCHP p base g prices u s :=
  buildCHP_rescale_keys hk hu p hg base g prices prices' hp s

theorem unit_change_keys_chp_costs_only {k : Rat} (hk : 0 < k) {u u' : Nat} (hu : (u' : Rat) * k = (u : Rat)) (p : CHPP)
    (hg : GuardStable k p) (base : AssetProblem) (g : Grid) (prices prices' : Prices)
    (hp : UnitPricesCHP k p prices prices') (s : Nat) :
    costsOnlyCHP (CHPP.rescale k p) base (g.scaleDt k) prices' u' s = costsOnlyCHP p base g prices u s :=
  costsOnlyCHP_rescale_keys hk hu p hg base g prices prices' hp s

/-- with start / shutdown ramp profiles -/
theorem unit_change_keys_chp_profiles {k : Rat} (hk : 0 < k) {u u' : Nat} (hu : (u' : Rat) * k = (u : Rat)) (p : CHPP)
    (hg : GuardStable k p) (q : CHPProfP) (hq : ProfConsistent q) (base : AssetProblem) (g : Grid)
    (prices prices' : Prices) (hp : UnitPricesCHP k p prices prices') (s : Nat) :
    buildCHPP (CHPP.rescale k p) (CHPProfP.rescale k q) base (g.scaleDt k) prices' u' s = buildCHPP p q base g prices u s :=
  buildCHPP_rescale_keys hk hu p hg q hq base g prices prices' hp s

theorem unit_change_keys_chp_any {k : Rat} (hk : 0 < k) {u u' : Nat} (hu : (u' : Rat) * k = (u : Rat)) (p : CHPP)
    (hg : GuardStable k p) (q : CHPProfP) (hq : ProfConsistent q) (base : AssetProblem) (g : Grid)
    (prices prices' : Prices) (hp : UnitPricesCHP k p prices prices') (s : Nat) :
    buildCHPAny (CHPP.rescale k p) (CHPProfP.rescale k q) base (g.scaleDt k) prices' u' s = buildCHPAny p q base g prices u s :=
  buildCHPAny_rescale_keys hk hu p hg q hq base g prices prices' hp s

/-- minimum-load costs: threshold and costs are per time, in any form -/
theorem unit_change_keys_min_load {k : Rat} (hk : k ≠ 0) (q : MinLoadP) (a : AssetProblem) (g : Grid)
    (prices prices' : Prices) (hp : UnitPricesMinLoad k q prices prices') :
    buildMinLoad (MinLoadP.rescale k q) a (g.scaleDt k) prices' = buildMinLoad q a g prices :=
  buildMinLoad_rescale_keys hk q a g prices prices' hp

theorem unit_change_keys_min_load_costs_only {k : Rat} (hk : k ≠ 0) (q : MinLoadP) (c : List Rat) (g : Grid)
    (prices prices' : Prices) (hp : UnitPricesMinLoad k q prices prices') :
    costsOnlyMinLoad (MinLoadP.rescale k q) c (g.scaleDt k) prices' = costsOnlyMinLoad q c g prices :=
  costsOnlyMinLoad_rescale_keys hk q c g prices prices' hp

/-- the whole chain Contract → CHP (with or without profiles) → minimum-load costs (`EAO.C12.chpChain`), every parameter in
    any form: one table `prices'` that serves the three layers -/
theorem unit_change_keys_chp_chain {k : Rat} (hk : 0 < k) {u u' : Nat} (hu : (u' : Rat) * k = (u : Rat))
    (cp : ContractP) (p : CHPP) (hg : GuardStable k p) (q : CHPProfP) (hq : ProfConsistent q) (ml : MinLoadP)
    (g : Grid) (prices prices' : Prices) (h1 : UnitPrices k cp prices prices') (h2 : UnitPricesCHP k p prices prices')
    (h3 : UnitPricesMinLoad k ml prices prices') (fullT s : Nat) :
    EAO.C12.chpChain (cp.rescale k) (CHPP.rescale k p) (CHPProfP.rescale k q) (MinLoadP.rescale k ml) (g.scaleDt k) prices'
        fullT u' s
      = EAO.C12.chpChain cp p q ml g prices fullT u s := by
  have hk0 := ne_zero_of_pos hk
  unfold EAO.C12.chpChain
  rw [contract_unit_change_keys hk hu cp g prices prices' h1 fullT]
  simp only [buildCHPAny_rescale_keys hk hu p hg q hq _ g prices prices' h2,
    buildMinLoad_rescale_keys hk0 ml _ g prices prices' h3]

end EAO.C12K

/-! ### non-vacuity and necessity of the hypotheses (kernel-evaluated) -/
namespace EAO.C12K.Ex
open EAO EAO.UnitKeys EAO.CHPUnit

/-- main time unit HOUR: a horizon of 4 steps (1 h, 1 h, 2 h, 4 h), the asset's window covers steps 1…3 -/
def g : Grid := { pts := [3600, 7200, 14400], idx := [1, 2, 3], dt := [1, 2, 4], Dt := [1, 3, 7], df := [1, 1/2, 1/4] }

/-- capacities as keys (per hour), price and extra costs as keys (per volume), a minimum take of 6 over the 8 h from 0:00 -/
def p : ContractP :=
  { name := "c", nodes := ["n"], price := some "pr", extraCosts := .key "ec", minCap := .key "lo", maxCap := .key "hi",
    minTake := [(0, 28800, 6)], maxTake := [] }

def prices : Prices := [("pr", [10, 20, 30, 40]), ("lo", [-48, -24, -24, 0]), ("hi", [24, 48, 72, 96]), ("ec", [1, 1, 2, 2]),
                        ("other", [5, 5, 5, 5])]

/-- hours → days: `k = 1/24`, rates per day = 24 × rates per hour -/
def prices' : Prices := rescaleTable (1 / 24) (contractRateKeys p) prices

example : prices' = [("pr", [10, 20, 30, 40]), ("lo", [-1152, -576, -576, 0]), ("hi", [576, 1152, 1728, 2304]),
    ("ec", [1, 1, 2, 2]), ("other", [5, 5, 5, 5])] := by decide +kernel

example : contractRateKeys p = ["lo", "hi"] ∧ contractSameKeys p = ["pr", "ec"] := by decide

theorem hd : ∀ s ∈ contractSameKeys p, s ∉ contractRateKeys p := by decide

example : UnitPrices (1 / 24) p prices prices' := EAO.C12K.unit_table_exists (1 / 24) p prices hd

/-- the contract in days, with the table of the day unit, is literally the contract in hours -/
example : buildContract (p.rescale (1 / 24)) (g.scaleDt (1 / 24)) prices' 4 86400 = buildContract p g prices 4 3600 :=
  EAO.C12K.unit_change_keys_contract_table (by decide +kernel) (by decide +kernel) p hd g prices 4

-- and it is a real problem: two variables per step, limits = series × dt, one take row with 6·(7 h / 8 h)
example : (match buildContract p g prices 4 3600 with
    | .ok P => P.l == [-24, -48, 0, 0, 0, 0] && P.u == [0, 0, 0, 48, 144, 384] && P.rows.map (·.rhs) == [21/4] &&
               P.c == [19, 14, 38/4, 21, 16, 42/4]
    | .error _ => false) = true := by decide +kernel
example : (match buildContract (p.rescale (1 / 24)) (g.scaleDt (1 / 24)) prices' 4 86400 with
    | .ok P => P.l == [-24, -48, 0, 0, 0, 0] && P.u == [0, 0, 0, 48, 144, 384] && P.rows.map (·.rhs) == [21/4]
    | .error _ => false) = true := by decide +kernel

/-- NECESSITY of `RateSeries`: with the OLD table (capacity series not multiplied by 24) the contract in days is a different
    problem — its limits are 24 times too small -/
theorem rate_series_needed :
    buildContract (p.rescale (1 / 24)) (g.scaleDt (1 / 24)) prices 4 86400 ≠ buildContract p g prices 4 3600 := by
  intro h
  have : (match buildContract (p.rescale (1 / 24)) (g.scaleDt (1 / 24)) prices 4 86400 with
      | .ok P => P.u == [0, 0, 0, 2, 6, 16] | .error _ => false) = true := by decide +kernel
  rw [h] at this
  revert this
  decide +kernel

/-- NECESSITY of `SameSeries`: a table in which the price series is divided by `k` as well gives other costs -/
theorem price_series_must_stay :
    buildContract (p.rescale (1 / 24)) (g.scaleDt (1 / 24)) (rescaleTable (1 / 24) ["lo", "hi", "pr"] prices) 4 86400
      ≠ buildContract p g prices 4 3600 := by
  intro h
  have : (match buildContract (p.rescale (1 / 24)) (g.scaleDt (1 / 24)) (rescaleTable (1 / 24) ["lo", "hi", "pr"] prices) 4 86400 with
      | .ok P => P.c.take 1 == [479] | .error _ => false) = true := by decide +kernel
  rw [h] at this
  revert this
  decide +kernel

/-- a series that is capacity AND price: no table (instance of `shared_key_contract`) -/
example : ¬ UnitPrices (1 / 24) { p with price := some "hi" } prices prices' :=
  EAO.C12K.shared_key_contract (by decide +kernel) (by decide +kernel) _ prices prices' "hi" (Or.inl rfl) (Or.inl rfl)
    [24, 48, 72, 96] (by decide +kernel) ⟨24, by simp, by decide +kernel⟩

/-! CHP: hours → minutes (`k = 60`) on the 15-minute grid of `EAO.C12.ExCHP`, running costs, consumption when on, minimum-load
    threshold and costs as keys (per hour), start costs and fuel efficiency as keys (unit-free) -/

def cpK : ContractP := { EAO.C12.ExCHP.cp with nodes := ["el", "gas"], minCap := .key "lo", maxCap := .key "hi" }
def pK : CHPP := { EAO.C12.ExCHP.p with nodes := ["el", "gas"], runningCosts := .key "rc", consumptionIfOn := .key "cio",
                                        startCosts := .key "sc", fuelEfficiency := .key "fe" }
def mlK : MinLoadP := { threshold := some (.key "thr"), costs := some (.key "mlc") }

def c8 (v : Rat) : List Rat := List.replicate 8 v
def pricesH : Prices := [("lo", c8 2), ("hi", c8 12), ("rc", [4, 4, 4, 4, 8, 8, 8, 8]), ("cio", c8 1), ("sc", c8 5), ("fe", c8 (1/2)),
                         ("thr", c8 6), ("mlc", c8 3)]
def pricesM : Prices := rescaleTable 60 ["lo", "hi", "rc", "cio", "thr", "mlc"] pricesH

example : pricesM.lookup "rc" = some [1/15, 1/15, 1/15, 1/15, 2/15, 2/15, 2/15, 2/15] ∧ pricesM.lookup "sc" = some (c8 5) := by
  decide +kernel

theorem h1 : UnitPrices 60 cpK pricesH pricesM := by
  constructor
  · intro key h
    have : key = "lo" ∨ key = "hi" := by
      rcases h with h | h
      · left; injection h with h; exact h.symm
      · right; injection h with h; exact h.symm
    rcases this with rfl | rfl <;> decide +kernel
  · intro key h
    rcases h with h | h <;> cases h

theorem h2 : UnitPricesCHP 60 pK pricesH pricesM := by
  constructor
  · intro key h
    have : key = "rc" ∨ key = "cio" := by
      rcases h with h | h
      · left; injection h with h; exact h.symm
      · right; injection h with h; exact h.symm
    rcases this with rfl | rfl <;> decide +kernel
  · intro key h
    have : key = "sc" ∨ key = "fe" := by
      rcases h with h | h | h | h | h
      · left; injection h with h; exact h.symm
      · cases h
      · cases h
      · cases h
      · right; injection h with h; exact h.symm
    rcases this with rfl | rfl <;> decide +kernel

theorem h3 : UnitPricesMinLoad 60 mlK pricesH pricesM := by
  intro key h
  have : key = "thr" ∨ key = "mlc" := by
    rcases h with h | h
    · left; injection h with h; injection h with h; exact h.symm
    · right; injection h with h; injection h with h; exact h.symm
  rcases this with rfl | rfl <;> decide +kernel

example : GuardStable 60 pK ∧ ProfConsistent EAO.C12.ExCHP.q := by decide +kernel

/-- the plant in minutes with the table of the minute unit is literally the plant in hours -/
example : EAO.C12.chpChain (cpK.rescale 60) (CHPP.rescale 60 pK) (CHPProfP.rescale 60 EAO.C12.ExCHP.q) (MinLoadP.rescale 60 mlK)
      (EAO.C12.ExCHP.g.scaleDt 60) pricesM 8 60 900
    = EAO.C12.chpChain cpK pK EAO.C12.ExCHP.q mlK EAO.C12.ExCHP.g pricesH 8 3600 900 :=
  EAO.C12K.unit_change_keys_chp_chain (by decide +kernel) (by decide +kernel) cpK pK (by decide +kernel) EAO.C12.ExCHP.q
    (by decide +kernel) mlK EAO.C12.ExCHP.g pricesH pricesM h1 h2 h3 8 900

-- a real problem: 8 power + 8 on + 8 start + 8 shutdown + 8 threshold variables, running costs 1, 1, 1, 1, 2, 2, 2, 2 per step
example : (match EAO.C12.chpChain cpK pK EAO.C12.ExCHP.q mlK EAO.C12.ExCHP.g pricesH 8 3600 900 with
    | .ok P => P.c.length == 40 && P.u.take 8 == c8 3 && (P.c.drop 8).take 8 == [1, 1, 1, 1, 2, 2, 2, 2] && P.c.drop 32 == c8 (3/4)
    | .error _ => false) = true := by decide +kernel

/-! storage and transport: a table that changes every series except the one read -/

def tp : TransportP :=
  { name := "t", nodes := ["a", "b"], costsConst := 1, costsKey := some "pr", minCap := 0, maxCap := 24, efficiency := 1/2,
    minTake := [], maxTake := [(0, 28800, 40)] }

theorem ht : UnitPricesTransport tp prices prices' := by
  intro key h
  injection h with h
  subst h
  decide +kernel

example : buildExtTransport (tp.rescale (1 / 24)) (g.scaleDt (1 / 24)) prices' 4 86400 = buildExtTransport tp g prices 4 3600 :=
  EAO.C12K.unit_change_keys_ext_transport (by decide +kernel) (by decide +kernel) tp g prices prices' ht 4
example : (match buildExtTransport tp g prices 4 3600 with
    | .ok P => P.u == [24, 48, 96] && P.c == [21, 31/2, 41/4] && P.rows.map (·.rhs) == [-35]
    | .error _ => false) = true := by decide +kernel

def sp : StorageP := { EAO.C12.ExStorage.p with price := some "pr" }

theorem hs : UnitPricesStorage sp prices prices' := by
  intro key h
  injection h with h
  subst h
  decide +kernel

example : buildStorage (sp.rescale 24) (g.scaleDt 24) 4 prices' = buildStorage sp g 4 prices :=
  EAO.C12K.unit_change_keys_storage (by decide +kernel) sp g prices prices' hs 4
example : (match buildStorage sp g 4 prices with
    | .ok P => P.n == 12 && P.l.take 3 == [-8, -16, -32]
    | .error _ => false) = true := by decide +kernel

end EAO.C12K.Ex
